"""Reusable helpers for the config-text model (C11; the parse half of C14 uses them too):
canonical view of a real Config, model calls, reference writer, line/rule generators."""
from __future__ import annotations

import contextlib
import logging
import os
from pathlib import Path

from . import lib

RULE_DIRECTIVES = {
    # name: (list attribute, decision, takes message, takes | anchor, tilde-expands)
    "allow": ("rules", "allow", False, True, True),
    "ask": ("rules", "ask", True, True, True),
    "deny": ("rules", "deny", True, True, True),
    "allow-redirect": ("redirect_rules", "allow", False, False, True),
    "ask-redirect": ("redirect_rules", "ask", True, False, True),
    "deny-redirect": ("redirect_rules", "deny", True, False, True),
    "after": ("after_rules", "after", True, False, False),
    "allow-mcp": ("mcp_rules", "allow", False, False, False),
    "ask-mcp": ("mcp_rules", "ask", True, False, False),
    "deny-mcp": ("mcp_rules", "deny", True, False, False),
    "after-mcp": ("after_mcp_rules", "after", True, False, False),
}
LISTS = ["rules", "redirect_rules", "after_rules", "mcp_rules", "after_mcp_rules"]
MCP_LISTS = ["mcp_rules", "after_mcp_rules"]
SHELL_LISTS = ["rules", "redirect_rules", "after_rules"]
ALL_DIRECTIVES = list(RULE_DIRECTIVES) + ["alias", "set"]


@contextlib.contextmanager
def home_env(home):
    """Run with HOME set (Path.home() reads the environment at call time); quiet root logger."""
    old = os.environ.get("HOME")
    os.environ["HOME"] = home
    logging.disable(logging.CRITICAL)
    try:
        try:
            h = str(Path.home())
        except RuntimeError:
            h = None  # e.g. HOME="~": Path.home() cannot determine the directory
        yield h
    finally:
        logging.disable(logging.NOTSET)
        if old is None:
            os.environ.pop("HOME", None)
        else:
            os.environ["HOME"] = old


def norm(x):
    """Python value -> the shape lib.dec gives back (bools as "1"/"0", None as [], tuples as lists)."""
    return lib.dec(lib.enc(x))


def rules_view(rs):
    return [[r.decision, r.pattern, lib.opt(r.message), bool(r.exact)] for r in rs]


def view(cfg):
    """Everything observable of a Config (source/scope tags are not set by parse_config)."""
    return norm(["ok"] + [rules_view(getattr(cfg, l)) for l in LISTS]
                + [[[k, v] for k, v in cfg.aliases.items()], cfg.default,
                   lib.opt(None if cfg.log is None else str(cfg.log)), bool(cfg.log_full)])


def expanduser_oracle(v):
    try:
        return ["ok", str(Path(v).expanduser())]
    except RuntimeError:
        return ["runtime"]
    except ValueError:
        return ["value"]


ORACLES = {"expanduser": expanduser_oracle}


def model_parse(model, home, text, record=False, legacy=False):
    return model.call(["cfg_legacy_parse" if legacy else "cfg_parse", lib.opt(home), text], ORACLES, record=record)


def impl_parse(parse_config, text):
    """(view, None) or (None, exception)."""
    try:
        return view(parse_config(text)), None
    except BaseException as e:  # noqa: BLE001 - the property is that nothing escapes
        if isinstance(e, (KeyboardInterrupt, SystemExit)):
            raise
        return None, e


# ---------------------------------------------------------------- reference writer
def escape(m: str) -> str:
    return m.replace("\\", "\\\\").replace('"', '\\"')


def write_rule(directive, pattern, exact=False, message=None) -> str:
    return directive + " " + pattern + (" |" if exact else "") + ("" if message is None else ' "' + escape(message) + '"')


def is_home_kind(tok: str) -> bool:
    return "://" not in tok and (tok == "~" or tok.startswith("~/"))


def wellformed(directive, pattern, exact, message) -> bool:
    """Explicit sufficient form of ConfigText.wf_rule (checked against the Coq predicate by the harness):
    no outer white space, non-empty; tilde directives: words separated by single blanks, no ~ or ~/x word;
    | and message only where the directive has them; without | an anchor directive's pattern does not end
    in |; without a message a message directive's pattern does not end in a double quote."""
    _, _, msg, anchor, tilde = RULE_DIRECTIVES[directive]
    if not pattern or pattern != pattern.strip():
        return False
    if tilde and (pattern != " ".join(pattern.split()) or any(is_home_kind(t) for t in pattern.split())):
        return False
    if exact and not anchor:
        return False
    if message is not None and not msg:
        return False
    if anchor and not exact and pattern.endswith("|"):
        return False
    if message is None and msg and not exact and pattern.endswith('"'):
        return False
    return True


# ---------------------------------------------------------------- alphabets
SEPARATORS = ["\r", "\x0b", "\x0c", "\x1c", "\x1d", "\x1e", "\x85", "\u2028", "\u2029"]  # str.splitlines, minus \n
SPACES = [" ", "\t", "\xa0", "\u2003", "\u3000", "\x1f"]
ODD = ["\x00", "\ud800", "\udc80", "\u202e", "\u0301", "\u200d", "\U0001f424", "\u212a", "\u0130", "\u03a3", "\x7f"]
MSG_ALPHABET = list('ab "\\|~/#*') + ['"', "\\", " "] + SEPARATORS + SPACES + ODD


def rand_message(rng, maxlen=8):
    return "".join(rng.choice(MSG_ALPHABET) for _ in range(rng.randint(0, maxlen)))


WORDS = ["git", "status", "rm", "-rf", "*", "x|", "|", "a\"", '"q"', "~user/x", "https://h/~", "$HOME/~", "a~",
         "/etc/*", "./x", "mcp__gh__*", "\\", "\\\\", "é\u0301", "\u202eabc", "\x00", "\ud800", "K\u212a", "'", "#x", "a#"]


def rand_pattern(rng, tilde, maxwords=3):
    ws = [rng.choice(WORDS) for _ in range(rng.randint(1, maxwords))]
    sep = " " if tilde else rng.choice([" ", "  ", "\t", " \u3000"])
    return sep.join(ws)


# ---------------------------------------------------------------- rule families (helpers for C14)
def line_family(parse_config, line):
    """Which family a single config line feeds, measured on the implementation: 'mcp' (mcp_rules, after_mcp_rules),
    'shell' (rules, redirect_rules, after_rules, aliases), 'setting', or None (blank, comment, rejected)."""
    v, e = impl_parse(parse_config, line)
    if e is not None:
        return None
    if v[4] or v[5]:
        return "mcp"
    if v[1] or v[2] or v[3] or v[6]:
        return "shell"
    if v[7] != "ask" or v[8] or v[9] == "1":
        return "setting"
    return None


def family_view(v, fam):
    """The part of a canonical view that belongs to one family (ConfigText.mcp_view / shell_view)."""
    return [v[4], v[5]] if fam == "mcp" else [v[1], v[2], v[3], v[6]]


def model_family_view(model, home, text, fam):
    return family_view(model_parse(model, home, text), fam)
