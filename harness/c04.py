"""C04 - wrappers and launchers never launder a command (and the handler half of C13).

Implementation-level oracles (model-free, on the real code):
  * ground truth: every generated wrapper invocation is RUN under real bash in a scratch directory whose PATH
    starts with stub executables that log their argv (docker: the real docker client against a recording fake
    daemon).  analyze(text) must be at least as restrictive as _analyze_simple_command(argv) of every argv that
    really ran (allow < ask < deny).
  * exact-plain: analyze(form(c)) == analyze(c) for the plain forms of time/timeout/nice/nohup/command.
  * quoting: bash -c "printf '%s\\0' <bash_join ts>" prints exactly ts.
  * tools without a binary here (kubectl, fd; podman as docker): the same check against the argv lists of the
    Coq specification (WrapSpec.v, from the manuals) - reported as kind 'spec-...'.
Correspondence: Wrappers.v models == the handlers' classify() (action, inner_command, remote); BashQuote.v ==
bash_quote/bash_join; WrapSpec.v == the real tools' exec logs; a sample re-evaluated in Coq by vm_compute."""
from __future__ import annotations

import queue
import random
import re
from concurrent.futures import ThreadPoolExecutor
from pathlib import Path

from . import c04_gen as g
from . import c04_ladder, core, lib
from .c04_truth import STUBS, FakeDocker, Scratch

TRUSTED = [
    "Coq 8.16.1 kernel and its VM (vm_compute: 'no ASCII character that bash_quote leaves bare is special to bash' is proved by evaluation over the 128 codes)",
    "axioms: none (every theorem of Props/C04.v prints 'Closed under the global context')",
    "tools/gen_tables.py + tools/tables/t04_wrappers.py (Python-ast translator of the handlers' flag tables, PY_ALNUM from this interpreter)",
    "SPEC Model/BashQuote.v bash_words: bash's word splitting/quote removal on literal characters, '..' and \"..\"; every code point >= 128 is an ordinary word character (validated: real bash 5.2 printf round trip over every str.isalnum code point in the thorough tier, a sample in quick)",
    "SPEC Model/Getopt.v (GNU getopt_long, + mode) and Model/WrapSpec.v (env, timeout, nice, nohup, xargs, find, bash/dash invocation, command/builtin, docker exec: validated against the real binaries on every run; kubectl exec, fd, podman: from the manuals, NOT validated - binaries absent)",
    "oracle hypothesis of the no-launder theorems, stated in them: analysing the text bash_join ws yields the ladder's verdict on the re-read words (map reread ws); ';'-joined texts are judged as the most restrictive clause",
    "extraction: ExtrOcamlBasic only; OCaml 4.13.1; ocaml/driver.ml; cross-checked in Coq by vm_compute on a sample",
    "modelled, not verified: the vendored parser; the decision ladder itself is Model/Ladder.v (another package) and an oracle here",
    "round-2 launcher forms (harness/laddergen.py launchers/option_forms): 'the launcher's own option parsing ends at the inner command's name' (POSIX option order of env, xargs, timeout, nice, nohup, strace; docker exec stops at the container; kubectl after --; find -exec up to ;) - the same grammar the validated WrapSpec.v specs state; a sample of these forms is in the real-bash stream above",
    "ground-truth harness: stub executables + real bash 5.2.15, coreutils 9.1, findutils 4.9.0, dash, strace, docker client 29.x with a recording fake daemon (harness/c04_truth.py)",
]

RANK = {"allow": 0, "ask": 1, "deny": 2}
NWORK = 10


_ASSIGN_SHAPED = re.compile(r"[A-Za-z_][A-Za-z0-9_]*(\[[^\]]*\])?\+?=")


def _norm_log(case, log):
    """Undo what the tool itself substitutes, so that a log can be compared with the spec."""
    out = []
    for argv in log:
        a = list(argv)
        if case.wrapper == "xargs":
            repl = None
            ws = case.words
            for i, w in enumerate(ws):
                if w == "--":
                    break
                if w in ("-I",) and i + 1 < len(ws):
                    repl = ws[i + 1]
                elif w.startswith("-I") and len(w) > 2:
                    repl = w[2:]
                elif w in ("-i", "--replace"):
                    repl = "{}"
                elif w.startswith("-i") and len(w) > 2 and not w.startswith("-ig"):
                    repl = w[2:]
                elif w.startswith("--replace="):
                    repl = w[len("--replace="):]
                elif len(w) > 2 and w[0] == "-" and w[1] != "-" and w.endswith("I") and i + 1 < len(ws):
                    repl = ws[i + 1]
            if repl is None:
                if a and a[-1].rstrip("\n") == "ITEM":
                    a = a[:-1]
            else:
                a = [x.replace("ITEM", repl) for x in a]
        if case.wrapper == "find":
            a = ["{}" if x in (".", "./.") else x for x in a]
        out.append(a)
    return out


def run(tier, seed, replay=None):
    lib.use_repo()
    from dippy.cli import HandlerContext, get_handler
    from dippy.core import analyzer as an
    from dippy.core import bash as rb
    from dippy.core.config import parse_config

    rng = random.Random(seed)
    cfg = parse_config(g.CONFIG_TEXT)
    out = core.Outcome("C04")
    # the ladder streams (harness/c04_ladder.py) run in forked worker processes next to the ground-truth runs
    workers = c04_ladder.start(tier) if replay is None else None
    scratches = [Scratch() for _ in range(NWORK)]
    fake = FakeDocker()
    model = lib.Model()
    xcheck = []
    cwd = Path(scratches[0].work)

    def analyze(text):
        return an.analyze(text, cfg, cwd).action

    def ladder(argv, remote=False):
        return an._analyze_simple_command(list(argv), cfg, cwd, remote=remote).action

    def mcall(req, rec=False):
        res = model.call(req, {"astr": lambda r, s: an.analyze(s, cfg, cwd, remote=(r == "1")).action}, record=True)
        if rec and len(xcheck) < 60 and len(model.last_request) < 1500:
            xcheck.append((model.last_request, list(model.transcript or []), res))
        return res

    def violation(kind, site, text, **kw):
        out.violations.append({"kind": kind, "what": kw.pop("what"), "site": site, "text": text,
                               "config": g.CONFIG_TEXT, "signature_text": f"{kind} | {site} :: {text}", **kw})

    try:
        # ------------------------------------------------------------------ A. quoting
        if replay is None or replay.get("kind") == "quote-unfaithful":
            strings = g.quoting_strings(rng, 1500 if tier == "quick" else 40000)
            if replay:
                strings = replay["tokens"]
            for i, s in enumerate(strings):
                real = rb.bash_quote(s)
                m = mcall(["bash_quote", s], rec=(i % 97 == 0))
                if m != real:
                    out.disagreements.append({"correspondence": "BashQuote.bash_quote <-> core/bash.py bash_quote", "input": s, "model": m, "impl": real})
                bw = mcall(["bash_words", real], rec=(i % 101 == 0))
                if bw != [[s]]:
                    out.disagreements.append({"correspondence": "spec bash_words (bash_quote s) = [s]", "input": s, "model": bw})
                out.case(["q", s], nontrivial=(real != s))
                out.count("quote", "bare" if real == s else ("escaped-quote" if "'" in s else "single-quoted"))
            # token lists, ground truth
            lists = []
            enc_ok = [s for s in strings if _encodable(s)]
            for k in range(0, len(enc_ok), 150):
                lists.append(enc_ok[k:k + 150])
            for _ in range(200 if tier == "quick" else 3000):
                lists.append([rng.choice(enc_ok) for _ in range(rng.randint(1, 6))])
            # every code point Python calls alphanumeric stays bare: does bash keep it in one word?
            alnum = [c for c in range(128, 0x110000) if chr(c).isalnum() and not 0xD800 <= c <= 0xDFFF]
            if tier == "quick":
                alnum = alnum[::41] + [c for c in alnum if not chr(c - 1).isalnum() or not chr(c + 1).isalnum()][:1500]
            toks = ["a" + chr(c) + "b" for c in alnum]
            for k in range(0, len(toks), 2500):
                lists.append(toks[k:k + 2500])
            out.count("quote", "alnum-codepoints-tested-in-bash")
            out.dist["quote"]["alnum-codepoints-tested-in-bash"] = len(alnum)
            for j, ts in enumerate(lists):
                joined = rb.bash_join(ts)
                if j % 9 == 0 and len(ts) < 8:
                    mj = mcall(["bash_join", ts], rec=True)
                    if mj != joined:
                        out.disagreements.append({"correspondence": "BashQuote.bash_join <-> core/bash.py bash_join", "input": ts, "model": mj, "impl": joined})
                    mw = mcall(["bash_words", joined])
                    if mw != [ts]:
                        out.disagreements.append({"correspondence": "spec bash_words (bash_join ts) = ts", "input": ts, "model": mw})
                got, err = scratches[0].printf_words(joined)
                out.case(["j", ts], nontrivial=True)
                if got != ts:
                    bad = next((t for t in ts if scratches[0].printf_words(rb.bash_quote(t))[0] != [t]), None)
                    violation("quote-unfaithful", "bash_join", joined[:300], what="real bash does not read bash_join(ts) back as ts",
                              tokens=[bad] if bad is not None else ts[:20], bash_read=(got or [])[:20], error=err)
            out.extra["quoting_ground_truth"] = {"token_lists_run_through_real_bash": len(lists),
                                                 "tokens": sum(len(x) for x in lists)}

        # ------------------------------------------------------------------ cases
        cases = []
        if replay is None:
            cases += g.odd_cases(tier) + g.inner_flag_cases(tier) + g.getopt_cases(tier) + g.env_split_cases(tier) + g.find_cases(tier) + g.shell_cases(tier)
            cases += g.docker_cases(tier, "docker") + g.docker_cases("quick", "podman")[:400] + g.kubectl_cases(tier) + g.fd_cases(tier)
            cases += g.other_launcher_cases(tier)
        elif replay.get("case"):
            c = replay["case"]
            cases = [g.Case(c["text"], c["words"], c["wrapper"], c["site"], c["inner"], c["truth"], c["stdin"].encode("latin1"),
                            c["validate"], c["plain_inner"], c.get("expect"), c.get("tags", {}))]

        # ground-truth runs in parallel (one scratch per worker)
        pool = queue.Queue()
        for k in range(NWORK):
            pool.put(k)

        def truth(args):
            idx, case = args
            if case.truth != "bash":
                return 0, None
            k = pool.get()
            try:
                scr = scratches[k]
                return k, scr.run(case.text.replace(g.BIN, scr.bin), case.stdin)
            finally:
                pool.put(k)

        with ThreadPoolExecutor(NWORK) as ex:
            logs = list(ex.map(truth, list(enumerate(cases))))

        spec_stats = {"validated": 0, "noclaim": 0}
        for idx, case in enumerate(cases):
            scr = scratches[logs[idx][0]]
            text = case.text.replace(g.BIN, scr.bin)
            words = [w.replace(g.BIN, scr.bin) for w in case.words]
            remote = False
            execd = None
            try:
                v = analyze(text)
            except RecursionError:
                out.count("skipped", "recursion")
                continue
            is_shell = case.wrapper in ("sh", "bash", "dash")
            spec = None
            if not is_shell and case.truth != "expect":
                sp = mcall(["wexec", words], rec=(idx % 53 == 0))
                spec = sp[0] if sp else None
            if case.truth == "bash":
                log, rc, err = logs[idx][1]
                if log is None:
                    out.count("skipped", "tool-timeout")
                    continue
                if case.wrapper == "timeout" and not log and rc in (124, 137):
                    # on an overloaded machine the stub is not even started within `timeout 0.5`: timeout(1) reports 124
                    out.count("skipped", "timeout-expired-before-exec")
                    continue
                execd = log
                if case.validate:
                    if is_shell:
                        se = mcall(["shell_exec", words], rec=(idx % 31 == 0))
                        if se:
                            exp = None
                            if se[0] == "string":
                                exp = case.expect if se[1] == case.inner else None
                            elif se[0] == "file":
                                exp = [["rm", "viascript"]] if se[1] == "script.sh" else None
                            elif se[0] in ("stdin", "nothing"):
                                exp = []
                            if exp is not None:
                                spec_stats["validated"] += 1
                                if sorted(log) != sorted(exp):
                                    out.disagreements.append({"correspondence": f"SPEC WrapSpec.shell_exec <-> real {case.wrapper}", "text": text,
                                                              "spec": se, "expected_log": exp, "real_log": log, "stderr": err})
                        else:
                            spec_stats["noclaim"] += 1
                    elif spec is not None and any(a and a[0] not in STUBS for a in spec):
                        out.count("spec", "claims-exec-of-a-name-without-stub")
                    elif spec is not None:
                        spec_stats["validated"] += 1
                        if sorted(_norm_log(case, log)) != sorted(spec):
                            out.disagreements.append({"correspondence": f"SPEC WrapSpec.{case.wrapper}_exec <-> real {case.wrapper}", "text": text,
                                                      "spec": spec, "real_log": log, "stderr": err})
                    else:
                        spec_stats["noclaim"] += 1
                        if log and case.wrapper not in ("strace",):
                            out.count("spec", f"no-claim-but-ran:{case.wrapper}")
            elif case.truth == "docker":
                rec = fake.run(text)
                if rec is None:
                    case.truth = "spec"
                else:
                    remote = True
                    execd = [cmd for _, cmd in rec if cmd]
                    if spec is not None:
                        spec_stats["validated"] += 1
                        if spec != execd:
                            out.disagreements.append({"correspondence": "SPEC WrapSpec.docker_exec <-> real docker client", "text": text,
                                                      "spec": spec, "real": rec})
                    # C13 handler half: what the handler delegates is what docker sends, and it is marked remote
                    h = get_handler(words[0]).classify(HandlerContext(list(words), cwd=cwd))
                    if execd and h.action == "delegate":
                        if not h.remote:
                            violation("c13-not-remote", case.site, text, what="docker exec delegated without remote=True")
                        if h.inner_command != rb.bash_join(execd[0]):
                            out.count("c13", "extracted-inner-differs-from-real-Cmd")
            if case.truth == "spec":
                remote = case.wrapper in ("kubectl", "k", "podman", "docker")
                if spec is None:
                    out.count("spec", f"no-claim:{case.wrapper}")
                    execd = None
                else:
                    execd = spec
            if case.truth == "expect":
                execd = case.expect
            out.case(text, nontrivial=True)
            out.count("wrapper", case.wrapper)
            out.count("verdict", v)
            out.count("truth", case.truth)
            if idx % 211 == 0:
                out.sample({"text": text, "verdict": v, "really_executed": execd, "site": case.site})
            if execd is not None:
                worst, worst_argv = "allow", None
                for argv in execd:
                    if not argv:
                        continue
                    va = ladder(argv, remote=remote)
                    if _ASSIGN_SHAPED.match(argv[0]) and RANK[va] < RANK["ask"]:
                        # the program really executed is CALLED NAME=value; the ladder, given bare words, would skip the
                        # word as an assignment - it is an unknown program, asked about at least
                        va = "ask"
                    if RANK[va] > RANK[worst]:
                        worst, worst_argv = va, argv
                if RANK[v] < RANK[worst]:
                    kind = ("allow-launder" if v == "allow" else "deny-downgrade")
                    if case.truth in ("spec",):
                        kind = "spec-" + kind
                    if case.truth == "expect":
                        kind = "expect-" + kind
                    violation(kind, case.site, text,
                              what=f"analyze(wrapper command)={v} but the command that really runs, {worst_argv}, is judged {worst}",
                              really_executed=execd, truth=case.truth,
                              case={"text": case.text, "words": case.words, "wrapper": case.wrapper, "site": case.site, "inner": case.inner,
                                    "truth": case.truth, "stdin": case.stdin.decode("latin1"), "validate": case.validate,
                                    "plain_inner": case.plain_inner, "expect": case.expect, "tags": case.tags})

            # correspondence: handler model vs real classify on the wrapper's own words
            _correspond(out, mcall, get_handler, HandlerContext, words, cwd, ladder, rec=(idx % 29 == 0))
        out.extra["spec_validation"] = spec_stats

        if replay is None:
            # ------------------------------------------------------------------ handler correspondence on token soups
            tables = []
            vocab = g.soup_vocab(tables)
            heads = [["sh"], ["bash"], ["zsh"], ["env"], ["xargs"], ["find", "."], ["fd"], ["docker", "exec"], ["docker"], ["podman", "exec"],
                     ["kubectl", "exec"], ["kubectl"], ["k", "exec"], ["arch"], ["caffeinate"], ["script"], ["uv", "run"], ["uv"], ["docker-compose"], ["tar", "-xf", "a.tar"], ["tar"]]
            for i, toks in enumerate(g.soups(rng, 2500 if tier == "quick" else 60000, heads, vocab)):
                _correspond(out, mcall, get_handler, HandlerContext, toks, cwd, ladder, rec=(i % 400 == 0))
                out.case(["soup", toks], nontrivial=len(toks) > 2)
                out.count("soup", toks[0])

        # ------------------------------------------------------------------ exact-plain and env-prefix oracles
        if replay is None or (replay.get("kind") in ("exact-plain", "env-prefix") and "ladder_pair" not in replay):
            forms = [("time c", "time {}"), ("timeout N c", "timeout 5 {}"), ("timeout N.N c", "timeout 0.5 {}"), ("nice c", "nice {}"),
                     ("nice -n N c", "nice -n 5 {}"), ("nohup c", "nohup {}"), ("command c", "command {}"), ("command -- c", "command -- {}"),
                     ("nohup nice c", "nohup nice {}"), ("timeout N nohup command c", "timeout 5 nohup command {}")]
            pre = [("A=1 c", "A=1 {}"), ("A=1 B=2 c", "A=1 B=2 {}"), ("A= c", "A= {}"), ("A='x y' c", "A='x y' {}")]
            inners = [a for a, _ in g.ATOMS] + [a for a, _ in g.NESTED] + ["ls | rm x", "git log --oneline"]
            if replay:
                forms = [(replay["site"], replay["form"])] if replay["kind"] == "exact-plain" else []
                pre = [(replay["site"], replay["form"])] if replay["kind"] == "env-prefix" else []
                inners = [replay["inner"]]
            for kind, fl in (("exact-plain", forms), ("env-prefix", pre)):
                for label, f in fl:
                    for c in inners:
                        if "|" in c and kind == "exact-plain":
                            continue
                        whole = f.format(c)
                        a, b = analyze(whole), analyze(c)
                        out.case([kind, whole], nontrivial=True)
                        out.count(kind, f"{label}:{a}")
                        if a != b:
                            violation(kind, label, whole, what=f"analyze({whole!r})={a} but analyze({c!r})={b}", form=f, inner=c)

        # ------------------------------------------------------------------ the decision ladder: exhaustive token lists, metamorphic pairs
        if replay is not None and replay.get("ladder_pair"):
            c04_ladder.Streams(out, tier, an, cfg, cwd, model, xcheck, violation).replay(replay["ladder_pair"])
        if workers is not None:
            c04_ladder.merge(out, xcheck, workers)
            workers = None
    finally:
        if workers is not None:
            workers[0].shutdown(cancel_futures=True)
        model.close()
        for s in scratches:
            s.close()
        fake.close()

    n, mism = core.coq_crosscheck("C04", xcheck)
    out.extra["coq_vm_crosscheck"] = {"cases": n, "mismatches": len(mism)}
    if mism:
        out.disagreements.append({"correspondence": "extracted OCaml model <-> vm_compute in Coq", "detail": mism[:5]})
    out.extra["rule"] = (
        "systematic: every wrapper (timeout nice nohup command builtin env xargs strace find sh bash dash docker podman kubectl fd uv arch "
        "caffeinate script tar fzf) x every option of its real option table in separate / attached / =-joined / abbreviated / clustered spellings "
        "x `--` present or not x inner in {ls, echo hi, git status, rm x, git push, frobnicate a, zap (deny rule), okcmd (allow rule), nested "
        "wrappers} x trailing -h/--help/--version/help; every such command is run under real bash with stub executables (docker: real client, "
        "fake daemon) and the verdict compared with the ladder's verdict on each argv that really ran. quoting: all 33 ASCII metacharacters, "
        "their pairs, quotes, random ASCII/Unicode strings, and the code points str.isalnum accepts, round-tripped through real bash printf. "
        "random: token soups for the handler-model correspondence. "
        "ROUND 2 (harness/c04_ladder.py, generators harness/laddergen.py, run in forked worker processes): (L) Ladder.ladder == "
        "_analyze_simple_command on EXHAUSTIVE token lists: [wrapper] + alphabet^k for every ladder wrapper, alphabets drawn from the wrapper "
        "tables of the tree united with a snapshot (every flag with argument, cluster / attached / =-joined / abbreviated / long-ending-in-a-short-letter "
        "spellings, --, -, -v, -V, -p, near misses, assignments and non-assignments, operands, commands of every verdict class, help tokens, "
        "nested wrappers): core^<=3, tiny^4, every full-alphabet token at every position of a short list, every list behind outer contexts "
        "(assignment, wrapper, env); non-wrapper heads x help-token tails with the 4-word boundary; Ladder.is_help == _is_version_or_help on all "
        "lists <= 5 over its literals + near misses; Wrappers.v classify == handler.classify() on exhaustive lists over each handler's own alphabet. "
        "(M) model-free: verdict(<form> CMD ARGS) == verdict(CMD ARGS) for the plain forms (words and shell text, also two forms nested), >= for "
        "every valid option spelling of every wrapper, 24 two-level nestings and every launcher form (env xargs sh find fd docker podman kubectl uv "
        "arch caffeinate script), where ARGS puts every token the wrapper itself understands as 1st / 2nd / 3rd argument of the inner command, and "
        "inner commands followed by help/version-looking tokens. "
        "distinct = distinct command texts / token lists; non-trivial = a wrapper with an inner command, or a string that needs quoting")
    return out


def _encodable(s):
    try:
        s.encode("utf-8")
        return True
    except UnicodeEncodeError:
        return False


def _correspond(out, mcall, get_handler, HandlerContext, toks, cwd, ladder, rec=False):
    """Wrappers.v model of the handler == the handler's classify() on the same words."""
    if not toks:
        return
    h = get_handler(toks[0])
    if h is None:
        return
    m = mcall(["classify", list(toks)], rec=rec)
    if not m:
        out.count("correspondence", "path-not-modelled")
        return
    (hres, cls) = m[0]
    r = h.classify(HandlerContext(list(toks), cwd=cwd))
    impl = [r.action] + ([r.inner_command or "", "1" if r.remote else "0"] if r.action == "delegate" else [])
    out.count("correspondence", f"{toks[0]}:{cls[0]}")
    if cls != impl:
        out.disagreements.append({"correspondence": f"Wrappers.v handler model <-> cli handler classify() for {toks[0]}",
                                  "tokens": list(toks), "model": cls, "impl": impl})
    elif cls[0] == "delegate" and cls[1]:
        # the ladder hands a delegating result to analyze(inner, remote=result.remote)
        hv = mcall(["hverdict", list(toks)])
        lv = ladder(toks)
        if hv and hv[0] != lv and toks[0] not in ("zap", "okcmd"):
            out.disagreements.append({"correspondence": "Wrappers.hverdict (analyze(inner_command, remote)) <-> _analyze_simple_command",
                                      "tokens": list(toks), "model": hv[0], "impl": lv})
