"""Oracles of the Walker model answered by the real code, and the analyze-vs-walk runner."""
from __future__ import annotations

from pathlib import Path

from . import lib


def make_oracles(cfg):
    lib.use_repo()
    from dippy.core import analyzer as an
    from dippy.core.allowlists import SIMPLE_SAFE
    from dippy.cli import get_handler, HandlerContext

    def b(x):
        return x == "1"

    def simple(cwd, remote, words):
        return an._analyze_simple_command(list(words), cfg, Path(cwd), remote=b(remote)).action

    def astr(cwd, remote, s):
        return an.analyze(s, cfg, Path(cwd), remote=b(remote)).action

    def mredir(cwd, tgt):
        m = an.match_redirect(tgt, cfg, Path(cwd))
        return lib.opt(m.decision if m else None)

    def cdres(cwd, tgt):
        return str(an._resolve_cd_target(tgt, Path(cwd)))

    def injrisk(cwd, remote, tokens):
        base = tokens[0] if tokens else ""
        h = get_handler(base)
        if h is None or base in SIMPLE_SAFE:
            return False
        return h.classify(HandlerContext(list(tokens), cwd=Path(cwd))).action != "allow"

    def rulematch(cwd, remote, tokens):
        from dippy.core.config import SimpleCommand, match_command

        return match_command(SimpleCommand(words=list(tokens)), cfg, Path(cwd), remote=b(remote)) is not None

    return {"simple": simple, "astr": astr, "mredir": mredir, "cdres": cdres, "injrisk": injrisk,
            "rulematch": rulematch}


def model_analyze(model, cfg, command: str, cwd: str, remote=False, note=None, record=False):
    """analyze() in the model (entry analyze_text: the prelude on the text, then the walk); the vendored parser is an
    oracle: it answers None when it rejects the text or fails on it."""
    lib.use_repo()
    from dippy.vendor.parable import parse, ParseError

    def o_parse(text):
        try:
            nodes = parse(text)
        except ParseError:
            return None
        except (ValueError, IndexError, RecursionError):
            return None
        return [[lib.tree(n, note) for n in nodes]]

    orc = make_oracles(cfg)
    orc["parse"] = o_parse
    return model.call(["analyze_text", cwd, remote, command], orc, record=record)


def make_ladder_oracles(cfg):
    """Oracles of the Ladder model (rule lookup, handlers) answered by the real code."""
    lib.use_repo()
    from dippy.core import analyzer as an
    from dippy.core.config import SimpleCommand, match_command
    from dippy.cli import get_handler, HandlerContext

    base = make_oracles(cfg)

    def b(x):
        return x == "1"

    def mcmd(cwd, remote, tokens):
        m = match_command(SimpleCommand(words=list(tokens)), cfg, Path(cwd), remote=b(remote))
        return lib.opt(m.decision if m else None)

    def handler(cwd, remote, tokens):
        h = get_handler(tokens[0]) if tokens else None
        if h is None:
            return None
        r = h.classify(HandlerContext(list(tokens), cwd=Path(cwd)))
        return [[r.action, r.inner_command or "", list(r.redirect_targets or ()), bool(r.remote),
                 bool(getattr(h, "HANDLES_HELP", False))]]

    base.update({"mcmd": mcmd, "handler": handler})
    return base
