"""Every position bash evaluates: templates with one hole {X} for a command, used by C01/C02/C08.

`POSITIONS` are (name, template).  The hole receives a *command text* (an atom or a
composition).  Templates use only builtins and the stub commands of harness/jail.py as their own
commands, so that a run under real bash logs exactly the external programs executed.
"""
from __future__ import annotations

import itertools
import random

from . import bashgen as bg

STUBS = ["ls", "cat", "whoami", "date", "git", "okcmd", "rm", "frobnicate", "chmod", "zap", "uname", "head", "askcmd"]

ALLOW = ["ls", "cat f", "whoami", "date", "git status", "okcmd a"]
ASK = ["rm x", "frobnicate a", "git push", "chmod 777 f"]
DENY = ["zap", "zap a b"]


def config_text(jail_cwd: str) -> str:
    return (f'deny zap "NOZAP"\nallow okcmd\nask askcmd "ASKMSG"\n'
            f"allow-redirect {jail_cwd}/out/*\nallow-redirect {jail_cwd}/sub/out/*\ndeny-redirect {jail_cwd}/secret/* \"NOSECRET\"\n"
            f"allow-redirect {jail_cwd}/only/*\nallow-redirect {jail_cwd}/sub/deep/*\nallow-redirect ~/*\n"
            f"ask-redirect {jail_cwd}/askme/*\n")


def atoms():
    return ([bg.Atom(t, "allow") for t in ALLOW] + [bg.Atom(t, "ask") for t in ASK] + [bg.Atom(t, "deny") for t in DENY])


# positions where bash EXECUTES {X}
EXEC_POSITIONS = [
    ("plain", "{X}"),
    ("list;", "ls; {X}"), ("list&&", "ls && {X}"), ("list||", "false || {X}"), ("list&", "{X} & ls"), ("list-nl", "ls\n{X}"),
    ("pipe-first", "{X} | cat"), ("pipe-last", "ls | {X}"), ("pipe-both", "{X} |& cat"),
    ("subshell", "( {X} )"), ("brace", "{ {X}; }"), ("negation", "! {X}"), ("time", "time {X}"), ("time-p", "time -p {X}"),
    ("coproc", "coproc {X}"), ("coproc-named", "coproc NM { {X}; }"),
    ("if-cond", "if {X}; then ls; fi"), ("if-then", "if ls; then {X}; fi"), ("if-else", "if false; then ls; else {X}; fi"),
    ("elif-cond", "if false; then ls; elif {X}; then ls; fi"), ("elif-body", "if false; then ls; elif true; then {X}; fi"),
    ("while-cond", "while {X}; do ls; done"), ("while-body", "while ls; do {X}; done"),
    ("until-cond", "until {X}; do ls; done"), ("until-body", "until ls; do {X}; done"),
    ("for-body", "for v in a; do {X}; done"), ("for-words", "for v in $({X}); do ls; done"),
    ("for-noin", "set -- a; for v; do {X}; done"), ("for-words-bt", "for v in `{X}`; do ls; done"),
    ("select-words", "select v in $({X}); do ls; done <<< 1"), ("select-body", "select v in a; do {X}; done <<< 1"),
    ("forarith-body", "for ((i=0;i<1;i++)); do {X}; done"),
    ("forarith-init", "for ((i=$({X});i<1;i++)); do ls; done"), ("forarith-cond", "for ((i=0;i<$({X})1;i++)); do ls; done"),
    ("forarith-incr", "for ((i=0;i<1;i+=1$({X}))); do ls; done"),
    ("case-word", "case $({X}) in a) ls;; esac"), ("case-arm", "case a in a) {X};; esac"),
    ("case-arm-ft", "case a in a) ls;& b) {X};; esac"), ("case-arm-cont", "case a in a) ls;;& *) {X};; esac"),
    ("case-pattern", "case a in $({X})) ls;; esac"), ("case-pattern-alt", "case a in b|$({X})) ls;; esac"),
    ("case-pattern-paren", "case a in (b|$({X})) ls;; esac"),
    ("function-call", "fn() { {X}; }; fn"), ("function-kw-call", "function fn { {X}; }; fn"), ("function-sub", "fn() ( {X} ); fn"),
    ("cmdsub-arg", "echo $({X})"), ("cmdsub-dq", 'echo "a $({X}) b"'), ("cmdsub-bt", "echo `{X}`"), ("cmdsub-bt-dq", 'echo "`{X}`"'),
    ("cmdsub-locale", 'echo $"a $({X})"'), ("cmdsub-nested", "echo $(echo $({X}))"), ("cmdsub-cmdname", "$({X})"),
    ("cmdsub-assign", "x=$({X})"), ("cmdsub-assign-cmd", "x=$({X}) ls"), ("cmdsub-assign-dq", 'x="$({X})"'),
    ("cmdsub-export", "export x=$({X})"), ("cmdsub-local", "fn() { local x=$({X}); }; fn"), ("cmdsub-declare", "declare x=$({X})"),
    ("array-lit", "a=($({X}))"), ("array-append", "a+=($({X}))"), ("array-key", "a=([$({X})]=1)"), ("array-sub-assign", "a[$({X})]=1"),
    ("array-sub-use", "echo ${a[$({X})]}"), ("array-sub-indirect", "echo ${!a[$({X})]}"),
    ("param-default", "echo ${v:-$({X})}"), ("param-assign", "echo ${v:=$({X})}"), ("param-alt", "v=1; echo ${v:+$({X})}"),
    ("param-default-dq", 'echo "${v:-$({X})}"'), ("param-default-bt", "echo ${v:-`{X}`}"),
    ("param-default-nocolon", "echo ${v-$({X})}"), ("param-subst", "v=a; echo ${v/$({X})/y}"), ("param-subst-rep", "v=a; echo ${v/a/$({X})}"),
    ("param-substr", "v=abc; echo ${v:$({X})}"), ("param-substr-len", "v=abc; echo ${v:0:$({X})}"),
    ("param-prefix", "v=a; echo ${v#$({X})}"), ("param-suffix", "v=a; echo ${v%%$({X})}"), ("param-case", "v=a; echo ${v^^$({X})}"),
    ("param-nested", "echo ${v:-${w:-$({X})}}"), ("param-default-procsub", "echo ${v:-<({X})}"),
    ("arith-exp", "echo $((1+$({X})))"), ("arith-exp-dq", 'echo "$((1+$({X})))"'), ("arith-old", "echo $[1+$({X})]"),
    ("arith-exp-tern", "echo $((1?$({X}):2))"), ("arith-exp-sub", "echo $((a[$({X})]))"), ("arith-exp-assign", "echo $((x=$({X})))"),
    ("arith-exp-nested", "echo $(( $((1+$({X}))) ))"), ("arith-exp-param", "echo $(( ${v:-$({X})} ))"),
    ("arith-cmd", "(( $({X}) ))"), ("arith-cmd-assign", "(( x = $({X}) ))"), ("arith-cmd-tern", "(( x ? $({X}) : 1 ))"),
    ("arith-cmd-tern2", "(( 1 ? 2 : $({X}) ))"), ("arith-cmd-sub", "(( a[$({X})] ))"), ("arith-cmd-dq", '(( "$({X})" ))'),
    ("arith-cmd-concat", "(( 1$({X}) ))"), ("arith-cmd-comma", "(( 1 , $({X}) ))"), ("arith-cmd-param", "(( ${v:-$({X})} ))"),
    ("arith-cmd-bt", "(( `{X}` ))"), ("arith-cmd-preinc", "(( ++a[$({X})] ))"), ("arith-cmd-unary", "(( -$({X}) ))"),
    ("let", "let x=$({X})"), ("arith-shortcircuit", "(( 0 && $({X}) ))"),
    ("cond-unary", "[[ -n $({X}) ]]"), ("cond-binary-l", "[[ $({X}) == a ]]"), ("cond-binary-r", "[[ a == $({X}) ]]"),
    ("cond-regex", "[[ a =~ $({X}) ]]"), ("cond-arith-sub", "[[ a[$({X})] -eq 1 ]]"), ("cond-v-sub", "[[ -v a[$({X})] ]]"),
    ("cond-arith-r", "[[ 1 -eq $((1+$({X}))) ]]"), ("cond-arith-sub-r", "[[ 1 -eq b[$({X})] ]]"),
    ("cond-arith-dq", '[[ "a[$({X})]" -eq 1 ]]'), ("cond-and", "[[ -n a && -n $({X}) ]]"), ("cond-or", "[[ -z a || -n $({X}) ]]"),
    ("cond-not", "[[ ! -n $({X}) ]]"), ("cond-paren", "[[ ( -n $({X}) ) ]]"), ("cond-bare", "[[ $({X}) ]]"),
    ("cond-param", "[[ -n ${v:-$({X})} ]]"), ("test-builtin", "[ -n $({X}) ]"), ("test-builtin2", "test -n $({X})"),
    ("heredoc", "cat <<EOF\n$({X})\nEOF"), ("heredoc-bt", "cat <<EOF\n`{X}`\nEOF"), ("heredoc-dash", "cat <<-EOF\n\t$({X})\n\tEOF"),
    ("heredoc-param", "cat <<EOF\n${v:-$({X})}\nEOF"), ("heredoc-arith", "cat <<EOF\n$((1+$({X})))\nEOF"),
    ("heredoc-after", "cat <<EOF\ntext\nEOF\n{X}"), ("heredoc-q-after", "cat <<'EOF'\n$(zap)\nEOF\n{X}"),
    ("heredoc-two", "cat <<A <<B\nx\nA\n$({X})\nB"), ("heredoc-in-cmdsub", "echo $(cat <<EOF\n$({X})\nEOF\n)"),
    ("heredoc-compound", "while ls; do ls; done <<EOF\n$({X})\nEOF"), ("heredoc-pipe", "cat <<EOF | {X}\ntext\nEOF"),
    ("heredoc-bs-delim-after", "cat <<\\EOF\n$(zap)\nEOF\n{X}"),
    ("herestring", "cat <<< $({X})"), ("herestring-dq", 'cat <<< "$({X})"'),
    ("redir-target", "ls > $({X})"), ("redir-in-target", "cat < $({X})"), ("redir-procsub", "cat < <({X})"),
    ("redir-out-procsub", "ls > >({X})"), ("redir-fd-target", "ls 2> $({X})"), ("redir-compound", "{ ls; } > $({X})"),
    ("procsub-in", "cat <({X})"), ("procsub-out", "ls >({X})"),
    ("env-prefix", "A=1 {X}"), ("env-prefix2", "A=1 B=2 {X}"),
    ("continuation", "l\\\ns; {X}"), ("comment-then", "ls # c\n{X}"), ("semicolon-nl", "ls;\n{X}"),
    ("eval", "eval '{Xq}'"), ("bash-c", "bash -c '{Xq}'"), ("sh-c", "sh -c '{Xq}'"),
    ("trap-exit", "trap '{Xq}' EXIT"), ("source-procsub", "source <(echo '{Xq}')"), ("dot-procsub", ". <(echo '{Xq}')"),
    ("alias-use", "shopt -s expand_aliases; alias al='{Xq}'\nal"),
    ("brace-exp", "echo {a,$({X})}"), ("tilde", "echo ~/$({X})"),
    ("subshell-redir", "( {X} ) 2>&1"), ("bg-subshell", "( {X} & )"), ("nested-fn", "f() { g() { {X}; }; g; }; f"),
    ("cmd-in-key", "declare -A m; m[$({X})]=1"), ("printf-v", "printf -v x %s $({X})"), ("read-here", "read x <<< $({X})"),
    ("mapfile", "mapfile -t a < <({X})"), ("exec-redirect", "exec 3< <({X})"), ("wait-bg", "{X} & wait"),
    # builtins that evaluate an argument as a variable NAME: the array subscript in it is arithmetic, and bash runs the
    # substitutions in it although the word is quoted
    ("name-test-v", "test -v 'a[$({Xq})]'"), ("name-bracket-v", "[ -v 'a[$({Xq})]' ]"), ("name-cond-v", "[[ -v 'a[$({Xq})]' ]]"),
    ("name-printf-v", "printf -v 'a[$({Xq})]' hi"), ("name-read", "read 'a[$({Xq})]' <<< 1"), ("name-read-r", "read -r b 'a[$({Xq})]' <<< '1 2'"),
    ("name-read-bt", "read 'a[`{Xq}`]' <<< 1"), ("name-test-v-dq", 'test -v "a[\\$({X})]"'), ("name-unset", "unset 'a[$({Xq})]'"),
    ("name-let", "let 'a[$({Xq})]=1'"), ("name-declare-i", "declare -i n='a[$({Xq})]'"), ("name-cond-eq", "[[ 'a[$({Xq})]' -eq 0 ]]"),
    ("name-arith-cmd-q", "(( 'a[$({Xq})]' ))"), ("name-wait-p", "true & wait -p 'a[$({Xq})]' -n"),
    # arithmetic evaluates the VALUE of a variable it names, recursively: a quoted subscript stored in a variable runs
    ("value-arith-exp", "x='a[$({Xq})]'; echo $((x))"), ("value-arith-cmd", "x='a[$({Xq})]'; (( x ))"), ("value-cond", "x='a[$({Xq})]'; [[ $x -gt 0 ]]"),
    ("value-subscript", "x='a[$({Xq})]'; echo ${b[x]}"), ("value-for", "for x in 'a[$({Xq})]'; do echo $((x)); done"),
    ("value-read", "read x <<< 'a[$({Xq})]'; echo $((x))"), ("value-prefix", "x='a[$({Xq})]' eval 'echo $((x))'"),
    ("value-indirect", "x='a[$({Xq})]'; y=x; echo $((y))"), ("value-substr", "x='a[$({Xq})]'; v=abc; echo ${v:x}"),
    # variables that decide WHICH program a name runs (the jail has ../evilbin with the same names, logged as evil:<name>)
    ("env-path", "PATH=../evilbin:$PATH {X}"), ("env-path-seq", "PATH=../evilbin:$PATH; {X}"), ("env-path-append", "PATH+=:../evilbin; PATH=${PATH#*:}; {X}"),
    ("env-path-two", "A=1 PATH=../evilbin B=2 {X}"), ("env-path-sub", "( PATH=../evilbin:$PATH; {X} )"), ("env-path-fn", "f() { PATH=../evilbin:$PATH; {X}; }; f"),
    ("env-path-env", "env PATH=../evilbin {X}"), ("env-path-export", "export PATH=../evilbin:$PATH; {X}"), ("env-path-declare", "declare -x PATH=../evilbin; {X}"),
    ("env-path-hash", "hash -p ../evilbin/ls ls; {X}"), ("env-bashenv", "echo '{Xq}' > out/rc; BASH_ENV=out/rc bash -c ls"), ("env-ps4", "PS4='$({Xq})'; set -x; ls"),
    # ... and the OUTPUT of a command substitution inside an arithmetic expansion (data the analyser cannot see: known finding)
    ("value-output", "echo $(($(echo 'a[$({Xq})]')))"),
]


def _heredoc_lines():
    """round seven (seeded change C01v: pending here-documents gathered in reverse order): SEVERAL here-documents on one
    logical line - on one command, one per pipeline stage, one per list element - with quoted and unquoted delimiters, empty
    and non-empty bodies; the command under test stands BEHIND the last terminator (a parser that disagrees with bash about
    where the bodies end swallows it as text), or inside the first / last unquoted body."""
    out = []
    delims = [("A", "A"), ("'B'", "B"), ("C", "C")]
    for n in (2, 3):
        ds = delims[:n]
        for joiner, label in ((" ", "one-command"), (" | cat ", "pipe"), (" && cat ", "and"), ("; cat ", "semi")):
            head = "cat " + joiner.join("<<" + w for w, _ in ds)
            bodysets = list(itertools.product(["", "x"], repeat=n)) if n == 2 else [("",) * n, ("x",) * n]
            for bi, bodyset in enumerate(bodysets):
                body = "".join((b + "\n" if b else "") + t + "\n" for b, (_w, t) in zip(bodyset, ds))
                out.append((f"heredocs-{n}-{label}-{bi}-after", head + "\n" + body + "{X}"))
            out.append((f"heredocs-{n}-{label}-first-body", head + "\n$({X})\n" + "".join(t + "\n" for _w, t in ds).rstrip("\n")))
            last = "".join(t + "\n" for _w, t in ds[:-1]) + "$({X})\n" + ds[-1][1]
            if "'" not in ds[-1][0]:
                out.append((f"heredocs-{n}-{label}-last-body", head + "\n" + last))
    out.append(("heredocs-2-in-cmdsub-after", "echo $(cat <<A <<B\nx\nA\ny\nB\n{X}\n)"))
    out.append(("heredocs-2-group-after", "{ cat <<A; cat <<B; }\nx\nA\ny\nB\n{X}"))
    return out


EXEC_POSITIONS += _heredoc_lines()

# positions where bash does NOT execute the text (quoting, comments, quoted here-documents):
# the parser must not be fooled into running/approving differently from bash; nothing may run
INERT_POSITIONS = [
    ("comment", "ls # $({X})"), ("comment-only", "# {X}"), ("single-quoted", "echo '$({X})'"), ("single-quoted-bt", "echo '`{X}`'"),
    ("escaped-dollar", 'echo "\\$({X})"'), ("escaped-bt", 'echo "\\`{X}\\`"'), ("ansi-c", "echo $'$({X})'"),
    ("heredoc-quoted", "cat <<'EOF'\n$({X})\nEOF"), ("heredoc-dq-delim", 'cat <<"EOF"\n$({X})\nEOF'),
    ("heredoc-bs-delim", "cat <<\\EOF\n$({X})\nEOF"), ("heredoc-part-quoted", "cat <<E'O'F\n$({X})\nEOF"),
    ("heredoc-escaped", "cat <<EOF\n\\$({X})\nEOF"), ("fn-def-only", "fn() { {X}; }"), ("fn-kw-def-only", "function fn { {X}; }"),
    ("if-false", "if false; then {X}; fi"), ("and-false", "false && {X}"), ("or-true", "true || {X}"),
    ("case-nomatch", "case a in b) {X};; esac"), ("param-alt-unset", "unset v; echo ${v:+$({X})}"), ("param-default-set", "v=1; echo ${v:-$({X})}"),
    ("array-sub-len", "echo ${#a[$({X})]}"),
]


def quote_single(text: str) -> str:
    """Embed a command text inside single quotes (for eval/bash -c templates)."""
    return text.replace("'", "'\"'\"'")


def fill(tmpl: str, x: str) -> str:
    return tmpl.replace("{Xq}", quote_single(x)).replace("{X}", x)


def rand_inner(rng: random.Random, depth: int, pool) -> str:
    """A command text to put in the hole: an atom, or positions nested in positions."""
    if depth <= 0 or rng.random() < 0.35:
        return rng.choice(pool).text
    name, tmpl = rng.choice(EXEC_POSITIONS)
    inner = rand_inner(rng, depth - 1, pool)
    if "{Xq}" in tmpl and "'" in inner:
        tmpl = "{X}"
    return fill(tmpl, inner)


# ------------------------------------------------------------------------------------------------------
# Directory tracking: every way a directory change (A) can precede a relative write (B) - or look as if it
# did.  {A} and {B} are filled with every pair of the variants below; the programs are judged by running the
# approved ones under bash (only/ is granted at the top only, deep/ below sub/ only).
CD_SLOTS = [
    "{A}; {B}", "{A} && {B}", "{A} || {B}", "{A}\n{B}", "{A} & {B}", "{A} | {B}", "( {A} ); {B}", "{ {A}; }; {B}", "{ {A}; {B}; }", "( {A}; {B} )",
    "if {A}; then {B}; fi", "if {A}; then true; else {B}; fi", "if {A}; then true; elif {B}; then true; fi", "if {A}; then true; elif true; then {B}; fi",
    "if true; then {A}; fi; {B}", "if false; then true; else {A}; fi; {B}", "if false; then true; elif {A}; then {B}; fi", "if {A}; then true; fi; {B}",
    "if false; then true; elif {A}; then true; else {B}; fi", "if true; then {A}; {B}; fi", "if ! {A}; then {B}; fi", "if {A}; then {B}; else {B}; fi",
    "if false; then true; elif {A}; then true; elif false; then true; else {B}; fi",
    "for v in a; do {A}; done; {B}", "for v in a b; do {B}; {A}; done", "for v in a; do {A}; {B}; done", "for v in a; do {A} && {B}; done",
    "for v in a b; do {A} && {B}; done", "for ((i=0;i<2;i++)); do {B}; {A}; done", "for ((i=0;i<1;i++)); do {A}; done; {B}",
    "case x in x) {A};; esac; {B}", "case x in x) {A};& y) {B};; esac", "case x in x) {A};;& x) {B};; esac", "case x in x) {A}; {B};; esac",
    "case x in y) true;; x) {A};& z) true;& w) {B};; esac", "case x in x) {A};; y) {B};; esac; {B}",
    "! {A}; {B}", "time {A}; {B}", "{A}; ( {B} )", "{A}; echo $({B})", "{A}; cat <({B})", "{A}; { {B}; }", "{A}; if true; then {B}; fi",
    "{A}; for v in a; do {B}; done", "{A}; ls | {B}", "{A}; {B} &", "{A}; ! {B}", "{A}; time {B}", "{A}; ls; {B}", "{A} && ls && {B}", "{A} && ls; {B}",
    "{A} && ls || {B}", "ls || {A} && {B}", "true || {A} && {B}", "false || {A} && {B}", "ls && {A} && {B}", "false && {A}; {B}", "ls & {A} && {B}",
    "{A} && {B} & {B}", "ls | {A}; {B}", "{A} > /dev/null; {B}", "{ {A}; } > /dev/null; {B}", "f() { {A}; }; {B}", "{A}; f() { {B}; }",
    "[[ -n a ]] && {A}; {B}", "(( 1 )) && {A} && {B}", "[[ -n a ]] && {A} && {B}", "{A}; [[ -n a ]] > only/g2", "{A}; (( 1 )) > deep/g2",
    "coproc {A}; {B}", "{A} && coproc {B}", "{A}; {A}; {B}", "{A} && {A} && {B}", "{A}; {B}; {A}; {B}",
    # a redirection on the compound itself is opened before anything inside it runs
    "if {A}; then true; fi > only/g", "if true; then {A}; fi > only/g", "{ {A}; } > only/g", "( {A} ) > only/g", "for v in a; do {A}; done > only/g",
    "case x in x) {A};; esac > only/g", "{ {A}; } > deep/g", "if {A}; then true; else true; fi >> only/g", "{A} > only/g", "{A} && true > deep/g",
    "for ((i=0;i<1;i++)); do {A}; done > only/g", "{ {A} && {B}; } > only/g2", "if {A}; then {B}; fi > only/g2",
]
# loops whose end depends on {A}: only with variants of A that let them end
CD_LOOPS = [("while {A}; do {B}; done", ["cd sub", "cd sub && false", "cd nosuch", "cd sub; false", "cd ./sub/", "cd -- sub", "X=1 cd sub", "command cd sub", "cd sub > /dev/null"]),
            ("while {A}; do true; done; {B}", ["cd sub", "cd sub && false", "cd nosuch", "cd ./sub/", "command cd sub"]),
            ("until {A}; do {B}; done", ["cd sub", "cd sub || true", "cd .", "cd /", "cd sub/../sub"]),
            ("until {A}; do true; done; {B}", ["cd sub", "cd sub || true", "cd ."]),
            ("while {A} && {B}; do true; done", ["cd sub", "cd ./sub/", "cd nosuch"]),
            ("while true; do {A} || exit 0; {B}; done", [])]
CD_A = ["cd sub", "cd sub && false", "cd sub || true", "cd nosuch", "cd sub; false", "! cd sub", "cd sub > /dev/null", "X=1 cd sub", "pushd sub",
        "cd ./sub/", "cd sub/../sub", "cd sub && cd ..", "cd sub; cd sub", "cd -- sub", "cd -P sub", 'cd "$PWD"/sub', "cd $(echo sub)", "cd sub/.. && cd sub",
        "cd /", "cd .", "cd", "cd -", "cd sub && cd -", "cd ~-", "cd ~+", "cd - > /dev/null", "builtin cd sub", "command cd sub", "eval cd sub", "test -d sub && cd sub", "cd sub 2> /dev/null || exit 1",
        # targets bash rewrites: the directory entered is not the one the word spells
        "cd $'sub'", "cd $'\\x73ub'", 'cd $"sub"', "cd ${nope:-sub}", "cd ${nope-sub}", "cd $((0))", "cd ${#nope}", "cd ${!nope}", "cd s?b", "cd su[b]", "cd s*b",
        "cd {sub,}", "cd $DD/sub", "cd sub/$DD", "cd su`printf b`"]
# every chain of two and three directory changes over { sub, .., - } (OLDPWD is the directory the LAST cd left)
CD_A += [" && ".join("cd " + t for t in ch) for n in (2, 3) for ch in itertools.product(["sub", "..", "-"], repeat=n)]
CD_A = list(dict.fromkeys(CD_A))
CD_B = ["ls > only/g", "ls > deep/g", "ls >> ./only/g", "cat f > deep/../deep/g"]


def cd_write_programs(tier, rng):
    out = []
    pairs = [(a, b) for a in CD_A for b in CD_B]
    for k, tmpl in enumerate(CD_SLOTS):
        for j, (a, b) in enumerate(pairs):
            if tier == "quick" and (j + k) % 4 and a not in ("cd sub", "cd sub && false", "cd sub || true") and "{B}" in tmpl:
                continue
            if "{B}" not in tmpl and b != CD_B[0]:
                continue
            out.append((f"cd-slot:{k}", tmpl.replace("{A}", a).replace("{B}", b)))
    for k, (tmpl, avars) in enumerate(CD_LOOPS):
        for a in avars:
            for b in CD_B:
                out.append((f"cd-loop:{k}", tmpl.replace("{A}", a).replace("{B}", b)))
    # case statements of three and four items: every combination of terminators (;; ;& ;;&) x which item changes the
    # directory and which later item writes x which patterns match (x matches, y does not, * always): what bash runs
    # after a fall-through or a continued test is decided by the terminators AND by the patterns of the items between
    pats3 = [("x", "y", "*"), ("x", "x", "x"), ("x", "y", "x"), ("y", "x", "*"), ("*", "*", "*"), ("x", "*", "y"), ("x", "y", "y")]
    if tier != "quick":
        pats3 = list(itertools.product(["x", "y", "*"], repeat=3))
    for terms in itertools.product([";;", ";&", ";;&"], repeat=2):
        for (ia, ib) in ((0, 1), (0, 2), (1, 2)):
            for pats in pats3:
                for b in CD_B[:2]:
                    body = ["true", "true", "true"]
                    body[ia], body[ib] = "cd sub", b
                    items = [f"{pats[i]}) {body[i]} {(list(terms) + [';;'])[i]}" for i in range(3)]
                    out.append(("cd-case3", "case x in " + " ".join(items) + " esac"))
    for terms in itertools.product([";;", ";&", ";;&"], repeat=3):
        for pats in (("x", "y", "z", "*"), ("x", "y", "x", "*"), ("x", "x", "y", "x"), ("y", "x", "y", "*")):
            for (ia, ib) in ((0, 3), (0, 2), (1, 3)):
                body = ["true"] * 4
                body[ia], body[ib] = "cd sub", CD_B[0]
                items = [f"{pats[i]}) {body[i]} {(list(terms) + [';;'])[i]}" for i in range(4)]
                if tier == "quick" and (ia + ib + len("".join(terms))) % 2:
                    continue
                out.append(("cd-case4", "case x in " + " ".join(items) + " esac"))
    return out


# ------------------------------------------------------------------------------------------------------
# Two redirections on one node: every ordered pair of (operator, target), the same target twice included.
PAIR_OPS = [">", ">>", "<", "<>", "2>", "&>", ">|", "3>", "2>>", "{v}>"]
PAIR_TARGETS = ["out/g", "nogrant", "secret/s", "f", "/dev/null"]
PAIR_NODES = [("simple", "cat {R}"), ("brace", "{ cat; } {R}"), ("subshell", "( cat ) {R}"), ("while", "while false; do ls; done {R}"),
              ("if", "if true; then cat; fi {R}"), ("cond", "[[ -n a ]] {R}"), ("in-cmdsub", "echo $(cat {R})")]


def redirect_pairs(tier):
    """[(label, program, (single1, single2))]: the two programs with one of the redirects each are returned for the
    composition oracle verdict(pair) = join(verdict(single1), verdict(single2))"""
    reds = [f"{op} {t}" for op in PAIR_OPS for t in PAIR_TARGETS]
    out = []
    for nname, tmpl in (PAIR_NODES[:2] if tier == "quick" else PAIR_NODES):
        for i, r1 in enumerate(reds):
            for j, r2 in enumerate(reds):
                if tier == "quick" and nname != "simple" and (i + j) % 5:
                    continue
                out.append((f"redirect-pair:{nname}", tmpl.replace("{R}", f"{r1} {r2}"), (tmpl.replace("{R}", r1), tmpl.replace("{R}", r2))))
    return out
