"""Child process of harness/c10.py: the real dippy.core.config in a process whose HOME was set before
import (USER_CONFIG is computed at import time).  JSON lines on stdin/stdout."""
import json
import os
import sys

sys.path.insert(0, os.path.join(os.environ["DIPPY_REPO"], "src"))
import logging  # noqa: E402

logging.disable(logging.CRITICAL)
from pathlib import Path  # noqa: E402

from dippy.core import config as C  # noqa: E402

assert C.__file__.startswith(os.environ["DIPPY_REPO"]), C.__file__

FAMS = [("cmd", "rules"), ("redirect", "redirect_rules"), ("after", "after_rules"), ("mcp", "mcp_rules"),
        ("after_mcp", "after_mcp_rules")]


def rule_j(r):
    return [r.decision, r.pattern, r.message, r.source, r.scope, bool(r.exact)]


def cfg_j(c):
    return {
        "fams": [[rule_j(r) for r in getattr(c, attr)] for _, attr in FAMS],
        "aliases": [[k, v] for k, v in c.aliases.items()],
        "default": c.default,
        "log": None if c.log is None else str(c.log),
        "log_full": bool(c.log_full),
    }


def line_item(line):
    """The single effect of one line, observed through parse_config (black box)."""
    c = C.parse_config(line)
    eff = []
    for fam, attr in FAMS:
        for r in getattr(c, attr):
            eff.append(["rule", fam, r.decision, r.pattern, [] if r.message is None else [r.message], bool(r.exact)])
    for k, v in c.aliases.items():
        eff.append(["alias", k, v])
    if c.default != "ask":
        eff.append(["default", c.default])
    if c.log is not None:
        eff.append(["log", str(c.log)])
    if c.log_full:
        eff.append(["log_full"])
    if not eff and C.parse_config("set default allow\n" + line).default == "ask":
        eff.append(["default", "ask"])       # `set default ask` is invisible in a Config on its own
    return eff


def with_env(env, fn):
    if env is None:
        os.environ.pop("DIPPY_CONFIG", None)
    else:
        os.environ["DIPPY_CONFIG"] = env
    try:
        return fn()
    except C.ConfigError as e:
        return {"configerr": str(e)}
    except Exception as e:  # what main()'s catch-all would swallow
        return {"crash": type(e).__name__}


def handle(req):
    op = req["op"]
    if op == "load":
        cwd = Path(req["cwd"])
        if req.get("resolve", True):
            try:
                cwd = cwd.resolve()
            except Exception as e:
                return {"crash": type(e).__name__}
        return with_env(req.get("env"), lambda: {"ok": cfg_j(C.load_config(cwd))})
    if op == "find":
        def f():
            p = C._find_project_config(Path(req["cwd"]))
            return {"ok": None if p is None else str(p)}
        return with_env(None, f)
    if op == "line_item":
        return {"ok": line_item(req["line"])}
    if op == "parse":
        return {"ok": cfg_j(C.parse_config(req["text"]))}
    if op == "merge":
        return {"ok": cfg_j(C._merge_configs(C.parse_config(req["a"]), C.parse_config(req["b"])))}
    if op == "merge3":   # what load_config does with three parsed texts, without any filesystem
        c = C.Config()
        for t in req["texts"]:
            if t is not None:
                c = C._merge_configs(c, C.parse_config(t))
        return {"ok": cfg_j(c)}
    if op == "user_config":
        return {"ok": str(C.USER_CONFIG)}
    return {"error": "unknown op"}


def main():
    for line in sys.stdin:
        line = line.strip()
        if not line:
            continue
        try:
            out = handle(json.loads(line))
        except Exception as e:  # a bug in the worker, not in dippy
            out = {"error": f"{type(e).__name__}: {e}"}
        sys.stdout.write(json.dumps(out) + "\n")
        sys.stdout.flush()


if __name__ == "__main__":
    main()
