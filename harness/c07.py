"""C07 - user rules decide: last match wins, non-matching rules are inert.

Correspondence (equality): Model/Fnmatch.v <-> fnmatch.fnmatchcase; Model/Rules.v match_words /
match_command / match_after / match_mcp / match_after_mcp <-> the functions of dippy.core.config.
Implementation-level oracles (model-free, on the real analyze() / _match_words): the verdict is
that of the last rule that fires; the list reduced to that rule gives the same verdict; deleting
a rule that does not fire changes nothing; a deny message is carried into Decision.reason; with
no firing rule the verdict is the one of the empty configuration; an X=1 prefix or a transparent
wrapper does not hide the command; a glob-free pattern matches by whole-word prefix (equality
with the | anchor).
Second round - spelling families (harness/spell.py): a rule whose pattern names files in one spelling
(., .., ~, ./x, ../x, x/.., ~/x, /abs, //, /./, trailing /, detours, symlinks; built by construction and
validated with os.path.realpath) must decide the command that names the same files in any other
spelling - at every position of the pattern, as command rule / alias / redirect rule, allow/ask/deny
with and without message, anchored / prefix / trailing ' *', behind every assignment and wrapper form,
alone and after an earlier rule in yet another spelling; a rule for another file is inert.  The
expectation comes from the file system, not from the matcher under test.  Function level: the loop body
of _match_words (Rules.pat_matches) on every pattern of <= 3 atoms x every text of <= 4 atoms."""
from __future__ import annotations

import fnmatch
import logging
import random
import warnings
from pathlib import Path

from . import core, lib, spell
from . import rules_common as rc

TRUSTED = rc.TRUSTED_COMMON + [
    "harness/c07.py generators; the firing predicate of the implementation-level oracle is the real "
    "_match_words on a one-rule configuration",
    "the decision ladder (analyzer._analyze_simple_command) is exercised through analyze() only; its model and the "
    "theorems C07_supreme/none/prefix/wrappers are the ladder package's",
]

BASES = ["zap", "frob", "okcmd", "git", "ls", "rm", "echo", "cat", "node", "test", "[", "./tool", "bin/run",
         "~/bin/gh", "@CWD@/bin/run", "./a=b.sh"]  # ./a=b.sh: a command whose name merely contains "=" (not an assignment)
ARGS = ["a", "x", "push", "status", "origin", "-f", "--force", "-v", "src/main.py", "./src/main.py",
        "src/../src/main.py", "@CWD@/src/main.py", "~/n/f", "/etc/passwd", "bin/x.js", "1", "a=b", "zap", "--opt=v", "./a=b.sh", "X+=v"]
# a form is a list of components: an assignment prefix or one wrapper with its options
# every bash spelling of an assignment word: NAME=v, NAME=, NAME="a b", NAME+=v, NAME[sub]=v, NAME[sub]+=v, several mixed
ENVS = {"env": ["X=1"], "env2": ["A=b", "C=d"], "envempty": ["X="], "envquoted": ['X="a b"'], "envplus": ["LIBDIRS+=:/opt/bin"],
        "envarr": ["a[0]=v"], "envarrplus": ["a[k]+=v"], "envmixed": ["X=1", "Y+=2", "a[1]=3", "Z="]}
WRAPS = {"time": ["time"], "timeout": ["timeout", "5"], "nice": ["nice", "-n", "3"], "nohup": ["nohup"], "command": ["command", "--"]}
ENV_WORDS = {w for v in ENVS.values() for w in v}
FORMS = {"bare": [], "time+nice": [WRAPS["time"], WRAPS["nice"]]}
for _w, _ws in WRAPS.items():
    FORMS[_w] = [_ws]
for _e, _es in ENVS.items():
    FORMS[_e] = [_es]
    for _w, _ws in WRAPS.items():
        FORMS[f"{_e}+{_w}"] = [_es, _ws]          # X+=v timeout 5 cmd: the wrapper is an ordinary command word here
    FORMS[f"time+{_e}"] = [WRAPS["time"], _es]     # time X+=v cmd: keyword, then a simple command with a prefix
WRAPPERS = {k: [w for comp in v for w in comp] for k, v in FORMS.items()}
BASIC_FORMS = ["bare", "time+nice"] + list(WRAPS) + list(ENVS) + ["env+time", "envplus+timeout", "time+envarr"]
ENV_SYS_BASES = ["zap", "rm", "ls", "./tool", "test", "./a=b.sh"]


def consulted_forms(form, words):
    """The word lists on which the rules are consulted, outermost first: the command behind each
    suffix of the wrapper components (an assignment prefix is never part of them)."""
    comps = FORMS[form]
    chain = []
    for i in range(len(comps) + 1):
        if i < len(comps) and comps[i][0] in ENV_WORDS:
            continue
        if i == 0 and comps and comps[0] == ["time"]:
            continue  # a leading `time` is the shell keyword (a time node), not a command word
        chain.append([w for comp in comps[i:] for w in comp] + list(words))
    return chain
TOOLS = ["mcp__github__get_issue", "mcp__github__create_pr", "mcp__fs__read", "mcp__x", "other"]


def gen_words(rng):
    base = rng.choice(BASES)
    n = rng.choice([0, 1, 1, 2, 2, 3])
    ws = [base] + [rng.choice(ARGS) for _ in range(n)]
    if base == "[":
        ws.append("]")
    return ws


def gen_pattern(rng, pool):
    ws = rng.choice(pool)
    k = rng.randint(1, len(ws))
    pre = " ".join(ws[:k])
    kind = rng.choice(["literal", "literal", "literal", "anchored", "anchored", "glob", "glob", "glob", "path", "star", "unrelated"])
    if kind == "literal":
        return pre
    if kind == "anchored":
        return pre + rng.choice(["|", " |"])
    if kind == "glob":
        w0 = ws[0]
        return rng.choice([pre + " *", pre + "*", w0[:-1] + "? *", "[" + w0[0] + "q]" + w0[1:] + " *", "* " + ws[-1],
                           w0 + " * " + ws[-1], pre + " *|", w0 + " [!-]*", "?" + w0[1:], w0 + " **"])
    if kind == "path":
        return rng.choice(["cat src/*", "cat ./src/main.py", "cat src/main.py", "node bin/*", "~/bin/gh *", "./tool",
                           "@CWD@/bin/run *", "bin/run", "cat ~/n/*", "cat /etc/*", "cat @CWD@/src/main.py|",
                           "rm src/../src/main.py"])
    if kind == "star":
        return "*"
    return rng.choice(["nomatch", "zapp", "za", "zap extra|", "gi", "git pus", "ech", "[ x"])


def gen_config_text(rng, pool, maxlen=12, families=("cmd",)):
    lines = []
    for _ in range(rng.randint(0, maxlen)):
        fam = rng.choice(families)
        dec = rng.choice(rc.VERDICTS)
        msg = f' "msg{rng.randint(0, 99)}"' if dec != "allow" and rng.random() < 0.5 else ""
        if fam == "cmd":
            lines.append(f"{dec} {gen_pattern(rng, pool)}{msg}")
        elif fam == "redirect":
            pat = rng.choice(["out/*", "out/**", "/tmp/**", "src/main.py", "./out/a", "~/n/*", "@CWD@/out/**", "**/*.log", "*"])
            lines.append(f"{dec}-redirect {pat}{msg}")
        elif fam == "after":
            m = rng.choice(['', ' ""', ' "after%d"' % rng.randint(0, 9)])
            lines.append(f"after {gen_pattern(rng, pool)}{m}")
        elif fam == "mcp":
            pat = rng.choice(["mcp__github__*", "mcp__*__read", "mcp__github__get_issue", "*", "mcp__x", "mcp__[fg]*", "nomatch", "mcp__?"])
            lines.append(f"{dec}-mcp {pat}{msg}")
        elif fam == "after-mcp":
            pat = rng.choice(["mcp__github__*", "mcp__x", "*", "nomatch"])
            m = rng.choice(['', ' ""', ' "am%d"' % rng.randint(0, 9)])
            lines.append(f"after-mcp {pat}{m}")
        elif fam == "alias":
            lines.append(rng.choice(["alias ~/bin/gh gh", "alias ./tool zap", "alias bin/run okcmd", "alias frob zap"]))
    return "\n".join(lines)


def shell_text(words):
    return " ".join(words)


def run(tier, seed, replay=None):
    lib.use_repo()
    warnings.simplefilter("ignore")
    logging.disable(logging.WARNING)  # parse_config logs redefined aliases
    from dippy.core import analyzer as an
    from dippy.core import config as C

    rng = random.Random(seed)
    out = core.Outcome("C07")
    sc = rc.Scratch()
    model = lib.Model()
    orc = rc.path_oracles()
    xcheck = []
    quick = tier == "quick"
    try:
        cwd = Path(sc.cwd)

        def mcall(req, record=False):
            nonlocal model
            try:
                return model.call(req, orc, record=record)
            except lib.ModelError as e:
                model = lib.Model()
                return f"model-error:{e}"

        def disagree(corr, inp, mv, iv):
            out.disagreements.append({"correspondence": corr, "input": inp, "model": mv, "impl": iv})

        # ------------------------------------------------ implementation-level oracle on analyze()
        def firing(cfg, words):
            """indexes of the rules that fire on these words (real matcher, one rule at a time)."""
            res = []
            for i, r in enumerate(cfg.rules):
                one = C.Config(rules=[r], aliases=cfg.aliases)
                if C._match_words(list(words), one, cwd) is not None:
                    res.append(i)
            return res

        def analyze(text, cfg):
            return an.analyze(text, cfg, cwd)

        def oracle_case(case):
            """case: {'config': text with placeholders, 'words': [...], 'form': wrapper name}"""
            cfg_text = sc.sub(case["config"])
            words = [sc.sub(w) for w in case["words"]]
            form = case["form"]
            cfg = C.parse_config(cfg_text)
            full_words = WRAPPERS[form] + words
            text = shell_text(full_words)
            dec = analyze(text, cfg)
            v = dec.action
            base = words[0]
            sig_in = f"form={form} base={base} cmd={shell_text(case['words'])!r} config={case['config']!r}"

            def viol(kind, what):
                out.violations.append({"kind": kind, "what": what, "case": case, "command": text, "config": cfg_text,
                                       "cwd": sc.cwd, "verdict": v, "reason": dec.reason,
                                       "signature_text": f"{kind} {sig_in}"})

            # which words do the rules get to see?  each wrapped form from the outside in, then
            # (wrappers being transparent) the inner words; never an assignment prefix
            chain = consulted_forms(form, words)
            fires = [firing(cfg, f) for f in chain]
            fire, fire_at = [], None
            for k, f in enumerate(fires):
                if f:
                    fire, fire_at = f, k
                    break
            out.count("c07.oracle.form", form)
            out.count("c07.oracle.firing_rules", min(len(fire), 4))
            if fire:
                r = cfg.rules[fire[-1]]
                out.count("c07.oracle.deciding", r.decision)
                if v != r.decision:
                    viol("rule-ignored", f"the last firing rule says {r.decision} ({r.pattern!r}) but analyze() says {v}")
                    return
                one = C.Config(rules=[r], aliases=cfg.aliases)
                v1 = analyze(text, one).action
                if v1 != v:
                    viol("reduce", f"the rule list reduced to its last firing rule gives {v1}, the full list {v}")
                if r.decision == "deny" and r.message and r.message not in dec.reason:
                    viol("message", f"deny message {r.message!r} not in reason {dec.reason!r}")
            else:
                v0 = analyze(text, C.Config(aliases=cfg.aliases)).action
                out.count("c07.oracle.deciding", "builtin:" + v0)
                if v0 != v:
                    viol("not-inert", f"no rule fires, yet the verdict is {v} instead of the built-in {v0}")
            # delete each rule that fires on none of the consulted forms
            fired_somewhere = {i for f in fires for i in f}
            nonfiring = [i for i in range(len(cfg.rules)) if i not in fired_somewhere]
            for j in nonfiring[:6]:
                less = C.Config(rules=[r for i, r in enumerate(cfg.rules) if i != j], aliases=cfg.aliases)
                vj = analyze(text, less).action
                if vj != v:
                    viol("not-inert", f"deleting the non-firing rule #{j} ({cfg.rules[j].pattern!r}) changes {v} to {vj}")
                    break

        # ------------------------------------------------ literal / anchored patterns on the real matcher
        def literal_case(case):
            pat, exact, words = sc.sub(case["pattern"]), case["exact"], [sc.sub(w) for w in case["words"]]
            np_ = C._normalize_pattern(pat, cwd)
            if C._has_glob_chars(np_):
                out.count("c07.literal", "expanded-pattern-has-glob (excluded)")
                return
            cmdstr = C._normalize_words(list(words), cwd)
            rule = C.Rule("deny", pat, exact=exact)
            got = C._match_words(list(words), C.Config(rules=[rule]), cwd) is not None
            want = (cmdstr == np_) if exact else (cmdstr == np_ or cmdstr.startswith(np_ + " "))
            out.count("c07.literal", f"exact={exact} match={want}")
            if got != want:
                out.violations.append({"kind": "literal", "what": f"glob-free pattern {pat!r} exact={exact} on {cmdstr!r}: "
                                       f"matches={got}, whole-word-prefix/equality says {want}", "case": case,
                                       "signature_text": f"literal pattern={case['pattern']!r} exact={exact} words={case['words']!r}"})

        # ------------------------------------------------ last match wins, on each matcher of config.py
        FIELD = {"words": "rules", "redirect": "redirect_rules", "after": "after_rules", "mcp": "mcp_rules", "after_mcp": "after_mcp_rules"}

        def matcher_case(case):
            """case: {'matcher': words|redirect|after|mcp|after_mcp, 'config': text, 'input': words | target | tool}"""
            kind = case["matcher"]
            cfg = C.parse_config(sc.sub(case["config"]))
            inp = [sc.sub(w) for w in case["input"]] if isinstance(case["input"], list) else sc.sub(case["input"])

            def call(c):
                if kind == "words":
                    m = C._match_words(list(inp), c, cwd)
                elif kind == "redirect":
                    m = C.match_redirect(inp, c, cwd)
                elif kind == "after":
                    return C.match_after(list(inp), c, cwd)
                elif kind == "mcp":
                    m = C.match_mcp(inp, c)
                else:
                    return C.match_after_mcp(inp, c)
                return None if m is None else (m.decision, m.pattern, m.message)

            rules = getattr(cfg, FIELD[kind])
            singles = [call(C.Config(**{FIELD[kind]: [r]}, aliases=cfg.aliases)) for r in rules]
            firing_ = [i for i, x in enumerate(singles) if x is not None]
            want = singles[firing_[-1]] if firing_ else None
            got = call(cfg)
            out.count("c07.matcher", f"{kind}:{'hit' if want is not None else 'none'}")
            bad = None
            if got != want:
                bad = f"{kind}: the full list answers {got!r}, its last firing rule alone {want!r}"
            else:
                for j in [i for i in range(len(rules)) if i not in firing_][:4]:
                    less = C.Config(**{FIELD[kind]: [r for i, r in enumerate(rules) if i != j]}, aliases=cfg.aliases)
                    if call(less) != got:
                        bad = f"{kind}: deleting the non-firing rule #{j} changes the answer from {got!r} to {call(less)!r}"
                        break
            if bad is None:
                # the same expectation from the TEXT: every rule line of this family parsed on its own (the other lines -
                # aliases, settings, other families - kept), in the order written.  The list parse_config builds must decide
                # like the last line that fires alone: nothing between the text and the list may reorder, merge or drop rules.
                lines = [ln for ln in sc.sub(case["config"]).split("\n") if ln.strip()]
                mine = []
                for k_, ln in enumerate(lines):
                    try:
                        one = C.parse_config(ln)
                    except Exception:
                        continue
                    if len(getattr(one, FIELD[kind])) == 1 and sum(len(getattr(one, f_)) for f_ in FIELD.values()) == 1:
                        mine.append(k_)
                if len(mine) == len(rules) or len(mine) > 1:
                    others = [ln for k_, ln in enumerate(lines) if k_ not in mine]
                    want_t = None
                    for k_ in mine:
                        try:
                            r1 = call(C.parse_config("\n".join(others + [lines[k_]])))
                        except Exception:
                            r1 = None
                        if r1 is not None:
                            want_t = r1
                    if want_t != got:
                        bad = f"{kind}: the configuration text answers {got!r}; its last rule line that fires when written alone answers {want_t!r}"
            if bad:
                out.violations.append({"kind": "matcher", "what": bad, "case": case,
                                       "signature_text": f"matcher {kind} input={case['input']!r} config={case['config']!r}"})

        # ------------------------------------------------ a rule that names files x a command that names the same files
        def spell_case(case):
            """case: spell.build's case + 'form'.  Expected without any model and without the matcher under test: the rule's
            pattern and the command name the same file(s) (generator's construction, validated with os.path.realpath), so
            analyze() must answer the rule's decision (with its message); different files: the rule is inert."""
            cfg_text, subject, expected = spell.build(sc, case)
            want = case["dec"]
            if case.get("first"):
                # an earlier rule of the same kind, in another spelling (of the same or of another file): the LAST rule that
                # names the command's files decides
                t1, _, e1 = spell.build(sc, dict(case, p=case["first"]["p"], dec=case["first"]["dec"], same=case["first"]["same"], msg=False))
                cfg_text = t1 + "\n" + cfg_text
                if not expected and e1:
                    expected, want = True, case["first"]["dec"]
            cfg = C.parse_config(cfg_text)
            form = case["form"]
            if case["rule"] == "redirect":
                text = shell_text(WRAPPERS[form] + ["echo", "hi", ">", subject])
            else:
                text = shell_text(WRAPPERS[form] + list(subject))
            dec = analyze(text, cfg)
            out.count("c07.spell", f"{case['rule']}:{'same' if case['same'] else 'other'}")
            out.count("c07.spell.form", form)
            bad = None
            if expected:
                if dec.action != want:
                    bad = f"the {'last ' if case.get('first') else ''}rule that names the same file(s) as the command says {want}, but analyze() says {dec.action}"
                elif want == "deny" and case.get("msg") and want == case["dec"] and ("M-" + case["dec"]) not in dec.reason:
                    bad = f"deny message 'M-deny' not in reason {dec.reason!r}"
            else:
                v0 = analyze(text, C.Config()).action
                if v0 != dec.action:
                    bad = f"the rule names another file, yet the verdict is {dec.action} instead of the built-in {v0}"
            if bad:
                out.violations.append({"kind": "spell", "what": f"{spell.unsub(sc, cfg_text)!r} on {spell.unsub(sc, text)!r}: {bad}", "case": case,
                                       "config": spell.unsub(sc, cfg_text), "command": spell.unsub(sc, text), "verdict": dec.action, "reason": dec.reason,
                                       "signature_text": f"spell rule={case['rule']} form={form} tpl={case.get('tpl')} p={case['p']!r} q={case['q']!r} dec={case['dec']}"})

        # ------------------------------------------------ replay
        if replay:
            case = replay.get("case")
            if case and "p" in case and "q" in case:
                spell_case(case)
                out.case(case)
            elif case and "form" in case:
                oracle_case(case)
                out.case(case)
            elif case and "pattern" in case:
                literal_case(case)
                out.case(case)
            elif case and "matcher" in case:
                matcher_case(case)
                out.case(case)
            out.extra["rule"] = "replay of one recorded case"
            return out

        # ------------------------------------------------ A. fnmatch model <-> fnmatch.fnmatchcase
        n_fn = 6000 if quick else 120000
        for i in range(n_fn):
            p = rc.rand_pattern(rng)
            s = rc.text_for(rng, p) if rng.random() < 0.6 else rc.rand_text(rng)
            real = rc.guarded(lambda: fnmatch.fnmatchcase(s, p))
            real = {True: "1", False: "0"}.get(real, "error" if real == "exn:error" else real)
            rec = len(xcheck) < 25 and i % 97 == 0
            mv = mcall(["fnmatch", s, p], record=rec)
            if rec and model.transcript is not None:
                xcheck.append((model.last_request, list(model.transcript), mv))
            out.case(["fn", p, s], nontrivial=any(c in p for c in "*?["))
            out.count("fnmatch.pattern", "bracket" if "[" in p else "star/qmark" if ("*" in p or "?" in p) else "literal")
            out.count("fnmatch.result", real)
            if "\n" in s:
                out.count("fnmatch.subject", "has-newline")
            if mv != real:
                disagree("Fnmatch.fnmatch <-> fnmatch.fnmatchcase", {"pattern": p, "name": s}, mv, real)

        # ------------------------------------------------ A2. the loop body of _match_words / match_after, exhaustively on a small alphabet
        # pat_matches(np, exact, cmd) on the normalised strings: every pattern of <= 3 atoms x every command text of <= 4 atoms
        # x anchored or not.  The real side is _match_words in remote mode (no alias, no normalisation: the strings are used as
        # they are) and match_after's copy of the loop, compared with each other too (C19 shares the loop).
        import itertools
        # every character class the loop distinguishes: literal, blank, each glob char, the ' *' suffix - and "/" with "**"
        # (in a command rule "**" is two stars of fnmatch, and "*" / "?" match a "/": only redirect rules have the
        # component-wise glob)
        P_ATOMS = ["a", "b", " ", "*", "?", "[a]", "[!a]", " *", "/", "**", "**/"]
        C_ATOMS = ["a", "b", " ", "*", "/"]
        pats = [""] + ["".join(t) for n in (1, 2, 3) for t in itertools.product(P_ATOMS, repeat=n)]
        cmds = [""] + ["".join(t) for n in (1, 2, 3, 4) for t in itertools.product(C_ATOMS, repeat=n)]
        if quick:
            pats = [x for i, x in enumerate(pats) if len(x) <= 4 or i % 3 == 0]
        n_pm = 0
        for pi, pat in enumerate(pats):
            for exact in (False, True):
                rule_cfg = C.Config(rules=[C.Rule("deny", pat, exact=exact)])
                after_cfg = C.Config(after_rules=[C.Rule("after", pat, message="m", exact=exact)])
                sub_cmds = cmds if not quick else cmds[(pi + exact) % 4::4] + [pat, pat + " a", pat[:-2] if pat.endswith(" *") else pat + "a"]
                for cmd in sub_cmds:
                    real = rc.guarded(lambda: C._match_words([cmd], rule_cfg, cwd, remote=True) is not None)
                    real = {True: "1", False: "0"}.get(real, "error" if real == "exn:error" else real)
                    mv = mcall(["pat_matches", pat, exact, cmd])
                    n_pm += 1
                    if mv != real:
                        disagree("Rules.pat_matches <-> the loop body of config._match_words (remote mode)", {"pattern": pat, "exact": exact, "command": cmd}, mv, real)
                        # the difference as a rule that fires although it does not match (or the reverse): the reference for
                        # a command rule with glob characters is fnmatch on the whole command text (plus the bare form of a
                        # trailing " *"), the documented matching of command rules
                        import fnmatch as _fn
                        if any(ch in pat for ch in "*?[") and cmd.strip() and pat.strip() and len(out.violations) < 30:
                            want = _fn.fnmatch(cmd, pat) or (pat.endswith(" *") and cmd == pat[:-2])
                            if (real == "1") != want:
                                out.violations.append({"kind": "rule-match", "what": f"the rule 'deny {pat}' {'fires' if real == '1' else 'does not fire'} on the command {cmd!r} in a container; "
                                                       f"matched as command rules are documented to match (fnmatch on the command text) it {'does' if want else 'does not'}",
                                                       "case": {"pattern": pat, "exact": exact, "command": cmd}, "signature_text": f"rule-match pat={pat!r} exact={exact} cmd={cmd!r}"})
                    if not any(c in pat + cmd for c in "/~.$"):   # no path-shaped token: match_after must agree with _match_words
                        ws = cmd.split(" ")
                        if all(ws):
                            ra = rc.guarded(lambda: C.match_after(list(ws), after_cfg, cwd) == "m")
                            rw = rc.guarded(lambda: C._match_words(list(ws), rule_cfg, cwd) is not None)
                            if ra != rw:
                                out.violations.append({"kind": "after-loop", "what": f"pattern {pat!r} exact={exact} on {ws!r}: _match_words fires={rw}, match_after fires={ra}",
                                                       "case": {"after_pattern": pat, "exact": exact, "words": ws},
                                                       "signature_text": f"after-loop pattern={pat!r} exact={exact} words={ws!r}"})
        out.count("pat_matches.exhaustive", "cases", n_pm) if False else out.extra.__setitem__("pat_matches_cases", n_pm)
        out.case(["pm-exhaustive", len(pats), len(cmds)], nontrivial=True)

        # ------------------------------------------------ B0. sandwiches: one pattern written twice with an overlapping rule between,
        # every combination of decisions, on every matcher (the text-order expectation of matcher_case decides)
        import itertools as _it
        SANDW = {"words": [("rm -rf *", "rm -rf build", ["rm", "-rf", "build"]), ("git *", "git push *", ["git", "push", "x"]), ("zap", "zap *", ["zap", "a"]),
                           ("frob|", "frob", ["frob"])],
                 "redirect": [("out/*", "out/a", "out/a"), ("**", "/tmp/*.log", "/tmp/x.log")],
                 "mcp": [("mcp__*", "mcp__gh__*", "mcp__gh__x"), ("*", "mcp__gh__x", "mcp__gh__x")]}
        SUFFIX = {"words": "", "redirect": "-redirect", "mcp": "-mcp"}
        for kind_, triples in SANDW.items():
            for (p_, q_, inp_), decs in _it.product(triples, _it.product(("allow", "ask", "deny"), repeat=3)):
                for order in ((p_, q_, p_), (q_, p_, q_), (p_, p_, q_), (p_, q_, q_)):
                    text_t = "\n".join(f'{d}{SUFFIX[kind_]} {pt}' + (f' "M{i}"' if d != "allow" else "") for i, (d, pt) in enumerate(zip(decs, order)))
                    mcase = {"matcher": kind_, "config": text_t, "input": inp_}
                    matcher_case(mcase)
                    out.case(mcase, nontrivial=True)
        for kind_, directive in (("after", "after"), ("after_mcp", "after-mcp")):
            for (p_, q_, inp_) in SANDW["words" if kind_ == "after" else "mcp"]:
                for order in ((p_, q_, p_), (q_, p_, q_), (p_, p_, q_), (p_, q_, q_)):
                    for msgs in (("m0", "m1", "m2"), ("m0", "", "m2"), ("", "m1", ""), ("m0", "m1", "")):
                        text_t = "\n".join(f'{directive} {pt} "{m}"' if m else f"{directive} {pt}" for m, pt in zip(msgs, order))
                        mcase = {"matcher": kind_, "config": text_t, "input": inp_}
                        matcher_case(mcase)
                        out.case(mcase, nontrivial=True)

        # ------------------------------------------------ B. rule lists: model <-> config.py
        pool = [gen_words(rng) for _ in range(40)]
        n_cfg = 250 if quick else 2500
        for ci in range(n_cfg):
            text_t = gen_config_text(rng, pool, 12, ("cmd", "cmd", "cmd", "redirect", "after", "mcp", "after-mcp", "alias"))
            cfg = C.parse_config(sc.sub(text_t))
            wire = {k: rc.enc_rules(getattr(cfg, k)) for k in ("rules", "redirect_rules", "after_rules", "mcp_rules", "after_mcp_rules")}
            aliases = [[k, v] for k, v in cfg.aliases.items()]
            out.count("rules.len", len(cfg.rules))
            for kind_, inp_ in (("words", rng.choice(pool)), ("after", rng.choice(pool)), ("mcp", rng.choice(TOOLS)),
                                ("after_mcp", rng.choice(TOOLS)),
                                ("redirect", rng.choice(["out/a", "out/deep/b", "/tmp/x.log", "~/n/f", "src/main.py", "x.log"]))):
                mcase = {"matcher": kind_, "config": text_t, "input": inp_}
                matcher_case(mcase)
                out.case(mcase, nontrivial=len(getattr(cfg, FIELD[kind_])) >= 2)
            for _ in range(6):
                ws = [sc.sub(w) for w in (rng.choice(pool) if rng.random() < 0.7 else gen_words(rng))]
                if rng.random() < 0.1:
                    ws = ws + ["two words", "tab\there"]
                if rng.random() < 0.05:
                    ws = []
                remote = rng.random() < 0.15
                reds = [sc.sub(rng.choice(["out/a", "out/deep/b", "/tmp/x.log", "~/n/f", "src/main.py", "/dev/null", "../outside/secret"]))
                        for _ in range(rng.choice([0, 0, 1, 2]))]
                rec = len(xcheck) < 45 and ci % 11 == 0
                real = rc.real_match(rc.guarded(lambda: C._match_words(list(ws), cfg, cwd, remote=remote)))
                raw = mcall(["match_words", sc.cwd, remote, ws, wire["rules"], aliases], record=rec)
                mv = rc.dec_match(raw)
                if rec and model.transcript is not None and len(model.transcript) < 80:
                    xcheck.append((model.last_request, list(model.transcript), raw))
                out.case(["mw", text_t, ws, remote], nontrivial=len(cfg.rules) >= 2)
                out.count("match_words.result", real[0] if isinstance(real, tuple) else str(real))
                if mv != real:
                    disagree("Rules.match_words <-> config._match_words", {"config": text_t, "words": ws, "remote": remote}, mv, real)
                real = rc.real_match(rc.guarded(lambda: C.match_command(C.SimpleCommand(words=list(ws), redirects=list(reds)), cfg, cwd, remote=remote)))
                mv = rc.dec_match(mcall(["match_command", sc.cwd, remote, ws, reds, wire["rules"], wire["redirect_rules"], aliases]))
                out.case(["mc", text_t, ws, reds, remote], nontrivial=bool(reds))
                if mv == "unsupported":
                    out.count("match_command.result", "unsupported-by-model")
                else:
                    out.count("match_command.result", real[0] if isinstance(real, tuple) else str(real))
                    if mv != real:
                        disagree("Rules.match_command <-> config.match_command", {"config": text_t, "words": ws, "redirects": reds, "remote": remote}, mv, real)
                real = rc.guarded(lambda: C.match_after(list(ws), cfg, cwd))
                mv = mcall(["match_after", sc.cwd, ws, wire["after_rules"], aliases])
                mv = mv[0] if mv else None
                out.case(["ma", text_t, ws], nontrivial=len(cfg.after_rules) >= 1)
                out.count("match_after.result", "none" if real is None else "silent" if real == "" else "message")
                if mv != real:
                    disagree("Rules.match_after <-> config.match_after", {"config": text_t, "words": ws}, mv, real)
            for tool in TOOLS:
                real = rc.real_match(rc.guarded(lambda: C.match_mcp(tool, cfg)))
                mv = rc.dec_match(mcall(["match_mcp", tool, wire["mcp_rules"]]))
                out.case(["mcp", text_t, tool], nontrivial=len(cfg.mcp_rules) >= 1)
                out.count("match_mcp.result", real[0] if isinstance(real, tuple) else str(real))
                if mv != real:
                    disagree("Rules.match_mcp <-> config.match_mcp", {"config": text_t, "tool": tool}, mv, real)
                real = rc.guarded(lambda: C.match_after_mcp(tool, cfg))
                mv = mcall(["match_after_mcp", tool, wire["after_mcp_rules"]])
                mv = mv[0] if mv else None
                out.case(["amcp", text_t, tool], nontrivial=len(cfg.after_mcp_rules) >= 1)
                if mv != real:
                    disagree("Rules.match_after_mcp <-> config.match_after_mcp", {"config": text_t, "tool": tool}, mv, real)

        # ------------------------------------------------ C. oracles on the real code
        # systematic: every base x every wrapper form x (deny|ask|allow) x (literal | anchored | "base *")
        n_sys = 0
        for base in BASES:
            for form in (WRAPPERS if base in ENV_SYS_BASES else BASIC_FORMS):
                for dec in rc.VERDICTS:
                    for shape in ("lit", "anch", "star"):
                        words = [base, "a"] + (["]"] if base == "[" else [])
                        if shape == "anch":
                            pat = " ".join(words) + "|"
                        elif shape == "star":
                            pat = base + " *"
                        else:
                            pat = base
                        msg = ' "M-%s"' % dec if dec != "allow" else ""
                        case = {"config": f"{dec} {pat}{msg}", "words": words, "form": form}
                        oracle_case(case)
                        out.case(case)
                        n_sys += 1
        n_rand = 900 if quick else 12000
        for _ in range(n_rand):
            ws = rng.choice(pool) if rng.random() < 0.8 else gen_words(rng)
            case = {"config": gen_config_text(rng, pool + [ws], 12), "words": ws, "form": rng.choice(list(WRAPPERS))}
            oracle_case(case)
            out.case(case, nontrivial=case["config"].count("\n") >= 1)
            if len(out.samples) < 8:
                out.sample({"config": case["config"], "command": shell_text(WRAPPERS[case["form"]] + ws)})
        for _ in range(600 if quick else 8000):
            ws = rng.choice(pool) if rng.random() < 0.8 else gen_words(rng)
            k = rng.randint(1, len(ws))
            pat = rng.choice([" ".join(ws[:k]), " ".join(ws[:k]), ws[0][:max(1, len(ws[0]) - 1)], " ".join(ws) + " extra", gen_pattern(rng, pool)])
            case = {"pattern": pat.rstrip("|").rstrip(), "exact": rng.random() < 0.4, "words": ws}
            literal_case(case)
            out.case(case)

        # ------------------------------------------------ D. spelling families x rule kind x position x prefix form (analyze level)
        links = spell.scratch_links(sc)
        forms = list(WRAPPERS)
        n_spell = 0
        U = lambda x: spell.unsub(sc, x)
        files = spell.scratch_files(sc)
        fams = {n: [x for x in spell.family(pth, sc.cwd, sc.home, links, 1 if quick else 2) if spell.pathword(x)] for n, pth, _ in files}
        TPLS = spell.POSITIONS

        def emit(i, rule, tpl, pspell, qspell, same=True):
            nonlocal n_spell
            mode = (i // 5) % 4
            case = {"rule": rule, "dec": rc.VERDICTS[i % 3], "exact": mode == 1, "star": mode == 2, "msg": (i // 3) % 2 == 0,
                    "tpl": tpl if rule != "alias" else "name", "extra": 1 if mode == 3 else 0,
                    "p": [U(pspell)], "q": [U(qspell)], "same": same, "tail": None, "form": forms[(i * 3 + i // len(forms)) % len(forms)]}
            if i % 7 == 3 and rule == "command":
                case["sep"] = ("  ", "\t", " \t ")[(i // 7) % 3]
            spell_case(case)
            out.case(case, nontrivial=True)
            n_spell += 1

        for fi, (name, pth, _) in enumerate(files):
            fam = fams[name]
            other = fams[files[(fi + 1) % len(files)][0]]
            plain = [x for x in fam if "+" not in x.how]     # ., .., ~, ./x, ../x, x/y, /abs, ~/x, CWD/../x ...: the undecorated forms
            i = fi * 7
            # every undecorated form in the pattern x every undecorated form in the command x every position x every decision
            for pspell in plain:
                for qspell in plain:
                    for tpl in TPLS:
                        for _d in range(3 if tpl in ("arg1", "name", "arg2", "mid") else 1):
                            emit(i, "command", tpl, pspell, qspell)
                            i += 1
            # every member of the family in the pattern: every position, alias, redirect rule; partner, form, decision, anchor rotated
            for k, pspell in enumerate(fam):
                for t, tpl in enumerate(TPLS):
                    emit(i, "command", tpl, pspell, fam[(k * 7 + t * 3 + 1) % len(fam)])
                    i += 1
                emit(i, "alias", "name", pspell, fam[(k * 5 + 2) % len(fam)])
                emit(i + 1, "redirect", None, pspell, fam[(k * 3 + 4) % len(fam)])
                emit(i + 2, "command", TPLS[k % len(TPLS)], pspell, pspell)        # the pattern is the command's own text
                i += 3
            # every member of the family in the command
            for k, qspell in enumerate(fam):
                emit(i, "command", TPLS[k % len(TPLS)], fam[(k * 11 + 5) % len(fam)], qspell)
                emit(i + 1, ("alias", "redirect")[k % 2], "name", fam[(k * 13 + 6) % len(fam)], qspell)
                i += 2
                if k % 4 == 0:   # control: the command names another file - the rule must be inert
                    emit(i, ("command", "alias", "redirect")[k % 3], TPLS[k % len(TPLS)], fam[k], other[k % len(other)], same=False)
                    i += 1
            # two rules: the same file twice in different spellings (the later one decides), and a rule for another file
            # before / after the one that fires (inert)
            for k, pspell in enumerate(fam):
                q_ = fam[(k * 7 + 3) % len(fam)]
                p1 = fam[(k * 5 + 1) % len(fam)]
                o1 = other[(k * 3) % len(other)]
                rule = ("command", "redirect", "command")[k % 3]
                for first, same_main, pmain in (({"p": [U(p1)], "dec": rc.VERDICTS[(k + 1) % 3], "same": True}, True, pspell),
                                                ({"p": [U(o1)], "dec": rc.VERDICTS[(k + 2) % 3], "same": False}, True, pspell),
                                                ({"p": [U(pspell)], "dec": rc.VERDICTS[(k + 1) % 3], "same": True}, False, o1)):
                    mode = (i // 5) % 4
                    case = {"rule": rule, "dec": rc.VERDICTS[k % 3], "exact": mode == 1, "star": mode == 2, "msg": True, "tpl": TPLS[(k // 3) % len(TPLS)],
                            "extra": 1 if mode == 3 else 0, "p": [U(pmain)], "q": [U(q_)], "same": same_main, "tail": None,
                            "form": forms[(i * 3) % len(forms)], "first": first}
                    spell_case(case)
                    out.case(case, nontrivial=True)
                    n_spell += 1
                    i += 1
        out.extra["spelling_cases"] = n_spell

        n, mism = core.coq_crosscheck("C07", xcheck)
        out.extra["coq_vm_crosscheck"] = {"cases": n, "mismatches": len(mism)}
        if mism:
            out.disagreements.append({"correspondence": "extracted OCaml model <-> vm_compute in Coq", "detail": mism[:5]})
        out.extra["rule"] = (
            f"A: {n_fn} (pattern, name) pairs built from atoms biased to brackets/stars/newlines/escapes, 60% of the names "
            "instantiated from the pattern; B: rule lists of length 0-12 mixing literal/anchored/glob/path/'*'/unrelated "
            "patterns with messages, redirect/after/mcp/after-mcp/alias lines, x commands from a pool of 15 bases (bare, "
            "relative, ~, absolute) with path arguments, remote on/off, 0-2 redirect targets; C: systematic "
            f"{n_sys} = base x wrapper form (bare, X=1, A=b C=d, time, timeout 5, nice -n 3, nohup, command --, combos) x "
            "decision x pattern shape, then random rule lists x commands x forms; A2: pat_matches exhaustively (pattern atoms a b blank * ? [a] [!a] ' *', "
            f"<= 3 atoms; text atoms a b blank *, <= 4 atoms; anchored or not: {out.extra.get('pat_matches_cases')} cases); D: {out.extra.get('spelling_cases')} "
            "spelling cases = 15 files (cwd, parent, grandparent, home, /, directory, file, missing, outside, under home, system, through a link) x "
            "every spelling of the family in the pattern and in the command (undecorated forms fully crossed) x 8 pattern positions x command "
            "rule / alias / redirect rule x decision x message x anchor / ' *' / extra word x 35 prefix forms (rotated), two-rule lists, "
            "other-file controls. distinct = distinct canonical inputs; "
            "non-trivial = a glob metacharacter in the pattern (A), >= 2 rules (B, C)")
        return out
    finally:
        model.close()
        sc.close()
