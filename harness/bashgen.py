"""Structured generator of bash programs with known constituents.

A generated program is a Prog(text, parts): `parts` are the complete simple
commands / redirect targets that make it up, each an Atom with a verdict class
that is *measured on the implementation* at the start of the run (never assumed).
Everything derives from one random.Random.
"""
from __future__ import annotations

import itertools
import random
from dataclasses import dataclass, field

CONFIG_TEXT = """\
deny zap "NOZAP"
allow okcmd
ask askcmd "ASKMSG"
allow-redirect /jail/out/*
deny-redirect /jail/secret/* "NOSECRET"
ask-redirect /jail/askme/*
"""
CWD = "/jail"

ORDER = {"allow": 0, "ask": 1, "deny": 2}


def vmax(vs):
    best = "allow"
    for v in vs:
        if ORDER[v] > ORDER[best]:
            best = v
    return best


@dataclass(frozen=True)
class Atom:
    text: str
    cls: str  # allow | ask | deny  (expected; verified against the implementation by measure())
    kind: str = "cmd"  # cmd | redirect


ALLOW_CMDS = ["ls", "echo hi", "pwd", "git status", "okcmd a", "cat f", "true"]
ASK_CMDS = ["rm x", "git push", "frobnicate a", "askcmd", "chmod 777 f"]
DENY_CMDS = ["zap", "zap a b"]

ALLOW_REDIR = ["/jail/out/f", "out/g", "/dev/null"]
ASK_REDIR = ["/jail/other", "nogrant", "/jail/askme/x"]
DENY_REDIR = ["/jail/secret/s", "secret/t"]


def atoms_cmd():
    return ([Atom(t, "allow") for t in ALLOW_CMDS] + [Atom(t, "ask") for t in ASK_CMDS]
            + [Atom(t, "deny") for t in DENY_CMDS])


def atoms_redir():
    return ([Atom(t, "allow", "redirect") for t in ALLOW_REDIR] + [Atom(t, "ask", "redirect") for t in ASK_REDIR]
            + [Atom(t, "deny", "redirect") for t in DENY_REDIR])


@dataclass
class Prog:
    text: str
    parts: list = field(default_factory=list)  # list[Atom]
    shape: str = "atom"

    def expected(self):
        return vmax(a.cls for a in self.parts)


def atom_prog(a: Atom) -> Prog:
    return Prog(a.text, [a], "atom")


# --------------------------------------------------------------------------- constructors
# Each constructor takes sub-programs and returns the composed program; `name` is recorded
# in the input distribution.  Only constructs listed by C03 (exact composition) are here;
# bashgen_ext adds the other evaluation positions for C01.

def c_list(op, ps):
    sep = {";": "; ", "&&": " && ", "||": " || ", "&": " & ", "\n": "\n"}[op]
    return Prog(sep.join(p.text for p in ps), sum((p.parts for p in ps), []), f"list{op!r}")


def c_pipe(ps):
    return Prog(" | ".join(p.text for p in ps), sum((p.parts for p in ps), []), "pipeline")


def c_subshell(p):
    return Prog(f"( {p.text} )", p.parts, "subshell")


def c_brace(p):
    return Prog(f"{{ {p.text}; }}", p.parts, "brace")


def c_not(p):
    return Prog(f"! {p.text}", p.parts, "negation")


def c_time(p):
    return Prog(f"time {p.text}", p.parts, "time")


def c_if(cond, thn, elifs=(), els=None):
    t = f"if {cond.text}; then {thn.text}; "
    parts = cond.parts + thn.parts
    for c, b in elifs:
        t += f"elif {c.text}; then {b.text}; "
        parts = parts + c.parts + b.parts
    if els is not None:
        t += f"else {els.text}; "
        parts = parts + els.parts
    return Prog(t + "fi", parts, "if" + ("+elif" if elifs else "") + ("+else" if els else ""))


def c_while(kw, cond, body):
    return Prog(f"{kw} {cond.text}; do {body.text}; done", cond.parts + body.parts, kw)


def c_for(body, words="a b"):
    return Prog(f"for v in {words}; do {body.text}; done", body.parts, "for")


def _sub(text):
    # "$((" would start an arithmetic expansion: keep command substitution of a subshell apart
    return f"$( {text} )" if text.startswith("(") else f"$({text})"


def c_for_sub(sub, body):
    return Prog(f"for v in {_sub(sub.text)}; do {body.text}; done", sub.parts + body.parts, "for+cmdsub")


def c_case(arms, term=";;"):
    t = "case $v in "
    parts = []
    for i, a in enumerate(arms):
        t += f"p{i}) {a.text} {term} "
        parts += a.parts
    return Prog(t + "esac", parts, "case")


def c_function(p, style=0):
    if style == 0:
        return Prog(f"fn() {{ {p.text}; }}", p.parts, "function")
    return Prog(f"function fn {{ {p.text}; }}", p.parts, "function")


def c_cmdsub_arg(outer, p, quoted=False):
    s = _sub(p.text)
    if quoted:
        s = f'"pre {s} post"'
    return Prog(f"{outer} {s}", p.parts + [Atom(outer, "allow")], "cmdsub-arg")


def c_procsub_arg(outer, p, direction="<"):
    return Prog(f"{outer} {direction}({p.text})", p.parts + [Atom(outer, "allow")], "procsub-arg")


def c_redirect(p_atom: Atom, target: Atom, op=">"):
    # the redirect constituent is "<op> <target>": measured alone as `echo <op> <target>`
    return Prog(f"{p_atom.text} {op} {target.text}", [p_atom, Atom(f"{op} {target.text}", target.cls, "redirect")],
                "redirect")


def c_compound_redirect(p: Prog, target: Atom, op=">"):
    """A compound command (p must be one: group, subshell, if, loop, case) carrying its own redirect."""
    red = Atom(f"{op} {target.text}", target.cls, "redirect")
    return Prog(f"{p.text} {red.text}", p.parts + [red], p.shape + "+redirect")


COMPOUND_SHAPES = ("subshell", "brace", "if", "if+else", "if+elif", "if+elif+else", "while", "until", "for", "for+cmdsub", "case")

SAFE_OUTERS = ["echo", "cat", "ls"]
LIST_OPS = [";", "&&", "||", "&", "\n"]


def rand_prog(rng: random.Random, depth: int, cmds, redirs, simple_only=False) -> Prog:
    """A random composition to the given depth over the atom pools."""
    if depth <= 0 or rng.random() < 0.18:
        a = rng.choice(cmds)
        r = rng.random()
        if r < 0.25:
            return c_redirect(a, rng.choice(redirs), rng.choice([">", ">>", "2>", "&>"]))
        return atom_prog(a)
    sub = lambda: rand_prog(rng, depth - 1, cmds, redirs)
    k = rng.randrange(17)
    if k >= 15:
        p = sub()
        if p.shape in COMPOUND_SHAPES:
            return c_compound_redirect(p, rng.choice(redirs), rng.choice([">", ">>", "2>", "&>"]))
        return c_compound_redirect(c_brace(p) if k == 15 else c_subshell(p), rng.choice(redirs), rng.choice([">", ">>"]))
    if k == 0:
        return c_list(rng.choice(LIST_OPS), [sub() for _ in range(rng.randint(2, 4))])
    if k == 1:
        return c_pipe([sub_simple(rng, depth - 1, cmds, redirs) for _ in range(rng.randint(2, 3))])
    if k == 2:
        return c_subshell(sub())
    if k == 3:
        return c_brace(sub())
    if k == 4:
        return c_not(sub_simple(rng, depth - 1, cmds, redirs))
    if k == 5:
        return c_time(sub_simple(rng, depth - 1, cmds, redirs))
    if k == 6:
        elifs = [(sub(), sub()) for _ in range(rng.randint(0, 2))]
        return c_if(sub(), sub(), elifs, sub() if rng.random() < 0.5 else None)
    if k == 7:
        return c_while(rng.choice(["while", "until"]), sub(), sub())
    if k == 8:
        return c_for(sub())
    if k == 9:
        return c_for_sub(sub(), sub())
    if k == 10:
        return c_case([sub() for _ in range(rng.randint(1, 3))], rng.choice([";;", ";&", ";;&"]))
    if k == 11:
        return c_function(sub(), rng.randrange(2))
    if k == 12:
        return c_cmdsub_arg(rng.choice(SAFE_OUTERS), sub(), rng.random() < 0.4)
    if k == 13:
        return c_procsub_arg(rng.choice(SAFE_OUTERS), sub(), rng.choice("<>"))
    return c_list(";", [sub(), sub()])


def sub_simple(rng, depth, cmds, redirs):
    """A pipeline stage / operand of ! and time: a command-like program (no bare list)."""
    p = rand_prog(rng, depth, cmds, redirs)
    if p.shape.startswith("list") or p.shape in ("negation", "time", "pipeline"):
        return c_subshell(p) if rng.random() < 0.5 else c_brace(p)
    return p


def systematic(cmds_by_cls):
    """Every composition constructor x every multiset of <=3 verdict classes (one atom per class,
    rotating through the pool), plus every ordering of command/redirect/substitution inside one
    simple command."""
    out = []
    classes = ["allow", "ask", "deny"]
    pick_i = itertools.count()

    def pick(cls):
        pool = cmds_by_cls[cls]
        return atom_prog(pool[next(pick_i) % len(pool)])

    for n in (1, 2, 3):
        for combo in itertools.product(classes, repeat=n):
            ps = [pick(c) for c in combo]
            if n >= 2:
                for op in LIST_OPS:
                    out.append(c_list(op, [pick(c) for c in combo]))
                out.append(c_pipe([pick(c) for c in combo]))
                out.append(c_case([pick(c) for c in combo]))
            if n == 1:
                p = ps[0]
                out += [c_subshell(p), c_brace(pick(combo[0])), c_not(pick(combo[0])), c_time(pick(combo[0])),
                        c_for(pick(combo[0])), c_function(pick(combo[0]), 0), c_function(pick(combo[0]), 1),
                        c_cmdsub_arg("echo", pick(combo[0])), c_cmdsub_arg("echo", pick(combo[0]), True),
                        c_procsub_arg("cat", pick(combo[0])), c_procsub_arg("ls", pick(combo[0]), ">")]
            if n == 2:
                out.append(c_while("while", pick(combo[0]), pick(combo[1])))
                out.append(c_while("until", pick(combo[0]), pick(combo[1])))
                out.append(c_for_sub(pick(combo[0]), pick(combo[1])))
                out.append(c_if(pick(combo[0]), pick(combo[1])))
            if n == 3:
                out.append(c_if(pick(combo[0]), pick(combo[1]), (), pick(combo[2])))
                out.append(c_if(pick(combo[0]), pick(combo[1]), [(pick(combo[2]), pick(combo[0]))], None))
    return out


def compound_redirects(cmds_by_cls, redir_by_cls):
    """Every compound shape carrying a redirect of each class, placed at every constituent position of
    every composition constructor (so that a constructor which forgets a constituent's own redirects
    shows up)."""
    out = []
    i = itertools.count()
    allow = cmds_by_cls["allow"]

    def a():
        return atom_prog(allow[next(i) % len(allow)])

    shapes = [lambda: c_brace(a()), lambda: c_subshell(a()), lambda: c_if(a(), a()), lambda: c_if(a(), a(), (), a()),
              lambda: c_if(a(), a(), [(a(), a())], None), lambda: c_while("while", a(), a()), lambda: c_while("until", a(), a()),
              lambda: c_for(a()), lambda: c_case([a(), a()])]
    for cls in ("allow", "ask", "deny"):
        for mk in shapes:
            red = redir_by_cls[cls][next(i) % len(redir_by_cls[cls])]
            def x():
                return c_compound_redirect(mk(), red)
            places = [
                x(), c_list(";", [a(), x()]), c_list("&&", [x(), a()]), c_pipe([x(), a()]), c_pipe([a(), x()]), c_subshell(x()), c_brace(x()),
                c_not(x()), c_time(x()), c_if(x(), a()), c_if(a(), x()), c_if(a(), a(), (), x()), c_if(a(), a(), [(x(), a())], None),
                c_if(a(), a(), [(a(), x())], None), c_if(a(), a(), [(a(), a())], x()), c_while("while", x(), a()), c_while("while", a(), x()),
                c_while("until", a(), x()), c_for(x()), c_for_sub(x(), a()), c_for_sub(a(), x()), c_case([a(), x()]), c_case([x()]),
                c_function(x(), 0), c_cmdsub_arg("echo", x()), c_procsub_arg("cat", x()),
            ]
            out += places
    return out


def simple_command_orders(cmds_by_cls, redir_by_cls):
    """One simple command carrying the command proper, a redirect and substitutions with every
    combination of verdict classes, in every order of appearance."""
    out = []
    classes = ["allow", "ask", "deny"]
    i = itertools.count()
    for cc, rc, sc, sc2 in itertools.product(classes, classes, classes, classes):
        # command proper must be a safe outer for the substitution law, so "proper" class is
        # carried by a second substitution when it is not allow
        subA = cmds_by_cls[sc][next(i) % len(cmds_by_cls[sc])]
        subB = cmds_by_cls[sc2][next(i) % len(cmds_by_cls[sc2])]
        red = redir_by_cls[rc][next(i) % len(redir_by_cls[rc])]
        red = Atom(f"> {red.text}", red.cls, "redirect")
        pieces = [f"$({subA.text})", red.text, f"<({subB.text})"]
        for perm in itertools.permutations(pieces):
            text = "echo " + " ".join(perm)
            out.append(Prog(text, [Atom("echo", "allow"), subA, subB, red], "simple-order"))
        if cc != "allow":
            proper = cmds_by_cls[cc][next(i) % len(cmds_by_cls[cc])]
            out.append(Prog(f"{proper.text} {red.text}", [proper, red], "proper+redirect"))
            out.append(Prog(f"{red.text} {proper.text}", [proper, red], "redirect+proper"))
    return out
