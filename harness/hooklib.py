"""Shared machinery for the hook properties (C06, C12, C14 routing, C19):

* Scratch      - scratch HOME / project trees (one per distinct config text, so cases can run in parallel)
* Case         - one process run: stdin bytes, flags, DIPPY_* variables, configs, fault, io variant
* run_cases    - run the REAL hook (subprocess of <REPO>/bin/dippy-hook, or the fault wrapper) in parallel
* model_main   - run the Coq model of main() with oracle answers taken from the real functions (in-process)
* host readers - decode / schema per host, written from docs/hook-systems/*.md (model-free)
"""
from __future__ import annotations

import dataclasses
import fnmatch
import json
import os
import shutil
import subprocess
import sys
import tempfile
from concurrent.futures import ThreadPoolExecutor
from dataclasses import dataclass, field
from pathlib import Path

from . import lib

PY = "/venv/bin/python"
HERE = os.path.dirname(os.path.abspath(__file__))
DUCK = "\U0001F424 "
BYPASS = ("bypassPermissions", "dontAsk")
SHELL_TOOLS = ("Bash", "shell", "run_shell", "run_shell_command", "execute_shell")
GEMINI_ALIASES = ("shell", "run_shell", "run_shell_command", "execute_shell")
MODES = ("claude", "gemini", "cursor")


# ---------------------------------------------------------------- scratch trees
class Scratch:
    def __init__(self):
        self.root = tempfile.mkdtemp(prefix="dippy-verif-")
        self._homes = {}
        self._projs = {}
        self._files = {}
        self.n = 0

    def close(self):
        shutil.rmtree(self.root, ignore_errors=True)

    def home(self, user_cfg: str | None) -> str:
        """A HOME whose ~/.dippy/config has the given text (None: no file)."""
        if user_cfg not in self._homes:
            self.n += 1
            h = os.path.join(self.root, f"h{self.n}")
            os.makedirs(os.path.join(h, ".dippy"))
            if user_cfg is not None:
                with open(os.path.join(h, ".dippy", "config"), "w", encoding="utf-8") as f:
                    f.write(user_cfg)
            self._homes[user_cfg] = h
        return self._homes[user_cfg]

    def proj(self, proj_cfg: str | None) -> str:
        """A working directory <root>/pN/work whose project config <root>/pN/.dippy has the given text."""
        if proj_cfg not in self._projs:
            self.n += 1
            p = os.path.join(self.root, f"p{self.n}")
            os.makedirs(os.path.join(p, "work", "sub"))
            if proj_cfg is not None:
                with open(os.path.join(p, ".dippy"), "w", encoding="utf-8") as f:
                    f.write(proj_cfg)
            self._projs[proj_cfg] = os.path.join(p, "work")
        return self._projs[proj_cfg]

    def file(self, data: bytes) -> str:
        if data not in self._files:
            self.n += 1
            p = os.path.join(self.root, f"f{self.n}")
            with open(p, "wb") as f:
                f.write(data)
            self._files[data] = p
        return self._files[data]


# ---------------------------------------------------------------- a case
@dataclass
class Case:
    data: bytes                      # stdin
    label: str = ""
    flags: tuple = ()                # --claude / --gemini / --cursor
    env: dict = field(default_factory=dict)   # DIPPY_CLAUDE/GEMINI/CURSOR
    user_cfg: str | None = None
    proj_cfg: str | None = None
    env_cfg: str | None = None       # path for DIPPY_CONFIG (e.g. /proc/self/mem for a read error)
    fault: tuple | None = None       # (target, exception class name)
    io: str = "default"              # default | ascii (PYTHONIOENCODING=ascii) | strict (utf-8:strict)
    cwd_gone: bool = False           # start the process in a directory that no longer exists
    # filled by run
    out: bytes = b""
    err: bytes = b""
    rc: int | None = None

    def key(self):
        return [self.data.decode("latin-1"), list(self.flags), sorted(self.env.items()), self.user_cfg,
                self.proj_cfg, self.env_cfg, self.fault, self.io, self.cwd_gone]

    def to_json(self):
        """Everything needed to run the case again.  Scratch paths inside the data are kept as a
        placeholder so that a replay can allocate its own scratch tree."""
        return {"data_latin1": self.data.decode("latin-1"), "label": self.label, "flags": list(self.flags),
                "env": self.env, "user_cfg": self.user_cfg, "proj_cfg": self.proj_cfg, "env_cfg": self.env_cfg,
                "fault": list(self.fault) if self.fault else None, "io": self.io, "cwd_gone": self.cwd_gone}

    @staticmethod
    def from_json(d, remap=None):
        data = d["data_latin1"].encode("latin-1")
        if remap:
            for old, new in remap.items():
                data = data.replace(old.encode(), new.encode())
        return Case(data, label=d.get("label", "replay"), flags=tuple(d.get("flags", ())), env=d.get("env", {}),
                    user_cfg=d.get("user_cfg"), proj_cfg=d.get("proj_cfg"), env_cfg=d.get("env_cfg"),
                    fault=tuple(d["fault"]) if d.get("fault") else None, io=d.get("io", "default"),
                    cwd_gone=d.get("cwd_gone", False))


def child_env(sc: Scratch, c: Case) -> dict:
    env = {"HOME": sc.home(c.user_cfg), "PATH": "/usr/bin:/bin", "PYTHONHASHSEED": "0"}
    env.update(c.env)
    if c.env_cfg is not None:
        env["DIPPY_CONFIG"] = c.env_cfg
    if c.io == "ascii":
        env["PYTHONIOENCODING"] = "ascii"
    elif c.io == "strict":
        env["PYTHONIOENCODING"] = "utf-8:strict"
    return env


def run_one(sc: Scratch, c: Case, timeout=120) -> Case:
    if c.fault:
        cmd = [PY, os.path.join(HERE, "hook_fault.py"), lib.REPO, c.fault[0], c.fault[1], *c.flags]
    else:
        cmd = [PY, os.path.join(lib.REPO, "bin", "dippy-hook"), *c.flags]
    cwd = sc.proj(c.proj_cfg)
    pre = None
    if c.cwd_gone:
        gone = tempfile.mkdtemp(prefix="gone-", dir=sc.root)
        cwd = gone
        # the directory is removed after the child has started in it
        cmd = ["/bin/sh", "-c", 'rmdir "$PWD"; exec "$@"', "sh", *cmd]
    try:
        p = subprocess.run(cmd, input=c.data, capture_output=True, cwd=cwd, env=child_env(sc, c), timeout=timeout)
        c.out, c.err, c.rc = p.stdout, p.stderr, p.returncode
    except subprocess.TimeoutExpired as e:
        c.out, c.err, c.rc = e.stdout or b"", (e.stderr or b"") + b"\n[harness] TIMEOUT", -999
    return c


def run_cases(sc: Scratch, cases: list[Case], workers=12) -> list[Case]:
    # allocate scratch trees serially (the cache is not thread-safe)
    for c in cases:
        sc.home(c.user_cfg)
        sc.proj(c.proj_cfg)
    with ThreadPoolExecutor(max_workers=workers) as ex:
        return list(ex.map(lambda c: run_one(sc, c), cases))


# ---------------------------------------------------------------- reading the process result
def parse_stdout(out: bytes):
    """-> list of ('J', value) | ('T', text): one item per output line."""
    items = []
    text = out.decode("utf-8", "surrogateescape")
    for line in text.split("\n"):
        if line == "":
            continue
        try:
            items.append(("J", json.loads(line)))
        except ValueError:
            items.append(("T", line))
    return items


def has_traceback(c: Case) -> bool:
    return b"Traceback" in c.err


# host-side readers, written from docs/hook-systems/{claude-code-hooks,gemini-cli-hooks,cursor-hooks}.md
VOCAB = ("allow", "ask", "deny")


def host_decode(mode: str, obj):
    """What the host reads: (verdict, reason without the duck) or None when the host sees no decision."""
    if not isinstance(obj, dict):
        return None
    if mode == "claude":
        h = obj.get("hookSpecificOutput")
        if not isinstance(h, dict):
            return None
        v, r = h.get("permissionDecision"), h.get("permissionDecisionReason")
    elif mode == "gemini":
        v, r = obj.get("decision"), obj.get("reason")
    else:
        v, r = obj.get("permission"), obj.get("user_message")
    if v not in VOCAB or not isinstance(r, str):
        return None
    return (v, r[len(DUCK):] if r.startswith(DUCK) else r)


def host_schema_errors(mode: str, obj) -> list[str]:
    """Exact key set and value vocabulary per host. {} is 'no opinion' for every host."""
    if obj == {}:
        return []
    if not isinstance(obj, dict):
        return ["not an object"]
    errs = []

    def want(d, keys, where):
        if set(d) != set(keys):
            errs.append(f"{where}: keys {sorted(d)} != {sorted(keys)}")

    if mode == "claude":
        want(obj, ["hookSpecificOutput"], "top")
        h = obj.get("hookSpecificOutput")
        if not isinstance(h, dict):
            return errs + ["hookSpecificOutput is not an object"]
        want(h, ["hookEventName", "permissionDecision", "permissionDecisionReason"], "hookSpecificOutput")
        if h.get("hookEventName") != "PreToolUse":
            errs.append("hookEventName != PreToolUse")
        if h.get("permissionDecision") not in VOCAB:
            errs.append(f"permissionDecision {h.get('permissionDecision')!r}")
        if not isinstance(h.get("permissionDecisionReason"), str):
            errs.append("permissionDecisionReason is not a string")
    elif mode == "gemini":
        want(obj, ["decision", "reason"], "top")
        if obj.get("decision") not in VOCAB:
            errs.append(f"decision {obj.get('decision')!r}")
        if not isinstance(obj.get("reason"), str):
            errs.append("reason is not a string")
    else:
        want(obj, ["permission", "user_message", "agent_message", "userMessage", "agentMessage"], "top")
        if obj.get("permission") not in VOCAB:
            errs.append(f"permission {obj.get('permission')!r}")
        msgs = [obj.get(k) for k in ("user_message", "agent_message", "userMessage", "agentMessage")]
        if not all(isinstance(m, str) for m in msgs):
            errs.append("a message field is not a string")
        elif len(set(msgs)) != 1:
            errs.append("message fields differ")
    return errs


def envelope_mode(obj):
    """Which host's envelope is this (by its top-level keys)."""
    if not isinstance(obj, dict) or not obj:
        return None
    if "hookSpecificOutput" in obj:
        return "claude"
    if "permission" in obj:
        return "cursor"
    if "decision" in obj:
        return "gemini"
    return "?"


def any_decision(obj):
    """(mode, verdict, reason) if the object is a decision envelope of any host."""
    m = envelope_mode(obj)
    if m in MODES:
        d = host_decode(m, obj)
        if d:
            return (m, d[0], d[1])
        return (m, "?", None)
    return None


# ---------------------------------------------------------------- expected mode (model-free restatement of C12_mode)
def truthy_env(v):
    return v is not None and v.lower() in ("1", "true", "yes")


def expected_mode(c: Case, value) -> str | None:
    """Flag/env precedence claude > gemini > cursor, else the shape rule.  None when undetermined."""
    for m in MODES:
        if f"--{m}" in c.flags or truthy_env(c.env.get(f"DIPPY_{m.upper()}")):
            return m
    if not isinstance(value, dict):
        return None
    if "command" in value and "tool_name" not in value:
        return "cursor"
    if value.get("tool_name") in GEMINI_ALIASES and isinstance(value.get("tool_name"), str):
        return "gemini"
    return "claude"


# ---------------------------------------------------------------- python value -> model json
def jsx(v):
    if v is None:
        return ["null"]
    if isinstance(v, bool):
        return ["bool", v]
    if isinstance(v, (int, float)):
        return ["num", bool(v)]
    if isinstance(v, str):
        return ["str", v]
    if isinstance(v, list):
        return ["arr"] + [jsx(x) for x in v]
    if isinstance(v, dict):
        return ["obj"] + [[k, jsx(x)] for k, x in v.items()]
    raise TypeError(type(v))


def enc_iter(x) -> str:
    """lib.enc without recursion (CPython 3.12 has a fixed C-recursion limit that nested
    join/generator calls hit at a JSON depth of a few hundred)."""
    out = []
    stack = [x]
    CLOSE = object()
    while stack:
        v = stack.pop()
        if v is CLOSE:
            out.append(") ")
        elif isinstance(v, bool):
            out.append("a49 " if v else "a48 ")
        elif isinstance(v, str):
            out.append("a" + ",".join([str(ord(ch)) for ch in v]) + " ")
        elif v is None:
            out.append("() ")
        elif isinstance(v, (list, tuple)):
            out.append("(")
            stack.append(CLOSE)
            for y in reversed(v):
                stack.append(y)
        else:
            raise TypeError(type(v))
    return "".join(out).replace(" )", ")").strip()


def call_model(model, request, oracles, record=False):
    """lib.Model.call with the request encoded iteratively."""
    text = enc_iter(request)
    model.last_request = text
    if record:
        model.transcript = []
    p = model.p
    p.stdin.write(text + "\n")
    p.stdin.flush()
    while True:
        line = p.stdout.readline()
        if not line:
            raise lib.ModelError("model process died")
        line = line.rstrip("\n")
        if line.startswith("?"):
            qv = lib.dec(line[1:])
            name, args = qv[0], qv[1:]
            if name not in oracles:
                raise lib.ModelError(f"no oracle for {name}")
            ans = lib.enc(oracles[name](*args))
            if record:
                model.transcript.append((line[1:], ans))
            p.stdin.write(ans + "\n")
            p.stdin.flush()
        elif line.startswith("="):
            return lib.dec(line[1:])
        else:
            raise lib.ModelError(f"model error: {line}")


def unjsx(x):
    tag = x[0]
    if tag == "null":
        return None
    if tag == "bool":
        return x[1] == "1"
    if tag == "num":
        return 1 if x[1] == "1" else 0
    if tag == "str":
        return x[1]
    if tag == "arr":
        return [unjsx(y) for y in x[1:]]
    if tag == "obj":
        return {kv[0]: unjsx(kv[1]) for kv in x[1:]}
    raise ValueError(tag)


def exc_name(e: BaseException) -> str:
    """Exception -> the model's class name (the nearest class the model distinguishes)."""
    from dippy.core.config import ConfigError

    if isinstance(e, ConfigError):
        return "ConfigError"
    if isinstance(e, json.JSONDecodeError):
        return "JSONDecodeError"
    for cls in (RecursionError, MemoryError, UnicodeError, AttributeError, TypeError, KeyError, OSError,
                ValueError, RuntimeError):
        if isinstance(e, cls):
            return cls.__name__
    return type(e).__name__


def res_call(f, conv=lambda x: x):
    try:
        return ["ok", conv(f())]
    except Exception as e:  # noqa: BLE001 - the model distinguishes Exception subclasses only
        return ["raise", exc_name(e), str(e) if exc_name(e) == "ConfigError" else ""]


def read_stdin(c: Case):
    """json.load(sys.stdin) as the child does it: -> ('ok', value) | ('raise', name)."""
    errors = "strict" if c.io == "strict" else "surrogateescape"
    enc = "ascii" if c.io == "ascii" else "utf-8"
    try:
        return ("ok", json.loads(c.data.decode(enc, errors)))
    except Exception as e:  # noqa: BLE001
        return ("raise", exc_name(e))


# ---------------------------------------------------------------- the model of main() with real oracles
class HookModel:
    def __init__(self, sc: Scratch):
        lib.use_repo()
        self.sc = sc
        self.model = lib.Model()
        self.cfgs = {}

    def close(self):
        self.model.close()

    def restart(self):
        self.model.close()
        self.model = lib.Model()

    def _rules(self, rules):
        return [[r.decision, r.pattern, lib.opt(r.message), bool(r.exact)] for r in rules]

    def oracles(self, c: Case):
        from dippy.core import analyzer as an
        from dippy.core import config as cf
        from dippy.core import parser as ps

        sc = self.sc
        fault = c.fault
        proc_cwd = sc.proj(c.proj_cfg)

        def injected(name):
            return fault is not None and fault[0] == name

        def raise_injected():
            return ["raise", fault[1], "injected fault"]

        def under_fault(f):
            """a "module:function" fault (harness/c06.py fault_sweep) is in force while the REAL function answers the model"""
            if not (fault and ":" in fault[0]):
                return f

            def w(*a):
                from . import hook_fault
                undo = hook_fault.install(fault[0], fault[1])
                try:
                    return f(*a)
                finally:
                    undo()
            return w

        def resolve(s):
            def f():
                old = os.getcwd()
                if c.cwd_gone:
                    gone = tempfile.mkdtemp(prefix="gone-", dir=sc.root)
                    os.chdir(gone)
                    os.rmdir(gone)
                else:
                    os.chdir(proc_cwd)
                try:
                    return str(Path(s).resolve())
                finally:
                    os.chdir(old)
            return res_call(f)

        def getcwd():
            if c.cwd_gone:
                return ["raise", "OSError", ""]
            return ["ok", proc_cwd]

        def load_config(cwd):
            if injected("load_config"):
                return raise_injected()

            def f():
                return real_load_config(sc, c, cwd)

            def conv(cfg):
                cid = f"cfg{len(self.cfgs)}"
                self.cfgs[cid] = cfg
                return [cid, self._rules(cfg.mcp_rules), self._rules(cfg.after_rules),
                        self._rules(cfg.after_mcp_rules), cid]
            return res_call(f, conv)

        def shell_only(cid):
            return dataclasses.replace(self.cfgs[cid], mcp_rules=[], after_rules=[], after_mcp_rules=[])

        def configure_logging(cid):
            if injected("configure_logging"):
                return raise_injected()
            return res_call(lambda: cf.configure_logging(self.cfgs[cid]), lambda _: [])

        def log_decision(d, cmd):
            if injected("log_decision"):
                return raise_injected()
            return res_call(lambda: cf.log_decision(d, cmd), lambda _: [])

        def analyze(s, cid, cwd):
            if injected("analyze"):
                return raise_injected()
            undo = None
            if fault and (fault[0] in ("parse", "get_handler", "match_command", "match_redirect") or ":" in fault[0]):
                from . import hook_fault
                undo = hook_fault.install(fault[0], fault[1])
            try:
                return res_call(lambda: an.analyze(s, shell_only(cid), Path(cwd)), lambda d: [d.action, d.reason])
            finally:
                if undo:
                    undo()

        def gmatch(n, p):
            return fnmatch.fnmatch(n, p)

        def words(s):
            if injected("tokenize"):
                # tokenize() itself replaced: the model's o_words is total, handled by the caller
                return []
            return ps.tokenize(s)

        def after_prep(cid, cwd, ws):
            if injected("match_after") or injected("tokenize"):
                return raise_injected()
            cfg = dataclasses.replace(shell_only(cid), after_rules=[])
            return res_call(lambda: cf.match_after(list(ws), cfg, Path(cwd)), lambda _: [])

        def after_rule(cid, cwd, ws, r):
            rule = cf.Rule(r[0], r[1], message=(r[2][0] if r[2] else None), exact=(r[3] == "1"))
            cfg = dataclasses.replace(shell_only(cid), after_rules=[rule])
            return res_call(lambda: cf.match_after(list(ws), cfg, Path(cwd)) is not None)

        def print_(s):
            if c.io == "ascii":
                return ["raise", "UnicodeError", ""]
            return ["ok", []]

        return {"resolve": resolve, "getcwd": getcwd, "load_config": under_fault(load_config),
                "configure_logging": under_fault(configure_logging), "log_decision": under_fault(log_decision), "analyze": analyze,
                "gmatch": gmatch, "words": words, "after_prep": after_prep, "after_rule": after_rule,
                "print": print_}

    def main(self, c: Case, record=False):
        """-> (items, exit, traceback) ; items = [('J', value) | ('T', text)]"""
        kind, v = read_stdin(c)
        limit0 = sys.getrecursionlimit()
        sys.setrecursionlimit(50000)
        try:
            stdin = ["ok", jsx(v)] if kind == "ok" else ["raise", v, ""]
        finally:
            sys.setrecursionlimit(limit0)
        argv = ["dippy-hook", *c.flags]
        envs = [lib.opt(c.env.get(f"DIPPY_{m.upper()}")) for m in MODES]
        req = ["hook_main", ["ok", []], argv, *envs, stdin]
        old = os.getcwd()
        # deeply nested JSON values need a deeper Python stack to be ENCODED for the model; the real
        # functions answering the oracle queries keep running under the interpreter's own limit
        limit = sys.getrecursionlimit()

        def limited(f):
            def w(*a):
                sys.setrecursionlimit(limit)
                try:
                    return f(*a)
                finally:
                    sys.setrecursionlimit(50000)
            return w

        try:
            orcs = {k: limited(f) for k, f in self.oracles(c).items()}
            sys.setrecursionlimit(50000)
            r = call_model(self.model, req, orcs, record=record)
            self.last_raw = r
        finally:
            sys.setrecursionlimit(limit)
            os.chdir(old)
        items = []
        for it in r[0]:
            items.append(("J", unjsx(it[1])) if it[0] == "J" else ("T", it[1]))
        return items, int(r[1]), r[2] == "1"


def canon_items(items, mode_hint=None):
    """Items -> comparable form: decisions as (verdict, reason), wording owned by main() dropped."""
    out = []
    for kind, v in items:
        if kind == "T":
            out.append(("T", v))
            continue
        d = any_decision(v)
        if d is None:
            out.append(("J", json.dumps(v, sort_keys=True)))
        else:
            m, verdict, reason = d
            if reason is not None and (reason.startswith("config error") or (reason.startswith("[") and reason.endswith("]"))):
                reason = "<wording>"
            out.append(("D", m, verdict, reason, tuple(sorted(v))))
    return out


def real_load_config(sc: Scratch, c: Case, cwd: str):
    """load_config as the child process sees it (same HOME, same DIPPY_CONFIG), in-process."""
    from dippy.core import config as cf

    old_uc, old_env = cf.USER_CONFIG, os.environ.get("DIPPY_CONFIG")
    cf.USER_CONFIG = Path(sc.home(c.user_cfg)) / ".dippy" / "config"
    if c.env_cfg is not None:
        os.environ["DIPPY_CONFIG"] = c.env_cfg
    else:
        os.environ.pop("DIPPY_CONFIG", None)
    try:
        return cf.load_config(Path(cwd))
    finally:
        cf.USER_CONFIG = old_uc
        if old_env is None:
            os.environ.pop("DIPPY_CONFIG", None)
        else:
            os.environ["DIPPY_CONFIG"] = old_env


def replay_case(sc: Scratch, replay: dict) -> Case:
    """Rebuild the case of a replay file in a fresh scratch tree."""
    d = replay["case"]
    remap = {}
    if replay.get("proj_dir"):
        remap[replay["proj_dir"]] = sc.proj(d.get("proj_cfg"))
    if replay.get("home"):
        remap[replay["home"]] = sc.home(d.get("user_cfg"))
    return Case.from_json(d, remap)


def same_items(model_items, real_items) -> bool:
    """Model output == process output.  Decisions are compared as (format, verdict, key set) and by their
    reason - except where the reason is wording owned by main() itself ("config error: ...", the
    "[pattern]" fallback of an MCP rule without message), which a reworded message must not trip."""
    a, b = canon_items(model_items), canon_items(real_items)
    if len(a) != len(b):
        return False
    for x, y in zip(a, b):
        if x[0] == "D" and y[0] == "D" and x[3] == "<wording>":
            if (x[1], x[2], x[4]) != (y[1], y[2], y[4]):
                return False
        elif x != y:
            return False
    return True


def describe(c: Case, sc: Scratch | None = None):
    loc = {"proj_dir": sc.proj(c.proj_cfg), "home": sc.home(c.user_cfg)} if sc else {}
    return {"case": c.to_json(), **loc, "stdin": c.data[:2000].decode("utf-8", "backslashreplace"), "stdin_len": len(c.data),
            "flags": list(c.flags), "env": c.env,
            "user_config": c.user_cfg, "project_config": c.proj_cfg, "DIPPY_CONFIG": c.env_cfg, "fault": c.fault,
            "io": c.io, "cwd_gone": c.cwd_gone, "label": c.label,
            "stdout": c.out[:1500].decode("utf-8", "backslashreplace"),
            "stderr": c.err[-1500:].decode("utf-8", "backslashreplace"), "exit": c.rc}
