"""C20 - Statusline never crashes; its cache stays confined and untorn.

Everything runs `bin/dippy-statusline` of lib.REPO as a subprocess with HOME, XDG_CACHE_HOME, PATH and
TMPDIR inside a scratch tree (git, claude and the hook executable are stubs; the pipeline tools are links).

Implementation-level oracle (model-free), on every run:
  total     exit status 0, stdout non-empty, no "Traceback" on stderr
  oneline   stdout is exactly one line when neither the input's text fields nor the state files contain a
            line-break character (the state-file half of this is reported with its own signature)
  confine   every file created or changed lies inside <XDG_CACHE_HOME>/claude-statusline (or is the log file)
  atomic    N concurrent invocations sharing a session id, SIGKILL at random moments: every line any survivor
            printed, and the final cache entry, equals the complete line of some invocation
Correspondence: Statusline model (sl_path / sl_run / sl_history / sl_exec) against cache path, stdout, exit,
files written and refresh spawned; the strace'd system-call sequence of real runs is replayed in the model's
transition system."""
from __future__ import annotations

import concurrent.futures
import hashlib
import itertools
import json
import os
import random
import re
import shutil
import signal
import subprocess
import sys
import tempfile
import time

from . import core, lib

TRUSTED = [
    "Coq 8.16.1 kernel and its VM (vm_compute for closed facts about the generated palette / template tables)",
    "axioms: none (every theorem of Props/C20.v prints 'Closed under the global context')",
    "tools/tables/t20_statusline.py (AST translator: cache naming constants, TTLs and comparison operators, protocol order of set_cache, MOLOKAI, STYLES)",
    "extraction: ExtrOcamlBasic only; OCaml 4.13.1; ocaml/driver.ml; cross-checked in Coq by vm_compute on a sample",
    "modelled as oracles, not verified: json.load, git, the clock, file-system calls, str() of list/dict, integer arithmetic of the context percentage, the bodies of is_dippy_configured / get_local_mcp_servers / get_context_from_transcript (each is one try block; the harness fuzzes them through the real command)",
    "not modelled: the Logger (swallows every Exception; nothing of it reaches stdout)",
    "assumed: rename(2) replaces the directory entry atomically; O_TRUNC/write/read act on inodes as in the model; only descriptors 0-2 are open when the command starts",
    "harness: scratch-tree stubs for git/claude, by-construction expected answers of the data sources",
]
LEVEL = "proof"

PY = sys.executable
LINE_BREAKS = "\n\x0b\x0c\r\x1c\x1d\x1e\x85\u2028\u2029"
CACHE_NAME = "claude-statusline"
CURRENT_FIXES = [True, True, True]      # Statusline.fixes: guard (c6068c5), str-only transcript_path (fe4fc32), one line (16f7bd5)
MCP_NAME = ["mcp.cache"]      # file name of the MCP server-list cache; re-read from the repository by repo_constants()
T_PH = "@T@"     # placeholder for the case's transcript path inside generated values
W_PH = "@W@"     # placeholder for the case's work directory


def script():
    return os.path.join(lib.REPO, "bin", "dippy-statusline")


def has_lb(s: str) -> bool:
    return any(c in LINE_BREAKS for c in s)


# ------------------------------------------------------------------------------------------ scratch tree
GIT_STUB = """#!/bin/sh
# git -C <cwd> branch --show-current | git -C <cwd> diff --shortstat HEAD
case "$3" in
  branch) f="$C20_GIT/branch";;
  diff) f="$C20_GIT/diff";;
  *) exit 1;;
esac
[ -f "$f.sleep" ] && /bin/sleep 3
[ -f "$C20_GIT/delay" ] && /bin/sleep "$(/bin/cat "$C20_GIT/delay")"
[ -f "$f.out" ] && /bin/cat "$f.out"
[ -f "$f.rc" ] && exit "$(/bin/cat "$f.rc")"
exit 0
"""
CLAUDE_STUB = """#!/bin/sh
echo x >> "$C20_MARK"
echo "alpha: npx a - \xe2\x9c\x93 Connected"
echo "beta: npx b - \xe2\x9c\x97 Failed to connect"
"""


class Scratch:
    def __init__(self):
        self.root = tempfile.mkdtemp(prefix="dippy-verif-")
        self.bin = os.path.join(self.root, "bin")
        self.bin_nogit = os.path.join(self.root, "bin-nogit")
        for b in (self.bin, self.bin_nogit):
            os.makedirs(b)
            for tool in ("timeout", "awk", "paste", "sed", "mv"):
                src = shutil.which(tool)
                if src:
                    os.symlink(src, os.path.join(b, tool))
            self._exe(os.path.join(b, "claude"), CLAUDE_STUB)
            self._exe(os.path.join(b, "dippy-hook"), "#!/bin/sh\nexit 0\n")
        self._exe(os.path.join(self.bin, "git"), GIT_STUB)
        self.counter = itertools.count(1)

    @staticmethod
    def _exe(path, text):
        with open(path, "w") as f:
            f.write(text)
        os.chmod(path, 0o755)

    def case_dir(self):
        d = os.path.join(self.root, f"c{next(self.counter)}")
        for sub in ("home/.claude", "xdg", "tmp", "work/proj", "git"):
            os.makedirs(os.path.join(d, sub))
        return d

    def close(self):
        shutil.rmtree(self.root, ignore_errors=True)


def env_of(sc, scratch, d):
    env = base_env(sc, scratch, d)
    if sc.get("ioenc", "strict") == "strict":
        env["PYTHONIOENCODING"] = "utf-8:strict"       # what an ordinary UTF-8 locale (en_US.UTF-8) gives
    return env


_SESC = {}


def stdio_sesc(sc, scratch, d):
    """Is sys.stdout.errors 'surrogateescape' under this scenario's environment?  (asked of the interpreter)"""
    key = (sc.get("locale", "C.UTF-8"), sc.get("ioenc", "strict"))
    if key not in _SESC:
        p = subprocess.run([PY, "-c", "import sys; print(sys.stdin.errors, sys.stdout.errors)"], env=env_of(sc, scratch, d),
                           capture_output=True, text=True)
        a, b = p.stdout.split()
        assert a == b, (a, b)
        _SESC[key] = a == "surrogateescape"
    return _SESC[key]


def base_env(sc, scratch, d):
    return {
        "HOME": os.path.join(d, "home"),
        "XDG_CACHE_HOME": os.path.join(d, "xdg"),
        "PATH": scratch.bin_nogit if sc.get("git", {}).get("missing") else scratch.bin,
        "TMPDIR": os.path.join(d, "tmp"),
        "PYTHONDONTWRITEBYTECODE": "1",
        "LC_ALL": sc.get("locale", "C.UTF-8"),
        "C20_GIT": os.path.join(d, "git"),
        "C20_MARK": os.path.join(d, "tmp", "claude-marker"),
    }


def subst(v, d):
    """Replace the placeholders in every string of a JSON value."""
    if isinstance(v, str):
        return v.replace(T_PH, os.path.join(d, "transcript.jsonl")).replace(W_PH, os.path.join(d, "work"))
    if isinstance(v, list):
        return [subst(x, d) for x in v]
    if isinstance(v, dict):
        return {subst(k, d): subst(x, d) for k, x in v.items()}
    return v


def stdin_bytes(sc, d):
    if sc["stdin_kind"] == "raw":
        return bytes.fromhex(sc["raw_hex"])
    return json.dumps(subst(sc["value"], d)).encode("ascii")


def parse_stdin(data: bytes, sesc=False):
    """What json.load(sys.stdin) delivers: (True, value) or (False, None) when it raises (the parser is an oracle)."""
    try:
        return True, json.loads(data.decode("utf-8", "surrogateescape" if sesc else "strict"))
    except Exception:
        return False, None


def cache_dir(d):
    return os.path.join(d, "xdg", CACHE_NAME)


# ------------------------------------------------------------------------------------------ scenario set-up
def write_bytes(path, b, age=0.0):
    with open(path, "wb") as f:
        f.write(b)
    if age:
        t = time.time() - age
        os.utime(path, (t, t))


def usage_line(a, b, c, dd):
    return json.dumps({"type": "assistant", "message": {"usage": {
        "input_tokens": a, "output_tokens": b, "cache_read_input_tokens": c, "cache_creation_input_tokens": dd}}})


def setup_case(sc, scratch, d):
    """Create the state files of the scenario; returns the by-construction answers of the data sources."""
    exp = {}
    home = os.path.join(d, "home")
    claude = os.path.join(home, ".claude")
    cdir = cache_dir(d)
    exp["sesc"] = stdio_sesc(sc, scratch, d)
    ok, value = parse_stdin(stdin_bytes(sc, d), exp["sesc"])
    exp["inp_ok"], exp["value"] = ok, value
    data = value if ok and isinstance(value, dict) else {}
    sid = data.get("session_id", "")

    # --- log
    log = sc.get("log", "absent")
    logp = os.path.join(claude, "dippy-statusline.log")
    if log == "noclaude":
        shutil.rmtree(claude)
    elif log == "present":
        write_bytes(logp, b'{"event":"old"}\n')
    elif log == "big":
        write_bytes(logp, b"x" * (1024 * 1024 + 10))
    elif log == "dir":
        os.makedirs(logp)
    elif log == "garbage":
        write_bytes(logp, b"\xff\xfe\x00garbage")
    exp["log_readable"] = log in ("absent", "present", "garbage")

    # --- settings.json -> is_dippy_configured
    st = sc.get("settings", "absent")
    hook = os.path.join(scratch.bin, "dippy-hook")
    settings = {
        "absent": (None, False),
        "corrupt": (b"{not json", False),
        "binary": (b"\xff\xfe\x00\x01", False),
        "empty": (b"", False),
        "configured": (json.dumps({"hooks": {"PreToolUse": [{"matcher": "Bash", "hooks": [{"type": "command", "command": hook}]}]}}).encode(), True),
        "configured-args": (json.dumps({"hooks": {"PreToolUse": [{"matcher": "Edit"}, {"matcher": "Bash|Write", "hooks": [{"command": ""}, {"command": "dippy-hook --claude"}]}]}}).encode(), True),
        "matcher-list": (json.dumps({"hooks": {"PreToolUse": [{"matcher": ["Bash"], "hooks": [{"command": hook}]}]}}).encode(), True),
        "unconfigured": (json.dumps({"hooks": {"PreToolUse": [{"matcher": "Edit", "hooks": [{"command": hook}]}]}}).encode(), False),
        "no-such-exe": (json.dumps({"hooks": {"PreToolUse": [{"matcher": "Bash", "hooks": [{"command": "/nonexistent/hook"}]}]}}).encode(), False),
        "blank-command": (json.dumps({"hooks": {"PreToolUse": [{"matcher": "Bash", "hooks": [{"command": "   "}, {"command": hook}]}]}}).encode(), False),
        "hooks-list": (json.dumps({"hooks": []}).encode(), False),
        "toplevel-list": (b"[1, 2]", False),
        "pretool-dict": (json.dumps({"hooks": {"PreToolUse": {"matcher": "Bash"}}}).encode(), False),
        "matcher-int": (json.dumps({"hooks": {"PreToolUse": [{"matcher": 5, "hooks": [{"command": hook}]}]}}).encode(), False),
        "command-int": (json.dumps({"hooks": {"PreToolUse": [{"matcher": "Bash", "hooks": [{"command": 7}]}]}}).encode(), False),
        "dir": ("DIR", False),
    }[st]
    if log != "noclaude":
        sp = os.path.join(claude, "settings.json")
        if settings[0] == "DIR":
            os.makedirs(sp)
        elif settings[0] is not None:
            write_bytes(sp, settings[0])
        exp["configured"] = settings[1]
    else:
        exp["configured"] = False

    # --- mcp.local.json -> get_local_mcp_servers
    ml = sc.get("mcp_local", ["absent"])
    names = []
    if log != "noclaude" and ml[0] != "absent":
        mp = os.path.join(claude, "mcp.local.json")
        if ml[0] == "servers":
            write_bytes(mp, json.dumps({"mcpServers": {n: {"command": "x"} for n in ml[1]}}).encode())
            names = list(dict.fromkeys(ml[1]))
        elif ml[0] == "flat":
            write_bytes(mp, json.dumps({n: 1 for n in ml[1]}).encode())
            names = list(dict.fromkeys(ml[1]))
        elif ml[0] == "servers-list":
            write_bytes(mp, json.dumps({"mcpServers": ["a", "b"]}).encode())
        elif ml[0] == "corrupt":
            write_bytes(mp, b'{"mcpServers": {')
        elif ml[0] == "toplevel-list":
            write_bytes(mp, b"[1]")
        elif ml[0] == "binary":
            write_bytes(mp, b"\xff\x00\xfe")
        elif ml[0] == "dir":
            os.makedirs(mp)
    exp["mcp_local"] = names

    # --- cache directory and mcp.cache
    cs = sc.get("cache", ["absent"])
    mc = sc.get("mcp_cache", ["fresh", ""])
    exp["cachedir_file"] = cs[0] == "cachedir_file"
    if exp["cachedir_file"]:
        os.makedirs(os.path.dirname(cdir), exist_ok=True)
        write_bytes(cdir, b"i am a file")
        exp["mcp_cache"] = None
    else:
        os.makedirs(cdir)
        mcp = os.path.join(cdir, MCP_NAME[0])
        if mc[0] in ("fresh", "stale"):
            write_bytes(mcp, mc[1].encode("utf-8"), age=0 if mc[0] == "fresh" else 100)
            exp["mcp_cache"] = (0 if mc[0] == "fresh" else 100 * 10**9, mc[1].replace("\r\n", "\n").replace("\r", "\n").strip())
        elif mc[0] == "bytes":
            write_bytes(mcp, bytes.fromhex(mc[1]))
            exp["mcp_cache"] = None
        elif mc[0] == "dir":
            os.makedirs(mcp)
            exp["mcp_cache"] = None
        else:
            exp["mcp_cache"] = None

    # --- the session's cache entry
    exp["cache"] = None          # (age_ns, text or None)
    spath = None
    if isinstance(sid, str) or not sid:
        safe = sid.replace("/", "_") if sid else "default"
        spath = os.path.join(cdir, safe + ".cache")
    exp["spath"] = spath
    name_ok = False
    if spath is not None:
        try:
            name_ok = "\0" not in spath and len(os.fsencode(os.path.basename(spath))) <= 255 and len(os.fsencode(spath)) < 4096
        except UnicodeEncodeError:
            name_ok = False
    exp["name_ok"] = name_ok
    exp["path_is_dir"] = False
    aliased = spath is not None and spath == os.path.join(cdir, MCP_NAME[0])     # only in a repository where the alias exists
    if name_ok and not exp["cachedir_file"] and not aliased:
        if cs[0] == "text":
            write_bytes(spath, cs[1].encode("utf-8", "surrogatepass"), age=cs[2])
            try:
                cs[1].encode("utf-8")
                exp["cache"] = (int(cs[2] * 10**9), cs[1].replace("\r\n", "\n").replace("\r", "\n"))
            except UnicodeEncodeError:
                exp["cache"] = (int(cs[2] * 10**9), None)
        elif cs[0] == "bytes":
            b = bytes.fromhex(cs[1])
            write_bytes(spath, b, age=cs[2])
            try:
                exp["cache"] = (int(cs[2] * 10**9), b.decode("utf-8").replace("\r\n", "\n").replace("\r", "\n"))
            except UnicodeDecodeError:
                exp["cache"] = (int(cs[2] * 10**9), None)
        elif cs[0] == "dir":
            os.makedirs(spath)
            exp["cache"] = (0, None)
            exp["path_is_dir"] = True

    # --- transcript
    tk = sc.get("transcript")
    tp = os.path.join(d, "transcript.jsonl")
    exp["used"] = None
    if tk:
        kind = tk[0]
        if kind in ("usage", "usage-garbage", "big"):
            toks = tk[1]
            lines = ['{"type":"user","message":{"content":"hi"}}', usage_line(1, 1, 1, 1), usage_line(*toks)]
            if kind == "usage-garbage":
                lines += ["not json at all", "{broken", ""]
            if kind == "big":
                lines = ['{"pad":"%s"}' % ("p" * 1000)] * 100 + lines
            write_bytes(tp, ("\n".join(lines) + "\n").encode())
            try:
                exp["used"] = toks[0] + toks[1] + toks[2] + toks[3]
            except TypeError:
                exp["used"] = None
        elif kind == "no-usage":
            write_bytes(tp, b'{"type":"user","message":{"content":"hi"}}\n{"message":{"usage":{}}}\n{"x":1}\n')
        elif kind == "entry-list":
            write_bytes(tp, (usage_line(5, 5, 5, 5) + "\n[1, 2]\n").encode())
        elif kind == "message-str":
            write_bytes(tp, (usage_line(5, 5, 5, 5) + '\n{"message": "text"}\n').encode())
        elif kind == "empty":
            write_bytes(tp, b"")
        elif kind == "binary":
            write_bytes(tp, b"\xff\xfe\x00\x80\n\x00\x00")
        elif kind == "dir":
            os.makedirs(tp)
        # "missing": nothing

    # --- git stub
    g = sc.get("git", {})
    gd = os.path.join(d, "git")
    for which in ("branch", "diff"):
        spec = g.get(which, ["ok", 128, ""])
        if spec[0] == "timeout":
            write_bytes(os.path.join(gd, which + ".sleep"), b"1")
        else:
            write_bytes(os.path.join(gd, which + ".rc"), str(spec[1]).encode())
            write_bytes(os.path.join(gd, which + ".out"), bytes.fromhex(spec[2]) if spec[0] == "hex" else spec[2].encode())
    if g.get("delay"):
        write_bytes(os.path.join(gd, "delay"), str(g["delay"]).encode())
    exp["git"] = g
    return exp


# ------------------------------------------------------------------------------------------ expected oracle answers
def jenc(v):
    if v is None:
        return ["n"]
    if isinstance(v, bool):
        return ["b", v]
    if isinstance(v, (int, float)):
        return ["f", v == 0, str(v)]
    if isinstance(v, str):
        return ["s", v]
    if isinstance(v, list):
        return ["a", [jenc(x) for x in v]]
    if isinstance(v, dict):
        return ["o", [[k, jenc(x)] for k, x in v.items()]]
    raise TypeError(type(v))


def jdec(x):
    t = x[0]
    if t == "n":
        return None
    if t == "b":
        return x[1] == "1"
    if t == "f":
        s = x[2]
        return int(s) if re.fullmatch(r"-?\d+", s) else float(s)
    if t == "s":
        return x[1]
    if t == "a":
        return [jdec(y) for y in x[1]]
    if t == "o":
        return {k: jdec(v) for k, v in x[1]}
    raise ValueError(t)


def argv_ok(s: str) -> bool:
    """Can the string be passed as an argv element?"""
    try:
        b = os.fsencode(s)
    except UnicodeEncodeError:
        return False
    return b"\0" not in b and len(b) < 131072


def make_oracles(exp, d):
    g = exp["git"]

    def o_repr(tag, j):
        return str(jdec(j))

    def o_configured(tag):
        return [exp["configured"]]

    def git_answer(which, cwd):
        spec = g.get(which, ["ok", 128, ""])
        if g.get("missing") or spec[0] == "timeout" or not argv_ok(cwd):
            return None
        raw = bytes.fromhex(spec[2]) if spec[0] == "hex" else spec[2].encode()
        try:
            out = raw.decode("utf-8").replace("\r\n", "\n").replace("\r", "\n")
        except UnicodeDecodeError:
            return None
        return spec[1], out.strip()

    def o_branch(tag, cwd):
        a = git_answer("branch", cwd)
        return [] if a is None else [[a[0] == 0, a[1]]]

    def o_changes(tag, cwd):
        a = git_answer("diff", cwd)
        if a is None:
            return []
        rc, stat_ = a
        if rc != 0:
            return [["notrepo"]]
        if not stat_:
            return [["clean"]]
        added = removed = 0
        try:
            for part in stat_.split(","):
                part = part.strip()
                if "insertion" in part:
                    added = int(part.split()[0])
                elif "deletion" in part:
                    removed = int(part.split()[0])
        except Exception:
            return []
        return [["dirty", str(added), str(removed)]]

    def o_transcript(tag, j):
        tp = jdec(j)
        if isinstance(tp, str) and tp == os.path.join(d, "transcript.jsonl") and exp["used"] is not None:
            return [str(exp["used"])]
        return []

    def o_pct(tag, u, size_j):
        size = jdec(size_j)
        used = int(u) if re.fullmatch(r"-?\d+", u) else float(u)
        try:
            return [str(max(0, 80 - used * 100 // size))]
        except Exception:
            return []

    def o_mcp_local(tag):
        return list(exp["mcp_local"])

    def o_mcp_cache(tag):
        if exp["mcp_cache"] is None:
            return []
        return [[str(exp["mcp_cache"][0]), exp["mcp_cache"][1]]]

    def o_age(tag, path):
        if path != exp["spath"] or exp["cache"] is None:
            return []
        return [str(exp["cache"][0])]

    def o_read(tag, path):
        if path != exp["spath"] or exp["cache"] is None or exp["cache"][1] is None:
            return []
        return [exp["cache"][1]]

    def o_fs(tag, tmp, path):
        if exp["cachedir_file"]:
            return "nodir"
        try:
            if "\0" in tmp or len(os.fsencode(os.path.basename(tmp))) > 255 or len(os.fsencode(tmp)) >= 4096:
                return "noopen"
        except UnicodeEncodeError:
            return "noopen"
        if exp["path_is_dir"]:
            return "norename"
        return "ok"

    return {"repr": o_repr, "configured": o_configured, "branch": o_branch, "changes": o_changes,
            "transcript": o_transcript, "pct": o_pct, "mcp_local": o_mcp_local, "mcp_cache": o_mcp_cache,
            "age": o_age, "read": o_read, "fs": o_fs}


# ------------------------------------------------------------------------------------------ running the command
def snapshot(d):
    """Every file below the case directory: path (bytes, relative) -> sha1 of the content; directories -> 'dir'."""
    out = {}
    bd = os.fsencode(d)
    for root, dirs, files in os.walk(bd):
        for x in dirs:
            out[os.path.relpath(os.path.join(root, x), bd)] = "dir"
        for x in files:
            p = os.path.join(root, x)
            try:
                with open(p, "rb") as f:
                    out[os.path.relpath(p, bd)] = hashlib.sha1(f.read()).hexdigest()
            except OSError:
                out[os.path.relpath(p, bd)] = "unreadable"
    return out


def marker_count(d):
    try:
        with open(os.path.join(d, "tmp", "claude-marker"), "rb") as f:
            return f.read().count(b"\n")
    except OSError:
        return 0


def wait_refresh(d, before_count, timeout=4.0):
    """Wait for the detached `claude mcp list | ... > tmp && mv tmp mcp.cache` pipeline to finish."""
    t0 = time.time()
    cdir = cache_dir(d)
    while time.time() - t0 < timeout:
        spawned = marker_count(d) > before_count
        pending = False
        if os.path.isdir(cdir):
            pending = any(n.startswith(MCP_NAME[0] + ".tmp.") for n in os.listdir(cdir))
        if spawned and not pending:
            time.sleep(0.03)
            return True
        time.sleep(0.02)
    return marker_count(d) > before_count


def run_real(sc, scratch, d, expect_refresh):
    env = env_of(sc, scratch, d)
    data = stdin_bytes(sc, d)
    before = snapshot(d)
    m0 = marker_count(d)
    p = subprocess.Popen([PY, script()], stdin=subprocess.PIPE, stdout=subprocess.PIPE, stderr=subprocess.PIPE,
                         env=env, cwd=os.path.join(d, "work"))
    try:
        so, se = p.communicate(data, timeout=30)
    except subprocess.TimeoutExpired:
        p.kill()
        so, se = p.communicate()
        se += b"\n[harness] timeout"
    spawned = wait_refresh(d, m0) if expect_refresh else False
    if not expect_refresh:
        time.sleep(0.0)
        spawned = marker_count(d) > m0
    after = snapshot(d)
    return {"rc": p.returncode, "stdout": so, "stderr": se, "pid": p.pid, "before": before, "after": after,
            "spawned": spawned}


def text_fields(value):
    """The text fields of the input that reach the line."""
    out = []
    if isinstance(value, dict):
        m = value.get("model")
        if isinstance(m, dict) and isinstance(m.get("display_name"), str):
            out.append(m["display_name"])
        w = value.get("workspace")
        if isinstance(w, dict) and isinstance(w.get("current_dir"), str):
            out.append(w["current_dir"])
    return out


def is_fd_hazard(value):
    if not isinstance(value, dict):
        return False
    tp = value.get("transcript_path")
    cw = value.get("context_window")
    size = cw.get("context_window_size") if isinstance(cw, dict) else None
    return bool(size) and (tp is True or (type(tp) is int and tp == 1))


def state_line_breaks(sc):
    out = []
    cs = sc.get("cache", ["absent"])
    if cs[0] == "text" and (has_lb(cs[1])):
        out.append("cache")
    if cs[0] == "bytes":
        try:
            if has_lb(bytes.fromhex(cs[1]).decode("utf-8")):
                out.append("cache")
        except UnicodeDecodeError:
            pass
    mc = sc.get("mcp_cache", ["fresh", ""])
    if mc[0] in ("fresh", "stale") and has_lb(mc[1].strip()):
        out.append("mcp.cache")
    ml = sc.get("mcp_local", ["absent"])
    if ml[0] in ("servers", "flat") and any(has_lb(n) for n in ml[1]):
        out.append("mcp.local.json")
    g = sc.get("git", {})
    for which in ("branch", "diff"):
        spec = g.get(which)
        if spec and spec[0] == "ok" and has_lb(spec[2].strip()):
            out.append("git " + which)
    return out


def short(sc):
    if sc["stdin_kind"] == "raw":
        return "raw:" + sc["raw_hex"][:80]
    return json.dumps(sc["value"])[:160]


def impl_oracle(sc, exp, obs, d, out):
    """The property, stated on the real command only."""
    value = exp["value"] if exp["inp_ok"] else None
    stdout = obs["stdout"]
    viol = []
    base = {"scenario": sc, "rc": obs["rc"], "stdout": repr(stdout[:400]), "stderr": obs["stderr"].decode("utf-8", "replace")[-600:]}
    # total
    bad = []
    if obs["rc"] != 0:
        bad.append(f"exit status {obs['rc']}")
    if not stdout:
        bad.append("empty stdout")
    if b"Traceback" in obs["stderr"]:
        bad.append("traceback on stderr")
    if bad:
        sig = "total:fd-hazard transcript_path=%r" % (value.get("transcript_path"),) if is_fd_hazard(value) else "total: " + short(sc)
        viol.append({"kind": "total", "what": "statusline did not exit 0 with non-empty stdout and no traceback: " + ", ".join(bad),
                     "signature_text": sig, **base})
    # oneline
    if stdout:
        fields = text_fields(value)
        try:
            text = stdout.decode("utf-8")
        except UnicodeDecodeError:
            text = stdout.decode("utf-8", "replace")
        single = text.endswith("\n") and not has_lb(text[:-1])
        if not single and not any(has_lb(f) for f in fields):
            st = state_line_breaks(sc)
            if st:
                viol.append({"kind": "oneline", "what": "input text fields contain no line break, a state file does (" + ", ".join(st) +
                             "), and the output is not a single line", "signature_text": "oneline-state:" + ",".join(st) + " " + short(sc), **base})
            else:
                viol.append({"kind": "oneline", "what": "neither the input's text fields nor any state file contain a line break, yet the output is not a single line",
                             "signature_text": "oneline-input: " + short(sc), **base})
    # confine
    cdir_rel = os.fsencode(os.path.join("xdg", CACHE_NAME))
    allowed_log = {os.fsencode(os.path.join("home", ".claude", "dippy-statusline.log")),
                   os.fsencode(os.path.join("home", ".claude", "dippy-statusline.log.1"))}
    marker = os.fsencode(os.path.join("tmp", "claude-marker"))
    for p, h in obs["after"].items():
        if obs["before"].get(p) == h:
            continue
        if p == cdir_rel or p.startswith(cdir_rel + b"/") or p in allowed_log or p == marker:
            continue
        viol.append({"kind": "confine", "what": "a file outside the cache directory was created or changed: " + os.fsdecode(p),
                     "signature_text": "confine: " + os.fsdecode(p) + " " + short(sc), **base})
    for p in obs["before"]:
        if p not in obs["after"] and not (p.startswith(cdir_rel + b"/") or p in allowed_log):
            viol.append({"kind": "confine", "what": "a file outside the cache directory was removed: " + os.fsdecode(p),
                         "signature_text": "confine-removed: " + os.fsdecode(p) + " " + short(sc), **base})
    return viol


def compare_model(sc, exp, obs, d, model, out, record=False):
    """Correspondence: Statusline.sl_main against the real run."""
    base = os.path.join(d, "xdg")
    value = exp["value"]
    inp = [jenc(value)] if exp["inp_ok"] else []
    inv = ["t", str(obs["pid"]), inp, "0", "ok", exp["sesc"]]
    oracles = make_oracles(exp, d)
    res = model.call(["sl_run", base, CURRENT_FIXES, inv], oracles, record=record)
    m_exit, m_out, m_tb, m_served, m_store, m_refresh = res
    diffs = []
    r_exit = obs["rc"] == 0
    m_broken = m_exit == "0" and m_out == "" and m_tb == "0"
    if m_broken:
        # stdout was closed under the interpreter: the line is lost; the exit status depends on which later open()
        # re-occupies descriptor 1 (120, 1 and 0 have been observed) and is not modelled
        if obs["stdout"]:
            diffs.append(f"broken: model says stdout is lost, real printed {obs['stdout'][:80]!r}")
    elif (m_exit == "1") != r_exit:
        diffs.append(f"exit: model {m_exit} real rc {obs['rc']}")
    try:
        r_out = obs["stdout"].decode("utf-8", "surrogateescape")
    except Exception:
        r_out = repr(obs["stdout"])
    if m_out != r_out:
        diffs.append(f"stdout: model {m_out[:200]!r} real {r_out[:200]!r}")
    if not m_broken and (m_tb == "1") != (b"Traceback" in obs["stderr"]):
        diffs.append(f"traceback: model {m_tb}")
    # files of the cache directory
    cdir_rel = os.fsencode(os.path.join("xdg", CACHE_NAME))
    def rel(p):
        return os.path.relpath(os.fsencode(p), os.fsencode(d))
    mcp_re = re.compile(re.escape(cdir_rel + b"/" + MCP_NAME[0].encode()) + rb"(\.tmp\.\d+)?(/.*)?$")     # the MCP cache and its tmp files

    def session_files(snap):
        return {p: h for p, h in snap.items() if p.startswith(cdir_rel + b"/") and not mcp_re.match(p)}

    expected = dict(obs["before"])
    try:
        if m_store[0] == "stored":
            expected[rel(m_store[1])] = hashlib.sha1(m_store[3].encode("utf-8")).hexdigest()
        elif m_store[0] == "tmpleft":
            expected[rel(m_store[1])] = hashlib.sha1(m_store[2].encode("utf-8")).hexdigest()
    except (UnicodeEncodeError, ValueError):
        diffs.append("store: model stored an unencodable path or text")
    expected = session_files(expected)
    real = session_files(obs["after"])
    if expected != real and not (m_exit == "0" and m_out == ""):
        only_m = sorted(set(expected.items()) - set(real.items()))[:3]
        only_r = sorted(set(real.items()) - set(expected.items()))[:3]
        diffs.append(f"cache files: model-only {only_m} real-only {only_r} (model store {m_store[:2]})")
    exp_spawn = m_refresh == "1" and not exp["cachedir_file"]
    if exp_spawn != obs["spawned"]:
        diffs.append(f"mcp refresh: model {m_refresh} real spawned {obs['spawned']}")
    # served: from the log when there is one
    logp = os.path.join(d, "home", ".claude", "dippy-statusline.log")
    if exp["log_readable"] and os.path.isfile(logp):
        with open(logp, "rb") as f:
            tail = f.read()[-3000:]
        r_served = b"main_served_cached" in tail.split(b"main_start")[-1]
        if r_served != (m_served == "1"):
            diffs.append(f"served: model {m_served} real {r_served}")
    out.count("model-outcome", "served" if m_served == "1" else ("broken" if m_exit == "0" else ("fallback" if m_out == "?\n" else "built:" + m_store[0])))
    return diffs, res


# ------------------------------------------------------------------------------------------ generators
SIDS = ["", "abc", "mcp", "mcp.servers", "mcp.servers.tmp.1", "7f9c2a1e-0b5d-4c3a-9e8f-123456789abc", "a/b", "a_b", "/", "//", "../../x/y", "../escape", "/tmp/abs", "..", ".", "./.",
        "a\x00b", "x" * 10240, "y" * 245, "y" * 250, "\udc80", "\ud800", "é漢\U0001f600", " ", "a\nb", "-rf", ".cache",
        "default", "a\\b", "CON", "~", "$(id)", "*", "x.cache.tmp.1"]
SID_NONSTR = [None, 0, 5, -1, 1.5, 0.0, True, False, [], [1], {}, {"a": 1}, ["a/b"]]
NAMES = ["Opus", "", "a\nb", "a\rb", "a\r\nb", "a\u2028b", "a\x0bb", "a\x85b", "\x1b[31mred", "x" * 3000, "a\ud800", "\U0001f424", " ", "|", "a\x00b"]
NAME_NONSTR = [None, 0, 5, 1.5, True, False, [], ["a\nb", 1.5, None, {"k": True}], {"a": "b\n"}, {}]
CWDS = ["", W_PH + "/proj", W_PH + "/proj/", "/", "//", "relative/dir", "/nonexistent/x", "a\nb", W_PH + "/a\rb", "/x/\ud800", "/x/a\x00b", "/" + "d" * 5000,
        "~", "/x/é漢", "/x/ y "]
CWD_NONSTR = [None, 0, 5, 1.5, True, False, [], ["/tmp"], {"p": "/tmp"}, {}]
TRANSCRIPT_KINDS = [["usage", [1000, 200, 3000, 400]], ["usage", [0, 0, 0, 0]], ["usage", [150000, 0, 60000, 0]], ["usage", [1.5, 2, 3, 4]],
                    ["usage", ["12", 0, 0, 0]], ["usage-garbage", [10, 20, 30, 40]], ["big", [5000, 1, 1, 1]], ["no-usage"], ["entry-list"],
                    ["message-str"], ["empty"], ["binary"], ["dir"], ["missing"]]
TP_NONSTR = [None, 0, 1, 2, 3, 7, 255, -1, 1.0, 1.5, True, False, [], [T_PH], {"p": 1}, 10**30]
SIZES = [200000, 0, None, 1, -5, 2.5, True, "200000", [1], {"a": 1}, 10**25, 0.0]
SETTINGS = ["absent", "corrupt", "binary", "empty", "configured", "configured-args", "matcher-list", "unconfigured", "no-such-exe",
            "blank-command", "hooks-list", "toplevel-list", "pretool-dict", "matcher-int", "command-int", "dir"]
MCP_LOCAL = [["absent"], ["servers", ["alpha", "beta"]], ["flat", ["solo"]], ["servers", []], ["servers-list"], ["corrupt"], ["toplevel-list"],
             ["binary"], ["dir"], ["servers", ["é漢", "x y"]], ["servers", ["a\nb"]], ["servers", ["a\u2028b"]]]
MCP_CACHE = [["fresh", ""], ["fresh", "\x1b[38;2;152;225;35malpha\x1b[0m, \x1b[38;2;250;37;115m!beta\x1b[0m"], ["fresh", "  padded \n"],
             ["stale", "old"], ["absent"], ["dir"], ["bytes", "fffe00"], ["fresh", "two\nlines"], ["fresh", "cr\rlf"]]
CACHES = [["absent"], ["text", "CACHED LINE", 0], ["text", "CACHED LINE", 100], ["text", "CACHED LINE", 1.2], ["text", "CACHED LINE", 5.0], ["text", "", 0],
          ["text", "\n", 0], ["text", "two\nlines", 0], ["text", "a\rb", 0], ["text", "trailing\n", 0], ["text", "a\u2028b", 0],
          ["bytes", "fffe41", 0], ["bytes", "efbbbf41", 0], ["text", "x" * 100000, 0], ["dir"], ["cachedir_file"]]
LOGS = ["absent", "present", "big", "dir", "noclaude", "garbage"]
GITS = [
    {},
    {"branch": ["ok", 0, "main\n"], "diff": ["ok", 0, ""]},
    {"branch": ["ok", 0, "feature/x-1\n"], "diff": ["ok", 0, " 2 files changed, 31 insertions(+), 4 deletions(-)\n"]},
    {"branch": ["ok", 0, "\n"], "diff": ["ok", 0, " 1 file changed, 1 insertion(+)\n"]},
    {"branch": ["ok", 0, "main\n"], "diff": ["ok", 0, " 1 file changed, 7 deletions(-)\n"]},
    {"branch": ["ok", 128, "fatal: not a git repository\n"], "diff": ["ok", 128, ""]},
    {"branch": ["ok", 0, "main\n"], "diff": ["ok", 0, " x files changed, many insertions(+)\n"]},
    {"branch": ["ok", 0, "main\n"], "diff": ["ok", 0, "nothing recognisable\n"]},
    {"branch": ["hex", 0, "fffe0a"], "diff": ["hex", 0, "ff"]},
    {"branch": ["ok", 0, "  spaced \r\n"], "diff": ["ok", 1, "x"]},
    {"branch": ["ok", 0, "two\nlines\n"], "diff": ["ok", 0, ""]},
    {"missing": True},
]
GIT_SLOW = {"branch": ["timeout"], "diff": ["timeout"]}
RAW = [b"", b"xx", b"{", b"[1]", b'"str"', b"5", b"null", b"true", b"\xff\xfe", b"\xef\xbb\xbf{}", b'{"session_id": "a"} trailing',
       b'{"session_id": "dup", "session_id": "last"}', b"[" * 100000, b'{"model": NaN}', b'{"a":' + b"9" * 5000 + b"}", b"{}\n\n", b'{"session_id":"a\nb"}']


def normal_value(rng, sid="s"):
    return {"session_id": sid, "model": {"display_name": "Opus"}, "workspace": {"current_dir": W_PH + "/proj"},
            "context_window": {"context_window_size": 200000}, "transcript_path": T_PH}


def base_sc(value, **kw):
    sc = {"stdin_kind": "json", "value": value, "cache": ["absent"], "settings": "absent", "mcp_local": ["absent"],
          "mcp_cache": ["fresh", ""], "log": "present", "git": {}, "transcript": None}
    sc.update(kw)
    return sc


def systematic(rng):
    """One dimension at a time around a normal invocation, plus the pairs the property names."""
    out = []
    nv = lambda: normal_value(rng)
    # session ids x cache states
    for sid in SIDS + SID_NONSTR:
        for cs in (["absent"], ["text", "CACHED LINE", 0]):
            v = nv(); v["session_id"] = sid
            out.append(("sid", base_sc(v, cache=cs, git=GITS[1], transcript=TRANSCRIPT_KINDS[0])))
    v = nv(); del v["session_id"]
    out.append(("sid", base_sc(v)))
    # every field: wrong types
    for n in NAMES + NAME_NONSTR:
        v = nv(); v["model"] = {"display_name": n}
        out.append(("display_name", base_sc(v)))
    for m in [None, 5, "str", [1], {}, {"display_name": None}, {"id": "x"}]:
        v = nv(); v["model"] = m
        out.append(("model", base_sc(v)))
    for c in CWDS + CWD_NONSTR:
        v = nv(); v["workspace"] = {"current_dir": c}
        out.append(("current_dir", base_sc(v, git=GITS[2])))
    for w in [None, 5, "str", [1], {}, {"current_dir": None}, {"project_dir": "/x"}]:
        v = nv(); v["workspace"] = w
        out.append(("workspace", base_sc(v)))
    for tk in TRANSCRIPT_KINDS:
        for size in (200000, 1000, 3):
            v = nv(); v["context_window"] = {"context_window_size": size}
            out.append(("transcript", base_sc(v, transcript=tk)))
    for tp in TP_NONSTR + ["", "relative.jsonl", "/nonexistent/t.jsonl", "a\x00b", "/x/\ud800"]:
        for cw in ({"context_window_size": 200000}, {}):
            v = nv(); v["transcript_path"] = tp; v["context_window"] = cw
            out.append(("transcript_path", base_sc(v)))
    for size in SIZES:
        v = nv(); v["context_window"] = {"context_window_size": size}
        out.append(("context_size", base_sc(v, transcript=TRANSCRIPT_KINDS[0])))
    for cw in [None, 5, "str", [1], {}]:
        v = nv(); v["context_window"] = cw
        out.append(("context_window", base_sc(v, transcript=TRANSCRIPT_KINDS[0])))
    # state files
    for s in SETTINGS:
        out.append(("settings", base_sc(nv(), settings=s)))
    for ml in MCP_LOCAL:
        for mc in (MCP_CACHE[0], MCP_CACHE[1]):
            out.append(("mcp_local", base_sc(nv(), mcp_local=ml, mcp_cache=mc)))
    for mc in MCP_CACHE:
        out.append(("mcp_cache", base_sc(nv(), mcp_cache=mc)))
    for cs in CACHES:
        for sid in ("s", "", "a/b"):
            v = nv(); v["session_id"] = sid
            out.append(("cache", base_sc(v, cache=cs)))
    for lg in LOGS:
        for cs in (["absent"], ["text", "CACHED LINE", 0]):
            out.append(("log", base_sc(nv(), log=lg, cache=cs, settings="configured")))
    for g in GITS:
        out.append(("git", base_sc(nv(), git=g)))
    # stdin that is not an object / not JSON
    for raw in RAW:
        out.append(("raw", {**base_sc(None), "stdin_kind": "raw", "raw_hex": raw.hex()}))
    for top in [[1], "s", 5, None, True, {}, {"session_id": {"a": 1}}, {"unknown": 1}]:
        out.append(("toplevel", base_sc(top)))
    # the C / C.UTF-8 locales: stdin/stdout use surrogateescape
    for loc in ("C", "C.UTF-8", "POSIX"):
        for name in ("a\udc80", "a\ud800", "plain"):
            v = nv(); v["model"] = {"display_name": name}
            out.append(("locale", base_sc(v, locale=loc, ioenc="locale")))
        out.append(("locale", {**base_sc(None, locale=loc, ioenc="locale"), "stdin_kind": "raw", "raw_hex": b'{"session_id": "x\x8ay"}'.hex()}))
    return out


def random_value(rng, depth=0):
    r = rng.random()
    if r < 0.15 or depth > 2:
        return rng.choice([None, True, False, 0, 1, 2, -1, 1.5, 10**20, "", "txt", "a\nb", "\ud800", T_PH, W_PH + "/proj"])
    if r < 0.3:
        return [random_value(rng, depth + 1) for _ in range(rng.randint(0, 3))]
    if r < 0.45:
        return {rng.choice(["a", "display_name", "current_dir", "context_window_size", ""]): random_value(rng, depth + 1) for _ in range(rng.randint(0, 3))}
    return rng.choice(NAMES + CWDS + SIDS)


def random_sc(rng):
    v = {}
    keys = ["session_id", "model", "workspace", "context_window", "transcript_path", "extra"]
    for k in keys:
        r = rng.random()
        if r < 0.12:
            continue
        if r < 0.3:
            v[k] = random_value(rng)
        elif k == "session_id":
            v[k] = rng.choice(SIDS + SID_NONSTR)
        elif k == "model":
            v[k] = {"display_name": rng.choice(NAMES + NAME_NONSTR)}
        elif k == "workspace":
            v[k] = {"current_dir": rng.choice(CWDS + CWD_NONSTR)}
        elif k == "context_window":
            v[k] = {"context_window_size": rng.choice(SIZES)}
        elif k == "transcript_path":
            v[k] = rng.choice([T_PH] * 6 + TP_NONSTR)
        else:
            v[k] = random_value(rng)
    return base_sc(v, cache=rng.choice(CACHES), settings=rng.choice(SETTINGS), mcp_local=rng.choice(MCP_LOCAL),
                   mcp_cache=rng.choice(MCP_CACHE), log=rng.choice(LOGS), git=rng.choice(GITS), transcript=rng.choice(TRANSCRIPT_KINDS + [None]),
                   ioenc=rng.choice(["strict", "strict", "locale"]))


def malformed_sc(rng):
    kind = rng.randint(0, 3)
    if kind == 0:
        b = bytes(rng.randrange(256) for _ in range(rng.randint(0, 60)))
    elif kind == 1:
        b = json.dumps(normal_value(rng)).encode()
        i = rng.randrange(len(b))
        b = b[:i] + bytes([rng.randrange(256)]) + b[i + 1:]
    elif kind == 2:
        b = json.dumps(normal_value(rng)).encode()[: rng.randint(0, 80)]
    else:
        b = rng.choice([b"[", b"{", b'"', b"\\", b"0", b"-", b"1e999", b"Infinity"]) * rng.randint(1, 50)
    sc = random_sc(rng)
    sc.update({"stdin_kind": "raw", "raw_hex": b.hex(), "value": None})
    return sc


# ------------------------------------------------------------------------------------------ one case
def expects_refresh(sc):
    if sc.get("cache", ["absent"])[0] == "cachedir_file":
        return False
    return sc.get("mcp_cache", ["fresh", ""])[0] in ("stale", "absent", "dir", "bytes")


def execute(sc, scratch):
    d = scratch.case_dir()
    exp = setup_case(sc, scratch, d)
    obs = run_real(sc, scratch, d, expects_refresh(sc))
    return d, exp, obs


def judge(dim, sc, d, exp, obs, model, out, xcheck):
    out.case(sc, nontrivial=True)
    out.count("dimension", dim)
    cls = "rc=%s/%s" % (obs["rc"], "empty" if not obs["stdout"] else ("?" if obs["stdout"] == b"?\n" else "line"))
    out.count("real-outcome", cls)
    out.sample({"stdin": short(sc), "cache": sc.get("cache"), "stdout": repr(obs["stdout"][:120]), "rc": obs["rc"]})
    out.violations.extend(impl_oracle(sc, exp, obs, d, out))
    rec = len(xcheck) < 30 and out.evaluations % 11 == 0
    try:
        diffs, res = compare_model(sc, exp, obs, d, model, out, record=rec)
    except lib.ModelError as e:
        out.disagreements.append({"correspondence": "Statusline.sl_main <-> bin/dippy-statusline", "scenario": sc, "model": f"error {e}"})
        return False
    if rec and model.transcript is not None and len(model.transcript) < 40 and \
            len(model.last_request) + sum(len(q) + len(a) for q, a in model.transcript) + len(str(res)) < 30000:
        xcheck.append((model.last_request, list(model.transcript), res))
    if diffs:
        out.disagreements.append({"correspondence": "Statusline.sl_main <-> bin/dippy-statusline", "scenario": sc, "differences": diffs,
                                  "stderr": obs["stderr"].decode("utf-8", "replace")[-300:]})
    return True


# ------------------------------------------------------------------------------------------ cache path correspondence
def check_paths(model, scratch, out, rng, n_random):
    """get_cache_path of the real module (imported in a child with the scratch environment) against the model."""
    d = scratch.case_dir()
    base = os.path.join(d, "xdg")
    sids = list(SIDS) + list(SID_NONSTR)
    alphabet = ["/", ".", "..", "a", "_", "\\", "\x00", " ", "\n", "é", "\ud800", "~", "-", ".cache", ".tmp.", "mcp", "default"]
    for _ in range(n_random):
        sids.append("".join(rng.choice(alphabet) for _ in range(rng.randint(0, 8))))
    prog = ("import json,sys,os\nfrom dippy import dippy_statusline as m\nout=[]\n"
            "for sid in json.load(sys.stdin):\n"
            "    try: out.append([m.get_cache_path(sid)])\n"
            "    except Exception as e: out.append([])\n"
            "print(json.dumps({'dir': m.CACHE_DIR, 'mcp': m.MCP_CACHE_PATH, 'paths': out, 'ttl': [m.CACHE_TTL, m.MCP_CACHE_TTL]}))\n")
    env = {"HOME": os.path.join(d, "home"), "XDG_CACHE_HOME": base, "PATH": scratch.bin, "PYTHONDONTWRITEBYTECODE": "1",
           "PYTHONPATH": os.path.join(lib.REPO, "src"), "LC_ALL": "C.UTF-8"}
    p = subprocess.run([PY, "-c", prog], input=json.dumps(sids).encode(), env=env, capture_output=True, timeout=60)
    if p.returncode != 0:
        out.disagreements.append({"correspondence": "get_cache_path", "model": "n/a", "impl": p.stderr.decode()[-400:]})
        return
    real = json.loads(p.stdout)
    cdir = real["dir"]
    for sid, rp in zip(sids, real["paths"]):
        out.case(["path", sid], nontrivial=True)
        out.count("cache-path", "raises" if not rp else "path")
        mdir, mp, mt = model.call(["sl_path", base, "4242", jenc(sid)])
        if mdir != cdir or mp != rp:
            out.disagreements.append({"correspondence": "Statusline.get_cache_path <-> dippy_statusline.get_cache_path",
                                      "session_id": repr(sid), "model": [mdir, mp], "impl": [cdir, rp]})
        # the property itself, on the real function
        if rp and rp[0] == real["mcp"]:
            out.violations.append({"kind": "atomic", "what": "a session id is mapped onto the MCP server-list cache, which the refresh pipeline writes without the protocol",
                                   "check": "paths", "session_id": repr(sid), "path": rp[0], "signature_text": "alias:mcp path " + repr(sid)})
        if rp:
            path = rp[0]
            name = os.path.basename(path)
            if os.path.dirname(path) != cdir or "/" in name or name in (".", ".."):
                out.violations.append({"kind": "confine", "what": "cache path of a session id is not a plain file name inside CACHE_DIR",
                                       "check": "paths", "session_id": repr(sid), "path": path, "signature_text": "confine-path: " + repr(sid)})
    out.extra["cache_dir"] = {"real": cdir.replace(d, "<case>"), "ttl": real["ttl"]}


# ------------------------------------------------------------------------------------------ histories
def run_history(scratch, model, out, invs, label):
    """A sequence of real invocations sharing one cache directory, against Statusline.history."""
    sc0 = base_sc({}, log="present")
    d = scratch.case_dir()
    exp = setup_case(sc0, scratch, d)
    base = os.path.join(d, "xdg")
    outs, pids = [], []
    for v in invs:
        sc = base_sc(v, log="present")
        p = subprocess.Popen([PY, script()], stdin=subprocess.PIPE, stdout=subprocess.PIPE, stderr=subprocess.PIPE,
                             env=env_of(sc, scratch, d), cwd=os.path.join(d, "work"))
        so, se = p.communicate(json.dumps(v).encode())
        outs.append((p.returncode, so, se))
        pids.append(p.pid)
    oracles = make_oracles(exp, d)
    oracles["mcp_cache"] = lambda tag: [["0", ""]]
    minv = [[f"t{k}", str(pids[k]), [jenc(v)], "0", "ok", exp["sesc"]] for k, v in enumerate(invs)]
    res = model.call(["sl_history", base, [], minv, CURRENT_FIXES], oracles)
    out.case(["history", invs], nontrivial=len(invs) > 1)
    out.count("history", label)
    for k, ((rc, so, se), m) in enumerate(zip(outs, res)):
        r_out = so.decode("utf-8", "surrogateescape")
        if m[1] != r_out or (m[0] == "1") != (rc == 0):
            out.disagreements.append({"correspondence": "Statusline.history <-> consecutive runs of bin/dippy-statusline", "invocations": invs,
                                      "index": k, "model": [m[0], m[1][:200]], "impl": [rc, r_out[:200]]})
        # implementation-level: this invocation's own text fields are clean => single line
        fields = text_fields(invs[k])
        text = so.decode("utf-8", "replace")
        single = text.endswith("\n") and not has_lb(text[:-1])
        if rc != 0 or not so or b"Traceback" in se:
            out.violations.append({"kind": "total", "what": "an invocation of a history failed", "history": invs, "index": k, "rc": rc,
                                   "signature_text": "total-history: " + json.dumps(invs)[:200]})
        if not single and not any(has_lb(f) for f in fields):
            earlier = any(has_lb(f) for j in range(k) for f in text_fields(invs[j]))
            out.violations.append({"kind": "oneline", "what": "the invocation's text fields contain no line break but it was served a multi-line entry cached by an earlier invocation"
                                   if earlier else "no invocation so far had a line break in its text fields, yet the output is not a single line",
                                   "history": invs, "index": k, "stdout": repr(so[:300]),
                                   "signature_text": ("oneline-state:cache(history) " if earlier else "oneline-input(history): ") + json.dumps(invs)[:200]})
    return outs


def histories(scratch, model, out, rng, n_random):
    mk = lambda sid, name: {"session_id": sid, "model": {"display_name": name}}
    fixed = [
        ("cr", [mk("s", "a\rb"), mk("s", "zzz")]),
        ("lf", [mk("s", "a\nb"), mk("s", "zzz")]),
        ("crlf", [mk("s", "a\r\nb"), mk("s", "zzz"), mk("s", "yyy")]),
        ("u2028", [mk("s", "a\u2028b"), mk("s", "zzz")]),
        ("alias", [mk("a/b", "first"), mk("a_b", "second")]),
        ("distinct", [mk("a", "first"), mk("b", "second"), mk("a", "third")]),
        ("nonstr", [mk(5, "first"), mk(5, "second")]),
        ("surrogate", [mk("s", "a\ud800"), mk("s", "plain")]),
        ("default", [mk("", "first"), mk(None, "second"), mk(0, "third")]),
        ("clean", [mk("s", "one"), mk("s", "two"), mk("s", "three")]),
    ]
    for label, invs in fixed:
        run_history(scratch, model, out, invs, label)
    for _ in range(n_random):
        sids = [rng.choice(["s", "a/b", "a_b", "", 5, "\udc80"]) for _ in range(2)]
        invs = [mk(rng.choice(sids), rng.choice(["n1", "n2", "a\rb", "a\x0bb", "x" * 9000, "", "a\r\n"])) for _ in range(rng.randint(2, 4))]
        run_history(scratch, model, out, invs, "random")


# ------------------------------------------------------------------------------------------ session id "mcp"
def alias_mcp(scratch, model, out):
    """Session id "mcp": its entry is MCP_CACHE_PATH itself.  Model: sl_path; real: the served line is the server list."""
    d = scratch.case_dir()
    sc = base_sc({"session_id": "mcp", "model": {"display_name": "Opus"}}, mcp_cache=["stale", "old"], log="present")
    setup_case(sc, scratch, d)
    base = os.path.join(d, "xdg")
    mdir, mp, mt = model.call(["sl_path", base, "1", jenc("mcp")])
    out.case(["alias", "mcp"], nontrivial=True)
    env = env_of(sc, scratch, d)
    lines = []
    m0 = marker_count(d)
    p = subprocess.run([PY, script()], input=json.dumps(sc["value"]).encode(), env=env, capture_output=True, cwd=os.path.join(d, "work"))
    lines.append(p.stdout)
    wait_refresh(d, m0)
    v2 = {"session_id": "mcp", "model": {"display_name": "Sonnet"}}
    p2 = subprocess.run([PY, script()], input=json.dumps(v2).encode(), env=env, capture_output=True, cwd=os.path.join(d, "work"))
    # complete lines of the two invocations, from isolated runs
    own = []
    for v in (sc["value"], v2):
        d2 = scratch.case_dir()
        s2 = base_sc(dict(v, session_id="other"), log="present")
        setup_case(s2, scratch, d2)
        q = subprocess.run([PY, script()], input=json.dumps(s2["value"]).encode(), env=env_of(s2, scratch, d2), capture_output=True,
                           cwd=os.path.join(d2, "work"))
        own.append(q.stdout)
    out.count("alias", "mcp")
    if mp == [os.path.join(mdir, MCP_NAME[0])]:
        out.disagreements.append({"correspondence": "sl_path: session id 'mcp' vs the MCP cache path", "model": mp, "impl": MCP_NAME[0]})
    if p2.stdout not in own and p2.stdout != lines[0]:
        out.violations.append({"kind": "atomic", "what": "session id \"mcp\" shares its entry (and its tmp name) with the MCP server cache: the line served is the output of the refresh pipeline, not of any invocation",
                               "served": repr(p2.stdout[:300]), "lines_of_invocations": [repr(x[:200]) for x in own],
                               "check": "alias", "signature_text": "alias:mcp served " + repr(p2.stdout[:80])})


# ------------------------------------------------------------------------------------------ concurrency and kill
def big_name(k, size):
    return ("W%02d-" % k) + chr(ord("a") + k % 26) * size + "-END%02d" % k


def concurrency(scratch, out, rng, rounds, nproc, size):
    """N writers (distinct long lines) + readers share one session id; some are SIGKILLed at random moments."""
    served_total = 0
    for rnd in range(rounds):
        d = scratch.case_dir()
        # the git stub sleeps a little: the processes that missed the cache all reach set_cache at about the same time
        sc = base_sc({}, log=rng.choice(["present", "absent"]),
                     git={"branch": ["ok", 0, "main\n"], "diff": ["ok", 0, ""], "delay": rng.choice(["0.05", "0.15"])})
        setup_case(sc, scratch, d)
        env = env_of(sc, scratch, d)
        sid = "shared-%d" % rnd
        vals = [{"session_id": sid, "model": {"display_name": big_name(k, size)}, "workspace": {"current_dir": os.path.join(d, "work", "proj")}}
                for k in range(nproc)]
        # the complete line of each invocation, from the real command in an isolated cache
        complete = set()
        solo = []
        for v in vals[:2]:
            d2 = scratch.case_dir()
            setup_case(sc, scratch, d2)
            q = subprocess.run([PY, script()], input=json.dumps(v).encode(), env=env_of(sc, scratch, d2), capture_output=True, cwd=os.path.join(d2, "work"))
            solo.append(q.stdout)
            complete.add(q.stdout)
            shutil.rmtree(d2, ignore_errors=True)
        # the other lines differ from the first only by the display name (checked on the second)
        name0 = vals[0]["model"]["display_name"].encode()
        pre, post = solo[0].split(name0) if solo[0].count(name0) == 1 else (b"?", b"?")
        if pre + vals[1]["model"]["display_name"].encode() + post != solo[1]:
            out.notes.append("concurrency: could not derive the complete lines from the isolated runs")
        for v in vals:
            complete.add(pre + v["model"]["display_name"].encode() + post)
        procs = []
        plan = []
        infiles = {}
        for k, v in enumerate(vals):
            infiles[id(v)] = os.path.join(d, "tmp", f"in{k}.json")
            write_bytes(infiles[id(v)], json.dumps(v).encode())
        for wave in range(3):
            for k, v in enumerate(vals):
                plan.append((rng.uniform(0, 0.25) + wave * 0.3, v, rng.random() < 0.35, rng.uniform(0.0, 0.12)))
        plan.sort(key=lambda x: x[0])
        t0 = time.time()
        kills = []
        for start, v, kill, after in plan:
            dt = start - (time.time() - t0)
            if dt > 0:
                time.sleep(dt)
            p = subprocess.Popen([PY, script()], stdin=open(infiles[id(v)], "rb"), stdout=subprocess.PIPE, stderr=subprocess.PIPE, env=env,
                                 cwd=os.path.join(d, "work"))
            procs.append((p, kill))
            if kill:
                kills.append((time.time() + after, p))
            now = time.time()
            for when, kp in list(kills):
                if when <= now:
                    try:
                        kp.send_signal(signal.SIGKILL)
                    except OSError:
                        pass
                    kills.remove((when, kp))
        for when, kp in kills:
            dt = when - time.time()
            if dt > 0:
                time.sleep(dt)
            try:
                kp.send_signal(signal.SIGKILL)
            except OSError:
                pass
        killed = survived = 0
        with concurrent.futures.ThreadPoolExecutor(max_workers=len(procs)) as ex:
            outs = list(ex.map(lambda pk: pk[0].communicate(), procs))
        for (p, kill), (so, se) in zip(procs, outs):
            if p.returncode == -signal.SIGKILL:
                killed += 1
                continue
            survived += 1
            served_total += 1
            out.case(["concurrent", rnd, p.pid], nontrivial=True)
            if p.returncode != 0 or b"Traceback" in se or not so:
                out.violations.append({"kind": "total", "what": "a concurrent invocation failed", "rc": p.returncode, "stderr": se.decode("utf-8", "replace")[-300:],
                                       "check": "concurrency", "signature_text": "total-concurrent rc=%s" % p.returncode})
            elif so not in complete:
                out.violations.append({"kind": "atomic", "what": "a concurrent invocation printed a line that is not the complete line of any invocation (torn or mixed cache entry)",
                                       "line_len": len(so), "line_head": repr(so[:60]), "line_tail": repr(so[-60:]),
                                       "complete_lens": sorted(len(c) for c in complete)[:4], "round": rnd, "nproc": nproc,
                                       "check": "concurrency", "signature_text": "atomic: torn line served (concurrent run)"})
        # afterwards: the entry itself, and one more reader
        entry = os.path.join(cache_dir(d), sid + ".cache")
        if os.path.exists(entry):
            with open(entry, "rb") as f:
                content = f.read()
            if content + b"\n" not in complete:
                out.violations.append({"kind": "atomic", "what": "after the run the cache entry holds a partial or mixed line", "len": len(content),
                                       "head": repr(content[:60]), "tail": repr(content[-60:]), "check": "concurrency", "signature_text": "atomic: torn entry on disk"})
        left = [n for n in os.listdir(cache_dir(d)) if ".tmp." in n and not n.startswith(MCP_NAME[0])]
        out.count("concurrency", "killed" if killed else "none-killed")
        out.extra.setdefault("concurrency", {"rounds": 0, "killed": 0, "survived": 0, "tmp_left": 0})
        c = out.extra["concurrency"]
        c["rounds"] += 1; c["killed"] += killed; c["survived"] += survived; c["tmp_left"] += len(left)
    return served_total


# ------------------------------------------------------------------------------------------ kill at each point of the write
KILL_POINTS = ["before_open", "after_open", "mid_write", "after_close", "after_rename"]


def kill_points(scratch, out, sizes):
    """SIGKILL exactly at each boundary of the cache write (fault injection by harness/c20_killwrap.py); afterwards the
    entry on disk and the line served to the next invocation must be the old or the new complete line."""
    wrap = os.path.join(os.path.dirname(os.path.abspath(__file__)), "c20_killwrap.py")
    for size in sizes:
        for point in KILL_POINTS:
            for had_entry in (True, False):
                d = scratch.case_dir()
                sc = base_sc({}, log="present")
                setup_case(sc, scratch, d)
                env = env_of(sc, scratch, d)
                sid = "kp"
                entry = os.path.join(cache_dir(d), sid + ".cache")
                mk = lambda name: json.dumps({"session_id": sid, "model": {"display_name": name}}).encode()
                old = new = None
                if had_entry:
                    q = subprocess.run([PY, script()], input=mk("OLD" + "o" * size), env=env, capture_output=True, cwd=os.path.join(d, "work"))
                    old = q.stdout
                    t = time.time() - 100
                    os.utime(entry, (t, t))
                # the complete new line, from an isolated run
                d2 = scratch.case_dir()
                setup_case(sc, scratch, d2)
                q = subprocess.run([PY, script()], input=mk("NEW" + "n" * size), env=env_of(sc, scratch, d2), capture_output=True, cwd=os.path.join(d2, "work"))
                new = q.stdout
                shutil.rmtree(d2, ignore_errors=True)
                k = subprocess.run([PY, wrap, script(), point], input=mk("NEW" + "n" * size), env=env, capture_output=True, cwd=os.path.join(d, "work"))
                out.case(["kill", point, had_entry, size], nontrivial=True)
                out.count("kill-point", point if k.returncode == -signal.SIGKILL else point + ":not-reached")
                allowed = {x for x in (old, new) if x}
                on_disk = None
                if os.path.exists(entry):
                    with open(entry, "rb") as f:
                        on_disk = f.read() + b"\n"
                    if on_disk not in allowed:
                        out.violations.append({"kind": "atomic", "what": f"after a SIGKILL at '{point}' of the cache write the entry holds a partial or mixed line",
                                               "kill_point": point, "had_entry": had_entry, "len_on_disk": len(on_disk), "len_old": len(old or b""), "len_new": len(new),
                                               "check": "kill_points", "size": size, "signature_text": "atomic: torn entry after kill at " + point})
                    now = time.time()
                    os.utime(entry, (now, now))
                r = subprocess.run([PY, script()], input=mk("READER"), env=env, capture_output=True, cwd=os.path.join(d, "work"))
                if on_disk is not None and r.stdout not in allowed:
                    out.violations.append({"kind": "atomic", "what": f"the invocation after a SIGKILL at '{point}' was served a line that no invocation produced",
                                           "kill_point": point, "served_len": len(r.stdout), "served_head": repr(r.stdout[:60]),
                                           "check": "kill_points", "size": size, "signature_text": "atomic: torn line served after kill at " + point})
                if r.returncode != 0 or not r.stdout or b"Traceback" in r.stderr:
                    out.violations.append({"kind": "total", "what": "the invocation after a killed one failed", "rc": r.returncode,
                                           "check": "kill_points", "size": size, "signature_text": "total: after kill at " + point})
                stray = [n for n in os.listdir(cache_dir(d)) if not n.startswith(("kp.cache", MCP_NAME[0]))]
                if stray:
                    out.violations.append({"kind": "confine", "what": "unexpected files in the cache directory after a kill", "files": stray,
                                           "check": "kill_points", "size": size, "signature_text": "confine: stray after kill " + point})
                shutil.rmtree(d, ignore_errors=True)


def overlap(scratch, out, size):
    """Two writers of one session overlapping deterministically: A pauses in the middle of its write, B writes and renames
    meanwhile.  The entry and every line served must be A's or B's complete line."""
    wrap = os.path.join(os.path.dirname(os.path.abspath(__file__)), "c20_killwrap.py")
    d = scratch.case_dir()
    sc = base_sc({}, log="present")
    setup_case(sc, scratch, d)
    env = env_of(sc, scratch, d)
    sid = "ov"
    entry = os.path.join(cache_dir(d), sid + ".cache")
    mk = lambda name: json.dumps({"session_id": sid, "model": {"display_name": name}}).encode()
    lines = []
    for name in ("A" * size, "B" * size):
        d2 = scratch.case_dir()
        setup_case(sc, scratch, d2)
        lines.append(subprocess.run([PY, script()], input=mk(name), env=env_of(sc, scratch, d2), capture_output=True, cwd=os.path.join(d2, "work")).stdout)
        shutil.rmtree(d2, ignore_errors=True)
    inf = os.path.join(d, "tmp", "inA.json")
    write_bytes(inf, mk("A" * size))
    pa = subprocess.Popen([PY, wrap, script(), "pause_mid_write"], stdin=open(inf, "rb"), stdout=subprocess.PIPE, stderr=subprocess.PIPE, env=env,
                          cwd=os.path.join(d, "work"))
    time.sleep(0.35)
    pb = subprocess.run([PY, script()], input=mk("B" * size), env=env, capture_output=True, cwd=os.path.join(d, "work"))
    mid = None
    if os.path.exists(entry):
        with open(entry, "rb") as f:
            mid = f.read() + b"\n"
    soa, sea = pa.communicate()
    served = subprocess.run([PY, script()], input=mk("READER"), env=env, capture_output=True, cwd=os.path.join(d, "work")).stdout
    final = None
    if os.path.exists(entry):
        with open(entry, "rb") as f:
            final = f.read() + b"\n"
    out.case(["overlap", size], nontrivial=True)
    out.count("overlap", "B-built" if pb.stdout == lines[1] else "B-other")
    for what, val in (("entry while A was paused", mid), ("entry at the end", final), ("line served at the end", served), ("B's output", pb.stdout), ("A's output", soa)):
        if val is not None and val not in lines:
            out.violations.append({"kind": "atomic", "what": "two overlapping writers of one session: " + what + " is neither writer's complete line",
                                   "check": "overlap", "len": len(val), "head": repr(val[:40]), "tail": repr(val[-40:]), "len_A": len(lines[0]), "len_B": len(lines[1]),
                                   "signature_text": "atomic: mixed line with overlapping writers (" + what + ")"})
    shutil.rmtree(d, ignore_errors=True)


# ------------------------------------------------------------------------------------------ strace: the protocol
SYS_RE = re.compile(r"^(\d+)\s+(\d+\.\d+)\s+(\w+)\((.*)\)\s+=\s+(-?\d+)")


def strace_trace(scratch, model, out, nproc, size):
    """strace N concurrent real runs, merge by time stamp, replay the sequence in the model's transition system."""
    strace = shutil.which("strace")
    if not strace:
        out.notes.append("strace not available: protocol trace not validated")
        return 0
    d = scratch.case_dir()
    # the git stub sleeps: every process has missed the cache before the first one writes it
    sc = base_sc({}, log="absent", git={"branch": ["ok", 0, "main\n"], "diff": ["ok", 0, ""], "delay": "0.3"})
    setup_case(sc, scratch, d)
    env = env_of(sc, scratch, d)
    sid = "traced"
    entry = os.path.join(cache_dir(d), sid + ".cache")
    procs = []
    for k in range(nproc):
        v = {"session_id": sid, "model": {"display_name": big_name(k, size)}, "workspace": {"current_dir": os.path.join(d, "work", "proj")}}
        tf = os.path.join(d, "tmp", f"strace{k}.txt")
        inf = os.path.join(d, "tmp", f"in{k}.json")
        write_bytes(inf, json.dumps(v).encode())
        p = subprocess.Popen([strace, "-f", "-ttt", "-e", "trace=openat,read,write,close,rename,renameat,renameat2", "-o", tf, PY, script()],
                             stdin=open(inf, "rb"), stdout=subprocess.PIPE, stderr=subprocess.PIPE, env=env, cwd=os.path.join(d, "work"))
        procs.append((p, tf, v))
    results = [None] * nproc
    with concurrent.futures.ThreadPoolExecutor(max_workers=nproc) as ex:
        futs = [ex.submit(p.communicate) for p, _, _ in procs]
        for k, fu in enumerate(futs):
            results[k] = fu.result()[0]
    # a reader after the writers
    tf = os.path.join(d, "tmp", "strace-reader.txt")
    p = subprocess.run([strace, "-f", "-ttt", "-e", "trace=openat,read,write,close,rename,renameat,renameat2", "-o", tf, PY, script()],
                       input=json.dumps({"session_id": sid, "model": {"display_name": "reader"}}).encode(), env=env, capture_output=True,
                       cwd=os.path.join(d, "work"))
    results.append(p.stdout)
    procs.append((None, tf, None))
    # parse
    events = []      # (time, model event)
    proto = []
    rid = 0
    for idx, (_, tf, v) in enumerate(procs):
        fds = {}     # fd -> ("w", pidtag) | ("r", rid)
        want = None
        with open(tf, errors="replace") as f:
            for line in f:
                m = SYS_RE.match(line)
                if not m:
                    continue
                pid, ts, name, args, ret = m.group(1), float(m.group(2)), m.group(3), m.group(4), int(m.group(5))
                if name == "openat" and ret >= 0:
                    pm = re.search(r'"([^"]*)"', args)
                    path = pm.group(1) if pm else ""
                    if path.startswith(entry + ".tmp."):
                        if "O_WRONLY" in args and "O_CREAT" in args and "O_TRUNC" in args:
                            fds[(pid, ret)] = ("w", idx)
                            events.append((ts, ["openw", str(idx)]))
                            proto.append((idx, "open-tmp"))
                        else:
                            proto.append((idx, "open-tmp-unexpected-flags"))
                    elif path == entry:
                        if "O_RDONLY" in args:
                            fds[(pid, ret)] = ("r", rid)
                            events.append((ts, ["openr", str(rid)]))
                            rid += 1
                        else:
                            proto.append((idx, "open-entry-for-writing"))
                elif name == "write" and ret > 0 and (pid, int(args.split(",")[0])) in fds:
                    kind, who = fds[(pid, int(args.split(",")[0]))]
                    if kind == "w":
                        events.append((ts, ["write", str(who), str(ret)]))
                        proto.append((idx, "write"))
                elif name == "read" and (pid, int(args.split(",")[0])) in fds:
                    kind, who = fds[(pid, int(args.split(",")[0]))]
                    if kind == "r" and ret > 0:
                        events.append((ts, ["read", str(who), str(ret)]))
                elif name == "close" and (pid, int(args.split(",")[0])) in fds:
                    kind, who = fds.pop((pid, int(args.split(",")[0])))
                    events.append((ts, ["closew" if kind == "w" else "closer", str(who)]))
                    if kind == "w":
                        proto.append((idx, "close"))
                elif name in ("rename", "renameat", "renameat2") and ret == 0 and entry + ".tmp." in args and args.rstrip().split('"')[-2] == entry:
                    events.append((ts, ["rename", str(idx)]))
                    proto.append((idx, "rename"))
    events.sort(key=lambda e: e[0])
    # the line each writer caches (bytes), from what it printed
    spawn = []
    for idx, so in enumerate(results[:-1]):
        line = so[:-1] if so.endswith(b"\n") else so
        if any(e[1][0] == "openw" and e[1][1] == str(idx) for e in events):
            spawn.append(["spawn", str(idx), line.decode("latin-1")])
    evs = spawn + [e[1] for e in events]
    res = model.call(["sl_exec", "protocol", [], evs, str(rid)])
    out.case(["strace", len(evs)], nontrivial=True)
    out.extra["traces_validated_against_impl"] = out.extra.get("traces_validated_against_impl", 0) + 1
    out.extra["strace_sample"] = [e if e[0] != "spawn" else ["spawn", e[1], "<%d bytes>" % len(e[2])] for e in evs[:40]]
    per = {}
    for idx, what in proto:
        per.setdefault(idx, []).append(what)
    for idx, seq in per.items():
        collapsed = [x for i, x in enumerate(seq) if not (x == "write" and i > 0 and seq[i - 1] == "write")]
        if collapsed != ["open-tmp", "write", "close", "rename"]:
            out.violations.append({"kind": "atomic", "what": "the system-call sequence of the cache write is not open(tmp.<pid>, O_WRONLY|O_CREAT|O_TRUNC); write+; close; rename(tmp, entry)",
                                   "check": "strace", "sequence": seq, "signature_text": "atomic-protocol: " + ",".join(collapsed)})
    if res == []:
        out.disagreements.append({"correspondence": "Statusline.step (transition system) <-> strace of concurrent runs",
                                  "detail": "the observed system-call sequence is not a run of the model", "events": out.extra["strace_sample"]})
        return 0
    final, readers, produced = res[0]
    lines = set(x for x in produced)
    for r in readers:
        if r[0] == "done" and r[1] not in lines:
            out.disagreements.append({"correspondence": "Statusline.step <-> strace", "detail": "model reader got an incomplete line on the observed schedule"})
    # and the real reader printed a complete line
    if results[-1] not in set(results[:-1]):
        served = results[-1]
        if not any(served == w for w in results[:-1]):
            out.violations.append({"kind": "atomic", "what": "the reader that ran after the traced writers was not served one of their complete lines",
                                   "check": "strace", "served": repr(served[:80]), "signature_text": "atomic: reader after traced writers"})
    return len(evs)


def repo_constants(scratch):
    """Where the repository really keeps its caches (asked of the module itself, in a child with the scratch environment)."""
    d = scratch.case_dir()
    env = {"HOME": os.path.join(d, "home"), "XDG_CACHE_HOME": os.path.join(d, "xdg"), "PATH": scratch.bin, "PYTHONDONTWRITEBYTECODE": "1",
           "PYTHONPATH": os.path.join(lib.REPO, "src"), "LC_ALL": "C.UTF-8"}
    p = subprocess.run([PY, "-c", "from dippy import dippy_statusline as m; import json; print(json.dumps([m.CACHE_DIR, m.MCP_CACHE_PATH, m.LOG_PATH]))"],
                       env=env, capture_output=True, text=True, timeout=60)
    cdir, mcp, logp = json.loads(p.stdout)
    assert cdir == cache_dir(d), (cdir, cache_dir(d))
    assert os.path.dirname(mcp) == cdir
    MCP_NAME[0] = os.path.basename(mcp)
    shutil.rmtree(d, ignore_errors=True)
    return {"cache_dir": cdir.replace(d, "<case>"), "mcp_cache": MCP_NAME[0], "log": logp.replace(d, "<case>")}


# ------------------------------------------------------------------------------------------ entry point
def run(tier, seed, replay=None):
    rng = random.Random(seed)
    out = core.Outcome("C20")
    scratch = Scratch()
    out.extra["repo_constants"] = repo_constants(scratch)
    model = lib.Model()
    xcheck = []
    try:
        if replay is not None and "scenario" in replay and "stdin_kind" in replay.get("scenario", {}):
            d, exp, obs = execute(replay["scenario"], scratch)
            judge("replay", replay["scenario"], d, exp, obs, model, out, xcheck)
        elif replay is not None and "history" in replay:
            run_history(scratch, model, out, replay["history"], "replay")
        elif replay is not None and replay.get("check") == "kill_points":
            kill_points(scratch, out, [replay.get("size", 300000)])
        elif replay is not None and replay.get("check") == "overlap":
            overlap(scratch, out, 20000)
        elif replay is not None and replay.get("check") == "concurrency":
            concurrency(scratch, out, rng, rounds=5, nproc=replay.get("nproc", 6), size=400000)
        elif replay is not None and replay.get("check") == "strace":
            strace_trace(scratch, model, out, nproc=3, size=50000)
        elif replay is not None and replay.get("check") == "alias":
            alias_mcp(scratch, model, out)
        elif replay is not None and replay.get("check") == "paths":
            check_paths(model, scratch, out, rng, 300)
        else:
            cases = systematic(rng)
            n_rand, n_mal = (220, 60) if tier == "quick" else (6000, 1500)
            cases += [("random", random_sc(rng)) for _ in range(n_rand)]
            cases += [("malformed", malformed_sc(rng)) for _ in range(n_mal)]
            cases.append(("git-timeout", base_sc(normal_value(rng), git=GIT_SLOW)))
            # the witnesses of the repaired defects (fe4fc32, 16f7bd5) stay in the stream
            cases.append(("witness", base_sc({"context_window": {"context_window_size": 100}, "transcript_path": True})))
            cases.append(("witness", base_sc({"session_id": "w", "model": {"display_name": "clean"}}, cache=["text", "stale\nentry", 0])))
            with concurrent.futures.ThreadPoolExecutor(max_workers=12) as ex:
                futs = [(dim, sc, ex.submit(execute, sc, scratch)) for dim, sc in cases]
                for dim, sc, fu in futs:
                    d, exp, obs = fu.result()
                    ok = judge(dim, sc, d, exp, obs, model, out, xcheck)
                    if not ok:
                        model = lib.Model()
                    shutil.rmtree(d, ignore_errors=True)
            check_paths(model, scratch, out, rng, 300 if tier == "quick" else 20000)
            histories(scratch, model, out, rng, 6 if tier == "quick" else 150)
            alias_mcp(scratch, model, out)
            kill_points(scratch, out, [50, 300000] if tier == "quick" else [0, 50, 9000, 300000, 3000000])
            for size in ([20000] if tier == "quick" else [10, 20000, 500000]):
                overlap(scratch, out, size)
            if tier == "quick":
                concurrency(scratch, out, rng, rounds=3, nproc=6, size=400000)
                strace_trace(scratch, model, out, nproc=3, size=50000)
            else:
                concurrency(scratch, out, rng, rounds=25, nproc=8, size=600000)
                for _ in range(5):
                    strace_trace(scratch, model, out, nproc=4, size=100000)
    finally:
        model.close()
        scratch.close()
    n, mism = core.coq_crosscheck("C20", xcheck)
    out.extra["coq_vm_crosscheck"] = {"cases": n, "mismatches": len(mism)}
    if mism:
        out.disagreements.append({"correspondence": "extracted OCaml model <-> vm_compute in Coq", "detail": mism[:5]})
    out.extra["rule"] = ("systematic: every input field x every JSON type and the listed odd strings (session ids with / .. NUL 10 kB surrogates, non-strings), "
                         "every state of cache entry / cache dir / mcp.cache / mcp.local.json / settings.json / log / transcript / git stub, one dimension at a time "
                         "around a normal invocation; random: all dimensions drawn independently; malformed: random and mutated stdin bytes; plus cache-path table, "
                         "histories sharing a cache, session id 'mcp', concurrent + SIGKILLed invocations, strace'd runs replayed in the model. "
                         "distinct = distinct scenario (stdin + state files) or distinct (session id | history | process of a concurrent round); all are non-trivial "
                         "(each runs the real command or the real get_cache_path)")
    return out
