"""C17, environment dimension: the analysed script's surroundings, not its text.

A *case* is (layout of a private jail directory, command line, cwd inside the jail).  The jail is built
for real (files, directories, file / directory symlinks, dangling links, loops, fifos, sourceless .pyc,
extension modules), the command is given to the real analysis (dippy.core.analyzer.analyze with that cwd)
and - when it is approved - run for real by `bash -c` in that cwd with a canary-writing program on stdin.
Every file of the jail that must NOT run writes a canary named after its role; the whole jail is
snapshotted before and after.  Ground truth is therefore the real bash + the real interpreter:

    approved  and  (a canary appears  or  any path of the jail appears / disappears / changes size)
        => violation (the class is computed from the role of the file that ran, model-free)

Families (each is a systematic cross, see `rule` in the evidence):
  access    how the script is named and reached (relative, ./, sub/, `..`, absolute, //, trailing /, file
            symlink rel/abs/renamed/chained/into-subdir, directory symlink, `..` through a directory symlink,
            symlinked cwd, dangling, loop, directory, fifo, hard link, no/other suffix)
            x where a neighbour lies (next to the REAL file, next to the LINK, in the cwd, in an intermediate dir)
            x what the neighbour is (M.py, package, bare dir, sourceless M.pyc, package of .pyc, __pycache__ only,
              M.PY, M.pyw, near-miss names, M.py symlink, dangling M.py, directory M.py, M.so / M.<abi>.so)
  modules   every safe-listed module x import form x shadow kind, and every module the real interpreter
            loads *transitively* for it (discovered with -X importtime on each run) x shadow kind
  implicit  scripts without import statements that make the interpreter import (codecs by name, coding
            cookies, warnings, tracebacks), same discovery, same planting
  mcal      `python -m calendar` x what lies in the cwd (direct and transitive)
  prefix    environment assignments (every PYTHON* variable of `python --help-env`) x how they are given
            (prefix, env, export) and wrappers / directory changes (env -C, cd, pushd, subshell, time, nice...)
  expand    script words bash rewrites before python sees them (~, $HOME, braces, globs, quotes, substitutions)
  paths     all component sequences up to length 3 over a path alphabet in one layout that has every
            link structure at once: tokens with the same real path must get the same verdict
Correspondence: the model's classify over a modelled file system (Entry py_fs_*), see run_env().
"""
from __future__ import annotations

import concurrent.futures as cf
import importlib.util
import itertools
import marshal
import os
import re
import shlex
import shutil
import stat
import subprocess
import warnings
from pathlib import Path

PY = "/venv/bin/python"
STDIN_PROGRAM = b'open("CANARY_stdin", "w").close()\n'
TAG = "cpython-%d%d" % tuple(__import__("sys").version_info[:2])
SOABI = importlib.machinery.EXTENSION_SUFFIXES[0] if hasattr(importlib, "machinery") else ".so"


# ---------------------------------------------------------------- file contents
def safe_src(mods=("json",), form="import"):
    lines = []
    for m in mods:
        if form == "import":
            lines.append(f"import {m}")
        elif form == "as":
            lines.append(f"import {m} as _m")
        elif form == "from":
            lines.append(f"from {m} import __name__ as _n")
        elif form == "in-def":
            lines.append(f"def _f():\n    import {m}\n    return {m}\n_f()")
        elif form == "try":
            lines.append(f"try:\n    import {m}\nexcept ImportError:\n    pass")
    lines.append('print("RAN:script")')
    return ("\n".join(lines) + "\n").encode()


def evil_src(role):
    # the canary lands in the process cwd, which is always inside the jail
    return f'open("CANARY_{role}", "w").close()\n'.encode()


_PYC = {}


def evil_pyc(role):
    if role not in _PYC:
        code = compile(evil_src(role), f"<{role}>", "exec")
        from importlib._bootstrap_external import _code_to_timestamp_pyc
        _PYC[role] = bytes(_code_to_timestamp_pyc(code, 0, 0))
    return _PYC[role]


_SO = {}


def evil_so(scratch_root):
    """one shared object whose constructor writes CANARY_so in the cwd (dlopen runs it before the import
    fails for want of PyInit_<name>); None when no C compiler is present"""
    if "so" not in _SO:
        _SO["so"] = None
        src = os.path.join(scratch_root, "evilso.c")
        outp = os.path.join(scratch_root, "evilso.so")
        with open(src, "w") as f:
            f.write('#include <stdio.h>\n__attribute__((constructor)) static void c(void)'
                    '{FILE*f=fopen("CANARY_so","w"); if(f) fclose(f);}\n')
        for cc in ("gcc", "cc", "clang"):
            if shutil.which(cc):
                p = subprocess.run([cc, "-shared", "-fPIC", "-o", outp, src], capture_output=True)
                if p.returncode == 0:
                    with open(outp, "rb") as f:
                        _SO["so"] = f.read()
                    break
    return _SO["so"]


# ---------------------------------------------------------------- jail
class Case:
    __slots__ = ("family", "dims", "ops", "cmd", "cwd", "tokens", "root", "decision", "effects", "ran", "rc")

    def __init__(self, family, dims, ops, cmd, cwd="w", tokens=None):
        self.family, self.dims, self.ops, self.cmd, self.cwd, self.tokens = family, dims, ops, cmd, cwd, tokens
        self.root = self.decision = self.effects = self.ran = self.rc = None

    def record(self):
        return {"family": self.family, "dims": self.dims, "cmd": self.cmd, "cwd": self.cwd, "tokens": self.tokens,
                "ops": [[o[0], o[1]] + [x.decode("latin-1") if isinstance(x, bytes) else x for x in o[2:]] for o in self.ops]}

    @staticmethod
    def from_record(r):
        ops = [tuple([o[0], o[1]] + [x.encode("latin-1") if (o[0] in ("f",) and isinstance(x, str)) else x for x in o[2:]])
               for o in r["ops"]]
        return Case(r["family"], r["dims"], ops, r["cmd"], r["cwd"], r.get("tokens"))


def build(root, ops, so_bytes=None):
    """ops: ("d", rel) | ("f", rel, bytes) | ("l", rel, target) | ("fifo", rel) | ("hard", rel, src) | ("so", rel)
    `{R}` in a link target or in a file's bytes stands for the jail root"""
    os.makedirs(root)
    rb = root.encode()
    for op in ops:
        kind, rel = op[0], op[1]
        p = os.path.join(root, rel)
        if kind == "d":
            os.makedirs(p, exist_ok=True)
            continue
        os.makedirs(os.path.dirname(p), exist_ok=True)
        if kind == "f":
            with open(p, "wb") as f:
                f.write(op[2].replace(b"{R}", rb))
        elif kind == "l":
            os.symlink(op[2].replace("{R}", root), p)
        elif kind == "fifo":
            os.mkfifo(p)
        elif kind == "hard":
            os.link(os.path.join(root, op[2]), p)
        elif kind == "so":
            with open(p, "wb") as f:
                f.write(so_bytes if so_bytes else b"\x7fELF-not-really")


def snapshot(root):
    out = {}
    for d, dirs, files in os.walk(root):
        for n in dirs + files:
            p = os.path.join(d, n)
            try:
                st = os.lstat(p)
            except OSError:
                continue
            out[os.path.relpath(p, root)] = (stat.S_IFMT(st.st_mode), st.st_size if stat.S_ISREG(st.st_mode) else 0)
    return out


def run_real(case, bindir, timeout=8):
    """run the approved command for real; effects = sorted list of changed jail paths"""
    root = case.root
    before = snapshot(root)
    env = {"PATH": f"{bindir}:/usr/bin:/bin", "HOME": os.path.join(root, "home"), "LANG": "C.UTF-8"}
    try:
        p = subprocess.run(["bash", "--norc", "--noprofile", "-c", case.cmd], cwd=os.path.join(root, case.cwd),
                           input=STDIN_PROGRAM, capture_output=True, timeout=timeout, env=env)
        rc, so = p.returncode, p.stdout.decode("utf-8", "replace")
    except subprocess.TimeoutExpired:
        rc, so = -9, ""
    after = snapshot(root)
    eff = sorted(k for k in set(before) | set(after) if before.get(k) != after.get(k))
    case.effects, case.rc, case.ran = eff, rc, "RAN:script" in so
    return case


# ---------------------------------------------------------------- neighbours
NB_KINDS = ["py", "pkg", "nsdir", "pyc", "pkgpyc", "cacheonly", "upper", "pyw", "near", "pylink", "pydangling", "pydir",
            "so", "soabi"]
NB_QUICK = ["py", "pkg", "nsdir", "pyc", "pkgpyc", "pylink", "pydangling", "so"]


def nb_ops(place, m, kind, role):
    """what to put in directory `place` so that a module called m of the given kind lies there"""
    j = lambda *a: "/".join(x for x in (place,) + a if x)   # noqa: E731
    if kind == "py":
        return [("f", j(m + ".py"), evil_src(role))]
    if kind == "pkg":
        return [("f", j(m, "__init__.py"), evil_src(role))]
    if kind == "nsdir":
        return [("d", j(m))]
    if kind == "pyc":
        return [("f", j(m + ".pyc"), evil_pyc(role))]
    if kind == "pkgpyc":
        return [("f", j(m, "__init__.pyc"), evil_pyc(role))]
    if kind == "cacheonly":
        return [("f", j("__pycache__", f"{m}.{TAG}.pyc"), evil_pyc(role))]
    if kind == "upper":
        return [("f", j(m + ".PY"), evil_src(role))]
    if kind == "pyw":
        return [("f", j(m + ".pyw"), evil_src(role))]
    if kind == "near":
        return [("f", j(m + "_.py"), evil_src(role)), ("f", j(m + ".py.bak"), evil_src(role)), ("f", j("x" + m + ".py"), evil_src(role))]
    if kind == "pylink":
        return [("f", "store/e.py", evil_src(role)), ("l", j(m + ".py"), "{R}/store/e.py")]
    if kind == "pydangling":
        return [("l", j(m + ".py"), "{R}/store/missing.py")]
    if kind == "pydir":
        return [("d", j(m + ".py"))]
    if kind == "so":
        return [("so", j(m + ".so"))]
    if kind == "soabi":
        return [("so", j(m + SOABI))]
    raise ValueError(kind)


# ---------------------------------------------------------------- access paths
def access_paths(content):
    """name -> dict(ops, tok, cwd, real, link, third): `real` is the directory of the file CPython executes,
    `link` the directory of the name on the command line, `third` other directories on the way"""
    S = content
    E = lambda r: evil_src(r)   # noqa: E731
    A = {}

    def add(name, ops, tok, real, link, cwd="w", third=("w",), note="", script=None):
        A[name] = {"ops": [("d", "w"), ("d", "home")] + ops, "tok": tok, "cwd": cwd, "real": real, "link": link,
                   "third": [t for t in third if t not in (real, link)], "note": note,
                   "words": ["python3"] + (list(tok) if isinstance(tok, (list, tuple)) else [tok]),
                   "script": script if script is not None else tok if isinstance(tok, str) else tok[-1]}

    add("plain", [("f", "w/x.py", S)], "x.py", "w", "w")
    add("dot", [("f", "w/x.py", S)], "./x.py", "w", "w")
    add("sub", [("f", "w/sub/x.py", S)], "sub/x.py", "w/sub", "w/sub")
    add("dotdot", [("f", "w/x.py", S), ("d", "w/sub")], "sub/../x.py", "w", "w", third=("w/sub",))
    add("updir", [("f", "w/x.py", S)], "../w/x.py", "w", "w")
    add("abs", [("f", "w/x.py", S)], "{R}/w/x.py", "w", "w")
    add("absdotdot", [("f", "w/x.py", S), ("d", "w/sub")], "{R}/w/sub/../x.py", "w", "w", third=("w/sub",))
    add("abs-other-cwd", [("f", "lib/x.py", S)], "{R}/lib/x.py", "lib", "lib")
    add("dslash", [("f", "w/x.py", S)], ".//x.py", "w", "w")
    add("sub-dslash", [("f", "w/sub/x.py", S)], "sub//x.py", "w/sub", "w/sub")
    add("trailing-slash", [("f", "w/x.py", S)], "x.py/", "w", "w")
    add("dot-component", [("f", "w/sub/x.py", S)], "sub/./x.py", "w/sub", "w/sub")
    add("pyw", [("f", "w/x.pyw", S)], "x.pyw", "w", "w")
    add("flink-rel", [("f", "lib/x.py", S), ("l", "w/x.py", "../lib/x.py")], "x.py", "lib", "w")
    add("flink-abs", [("f", "lib/x.py", S), ("l", "w/x.py", "{R}/lib/x.py")], "x.py", "lib", "w")
    add("flink-same-dir", [("f", "w/y.py", S), ("l", "w/x.py", "y.py")], "x.py", "w", "w")
    add("flink-renamed", [("f", "lib/real_name.py", S), ("l", "w/x.py", "../lib/real_name.py")], "x.py", "lib", "w")
    add("flink-chain", [("f", "lib/x.py", S), ("l", "mid/x.py", "../lib/x.py"), ("l", "w/x.py", "../mid/x.py")],
        "x.py", "lib", "w", third=("mid", "w"))
    add("flink-in-sub", [("f", "lib/x.py", S), ("d", "w/sub"), ("l", "w/sub/x.py", "../../lib/x.py")], "sub/x.py", "lib", "w/sub")
    add("flink-dotslash", [("f", "lib/x.py", S), ("l", "w/x.py", "../lib/x.py")], "./x.py", "lib", "w")
    add("flink-abs-spelling", [("f", "lib/x.py", S), ("l", "w/x.py", "../lib/x.py")], "{R}/w/x.py", "lib", "w")
    add("flink-suffix-on-link-only", [("f", "lib/x", S), ("l", "w/x.py", "../lib/x")], "x.py", "lib", "w")
    add("flink-suffix-on-target-only", [("f", "lib/x.py", S), ("l", "w/x", "../lib/x.py")], "x", "lib", "w")
    add("flink-to-evil", [("f", "lib/x.py", E("linktarget")), ("l", "w/x.py", "../lib/x.py")], "x.py", "lib", "w")
    add("hardlink", [("f", "lib/x.py", S), ("d", "w"), ("hard", "w/x.py", "lib/x.py")], "x.py", "w", "w", third=("lib",))
    add("dlink", [("f", "lib/x.py", S), ("l", "w/d", "../lib")], "d/x.py", "lib", "w")
    add("dlink-abs-target", [("f", "lib/x.py", S), ("l", "w/d", "{R}/lib")], "d/x.py", "lib", "w")
    add("dlink-abs-spelling", [("f", "lib/x.py", S), ("l", "w/d", "../lib")], "{R}/w/d/x.py", "lib", "w")
    add("dlink-dotdot-real-safe", [("f", "lib/x.py", S), ("d", "lib/inner"), ("l", "w/d", "../lib/inner"), ("f", "w/x.py", E("lexical"))],
        "d/../x.py", "lib", "w", third=("lib/inner",), note="kernel: d/.. is lib; lexically it is w")
    add("dlink-dotdot-real-evil", [("f", "lib/x.py", E("kernel")), ("d", "lib/inner"), ("l", "w/d", "../lib/inner"), ("f", "w/x.py", S)],
        "d/../x.py", "lib", "w", third=("lib/inner",))
    add("dlink-then-flink", [("f", "lib2/x.py", S), ("l", "lib/x.py", "../lib2/x.py"), ("l", "w/d", "../lib")], "d/x.py", "lib2", "lib",
        third=("w",))
    add("cwd-is-symlink", [("f", "w/x.py", S), ("d", "deep"), ("l", "deep/wl", "../w")], "x.py", "w", "w", cwd="deep/wl", third=("deep",))
    add("cwd-symlink-dotdot-real-safe", [("d", "w"), ("f", "lib/x.py", S), ("d", "deep"), ("l", "deep/wl", "../w"), ("f", "deep/lib/x.py", E("lexical"))],
        "../lib/x.py", "lib", "lib", cwd="deep/wl", third=("deep/lib", "w"))
    add("cwd-symlink-dotdot-real-evil", [("d", "w"), ("f", "lib/x.py", E("kernel")), ("d", "deep"), ("l", "deep/wl", "../w"), ("f", "deep/lib/x.py", S)],
        "../lib/x.py", "lib", "lib", cwd="deep/wl", third=("deep/lib", "w"))
    add("dangling", [("d", "lib"), ("l", "w/x.py", "../lib/missing.py")], "x.py", "lib", "w")
    add("loop", [("l", "w/x.py", "x.py")], "x.py", "w", "w")
    add("loop2", [("l", "w/x.py", "y.py"), ("l", "w/y.py", "x.py")], "x.py", "w", "w")
    add("directory", [("f", "w/x.py/__main__.py", E("dirmain"))], "x.py", "w/x.py", "w")
    add("fifo", [("fifo", "w/x.py")], "x.py", "w", "w")
    add("missing", [], "x.py", "w", "w")
    add("file-as-dir", [("f", "w/x.py", S), ("f", "w/y.py", S)], "y.py/../x.py", "w", "w", note="python: ENOTDIR; Path.resolve pops lexically")
    # the file itself: size limit (100000 is the last accepted size), encodings, names
    pad = lambda n: S + b"#" * (n - len(S) - 1) + b"\n"   # noqa: E731
    add("size-100000", [("f", "w/x.py", pad(100000))], "x.py", "w", "w")
    add("size-100001", [("f", "w/x.py", pad(100001))], "x.py", "w", "w")
    add("size-100001-behind-link", [("f", "lib/x.py", pad(100001)), ("l", "w/x.py", "../lib/x.py")], "x.py", "lib", "w")
    add("empty-file", [("f", "w/x.py", b"")], "x.py", "w", "w")
    add("nul-byte", [("f", "w/x.py", S + b"\x00")], "x.py", "w", "w")
    add("utf8-bom", [("f", "w/x.py", b"\xef\xbb\xbf" + S)], "x.py", "w", "w")
    add("crlf", [("f", "w/x.py", S.replace(b"\n", b"\r\n"))], "x.py", "w", "w")
    add("latin1-no-cookie", [("f", "w/x.py", S + b"# \xe9\n")], "x.py", "w", "w")
    add("suffix-upper", [("f", "w/x.PY", S)], "x.PY", "w", "w")
    add("suffix-only", [("f", "w/.py", S)], ".py", "w", "w")
    add("suffix-double", [("f", "w/x.tar.py", S)], "x.tar.py", "w", "w")
    add("suffix-behind", [("f", "w/x.py.txt", S)], "x.py.txt", "w", "w")
    add("no-suffix", [("f", "w/x", S)], "x", "w", "w")
    add("space-in-name", [("f", "w/my script.py", S)], "my script.py", "w", "w")
    add("unicode-name", [("f", "w/\u00e9t\u00e9.py", S)], "\u00e9t\u00e9.py", "w", "w")
    add("dash-name-after-dashdash", [("f", "w/-x.py", S)], ["--", "-x.py"], "w", "w")
    add("dash-name-dot-slash", [("f", "w/-x.py", S)], "./-x.py", "w", "w")
    add("option-then-script", [("f", "w/x.py", S)], ["-B", "x.py"], "w", "w")
    add("script-then-args", [("f", "w/x.py", S), ("f", "w/sub/x.py", E("arg-file"))], ["x.py", "sub/x.py", "-m", "calendar"], "w", "w", third=("w/sub",), script="x.py")
    add("flink-with-option-arg", [("f", "lib/x.py", S), ("l", "w/x.py", "../lib/x.py")], ["-W", "ignore", "x.py"], "lib", "w")
    return A


def spell(tok, root):
    return tok.replace("{R}", root)


# ---------------------------------------------------------------- discovery of what really gets imported
_IMPORT_LINE = re.compile(r"^import time:\s+\d+ \|\s+\d+ \| +(\S+)\s*$", re.M)


def imports_of(workdir, name, source, extra_args=()):
    """top-level module names the real interpreter loads while running `source` (a file in an empty dir)"""
    d = os.path.join(workdir, name)
    os.makedirs(d, exist_ok=True)
    p = os.path.join(d, "x.py")
    with open(p, "wb") as f:
        f.write(source)
    r = subprocess.run([PY, "-X", "importtime", *extra_args, "x.py"], cwd=d, stdin=subprocess.DEVNULL, capture_output=True,
                       env={"PATH": "/usr/bin:/bin", "HOME": d, "LANG": "C.UTF-8"}, timeout=20)
    return {m.split(".")[0] for m in _IMPORT_LINE.findall(r.stderr.decode("utf-8", "replace"))}


def discover(workdir, sources, workers=8):
    """{key: sorted new top-level modules}, relative to an empty script"""
    base = imports_of(workdir, "_base", b"pass\n")
    with cf.ThreadPoolExecutor(max_workers=workers) as ex:
        res = list(ex.map(lambda kv: (kv[0], imports_of(workdir, f"d{kv[2]}", kv[1])), [(k, s, i) for i, (k, s) in enumerate(sources)]))
    return {k: sorted(v - base) for k, v in res}, sorted(base)


# ---------------------------------------------------------------- generators
def gen_access(tier, safe_modules):
    cases = []
    mods = sorted(m for m in safe_modules if "." not in m)
    kinds = NB_KINDS if tier != "quick" else NB_QUICK
    k = 0
    for m_fixed in (["json"] if tier == "quick" else ["json", "textwrap" if "textwrap" in mods else mods[0]]):
        A = access_paths(safe_src((m_fixed,)))
        for an, a in A.items():
            cases.append(Case("access", {"access": an, "nb": "none", "module": m_fixed, "script": a["script"]}, list(a["ops"]), "python3 {T}", a["cwd"], list(a["words"])))
            places = [("real", a["real"]), ("link", a["link"])] + [(f"third{i}", t) for i, t in enumerate(a["third"])]
            seen_dirs = set()
            for pname, pdir in places:
                if pdir in seen_dirs:
                    continue
                seen_dirs.add(pdir)
                pl = "real" if pdir == a["real"] else pname
                for kind in kinds:
                    role = f"nb.{pl}.{kind}.{m_fixed}"
                    ops = list(a["ops"]) + nb_ops(pdir, m_fixed, kind, role)
                    cases.append(Case("access", {"access": an, "nb": kind, "place": pl, "module": m_fixed}, ops, "python3 {T}", a["cwd"],
                                      list(a["words"])))
    # python's own path-related options x (plain | through a file symlink) x (nothing | M.py | M.pyc next to the real file)
    A0 = access_paths(safe_src(("json",)))
    for opt in ("-I", "-P", "-E", "-s", "-S", "-B", "-u", "-O", "-OO", "-q", "-b", "-d", "-R", "-IB", "-sS", "-EP"):
        for an in ("plain", "flink-rel"):
            a = A0[an]
            for kind in ("none", "py", "pyc"):
                ops = list(a["ops"]) + (nb_ops(a["real"], "json", kind, f"nb.real.{kind}.json") if kind != "none" else [])
                cases.append(Case("access", {"access": an, "nb": kind, "place": "real", "module": "json", "option": opt, "script": a["script"]}, ops,
                                  "python3 {T}", a["cwd"], ["python3", opt, a["tok"]]))
    # every safe module once through a rotating (access, place, kind): pairwise module x the rest
    A = None
    names = None
    for i, m in enumerate(mods):
        A = access_paths(safe_src((m,)))
        names = [n for n in A if n.startswith(("flink", "dlink", "plain", "sub", "cwd"))]
        for rep in range(2 if tier == "quick" else 6):
            an = names[(i * 7 + rep * 3 + k) % len(names)]
            a = A[an]
            kind = kinds[(i + rep) % len(kinds)]
            where = [("real", a["real"]), ("link", a["link"])][(i + rep) % 2]
            pl = "real" if where[1] == a["real"] else where[0]
            role = f"nb.{pl}.{kind}.{m}"
            cases.append(Case("access", {"access": an, "nb": kind, "place": pl, "module": m}, list(a["ops"]) + nb_ops(where[1], m, kind, role),
                              "python3 {T}", a["cwd"], list(a["words"])))
    return cases


FORMS = ["import", "as", "from", "in-def", "try"]


def gen_modules(tier, safe_modules, transitive):
    """direct shadows of every safe module in every import form; transitive ones by discovery"""
    cases = []
    mods = sorted(safe_modules)
    kinds_direct = ["py", "pkg", "pyc", "pkgpyc", "nsdir"] if tier == "quick" else NB_KINDS
    for i, m in enumerate(mods):
        root = m.split(".")[0]
        for fi, form in enumerate(FORMS if tier != "quick" else [FORMS[i % len(FORMS)], FORMS[(i + 2) % len(FORMS)]]):
            src = safe_src((m,), form)
            # the control: nothing around the script - it must be approved and run without any effect
            cases.append(Case("modules", {"module": m, "form": form, "nb": "none", "rel": "none"}, [("d", "w"), ("d", "home"), ("f", "w/x.py", src)],
                              "python3 x.py", "w", ["python3", "x.py"]))
            for kind in kinds_direct:
                role = f"nb.real.{kind}.{root}"
                ops = [("d", "w"), ("d", "home"), ("f", "w/x.py", src)] + nb_ops("w", root, kind, role)
                cases.append(Case("modules", {"module": m, "form": form, "nb": kind, "rel": "direct"}, ops, "python3 x.py", "w", ["python3", "x.py"]))
        deps = transitive.get(m, [])
        kinds_t = ["py", "pkg", "pyc", "pkgpyc", "so"] if tier == "quick" else ["py", "pkg", "pyc", "pkgpyc", "nsdir", "pylink", "so", "soabi"]
        pick = deps if tier != "quick" else [deps[(i + j * 3) % len(deps)] for j in range(min(3, len(deps)))]
        # loaded modules the repaired test cannot name: not identifiers, or not in sys.stdlib_module_names - always planted
        import sys as _sys
        outside = [d for d in deps if not (d.isidentifier() and d in getattr(_sys, "stdlib_module_names", ()))]
        for dep in outside:
            for kind in ("py", "soabi"):
                ops = [("d", "w"), ("d", "home"), ("f", "w/x.py", safe_src((m,)))] + nb_ops("w", dep, kind, f"tr.real.{kind}.{dep}")
                cases.append(Case("modules", {"module": m, "dep": dep, "nb": kind, "rel": "transitive", "outside_table": True}, ops, "python3 x.py", "w",
                                  ["python3", "x.py"]))
        pick = [d for d in pick if d not in outside]
        for j, dep in enumerate(dict.fromkeys(pick)):
            for kind in (kinds_t if tier != "quick" else [kinds_t[(i + j) % len(kinds_t)], "py"]):
                role = f"tr.real.{kind}.{dep}"
                ops = [("d", "w"), ("d", "home"), ("f", "w/x.py", safe_src((m,)))] + nb_ops("w", dep, kind, role)
                cases.append(Case("modules", {"module": m, "dep": dep, "nb": kind, "rel": "transitive"}, ops, "python3 x.py", "w", ["python3", "x.py"]))
    return cases


def implicit_sources(tier):
    """scripts with NO import statement whose execution makes the interpreter import something"""
    import encodings.aliases
    out = []
    codecs_ = sorted(set(encodings.aliases.aliases.values()) | {"idna", "punycode", "raw_unicode_escape", "unicode_escape", "undefined", "charmap"})
    if tier == "quick":
        codecs_ = [c for i, c in enumerate(codecs_) if i % 6 == 0] + ["idna", "bz2_codec", "zlib_codec", "uu_codec", "quopri_codec", "base64_codec", "hex_codec", "rot_13"]
    for c in dict.fromkeys(codecs_):
        out.append((f"codec-encode/{c}", f'try:\n    "x".encode("{c}")\nexcept Exception:\n    pass\nprint("RAN:script")\n'.encode()))
        out.append((f"codec-decode/{c}", f'try:\n    b"x".decode("{c}")\nexcept Exception:\n    pass\nprint("RAN:script")\n'.encode()))
    for c in (codecs_ if tier != "quick" else ["latin_1", "idna", "utf_16", "cp1252", "punycode", "rot_13", "bz2_codec"]):
        out.append((f"coding-cookie/{c}", f'# -*- coding: {c} -*-\nprint("RAN:script")\n'.encode()))
    out += [
        ("warning/syntax-escape", b'x = "\\d"\nprint("RAN:script")\n'),
        ("warning/syntax-is-literal", b'x = 1\nif x is 1:\n    pass\nprint("RAN:script")\n'),
        ("warning/assert-tuple", b'print("RAN:script")\nassert (1, "always true")\n'),
        ("traceback/zero-division", b'print("RAN:script")\n1 / 0\n'),
        ("traceback/name-error-suggestion", b'print("RAN:script")\nprnt = 1\nprimt\n'),
        ("traceback/syntax-error", b'print("RAN:script"\n'),
        ("traceback/recursion", b'print("RAN:script")\ndef f():\n    f()\nf()\n'),
        ("exit/systemexit-str", b'print("RAN:script")\nraise SystemExit("bye")\n'),
        ("exit/site-exit", b'print("RAN:script")\nexit(0)\n'),
        ("big-int-str", b'print("RAN:script")\nprint(len(str(10 ** 5000)))\n'),
        ("format/n", b'print("RAN:script")\nprint("{:n}".format(10 ** 6))\n'),
        ("str-methods", b'print("RAN:script")\nprint("x".center(5).title().casefold().isidentifier())\n'),
        ("generator-async-free", b'print("RAN:script")\nprint(sum(i for i in range(3)))\n'),
        ("class-with-slots", b'print("RAN:script")\nclass A:\n    __slots__ = ("a",)\nprint(A())\n'),
        ("unicode-name-escape", b'print("RAN:script")\nprint("\\N{BULLET}")\n'),
        ("help-builtin-ref", b'print("RAN:script")\nprint(repr(copyright)[:5])\n'),
        ("plain", b'print("RAN:script")\n'),
    ]
    return out


def gen_implicit(tier, implicit):
    cases = []
    kinds = ["py", "pyc"] if tier == "quick" else ["py", "pkg", "pyc", "so"]
    for key, (src, deps) in implicit.items():
        cases.append(Case("implicit", {"script": key, "nb": "none"}, [("d", "w"), ("d", "home"), ("f", "w/x.py", src)], "python3 x.py", "w", ["python3", "x.py"]))
        for j, dep in enumerate(deps if tier != "quick" else deps[:4]):
            for kind in (kinds if tier != "quick" else [kinds[j % len(kinds)]]):
                role = f"im.real.{kind}.{dep}"
                ops = [("d", "w"), ("d", "home"), ("f", "w/x.py", src)] + nb_ops("w", dep, kind, role)
                cases.append(Case("implicit", {"script": key, "dep": dep, "nb": kind}, ops, "python3 x.py", "w", ["python3", "x.py"]))
    return cases


def gen_mcal(tier, cal_deps):
    cases = []
    kinds = NB_KINDS if tier != "quick" else NB_QUICK
    spell_m = [["-m", "calendar"], ["-mcalendar"], ["-B", "-m", "calendar"], ["-m", "calendar", "2024"]]
    for sp in spell_m:
        cases.append(Case("mcal", {"nb": "none", "argv": " ".join(sp)}, [("d", "w"), ("d", "home")], "python3 " + " ".join(sp), "w", ["python3"] + sp))
    for kind in kinds:
        for sp in (spell_m if tier != "quick" else spell_m[:2]):
            ops = [("d", "w"), ("d", "home")] + nb_ops("w", "calendar", kind, f"nb.cwd.{kind}.calendar")
            cases.append(Case("mcal", {"nb": kind, "rel": "direct", "argv": " ".join(sp)}, ops, "python3 " + " ".join(sp), "w", ["python3"] + sp))
        # cwd reached through a symlink: -m puts the real cwd on sys.path
        ops = [("d", "w"), ("d", "home"), ("d", "deep"), ("l", "deep/wl", "../w")] + nb_ops("w", "calendar", kind, f"nb.cwd.{kind}.calendar")
        cases.append(Case("mcal", {"nb": kind, "rel": "direct", "cwd": "symlink"}, ops, "python3 -m calendar", "deep/wl", ["python3", "-m", "calendar"]))
    for j, dep in enumerate(cal_deps):
        for kind in (["py", "pyc", "pkg"] if tier != "quick" else [["py", "pyc", "pkg"][j % 3]]):
            ops = [("d", "w"), ("d", "home")] + nb_ops("w", dep, kind, f"tr.cwd.{kind}.{dep}")
            cases.append(Case("mcal", {"nb": kind, "rel": "transitive", "dep": dep}, ops, "python3 -m calendar", "w", ["python3", "-m", "calendar"]))
    return cases


def python_env_vars():
    """every PYTHON* variable CPython documents in `python --help-env`, each with a value that makes it matter"""
    txt = subprocess.run([PY, "--help-env"], capture_output=True, text=True).stdout
    names = list(dict.fromkeys(re.findall(r"^(PYTHON[A-Z0-9]+)", txt, flags=re.M)))
    values = {
        "PYTHONPATH": "{R}/pp", "PYTHONSTARTUP": "{R}/pp/startup.py", "PYTHONHOME": "{R}/pp", "PYTHONINSPECT": "1",
        "PYTHONPYCACHEPREFIX": "{R}/cache", "PYTHONBREAKPOINT": "json.evil", "PYTHONWARNINGS": "error", "PYTHONPLATLIBDIR": "pp",
        "PYTHONIOENCODING": "idna", "PYTHONSAFEPATH": "1", "PYTHONUSERBASE": "{R}/ub", "PYTHONEXECUTABLE": "{R}/pp/python3",
    }
    for extra in ("PYTHONUSERBASE", "PYTHONEXECUTABLE", "PYTHONPERFSUPPORT", "PYTHONPROFILEIMPORTTIME", "PYTHONTRACEMALLOC", "PYTHONASYNCIODEBUG"):
        if extra not in names:
            names.append(extra)
    return [(n, values.get(n, "1")) for n in names]


PREFIX_BASE_OPS = [
    ("d", "w"), ("d", "home"), ("f", "w/x.py", safe_src(("json",))), ("f", "w/sub/x.py", evil_src("twin.sub")),
    ("f", "pp/json.py", evil_src("pp.json")), ("f", "pp/startup.py", evil_src("pp.startup")), ("f", "pp/re.py", evil_src("pp.re")),
    ("f", "pp/lib/python3.12/os.py", evil_src("pp.home")), ("f", "ub/lib/python3.12/site-packages/e.pth", b"import sys; open('CANARY_pth','w').close()\n"),
    ("f", "home/x.py", evil_src("twin.home")), ("f", "other/x.py", evil_src("twin.other")), ("l", "w/dl", "../other"),
    ("f", "w/python3", b"#!/bin/sh\n: > CANARY_localpython\n"),
]


def gen_prefix(tier):
    cases = []

    def add(dims, cmd):
        cases.append(Case("prefix", dims, list(PREFIX_BASE_OPS), cmd, "w", None))

    add({"form": "none"}, "python3 x.py")
    for name, val in python_env_vars():
        a = f"{name}={val}"
        for form, cmd in (("prefix", f"{a} python3 x.py"), ("env", f"env {a} python3 x.py"), ("env-i", f"env -i {a} {PY} x.py"),
                          ("export-seq", f"export {a}; python3 x.py"), ("export-and", f"export {a} && python3 x.py"),
                          ("assign-seq", f"{a}; python3 x.py"), ("two-prefixes", f"LANG=C {a} python3 x.py"),
                          ("declare-x", f"declare -x {a}; python3 x.py"), ("prefix-of-wrapper", f"{a} nice python3 x.py"),
                          ("prefix-m", f"{a} python3 -m calendar")):
            if tier == "quick" and form in ("env-i", "export-and", "declare-x", "two-prefixes") and name not in ("PYTHONPATH", "PYTHONINSPECT"):
                continue
            add({"form": form, "var": name}, cmd)
    # python's own -X / -W options, every documented one (python --help-xoptions), attached and separate
    xtxt = subprocess.run([PY, "--help-xoptions"], capture_output=True, text=True).stdout
    xopts = list(dict.fromkeys(re.findall(r"^-X (\w+)", xtxt, flags=re.M)))
    xvals = {"pycache_prefix": "{R}/cache", "frozen_modules": "off", "int_max_str_digits": "0", "tracemalloc": "2", "utf8": "0", "importtime": None}
    for x in xopts:
        arg = x + ("=" + xvals[x] if xvals.get(x) else "")
        for form, cmd in (("X-separate", f"python3 -X {arg} x.py"), ("X-attached", f"python3 -X{arg} x.py"), ("X-cluster", f"python3 -BX{arg} x.py"),
                          ("X-m", f"python3 -X {arg} -m calendar")):
            add({"form": form, "xoption": x}, cmd)
    for w_ in ("error", "ignore", "default::DeprecationWarning", "error::SyntaxWarning"):
        add({"form": "W", "woption": w_}, f"python3 -W {w_} x.py")
    wrappers = ["time", "timeout 5", "nice", "nice -n 5", "nohup", "command", "env", "env -i", "env --", "builtin command", "exec",
                "stdbuf -o0", "setsid", "ionice", "chrt 0", "taskset 1", "strace -f", "ltrace", "xargs", "sudo", "doas", "watch -n1", "\\"]
    for w in wrappers:
        add({"form": "wrapper", "wrapper": w}, f"{w} python3 x.py" if w != "\\" else "\\python3 x.py")
    chdirs = ["env -C sub", "env --chdir=sub", "env --chdir sub", "env -Csub", "env -C dl", "env -C .", "env -C ../w", "env -C {R}/w/sub",
              "cd sub &&", "cd sub;", "cd ./sub &&", "cd dl &&", "cd -P dl &&", "cd sub && cd .. &&", "cd dl/.. &&", "cd -P dl/.. &&", "cd ~ &&", "cd &&",
              "cd - &&", "pushd sub &&", "pushd sub >/dev/null;", "cd sub ||", "cd nonexistent;", "CDPATH=sub cd x;", "cd sub\n"]
    for c in chdirs:
        add({"form": "chdir", "how": c}, f"{c} python3 x.py")
        add({"form": "chdir-subshell", "how": c}, f"({c} python3 x.py)")
        if tier != "quick":
            add({"form": "chdir-bash-c", "how": c}, f"bash -c '{c} python3 x.py'")
            add({"form": "chdir-group", "how": c}, f"{{ {c} python3 x.py; }}")
    names = ["python3", "python", "python3.12", PY, "./python3", "{R}/w/python3", "../w/python3", "/usr/bin/env python3", "\"python3\"", "'python3'", "py\\thon3",
             "PATH=.:$PATH python3", "PATH=. python3", "PATH={R}/w python3"]
    for n in names:
        add({"form": "command-name", "name": n}, f"{n} x.py")
    redirs = ["python3 x.py < sub/x.py", "python3 < sub/x.py", "python3 - < sub/x.py", "cat sub/x.py | python3", "cat sub/x.py | python3 -", "cat sub/x.py | python3 x.py",
              "python3 x.py <<< 'open(\"CANARY_here\",\"w\")'", "python3 <<< 'open(\"CANARY_here\",\"w\")'", "python3 /dev/stdin < sub/x.py", "python3 /proc/self/fd/0 < sub/x.py",
              "python3 <(cat sub/x.py)", "python3 x.py sub/x.py", "python3 x.py; python3 sub/x.py", "python3 x.py && python3 sub/x.py", "python3 x.py | python3 sub/x.py",
              "python3 x.py & python3 sub/x.py", "python3 x.py $(python3 sub/x.py)", "python3 x.py `python3 sub/x.py`"]
    for r in redirs:
        add({"form": "stdin-or-second-command", "cmd": r.replace("sub/x.py", "EVIL")}, r)
    return cases


def gen_expand(tier):
    """the script word is rewritten by bash before python sees it; a file with the LITERAL name is safe,
    every file an expansion can produce is not"""
    cases = []
    words = ["~/x.py", "~root/x.py", "~+/sub/x.py", "$HOME/x.py", "${HOME}/x.py", "$PWD/sub/x.py", "{sub,.}/x.py", "{a,x}.py", "x.{py,pyw}", "x.p[y]", "x.p?", "*.py", "?.py",
              "$(echo sub/x.py)", "`echo sub/x.py`", "sub/$X.py", "$'sub/x.py'", "x.py\\ ", "\"x.py\"", "'x.py'", "x\\.py", "sub\\/x.py", "\"~/x.py\"", "'$HOME/x.py'", "\"$HOME/x.py\"",
              "\"{a,x}.py\"", "\\~/x.py", "x.py#c", "x.py;", "!(a).py", "$((1)).py", "<(echo)", "x.py&"]
    base = [("d", "w"), ("d", "home"), ("f", "w/a.py", evil_src("twin.a")), ("f", "home/x.py", evil_src("twin.home")), ("f", "w/sub/x.py", evil_src("twin.sub")),
            ("f", "w/1.py", evil_src("twin.arith")), ("f", "w/sub/.py", evil_src("twin.empty-var"))]
    for w in words:
        # the literal reading of the word, when it can be a file name below the cwd
        lit = w
        ops = list(base)
        if "\n" not in lit and not lit.startswith("/") and ".." not in lit:
            ops.append(("f", "w/" + lit.rstrip("/"), safe_src(("json",))))
        # and what quote removal alone would give
        unq = re.sub(r"""^(["'])(.*)\1$""", r"\2", w).replace("\\", "")
        if unq != lit and not unq.startswith("/"):
            ops.append(("f", "w/" + unq.strip(), safe_src(("json",))))
        if not any(o[1] == "w/x.py" for o in ops):
            ops.append(("f", "w/x.py", evil_src("twin.x")))
        # later ops win when two name the same path
        seen, uniq = set(), []
        for o in reversed(ops):
            if o[1] in seen:
                continue
            seen.add(o[1])
            uniq.append(o)
        cases.append(Case("expand", {"word": w}, list(reversed(uniq)), f"python3 {w}", "w", None))
        cases.append(Case("expand", {"word": w, "opt": "-B"}, list(reversed(uniq)), f"python3 -B {w}", "w", None))
    return cases


PATH_ALPHA = [".", "..", "sub", "d", "x.py", "l.py", "m.py", "missing", "", "loop.py", "dd"]
PATH_LAYOUT = [
    ("d", "w"), ("d", "home"), ("f", "w/x.py", safe_src(("json",))), ("f", "w/sub/x.py", safe_src(("string",))), ("f", "lib/x.py", safe_src(("json",))),
    ("f", "lib/json.py", evil_src("nb.real.py.json")), ("l", "w/l.py", "../lib/x.py"), ("l", "w/m.py", "sub/x.py"), ("l", "w/d", "../lib"),
    ("l", "w/loop.py", "loop.py"), ("d", "lib/inner"), ("l", "w/dd", "../lib/inner"), ("f", "w/sub/string/__init__.py", evil_src("nb.real.pkg.string")),
    ("f", "lib/inner/x.py", safe_src(("textwrap",))), ("l", "w/sub/d", "../../lib"), ("l", "lib/l.py", "inner/x.py"),
]


def gen_paths(tier):
    cases = []
    n = 3 if tier == "quick" else 4
    for k in range(1, n + 1):
        for comps in itertools.product(PATH_ALPHA, repeat=k):
            if comps[-1] in (".", "..", "") and k > 2 and tier == "quick":
                continue
            rel = "/".join(comps)
            if not rel:
                continue
            for tok in (rel, "{R}/w/" + rel):
                cases.append(Case("paths", {"len": k}, PATH_LAYOUT, "python3 {T}", "w", ["python3", tok]))
    return cases


# ---------------------------------------------------------------- classification of an effect (model-free)
def effect_class(case):
    """what ran that must not have: from the canary role / changed path, never from the verdict"""
    eff = case.effects or []
    can = [os.path.basename(e)[7:] for e in eff if os.path.basename(e).startswith("CANARY_")]
    other = [e for e in eff if not os.path.basename(e).startswith("CANARY_")]
    d = case.dims
    if can:
        c = sorted(can)[0]
        parts = c.split(".")
        if parts[0] in ("nb", "tr", "im") and len(parts) >= 4:
            rel = {"nb": "direct", "tr": "transitive", "im": "implicit"}[parts[0]]
            return f"shadow {rel} kind={parts[2]} place={parts[1]}", c
        if parts[0] == "so":
            rel = d.get("rel") or ("implicit" if case.family == "implicit" else "direct")
            return f"shadow {rel} kind={d.get('nb')} place={d.get('place', 'real')}", c
        if parts[0] == "twin" or c in ("lexical", "kernel", "linktarget", "dirmain", "localpython"):
            return f"other-file {c}", c
        if c == "stdin" or c == "here":
            return "stdin-program", c
        if parts[0] == "pp" or c in ("pth", "homepth"):
            return f"environment {c}", c
        return f"canary {c}", c
    if other:
        return "file-effect " + other[0].split("/")[0], other[0]
    return None, None


def signature(case, cls):
    d = case.dims
    if case.family in ("access", "paths"):
        ctx = f"access={d.get('access', 'path-alphabet')}"
    elif case.family == "modules":
        ctx = f"import {d.get('module')}" + (f" loads {d['dep']}" if d.get("dep") else "") + f" form={d.get('form', 'import')}"
    elif case.family == "implicit":
        ctx = f"script={d.get('script')}" + (f" loads {d['dep']}" if d.get("dep") else "")
    elif case.family == "mcal":
        ctx = "-m calendar" + (f" loads {d['dep']}" if d.get("dep") else "")
    elif case.family == "prefix":
        ctx = " ".join(f"{k}={v}" for k, v in sorted(d.items()))
    else:
        ctx = " ".join(f"{k}={v}" for k, v in sorted(d.items()))
    return f"env[{case.family}]: {cls} | {ctx} | {case.cmd}"


# ---------------------------------------------------------------- the run
def finalize(case, root):
    """`{T}` in the command = the words after python3, quoted for bash where they need it"""
    case.root = root
    if case.tokens:
        case.tokens = [t.replace("{R}", root) for t in case.tokens]
    args = " ".join(shlex.quote(t) for t in case.tokens[1:]) if case.tokens and "{T}" in case.cmd else ""
    case.cmd = case.cmd.replace("{T}", args).replace("{R}", root)


def decide(AN, cfg, cmd, cwd):
    from . import lib
    try:
        with warnings.catch_warnings():
            warnings.simplefilter("ignore")    # ast.parse of a generated script may emit SyntaxWarning
            # bounded: an analysis that opens a fifo would block for ever
            return lib.with_timeout(lambda: AN.analyze(cmd, cfg, Path(cwd)).action, 20.0)
    except lib.Timeout:
        return "exn:hang"
    except Exception as e:  # noqa: BLE001
        return "exn:" + type(e).__name__


def fs_of_jail(root, dump):
    """the jail (and the chain of directories above it) as the model's file system: walked WITHOUT following
    links; a regular file carries its size and, when ast.parse(bytes) succeeds, the reflective dump"""
    import ast
    ent = []
    p = os.path.dirname(root)
    anc = []
    while p != "/":
        anc.append(p)
        p = os.path.dirname(p)
    for a in reversed(anc):
        ent.append([a, "d"])
    ent.append([root, "d"])
    for d, dirs, files in os.walk(root):
        for n in sorted(dirs + files):
            q = os.path.join(d, n)
            st = os.lstat(q)
            if stat.S_ISLNK(st.st_mode):
                ent.append([q, "l", os.readlink(q)])
            elif stat.S_ISDIR(st.st_mode):
                ent.append([q, "d"])
            elif stat.S_ISREG(st.st_mode):
                tree = []
                if st.st_size <= 200_000:
                    with open(q, "rb") as f:
                        data = f.read()
                    try:
                        with warnings.catch_warnings():
                            warnings.simplefilter("ignore")
                            tree = [dump(ast.parse(data))]
                    except (SyntaxError, ValueError):
                        tree = []
                ent.append([q, "f", str(st.st_size), tree])
            else:
                ent.append([q, "o"])
    return ent


class FsModel:
    """calls of the PyEnv entry points: the file system of a jail is encoded once (lib.enc is per character),
    the request line is assembled around it; no oracle is involved in these entries"""

    def __init__(self, proxy):
        from . import lib
        self.lib, self.proxy = lib, proxy
        self.last_request = None

    def call(self, cmd, fs_text, *args):
        lib = self.lib
        text = "(" + " ".join([lib.enc(cmd), fs_text] + [lib.enc(a) for a in args]) + ")" if fs_text is not None \
            else lib.enc([cmd] + list(args))
        self.last_request = text
        p = self.proxy.m.p
        p.stdin.write(text + "\n")
        p.stdin.flush()
        line = p.stdout.readline().rstrip("\n")
        if not line.startswith("="):
            raise lib.ModelError(f"model error: {line[:200]}")
        return lib.dec(line[1:])


PROBE = b'import sys\nprint("SP0:" + ("<none>" if sys.flags.safe_path else sys.path[0]))\n'


def run_env(out, H, AN, cfg, scratch_root, tier, rng, replay=None, model=None, dump=None, decoy="/", xcheck=None, workers=8):
    """fills out.violations / out.disagreements / out.count; returns the coverage dict for the evidence.
    The thousands of small jails live on tmpfs when there is one (creating and removing them on the disk of
    this sandbox costs a millisecond per file), in their own mkdtemp directory, removed here."""
    import tempfile
    shm = "/dev/shm" if os.path.isdir("/dev/shm") and os.access("/dev/shm", os.W_OK | os.X_OK) else None
    jroot = tempfile.mkdtemp(prefix="dippy-verif-", dir=shm)
    try:
        return _run_env(out, H, AN, cfg, jroot, tier, rng, replay, model, dump, decoy, xcheck, workers)
    finally:
        subprocess.run(["rm", "-rf", jroot], check=False)
        shutil.rmtree(jroot, ignore_errors=True)


def _run_env(out, H, AN, cfg, scratch_root, tier, rng, replay, model, dump, decoy, xcheck, workers):
    cov = {}
    import time as _time
    t0 = _time.time()
    tm = cov.setdefault("timing_s", {})

    def lap(name):
        tm[name] = round(_time.time() - t0 - sum(tm.values()), 1)
    bindir = os.path.join(scratch_root, "envbin")
    os.makedirs(bindir, exist_ok=True)
    for n in ("python3", "python", "python3.12"):
        # a wrapper, not a symlink: a symlink outside /venv/bin would lose pyvenv.cfg and run the base interpreter
        if not os.path.lexists(os.path.join(bindir, n)):
            with open(os.path.join(bindir, n), "w") as f:
                f.write(f'#!/bin/sh\nexec {PY} "$@"\n')
            os.chmod(os.path.join(bindir, n), 0o755)
    so_bytes = evil_so(scratch_root)
    cov["evil_shared_object_built"] = so_bytes is not None
    jails = os.path.join(scratch_root, "e")
    counter = itertools.count()

    if replay is not None:
        cases = [Case.from_record(replay["env_case"])]
        shared = {}
    else:
        safe = sorted(H.SAFE_MODULES)
        disc_dir = os.path.join(scratch_root, "disc")
        mod_sources = [(m, safe_src((m,))) for m in safe]
        imp_sources = implicit_sources(tier)
        found, base = discover(disc_dir, mod_sources + imp_sources + [("-m calendar", b"import calendar\n")], workers)
        transitive = {m: [d for d in found.get(m, []) if d != m.split(".")[0]] for m in safe}
        implicit = {k: (s, found.get(k, [])) for k, s in imp_sources}
        cal_deps = [d for d in found.get("-m calendar", []) if d != "calendar"]
        cov["discovery"] = {
            "loaded_at_startup": len(base), "safe_modules": len(safe),
            "transitive_modules_total": sum(len(v) for v in transitive.values()),
            "implicit_scripts_that_import": sum(1 for k, (s, d) in implicit.items() if d),
            "calendar_loads": cal_deps,
            "example": {"json": transitive.get("json", [])},
        }
        cases = (gen_access(tier, H.SAFE_MODULES) + gen_modules(tier, H.SAFE_MODULES, transitive) + gen_implicit(tier, implicit)
                 + gen_mcal(tier, cal_deps) + gen_prefix(tier) + gen_expand(tier))
        shared = {"paths": gen_paths(tier)}

    lap("discovery_and_generation")
    # ---- build + decide (sequential: the analysis is pure Python), then run the approved ones in parallel
    for c in cases:
        root = os.path.join(jails, f"{next(counter):06d}")
        build(root, c.ops, so_bytes)
        finalize(c, root)
        c.decision = decide(AN, cfg, c.cmd, os.path.join(root, c.cwd))
    # the path-alphabet family shares one layout: a few identical jails, tokens dealt round-robin
    path_cases = shared.get("paths", [])
    path_roots = []
    if path_cases:
        for k in range(workers):
            r = os.path.join(jails, f"paths{k}")
            build(r, PATH_LAYOUT, so_bytes)
            path_roots.append(r)
        for i, c in enumerate(path_cases):
            finalize(c, path_roots[0])
            c.decision = decide(AN, cfg, c.cmd, os.path.join(path_roots[0], c.cwd))

    lap("build_jails_and_analyse")
    with cf.ThreadPoolExecutor(max_workers=workers) as ex:
        list(ex.map(lambda c: run_real(c, bindir), [c for c in cases if c.decision == "allow"]))
    lap("real_runs")

    # paths: same real path => same verdict (metamorphic); a few spellings of every approved group run for real
    groups = {}
    for c in path_cases:
        p = os.path.join(c.root, c.cwd, c.tokens[1]) if not os.path.isabs(c.tokens[1]) else c.tokens[1]
        try:
            rp = os.path.realpath(p)
            kind = "file" if os.path.isfile(rp) else "dir" if os.path.isdir(rp) else "none"
            # python itself fails (ENOTDIR / ELOOP) where a lexical resolution succeeds
            reachable = os.path.exists(p)
        except OSError:
            rp, kind, reachable = None, "none", False
        c.dims = dict(c.dims, real=os.path.relpath(rp, c.root) if rp else None, kind=kind, reachable=reachable)
        if kind == "file" and reachable:
            groups.setdefault(rp, []).append(c)
    inv_checked = 0
    to_run = []
    for rp, cs in groups.items():
        verdicts = {c.decision for c in cs}
        inv_checked += len(cs)
        if len(verdicts) > 1:
            a = next(c for c in cs if c.decision == "allow") if "allow" in verdicts else cs[0]
            b = next(c for c in cs if c.decision != a.decision)
            out.violations.append({
                "kind": "env-spelling", "what": f"two spellings of the same real file get different verdicts: {a.tokens[1]!r} -> {a.decision}, {b.tokens[1]!r} -> {b.decision}",
                "env_case": a.record(), "other_tokens": b.tokens, "real_file": os.path.relpath(rp, a.root),
                "signature_text": f"env[paths]: spelling-variance {os.path.relpath(rp, a.root)} | {os.path.relpath(a.tokens[1], a.root) if os.path.isabs(a.tokens[1]) else a.tokens[1]} vs "
                                  f"{os.path.relpath(b.tokens[1], b.root) if os.path.isabs(b.tokens[1]) else b.tokens[1]}"})
        appr = sorted((c for c in cs if c.decision == "allow"), key=lambda c: len(c.cmd))
        to_run += appr[:1] + appr[-1:] + ([appr[len(appr) // 2]] if len(appr) > 2 else [])
    # approved although python cannot even reach the file is harmless; approved non-file targets are run too
    to_run += [c for c in path_cases if c.decision == "allow" and not (c.dims.get("kind") == "file" and c.dims.get("reachable"))][:40]

    def run_path_chunk(args):
        k, chunk = args
        for c in chunk:
            old = c.root
            c.root = path_roots[k]
            c.cmd = c.cmd.replace(old, c.root)
            c.tokens = [t.replace(old, c.root) for t in c.tokens]
            run_real(c, bindir)
            for e in c.effects:   # leave the shared jail clean for the next token
                p = os.path.join(c.root, e)
                if os.path.isdir(p) and not os.path.islink(p):
                    shutil.rmtree(p, ignore_errors=True)
                elif os.path.lexists(p):
                    os.unlink(p)
    if to_run:
        with cf.ThreadPoolExecutor(max_workers=workers) as ex:
            list(ex.map(run_path_chunk, [(k, to_run[k::workers]) for k in range(workers)]))
    cov["spelling_invariance"] = {"tokens": len(path_cases), "tokens_naming_a_reachable_file": inv_checked, "real_files": len(groups),
                                  "approved_spellings_executed": len(to_run)}

    # ---- judge
    seen_sig = set()
    fam_cov = {}
    for c in cases + to_run:
        f = fam_cov.setdefault(c.family, {"cases": 0, "approved": 0, "approved_with_effect": 0, "script_ran": 0})
    for c in cases + path_cases:
        f = fam_cov[c.family] if c.family in fam_cov else fam_cov.setdefault(c.family, {"cases": 0, "approved": 0, "approved_with_effect": 0, "script_ran": 0})
        f["cases"] += 1
        out.case(("env", c.family, c.cmd.replace(c.root, "{R}"), c.cwd, repr(c.ops) if c.family != "paths" else ""))
        out.count("env_family", c.family)
        out.count("env_verdict", c.decision if not c.decision.startswith("exn") else "exception")
        if c.decision == "allow":
            f["approved"] += 1
    for c in [c for c in cases if c.decision == "allow"] + to_run:
        f = fam_cov[c.family]
        if c.ran:
            f["script_ran"] += 1
        cls, culprit = effect_class(c)
        if cls is None:
            continue
        f["approved_with_effect"] += 1
        out.count("env_effect", cls.split(" kind=")[0])
        sig = signature(c, cls).replace(c.root, "{R}")
        if sig in seen_sig:
            continue
        seen_sig.add(sig)
        out.violations.append({
            "kind": "env", "what": f"approved command, run for real in its directory, had an effect the analysis did not see: {cls} ({culprit})",
            "command": c.cmd.replace(c.root, "{R}"), "cwd": c.cwd, "effects": c.effects, "exit_code": c.rc, "env_case": c.record(),
            "how": "dippy.core.analyzer.analyze(command, cwd=<jail>/cwd) == allow; then bash -c command in that directory; jail snapshotted before/after",
            "signature_text": sig,
        })
    cov["families"] = fam_cov

    lap("paths_and_judging")
    # ---- correspondence with the model over the modelled file system (Entry/PyEnvE.v)
    if model is not None and dump is not None:
        n_cls = n_rp = n_st = n_an = n_sp = n_skipped_loop = 0
        fs_cache = {}
        fm = FsModel(model)
        from . import lib as _lib

        def fs_of(c):
            """(entries, encoded text)"""
            if c.root not in fs_cache:
                ent = fs_of_jail(c.root, dump)
                fs_cache[c.root] = (ent, _lib.enc(ent))
            return fs_cache[c.root]

        def impl_classify(tokens, cwd):
            try:
                with warnings.catch_warnings():
                    warnings.simplefilter("ignore")
                    return _lib.with_timeout(lambda: H.classify(_ctx(tokens, cwd)).action, 20.0)
            except _lib.Timeout:
                return "exn:hang"
            except RuntimeError:
                return "exn"          # Path.resolve: symlink loop
            except Exception as e:  # noqa: BLE001
                return "exn:" + type(e).__name__

        def disagree(name, c, **kw):
            out.disagreements.append({"correspondence": name, "family": c.family, "dims": c.dims, "cwd": c.cwd,
                                      "ops": c.record()["ops"] if c.family != "paths" else "PATH_LAYOUT (harness/c17_env.py)",
                                      **{k: (v.replace(c.root, "{R}") if isinstance(v, str) else v) for k, v in kw.items()}})

        # effects of the real runs (canaries, __pycache__) must not leak into the modelled file system
        for c in cases:
            for e in c.effects or []:
                pth = os.path.join(c.root, e)
                if os.path.isdir(pth) and not os.path.islink(pth):
                    shutil.rmtree(pth, ignore_errors=True)
                elif os.path.lexists(pth):
                    os.unlink(pth)
        if path_cases:
            for c in path_cases:   # all judged against the first copy of the shared layout
                if c.root != path_roots[0]:
                    c.tokens = [t.replace(c.root, path_roots[0]) for t in c.tokens]
                    c.cmd = c.cmd.replace(c.root, path_roots[0])
                    c.root = path_roots[0]
        seen_files = set()
        for idx, c in enumerate(cases + path_cases):
            if not c.tokens or c.family in ("prefix", "expand"):
                continue
            fs, fst = fs_of(c)
            cwd = os.path.join(c.root, c.cwd)
            # Python's realpath, after meeting a symlink loop, returns the loop link + the unread rest, normalised
            # lexically, and Path.resolve raises only if THAT still loops; the model answers "raises" as soon as a
            # loop is met.  Tokens that go on after a looping component are therefore left to the model-free oracles.
            comps_ = [x for x in c.tokens[1].split("/") if x]
            if c.family == "paths" and any(x in ("loop.py",) for x in comps_[:-1]):
                n_skipped_loop += 1
                continue
            # (a) classify
            impl = impl_classify(c.tokens, cwd)
            rec = xcheck is not None and len(xcheck) < 60 and idx % 211 == 5 and c.family != "paths" and len(fst) < 6000
            mv = fm.call("py_fs_classify", fst, [cwd], decoy, c.tokens)
            if rec and mv is not None:
                xcheck.append((fm.last_request, [], mv))
            n_cls += 1
            if mv is not None and mv != impl:
                disagree("PyEnv.classify_fs <-> python.classify", c, tokens=c.tokens, model=mv, impl=impl)
            if c.family == "paths" or (c.family == "access" and c.dims.get("nb") == "none"):
                tok = c.tokens[1] if c.family == "paths" else c.dims["script"].replace("{R}", c.root)
                joined = tok if os.path.isabs(tok) else cwd + "/" + tok
                # (b) Path.resolve
                try:
                    ir = [str(Path(joined).resolve())]
                except RuntimeError:
                    ir = []
                mr = fm.call("py_fs_realpath", fst, joined)
                n_rp += 1
                if mr is not None and mr != ir:
                    disagree("PyEnv.realpath <-> Path.resolve", c, path=joined, model=mr, impl=ir)
                # (c) the kernel's walk (os.stat), on the path as typed; a trailing slash is not a component
                if not joined.endswith("/"):
                    try:
                        m = os.stat(joined).st_mode
                        ik = "file" if stat.S_ISREG(m) else "dir" if stat.S_ISDIR(m) else "other"
                    except OSError:
                        ik = "none"
                    mk = fm.call("py_fs_stat", fst, joined)
                    n_st += 1
                    if mk is not None and mk != ik:
                        disagree("PyEnv.stat <-> os.stat", c, path=joined, model=mk, impl=ik)
            # (d) analyze_python_file on every non-directory entry of the layout, as typed and through links
            if c.root not in seen_files and c.family in ("access", "paths", "mcal"):
                seen_files.add(c.root)
                for e in fs:
                    if e[1] == "d" or not e[0].startswith(c.root):
                        continue
                    with warnings.catch_warnings():
                        warnings.simplefilter("ignore")
                        try:
                            ia = bool(_lib.with_timeout(lambda: H.analyze_python_file(Path(e[0]))[0], 20.0))
                        except _lib.Timeout:
                            ia = "hang"
                    ma = fm.call("py_fs_analyze", fst, e[0])
                    n_an += 1
                    if ma is not None and (ma == "1") != ia:
                        disagree("PyEnv.analyze_path <-> analyze_python_file", c, path=e[0], model=ma, impl=ia)
        # (d') local_shadow on every directory of every distinct layout, as typed and through directory links
        n_ls = 0
        for root_, (ent_, fst_) in list(fs_cache.items()):
            for e in ent_:
                if not e[0].startswith(root_) or e[1] not in ("d", "l", "f"):
                    continue
                il = H.local_shadow(Path(e[0])) is not None
                ml = fm.call("py_fs_local_shadow", fst_, e[0])
                n_ls += 1
                if ml is not None and (ml == "1") != il:
                    out.disagreements.append({"correspondence": "PyEnv.local_shadow <-> python.local_shadow", "path": e[0].replace(root_, "{R}"),
                                              "model": ml, "impl": il, "listing": sorted(os.listdir(e[0])) if os.path.isdir(e[0]) else None})
        # (e) the specification py_syspath0 against the real interpreter: same layouts, every script replaced by a probe
        probe_cases = [c for c in cases if c.family == "access" and c.dims.get("nb") == "none"] + path_cases[::max(1, len(path_cases) // 150)]
        for xo in (["-P"], ["-BI"], ["-W", "-P"], ["-WI"], ["-X", "-I"], ["--check-hash-based-pycs", "always", "-P"], ["-E", "-s"], ["-IP"], ["-bP"]):
            pc_ = Case("access", {"access": "plain", "nb": "none", "option": " ".join(xo), "script": "x.py"},
                       [("d", "w"), ("d", "home"), ("f", "w/x.py", safe_src(("json",)))], "python3 {T}", "w", ["python3"] + xo + ["x.py"])
            r_ = os.path.join(jails, f"{next(counter):06d}")
            build(r_, pc_.ops, so_bytes)
            finalize(pc_, r_)
            probe_cases.append(pc_)
        if path_cases:
            pr = os.path.join(jails, "paths-probe")
            build(pr, [(o[0], o[1], PROBE) if o[0] == "f" and o[1].endswith((".py", ".pyw")) and b"CANARY" not in o[2] else o for o in PATH_LAYOUT], so_bytes)
        for c in probe_cases:
            if c.family == "paths":
                root2 = pr
            else:
                root2 = c.root + "-probe"
                build(root2, [(o[0], o[1], PROBE) if o[0] == "f" and b"RAN:script" in o[2] else o for o in c.ops], so_bytes)
            toks2 = [t.replace(c.root, root2) for t in c.tokens]
            try:
                p = subprocess.run([PY] + toks2[1:], cwd=os.path.join(root2, c.cwd), stdin=subprocess.DEVNULL, capture_output=True, timeout=8,
                                   env={"PATH": "/usr/bin:/bin", "HOME": os.path.join(root2, "home"), "LANG": "C.UTF-8"})
                m = re.search(r"^SP0:(.*)$", p.stdout.decode("utf-8", "replace"), flags=re.M)
            except subprocess.TimeoutExpired:
                m = None
            if not m:
                continue
            ms = fm.call("py_fs_syspath0", fs_of(c)[1], os.path.join(c.root, c.cwd), c.tokens)
            n_sp += 1
            want = ["none"] if m.group(1) == "<none>" else ["dir", m.group(1).replace(root2, c.root)]
            if ms is not None and ms != want:
                disagree("py_syspath0 (specification) <-> sys.path[0] of /venv/bin/python", c, tokens=c.tokens, model=ms, impl=want)
        # (f) Path.suffix test, exhaustively over a small alphabet
        n_sx = 0
        for k in range(0, 5 if tier == "quick" else 7):
            for t in itertools.product(".pywx", repeat=k):
                name = "".join(t)
                if "/" in name or name in ("", ".", ".."):
                    continue
                isx = Path("/d/" + name).suffix in (".py", ".pyw")
                msx = fm.call("py_suffix_ok", None, name)
                n_sx += 1
                if msx is not None and (msx == "1") != isx:
                    out.disagreements.append({"correspondence": "PyEnv.suffix_ok <-> Path.suffix in ('.py', '.pyw')", "name": name, "model": msx, "impl": isx})
        lap("model_correspondence")
        cov["model_correspondence"] = {"classify_fs": n_cls, "realpath": n_rp, "os_stat": n_st, "analyze_python_file": n_an, "local_shadow": n_ls,
                                       "syspath0_spec_vs_cpython": n_sp, "suffix": n_sx,
                                       "tokens_continuing_after_a_symlink_loop_left_to_the_oracles": n_skipped_loop}
    return cov


def _ctx(tokens, cwd):
    from dippy.cli import HandlerContext
    return HandlerContext(list(tokens), cwd=Path(cwd))
