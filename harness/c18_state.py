"""Residue snapshots for C18 (imported by harness/c18_worker.py inside the process under test; no
dependency on the harness package).

snapshot() walks, from every loaded `dippy` / `dippy.*` module, everything in which a process could
keep something from one analysis to the next:

  * module globals (every binding, whatever its type),
  * classes defined in dippy modules: every class-level attribute (also of nested classes),
  * functions and methods defined in dippy modules: default-argument objects (__defaults__,
    __kwdefaults__), closure cells, function attributes (f.__dict__),
  * functools caches (anything with cache_info): misses/currsize/maxsize (hits are reads, kept apart),
    the wrapped function, and - through the recording shims installed by install_shims() - every
    value the cache handed out that is a mutable object (its content is fingerprinted, so a cached
    list that is appended to later shows up),
  * dict / list / set / bytearray / deque contents, recursively; instances through vars() / __slots__,
  * a few process-level probes outside dippy (cwd, environ, sys.path, recursion limit, logging root,
    open descriptors, signal handlers, random state, locale, warnings filters, threads).

The result maps a path (`module:name.attr[key]...`) to a small fingerprint; diff() names what changed
between two snapshots, with the added / removed elements of containers.  Nothing here knows any name
of the code under test."""
import collections
import functools
import os
import sys
import types

PRIM = (str, int, float, bool, bytes, type(None), complex)
MAX_DEPTH = 9
SKIP_DUNDER = {"__dict__", "__weakref__", "__doc__", "__module__", "__qualname__", "__annotations__", "__builtins__",
               "__cached__", "__file__", "__loader__", "__name__", "__package__", "__path__", "__spec__", "__firstlineno__",
               "__static_attributes__", "__match_args__", "__dataclass_params__", "__parameters__", "__orig_bases__",
               "__abstractmethods__", "_abc_impl", "__hash__", "__slots__"}


def is_dippy(name):
    return isinstance(name, str) and (name == "dippy" or name.startswith("dippy."))


def short(v, n=160):
    try:
        r = repr(v)
    except Exception:  # noqa: BLE001
        r = f"<{type(v).__name__}>"
    return r if len(r) <= n else r[:n] + f"...({len(r)} chars)"


def immutable_value(v, depth=0):
    """can this value be changed in place by someone holding a reference?"""
    if isinstance(v, PRIM) or isinstance(v, (types.FunctionType, types.BuiltinFunctionType, type, types.ModuleType)):
        return True
    if isinstance(v, (tuple, frozenset)):
        return depth < 6 and all(immutable_value(x, depth + 1) for x in v)
    return False


class Snapshot:
    def __init__(self):
        self.fp = {}      # path -> fingerprint (hashable, small)
        self.keep = {}    # path -> shallow copy of a mutable container (for the report)
        self.seen = set()  # ids of functions / classes / instances already walked (first path wins)
        self.mods = set()  # names of the dippy modules loaded when the snapshot was taken

    # ------------------------------------------------------------------ leaves and containers
    def walk(self, path, v, depth=0):
        fp = self.fp
        if isinstance(v, PRIM):
            fp[path] = (type(v).__name__, v if not isinstance(v, (str, bytes)) or len(v) <= 80 else (len(v), hash(v)))
            return
        if depth > MAX_DEPTH:
            fp[path] = ("deep", type(v).__name__)
            return
        if isinstance(v, frozenset):
            try:
                fp[path] = ("frozenset", len(v), hash(v))
            except TypeError:
                fp[path] = ("frozenset", len(v))
            return
        if isinstance(v, tuple):
            try:
                if all(isinstance(x, PRIM) for x in v):
                    fp[path] = ("tuple", len(v), hash(v))
                    return
            except TypeError:
                pass
            fp[path] = ("tuple", len(v))
            for i, x in enumerate(v):
                self.walk(f"{path}[{i}]", x, depth + 1)
            return
        if isinstance(v, (list, collections.deque)):
            self.keep[path] = list(v)
            if all(isinstance(x, PRIM) for x in v):
                fp[path] = (type(v).__name__, len(v), hash(tuple(v)))
                return
            fp[path] = (type(v).__name__, len(v))
            for i, x in enumerate(v):
                self.walk(f"{path}[{i}]", x, depth + 1)
            return
        if isinstance(v, set):
            self.keep[path] = set(v)
            h = 0
            for x in v:
                try:
                    h = (h + hash(x)) & 0xFFFFFFFFFFFF
                except TypeError:
                    h += 1
            fp[path] = ("set", len(v), h)
            return
        if isinstance(v, (bytearray, memoryview)):
            fp[path] = (type(v).__name__, len(v), hash(bytes(v)))
            return
        if isinstance(v, (dict, types.MappingProxyType)):
            self.keep[path] = dict(v)
            try:
                if all(isinstance(x, PRIM) for x in v.values()):
                    fp[path] = ("dict", len(v), hash(tuple(v.items())))
                    return
            except TypeError:
                pass
            fp[path] = ("dict", len(v), hash(tuple(short(k, 60) for k in v)))
            for k, x in list(v.items()):
                self.walk(f"{path}[{short(k, 60)}]", x, depth + 1)
            return
        if isinstance(v, types.ModuleType):
            fp[path] = ("module", v.__name__)
            return
        # ---------------------------------------------------------------- callables
        real = getattr(v, "__c18_real__", None)
        if real is not None:
            self.walk(path, real, depth)
            return
        if isinstance(v, (staticmethod, classmethod)):
            self.walk(path, v.__func__, depth)
            return
        if isinstance(v, property):
            fp[path] = ("property",)
            for nm in ("fget", "fset", "fdel"):
                f = getattr(v, nm)
                if f is not None:
                    self.walk(f"{path}.{nm}", f, depth + 1)
            return
        if isinstance(v, functools.partial):
            fp[path] = ("partial",)
            self.walk(f"{path}.func", v.func, depth + 1)
            self.walk(f"{path}.args", v.args, depth + 1)
            self.walk(f"{path}.keywords", v.keywords, depth + 1)
            return
        if hasattr(v, "cache_info") and hasattr(v, "__wrapped__"):
            try:
                ci = v.cache_info()
                fp[path + "#cache"] = ("cache", ci.misses, ci.currsize, ci.maxsize)
                fp[path + "#cache-hits"] = ("hits", ci.hits)
            except Exception as e:  # noqa: BLE001
                fp[path + "#cache"] = ("cache?", type(e).__name__)
            self.walk(path + ".__wrapped__", v.__wrapped__, depth + 1)
            return
        if isinstance(v, (types.FunctionType, types.MethodType)):
            f = v.__func__ if isinstance(v, types.MethodType) else v
            fp[path] = ("function", getattr(f, "__module__", "?"), getattr(f, "__qualname__", "?"))
            if id(f) in self.seen or not is_dippy(getattr(f, "__module__", None)):
                return
            self.seen.add(id(f))
            if f.__defaults__:
                for i, x in enumerate(f.__defaults__):
                    if not isinstance(x, PRIM):
                        self.walk(f"{path}.__defaults__[{i}]", x, depth + 1)
            if f.__kwdefaults__:
                for k, x in f.__kwdefaults__.items():
                    if not isinstance(x, PRIM):
                        self.walk(f"{path}.__kwdefaults__[{k}]", x, depth + 1)
            if f.__closure__:
                for nm, cell in zip(f.__code__.co_freevars, f.__closure__):
                    try:
                        x = cell.cell_contents
                    except ValueError:
                        continue
                    self.walk(f"{path}.<closure {nm}>", x, depth + 1)
            if f.__dict__:
                for k, x in list(f.__dict__.items()):
                    if k != "__wrapped__":
                        self.walk(f"{path}.<attr {k}>", x, depth + 1)
            return
        if isinstance(v, (types.BuiltinFunctionType, types.MethodDescriptorType, types.WrapperDescriptorType,
                          types.GetSetDescriptorType, types.MemberDescriptorType)):
            fp[path] = ("builtin", getattr(v, "__name__", "?"))
            return
        if isinstance(v, type):
            fp[path] = ("class", getattr(v, "__module__", "?"), v.__qualname__)
            if id(v) in self.seen or not is_dippy(getattr(v, "__module__", None)):
                return
            self.seen.add(id(v))
            for k, x in list(vars(v).items()):
                if k in SKIP_DUNDER:
                    continue
                self.walk(f"{path}.{k}", x, depth + 1)
            return
        # ---------------------------------------------------------------- instances
        if id(v) in self.seen:
            fp[path] = ("ref", type(v).__name__)
            return
        tmod = getattr(type(v), "__module__", "")
        d = getattr(v, "__dict__", None)
        slots = [s for c in type(v).__mro__ for s in getattr(c, "__slots__", ()) if isinstance(s, str)] if not isinstance(d, dict) else []
        if isinstance(d, dict) or slots:
            self.seen.add(id(v))
            if not is_dippy(tmod) and not isinstance(d, dict):
                fp[path] = ("object", tmod, type(v).__name__, short(v, 120))
                return
            fp[path] = ("object", tmod, type(v).__name__)
            step = 1 if is_dippy(tmod) else 4     # library objects (loggers, parsers ...): their first levels only
            if isinstance(d, dict):
                for k, x in list(d.items()):
                    self.walk(f"{path}.{k}", x, depth + step)
            for s in slots:
                if s not in ("__dict__", "__weakref__") and hasattr(v, s):
                    self.walk(f"{path}.{s}", getattr(v, s), depth + 1)
            return
        fp[path] = ("object", tmod, type(v).__name__, short(v, 120))


# ---------------------------------------------------------------------------------------------- shims
TRACKED = {}     # label -> {key text: value handed out by the cache}
CALLS = []       # [label, first-argument text, was it a hit]


def install_shims():
    """Replace every functools cache that is a module attribute or a class attribute of a dippy module by a
    pass-through that records hit/miss and keeps the returned object (so that its later mutation is seen).
    Returns the labels."""
    labels = []
    for mname in sorted(n for n in sys.modules if is_dippy(n) and sys.modules[n] is not None):
        mod = sys.modules[mname]
        owners = [(modname(mname), mod)]
        for k, v in list(vars(mod).items()):
            if isinstance(v, type) and getattr(v, "__module__", None) == mname:
                owners.append((owners[0][0] + ":" + k, v))
        for oname, owner in owners:
            for k, v in list(vars(owner).items()):
                if hasattr(v, "cache_info") and hasattr(v, "__wrapped__") and not hasattr(v, "__c18_real__"):
                    if getattr(getattr(v, "__wrapped__", None), "__module__", None) != mname:
                        continue   # imported from elsewhere: shimmed where it is defined
                    label = f"{oname}:{k}" if owner is mod else f"{oname}.{k}"
                    setattr(owner, k, _shim(label, v))
                    labels.append(label)
    return labels


def _shim(label, real):
    table = TRACKED.setdefault(label, {})

    def shim(*a, **kw):
        before = real.cache_info().hits
        r = real(*a, **kw)
        CALLS.append([label, (a[0] if isinstance(a[0], str) else short(a[0], 80)) if a else "", real.cache_info().hits > before])
        if not immutable_value(r) or isinstance(r, types.ModuleType):
            table.setdefault(short((a, sorted(kw.items())) if kw else a, 120), r)
        return r

    shim.__c18_real__ = real
    shim.__wrapped__ = real.__wrapped__
    shim.__name__ = getattr(real, "__name__", "shim")
    shim.__qualname__ = getattr(real, "__qualname__", "shim")
    shim.__module__ = "c18-shim"
    for nm in ("cache_info", "cache_clear", "cache_parameters"):
        if hasattr(real, nm):
            setattr(shim, nm, getattr(real, nm))
    return shim


# ---------------------------------------------------------------------------------------------- probes
def probes(s: Snapshot):
    fp = s.fp
    try:
        fp["proc:cwd"] = ("str", os.getcwd())
    except OSError as e:
        fp["proc:cwd"] = ("error", type(e).__name__)
    s.walk("proc:environ", dict(os.environ))
    s.walk("proc:sys.path", list(sys.path))
    s.walk("proc:sys.argv", list(sys.argv))
    fp["proc:recursionlimit"] = ("int", sys.getrecursionlimit())
    fp["proc:sys.modules"] = ("count", len(sys.modules))
    s.keep["proc:sys.modules"] = set(sys.modules)
    lg = sys.modules.get("logging")
    if lg is not None:
        fp["proc:logging.raiseExceptions"] = ("bool", lg.raiseExceptions)
        fp["proc:logging.root"] = ("root", lg.root.level, lg.root.manager.disable,
                                   tuple((type(h).__name__, getattr(h, "baseFilename", None)) for h in lg.root.handlers))
        fp["proc:logging.loggers"] = ("names", tuple(sorted(lg.root.manager.loggerDict)))
    try:
        fp["proc:fds"] = ("count", len(os.listdir("/proc/self/fd")))
    except OSError:
        pass
    sg = sys.modules.get("signal")
    if sg is not None:
        fp["proc:signals"] = ("handlers", tuple(short(sg.getsignal(n), 60) for n in (sg.SIGINT, sg.SIGTERM, sg.SIGALRM, sg.SIGPIPE)))
    rnd = sys.modules.get("random")
    if rnd is not None:
        fp["proc:random"] = ("state", hash(rnd.getstate()))
    loc = sys.modules.get("locale")
    if loc is not None:
        try:
            fp["proc:locale"] = ("str", loc.setlocale(loc.LC_ALL))
        except Exception:  # noqa: BLE001
            pass
    wr = sys.modules.get("warnings")
    if wr is not None:
        fp["proc:warnings.filters"] = ("count", len(wr.filters))
    th = sys.modules.get("threading")
    if th is not None:
        fp["proc:threads"] = ("count", th.active_count())
    fp["proc:umask-free"] = ("flags", sys.dont_write_bytecode, sys.flags.optimize)
    fp["proc:stdio"] = ("std", sys.stdin is sys.__stdin__, sys.stdout is sys.__stdout__, sys.stderr is sys.__stderr__)


def modname(n):
    """dippy.core.config -> core.config, dippy.dippy -> dippy, the package itself -> dippy.__init__"""
    return "dippy.__init__" if n == "dippy" else n.replace("dippy.", "", 1)


def snapshot(extra=None):
    """extra: {path: object} of further roots (the caller's shared input objects)."""
    s = Snapshot()
    for mname in sorted(n for n in sys.modules if is_dippy(n) and sys.modules[n] is not None):
        mod = sys.modules[mname]
        mn = modname(mname)
        s.mods.add(mn)
        for k, v in list(vars(mod).items()):
            if k in SKIP_DUNDER:
                continue
            s.walk(f"{mn}:{k}", v, 0)
    for label, table in TRACKED.items():
        mutable = 0
        for key, v in list(table.items()):
            if isinstance(v, types.ModuleType):
                continue
            mutable += 1
            s.walk(f"{label}#value[{key}]", v, 1)
        s.fp[f"{label}#mutable-values"] = ("count", mutable)
    probes(s)
    for path, v in (extra or {}).items():
        s.walk(path, v, 0)
    return s


def describe(s, path):
    if path not in s.fp:
        return "<absent>"
    k = s.keep.get(path)
    if k is not None:
        return f"{type(k).__name__} len {len(k)}"
    return short(s.fp[path], 120)


def diff(a: Snapshot, b: Snapshot):
    """[[path, before, after, detail]] for every fingerprint that differs, container changes explained."""
    out = []
    imported = b.mods - a.mods
    for mn in sorted(imported):
        # a module imported on first use (Python's import memo): one entry, not one per global of it
        out.append([f"import:{mn}", "<not imported>", "imported", ""])
    new_full = {("dippy." + mn) for mn in imported}
    for path in sorted(set(a.fp) | set(b.fp)):
        x, y = a.fp.get(path), b.fp.get(path)
        if x == y:
            continue
        if path.partition(":")[0] in imported:
            continue
        if x is None and isinstance(y, tuple) and y[:1] == ("module",) and y[1] in new_full:
            continue        # the attribute the import system sets on the parent package
        detail = ""
        ka, kb = a.keep.get(path), b.keep.get(path)
        if isinstance(ka, set) and isinstance(kb, set):
            detail = f"added {short(sorted(map(str, kb - ka)), 200)} removed {short(sorted(map(str, ka - kb)), 200)}"
        elif isinstance(ka, dict) and isinstance(kb, dict):
            ch = [k for k in kb if k in ka and not _same(ka[k], kb[k])]
            detail = (f"added keys {short([k for k in kb if k not in ka], 200)} removed keys {short([k for k in ka if k not in kb], 200)} "
                      f"changed keys {short(ch, 200)}")
        elif isinstance(ka, list) and isinstance(kb, list):
            detail = f"length {len(ka)} -> {len(kb)}; tail {short(kb[-3:], 200)}"
        out.append([path, describe(a, path), describe(b, path), detail])
    return out


def _same(x, y):
    try:
        return x is y or x == y
    except Exception:  # noqa: BLE001
        return False
