"""C19 - post-execution feedback rules are advisory only.

Implementation-level oracle (model-free), on real subprocess runs of bin/dippy-hook:
  * PostToolUse (hook_event_name == "PostToolUse"): exit 0, no traceback; stdout is empty or exactly
    one line "<duck> <non-empty message>"; never a decision envelope; the message is that of the LAST
    after / after-mcp rule that matches - recomputed here from single-rule evaluations of the real
    matcher, so the "last wins / empty message silences" logic is checked independently of the loop;
  * any other hook_event_name (missing, other names, wrong types): stdout with the configuration as
    given == stdout with every after / after-mcp line removed;
  * which kind of event this is is read at the host-written level only (harness/hookplace.py): on PostToolUse payloads a key
    named like any host field (hook_event_name: PreToolUse, permission_mode: bypass..., tool_name, command, cwd, tool_input)
    anywhere the host does not write it - tool_input, tool_response, other members, near-miss spellings - and on pre-execution
    payloads a hook_event_name: PostToolUse decoy, leave the output byte-for-byte what it is without the key.
  * parser.tokenize (what the after rules are matched against) = the words of the first simple command: by construction -
    first commands assembled from word forms (plain, single / double quoted, empty, quote characters, assignments, non-ASCII)
    x every list operator x rests x suffixes (`;`, `&`, redirections, comment) x line breaks; [] for text the parser
    rejects and for blank text.
Correspondence: Model/Hook.v main == the real process on the same runs; Model/Tokens.v extract_tokens (on the serialised
parse) == tokenize on all those texts and on compound commands; Tokens.strip_quotes == _strip_quotes on every string over
{", ', a, space, backslash} up to length 5 (thorough: 6) and a random longer stream."""
from __future__ import annotations

import dataclasses
import fnmatch
import json
import random
from pathlib import Path

from . import core, lib
from . import hookgen as g
from . import hooklib as H
from . import hookplace as P

TRUSTED = [
    "Coq 8.16.1 kernel and its VM",
    "axioms: none (every theorem of Props/C19.v prints 'Closed under the global context')",
    "extraction: ExtrOcamlBasic only; OCaml 4.13.1; ocaml/driver.ml; cross-checked in Coq by vm_compute on a sample",
    "Parable's parse() is outside the model: Model/Tokens.v models _extract_tokens / _strip_quotes on the tree parse() returned "
    "(serialised reflectively by harness/lib.py tree); tokenize's `try/except -> []` is checked on the real function",
    "modelled, not verified: tokenize (inside Hook.main) and the per-rule matcher of match_after (alias resolution, path normalisation, fnmatch) are "
    "oracles; C19_last states 'last matching rule' relative to that matcher; C19_inert assumes analyze reads only the shell part of the "
    "configuration - the harness checks this on the real code (with / without after rules)",
    "print() of the non-ASCII feedback line is an oracle that may raise (ASCII-only stdout): the hook then prints {}",
]

AFTER_PATTERNS = ["git push", "git", "ls", "git *", "git push *", "echo", "cat", "g push", "*", "git push origin main"]
AFTER_MCP_PATTERNS = ["mcp__a__*", "mcp__a__b", "mcp__*", "mcp__z", "*"]
MESSAGES = [' "m1"', ' "m2"', ' "check CI"', ' ""', "", ' "é🐤 done"']
OTHER = ['allow okcmd', 'deny zap "NOZAP"', 'ask git push "careful"', 'allow-redirect /tmp/*', 'alias g git', 'allow-mcp mcp__a__*',
         'deny-mcp mcp__a__c "no"', 'ask-mcp mcp__z "sure?"', '# comment', 'allow git status', 'deny-redirect /etc/* "no"']
COMMANDS = ["git push origin main", "git push", "git status", "ls", "ls -la", "git push | cat", "cat x | git push", "git push && ls",
            "ls; git push", "echo $(", "", "   ", "g push", "cat x > /tmp/y", "'git' push", "git  push", "(git push)", "FOO=1 git push",
            "zap it", "okcmd"]
NONSTR = [None, 5, ["git", "push"], {"a": 1}, True]
MCP_NAMES = ["mcp__a__b", "mcp__a__c", "mcp__z", "mcp__other"]
EVENTS = ["PostToolUse", "PreToolUse", g.MISSING, "posttooluse", "PostToolUse ", "AfterTool", "afterShellExecution", "PermissionRequest",
          None, 5, [], {}, ["PostToolUse"], True, ""]


def rand_cfg(rng, n_after, n_other):
    lines = []
    for _ in range(n_after):
        if rng.random() < 0.65:
            lines.append("after " + rng.choice(AFTER_PATTERNS) + rng.choice(MESSAGES))
        else:
            lines.append("after-mcp " + rng.choice(AFTER_MCP_PATTERNS) + rng.choice(MESSAGES))
    for _ in range(n_other):
        lines.insert(rng.randrange(len(lines) + 1), rng.choice(OTHER))
    return "\n".join(lines) + "\n" if lines else ""


def strip_after(cfg):
    if cfg is None:
        return None
    return "".join(l + "\n" for l in cfg.split("\n") if l and not l.split()[0].lower().startswith("after"))


def build_cases(sc, tier, rng):
    wd = sc.proj(None)
    cases = []
    n_cfg = 10 if tier == "quick" else 120
    cfgs = [("after git push \"pushed\"\nafter git \"g\"\nafter git push \"again\"\n", None),
            ("after ls \"one\"\nafter ls \"\"\n", None), ("after ls \"one\"\n", "after ls\n"),
            ("after-mcp mcp__a__* \"A\"\nafter-mcp mcp__a__b \"B\"\nafter-mcp mcp__* \"\"\nafter-mcp mcp__a__b \"B2\"\n", None),
            ("", None), (None, None)]
    for _ in range(n_cfg):
        u = rand_cfg(rng, rng.randrange(0, 6), rng.randrange(0, 5))
        p = rand_cfg(rng, rng.randrange(0, 4), rng.randrange(0, 3)) if rng.random() < 0.5 else None
        cfgs.append((u, p))
    for u, p in cfgs:
        pw = sc.proj(p)
        cmds = COMMANDS if tier == "thorough" or (u, p) in cfgs[:4] else rng.sample(COMMANDS, 7)
        for cmd in cmds:
            for ev in ("PostToolUse", "PreToolUse"):
                shape = rng.choice(g.SHAPES)
                cases.append(H.Case(g.dumps(g.base_input(shape, cmd, pw, hook_event_name=ev)), label=f"shell:{ev}", user_cfg=u, proj_cfg=p))
        for tn in MCP_NAMES:
            for ev in ("PostToolUse", "PreToolUse"):
                cases.append(H.Case(g.dumps({"tool_name": tn, "tool_input": {"x": 1}, "cwd": pw, "hook_event_name": ev}),
                                    label=f"mcp:{ev}", user_cfg=u, proj_cfg=p))
    # every hook_event_name value, on a config where both families match
    u = "after git push \"pushed\"\nafter-mcp mcp__a__* \"A\"\nask git push \"careful\"\nallow-mcp mcp__a__*\n"
    for ev in EVENTS:
        for shape in g.SHAPES:
            d = g.base_input(shape, "git push", wd)
            d = g.set_path(d, ("hook_event_name",), ev)
            cases.append(H.Case(g.dumps(d), label="events:shell", user_cfg=u))
        d = g.set_path({"tool_name": "mcp__a__b", "tool_input": {}}, ("hook_event_name",), ev)
        cases.append(H.Case(g.dumps(d), label="events:mcp", user_cfg=u))
    # PostToolUse with everything else wrong
    for v in NONSTR:
        for shape in g.SHAPES:
            cases.append(H.Case(g.dumps(g.base_input(shape, v, wd, hook_event_name="PostToolUse")), label="post:nonstr-command", user_cfg=u))
    for tn in ("Read", "Write", "", None, 5, ["Bash"], "bash"):
        cases.append(H.Case(g.dumps({"tool_name": tn, "tool_input": {"command": "git push"}, "hook_event_name": "PostToolUse"}),
                            label="post:other-tool", user_cfg=u))
    for pm in ("bypassPermissions", "dontAsk"):
        cases.append(H.Case(g.dumps(g.base_input("claude", "git push", wd, hook_event_name="PostToolUse", permission_mode=pm)), label="post:bypass", user_cfg=u))
        cases.append(H.Case(g.dumps({"tool_name": "mcp__a__b", "tool_input": {}, "hook_event_name": "PostToolUse", "permission_mode": pm}), label="post:bypass", user_cfg=u))
    for tgt in ("match_after", "tokenize", "match_after_mcp", "load_config", "configure_logging"):
        for ex in ("ValueError", "RecursionError", "OSError"):
            cases.append(H.Case(g.dumps(g.base_input("claude", "git push", wd, hook_event_name="PostToolUse")), label="post:fault", user_cfg=u, fault=(tgt, ex)))
            cases.append(H.Case(g.dumps({"tool_name": "mcp__a__b", "tool_input": {}, "hook_event_name": "PostToolUse"}), label="post:fault", user_cfg=u, fault=(tgt, ex)))
    cases.append(H.Case(g.dumps(g.base_input("claude", "git push", wd, hook_event_name="PostToolUse")), label="post:ascii-stdout", user_cfg=u, io="ascii"))
    for n in (1000, 100000):
        cases.append(H.Case(g.dumps(g.base_input("claude", "git push " + "a " * n, wd, hook_event_name="PostToolUse")), label="post:size", user_cfg=u))
        cases.append(H.Case(g.dumps(g.base_input("claude", "(" * n + "git push" + ")" * n, wd, hook_event_name="PostToolUse")), label="post:nest", user_cfg=u))
    # PostToolUse + unreadable configuration (the former finding C19-config-error-decision-on-post, fixed in 007d10b)
    for shape in g.SHAPES:
        cases.append(H.Case(g.dumps(g.base_input(shape, "git push", wd, hook_event_name="PostToolUse")), label="post:config-error", user_cfg=u, env_cfg="/proc/self/mem"))
    cases.append(H.Case(g.dumps({"tool_name": "mcp__a__b", "tool_input": {}, "hook_event_name": "PostToolUse"}), label="post:config-error", user_cfg=u, env_cfg="/proc/self/mem"))
    return cases


# ---------------------------------------------------------------- tokenize: words of the first simple command
WORD_FORMS = [("git", "git"), ("push", "push"), ("'git'", "git"), ('"push"', "push"), ("'a b'", "a b"), ('"c  d"', "c  d"), ("-f", "-f"),
              ("--force-with-lease", "--force-with-lease"), ("origin/main", "origin/main"), ("FOO=1", "FOO=1"), ("''", ""), ('"\'"', "'"),
              ("'\"'", '"'), ("a=b", "a=b"), ("é🐤", "é🐤"), ("$HOME", "$HOME"), ("'$(rm x)'", "$(rm x)"), ("x.y", "x.y")]
LIST_OPS = [" | ", " |& ", " && ", " || ", " ; ", "; ", " & ", " &\n", " &&\n", " |\n"]
LINE_OPS = ["\n", "\n\n", " \n ", "\n# c\n"]
RESTS = ["cat", "git status", "ls -la | wc -l", "zap it && ls", "'x y' z"]
SUFFIXES = ["", ";", " &", " > /tmp/x", " 2>&1", " # note", " < in >> out"]
COMPOUNDS = ["(FIRST)", "{ FIRST; }", "! FIRST", "time FIRST", "if FIRST; then ls; fi", "while FIRST; do ls; done", "for x in a; do FIRST; done",
             "f() { FIRST; }", "[[ -f x ]]", "(( 1 + 1 ))", "case x in x) FIRST;; esac", "coproc FIRST", "until FIRST; do ls; done",
             "(FIRST) | cat", "{ FIRST; } && ls", "! FIRST | cat", "FIRST | (cat)", "FIRST && { ls; }"]
BROKEN = ["'", '"', "a |", "a &&", "; a", "(a", "a )", "$(", "if a", "a ;; b", "a | | b", "}", "fi", "a 'b", "&& a", "| a", "a <", "a >"]
BLANK = ["", " ", "\t", "\n", "  \n  "]
QUOTE_ALPHABET = ['"', "'", "a", " ", "\\"]


def token_cases(tier, rng):
    """-> list of (command text, expected tokens or None (no model-free expectation), label)."""
    import itertools

    firsts = []
    for n in (1, 2, 3):
        pool = list(itertools.product(WORD_FORMS, repeat=n)) if n == 1 else [tuple(rng.choice(WORD_FORMS) for _ in range(n)) for _ in range(40 if tier == "quick" else 400)]
        for ws in pool:
            firsts.append((" ".join(w for w, _ in ws), [t for _, t in ws]))
    firsts += [("git push", ["git", "push"]), ("git  push   origin", ["git", "push", "origin"]), ("  git push", ["git", "push"])]
    cases = []
    for i, (ft, fw) in enumerate(firsts):
        cases.append((ft, fw, "simple"))
        ops = LIST_OPS if tier == "thorough" or i < 25 else [LIST_OPS[i % len(LIST_OPS)]]
        for op in ops:
            rest = RESTS[(i + len(op)) % len(RESTS)]
            cases.append((ft + op + rest, fw, "first-of-list:" + op.strip().replace("\n", "NL")))
        cases.append((ft + SUFFIXES[i % len(SUFFIXES)], fw, "suffix"))
        lop = LINE_OPS[i % len(LINE_OPS)]
        cases.append((ft + lop + RESTS[i % len(RESTS)], fw, "lines"))
        cases.append((COMPOUNDS[i % len(COMPOUNDS)].replace("FIRST", ft), None, "compound"))
    for ft, fw in firsts[:8]:
        for c in COMPOUNDS:
            cases.append((c.replace("FIRST", ft), None, "compound"))
        for sfx in SUFFIXES:
            cases.append((ft + sfx, fw, "suffix"))
        for lop in LINE_OPS:
            for rest in RESTS:
                cases.append((ft + lop + rest, fw, "lines"))
    for b in BROKEN:
        cases.append((b, [], "unparseable"))
        cases.append(("git push " + b if not b.startswith((";", "&", "|", "}", "fi")) else b + " git push", None, "unparseable-tail"))
    for b in BLANK:
        cases.append((b, [], "blank"))
    return cases


def token_stream(hm, out, tier, rng, only=None):
    """parser.tokenize: (a) by construction - the generator knows the words of the first simple command; (b) Model/Tokens.v
    extract_tokens on the serialised parse == tokenize; (c) strip_quotes (model) == _strip_quotes over every string of the
    quote alphabet up to length 5 / 6."""
    import itertools

    from dippy.core import parser as ps
    from dippy.vendor.parable import parse

    cases = [(only, None, "replay")] if only is not None else token_cases(tier, rng)
    for text, want, label in cases:
        out.case(["tokens", text])
        out.count("tokens", label.split(":")[0])
        got = ps.tokenize(text)
        if only is not None and "\n" in text:
            want = ps.tokenize(text.split("\n")[0])
            label = "lines"
        if want is not None and got != want:
            sig = "tokens-span-lines" if "\n" in text and got[:len(want)] == want and len(got) > len(want) else "tokens-not-first-command"
            out.violations.append({"kind": "tokens", "what": f"tokenize({text!r}) = {got}, the words of the first simple command are {want}"
                                   + (" (the words of later lines are appended: `A<newline>B` is not read like `A; B`)" if sig == "tokens-span-lines" else ""),
                                   "command": text, "tokens": got, "expected": want, "signature_text": f"{sig} | {label}"})
        try:
            nodes = lib.with_timeout(lambda: parse(text), 10) if hasattr(lib, "with_timeout") else parse(text)
        except Exception:  # noqa: BLE001 - tokenize answers [] for anything the parser rejects
            if got != []:
                out.violations.append({"kind": "tokens", "what": f"tokenize({text!r}) = {got} although the parser rejects the text",
                                       "command": text, "signature_text": f"tokens-on-parse-failure | {label}"})
            continue
        if not text or not text.strip():
            continue
        mod = hm.model.call(["hook_tokens", [lib.tree(n) for n in nodes]])
        if mod != got:
            out.disagreements.append({"correspondence": "Tokens.extract_tokens <-> parser.tokenize", "input": text, "model": mod, "impl": got})
    if only is not None:
        return
    n = 0
    for ln in range(0, 6 if tier == "quick" else 7):
        for tup in itertools.product(QUOTE_ALPHABET, repeat=ln):
            v = "".join(tup)
            n += 1
            a, b = hm.model.call(["hook_strip_quotes", v]), ps._strip_quotes(v)
            if a != b:
                out.disagreements.append({"correspondence": "Tokens.strip_quotes <-> parser._strip_quotes", "input": v, "model": a, "impl": b})
    for _ in range(300 if tier == "quick" else 5000):
        v = "".join(rng.choice(QUOTE_ALPHABET + ["é", "\n", "x"]) for _ in range(rng.randrange(2, 14)))
        n += 1
        a, b = hm.model.call(["hook_strip_quotes", v]), ps._strip_quotes(v)
        if a != b:
            out.disagreements.append({"correspondence": "Tokens.strip_quotes <-> parser._strip_quotes", "input": v, "model": a, "impl": b})
    out.evaluations += n
    out.extra["strip_quotes_cases"] = n


def expected_feedback(sc, c, value):
    """Model-free: the message of the last matching rule, each rule judged alone by the real matcher.
    -> ('msg', text) | ('silent',) | None when the input is not a well-formed shell / MCP PostToolUse."""
    from dippy.core import config as cf
    from dippy.core import parser as ps

    if not isinstance(value, dict):
        return None
    ti = value.get("tool_input")
    cwd = value.get("cwd") or (ti.get("cwd") if isinstance(ti, dict) else None) or sc.proj(c.proj_cfg)
    if not isinstance(cwd, str):
        return None
    tn = value.get("tool_name")
    try:
        cfg = H.real_load_config(sc, c, cwd)
    except Exception:  # noqa: BLE001
        return None
    # the SHAPE of the payload says where the command is (C12: a forced mode never does): with a tool_name it is a tool call
    # (tool_input.command of a shell tool, or an MCP tool), without one it is Cursor's top-level command
    if "tool_name" in value and isinstance(tn, str) and tn.startswith("mcp__"):
        last = None
        for r in cfg.after_mcp_rules:
            if fnmatch.fnmatch(tn, r.pattern):
                last = r
        rules_hit = last
    else:
        if "tool_name" not in value and "command" in value:
            cmd = value.get("command", "")
        elif isinstance(tn, str) and tn in H.SHELL_TOOLS and isinstance(ti, dict):
            cmd = ti.get("command", "")
        else:
            return None
        if not isinstance(cmd, str):
            return None
        words = ps.tokenize(cmd)
        last = None
        for r in cfg.after_rules:
            one = dataclasses.replace(cfg, after_rules=[r])
            if cf.match_after(list(words), one, Path(cwd).resolve()) is not None:
                last = r
        rules_hit = last
    if rules_hit is None or not rules_hit.message:
        return ("silent",)
    return ("msg", rules_hit.message)


def run(tier, seed, replay=None):
    lib.use_repo()
    rng = random.Random(seed)
    out = core.Outcome("C19")
    sc = H.Scratch()
    hm = None
    xcheck = []
    try:
        placed = None
        if replay and replay.get("kind") == "tokens":
            hm = H.HookModel(sc)
            token_stream(hm, out, tier, rng, only=replay["command"])
            return out
        if replay and replay.get("twin_case"):
            placed = P.replay_pair(sc, out, replay, "post")
            cases = []
        else:
            cases = [H.replay_case(sc, replay)] if replay else build_cases(sc, tier, rng)
        # the metamorphic twin of every non-PostToolUse case: same run without after / after-mcp lines
        twins = {}
        for c in cases:
            kind, value = H.read_stdin(c)
            is_post = kind == "ok" and isinstance(value, dict) and value.get("hook_event_name") == "PostToolUse" \
                and isinstance(value.get("hook_event_name"), str)
            c.is_post = is_post
            if not is_post and ((c.user_cfg and "after" in c.user_cfg) or (c.proj_cfg and "after" in c.proj_cfg)):
                pw_old, pw_new = sc.proj(c.proj_cfg), sc.proj(strip_after(c.proj_cfg))
                t = H.Case(c.data.replace(pw_old.encode(), pw_new.encode()), label="twin", flags=c.flags, env=c.env,
                           user_cfg=strip_after(c.user_cfg), proj_cfg=strip_after(c.proj_cfg), env_cfg=c.env_cfg, fault=c.fault, io=c.io)
                twins[id(c)] = t
        H.run_cases(sc, cases + list(twins.values()))
        hm = H.HookModel(sc)
        extra = []
        if placed is not None:
            extra = [placed]
        elif not replay:
            token_stream(hm, out, tier, rng)
            extra, _ = P.run_placement(sc, out, tier, "post", hm=hm, sample_limit=50, events=("post",), tag="placement_sweep_post")
            more, _ = P.run_placement(sc, out, tier, "post", hm=hm, sample_limit=30, events=("pre",), fields=("hook_event_name",),
                                      tag="placement_sweep_pre_event_decoys")
            extra = extra + more
        for c in extra:
            kind, value = H.read_stdin(c)
            c.is_post = kind == "ok" and isinstance(value, dict) and isinstance(value.get("hook_event_name"), str) \
                and value.get("hook_event_name") == "PostToolUse"
        cases = cases + extra

        def bad(what, sig, c, **more):
            out.violations.append({"kind": "post", "what": what, **H.describe(c, sc), **more, "signature_text": f"{sig} | {c.label}"})

        for idx, c in enumerate(cases):
            out.case(c.key(), nontrivial=bool((c.user_cfg and "after" in c.user_cfg) or (c.proj_cfg and "after" in c.proj_cfg)))
            out.count("stream", "place" if c.label.startswith("place:") else c.label)
            items = H.parse_stdout(c.out)
            kind, value = H.read_stdin(c)
            if idx % 61 == 0:
                out.sample({"label": c.label, "stdin": c.data[:170].decode("utf-8", "backslashreplace"), "user_config": c.user_cfg,
                            "project_config": c.proj_cfg, "stdout": c.out[:120].decode("utf-8", "backslashreplace")})
            if c.rc != 0 or H.has_traceback(c):
                bad(f"exit {c.rc} / traceback", "protocol", c)
                continue
            if c.is_post:
                shape = "empty" if not items else ("text" if items[0][0] == "T" else ("{}" if items[0][1] == {} else "json"))
                out.count("post_output", shape)
                decisions = [H.any_decision(v) for k, v in items if k == "J" and H.any_decision(v)]
                if decisions:
                    sig = "post-decision-on-config-error" if c.env_cfg == "/proc/self/mem" or (c.fault and c.fault[1] == "ConfigError") else "post-decision"
                    bad(f"PostToolUse answered with a permission decision {decisions[0]}", sig, c)
                    continue
                if len(items) > 1:
                    bad(f"PostToolUse printed {len(items)} lines", "post-many-lines", c)
                    continue
                exp = None if (c.fault or c.io != "default") else expected_feedback(sc, c, value)
                if items and items[0][0] == "T":
                    line = items[0][1]
                    if not line.startswith(H.DUCK) or len(line) <= len(H.DUCK):
                        bad(f"feedback line is not duck + message: {line!r}", "post-line-format", c)
                    elif exp is not None and exp != ("msg", line[len(H.DUCK):]):
                        bad(f"printed {line[len(H.DUCK):]!r}, the last matching rule gives {exp}", "post-not-last", c)
                elif items and items[0][0] == "J":
                    if items[0][1] != {}:
                        bad(f"PostToolUse printed JSON {items[0][1]}", "post-json", c)
                    elif exp is not None:
                        bad("PostToolUse printed {} for a well-formed shell / MCP call", "post-empty-object", c)
                    else:
                        out.count("post_empty_object_reason", c.label)
                elif exp is not None and exp != ("silent",):
                    bad(f"nothing printed, the last matching rule gives {exp}", "post-not-last", c)
                if exp is not None:
                    out.count("expected", exp[0])
            else:
                t = twins.get(id(c))
                if t is not None:
                    out.count("pre_twin", "compared")
                    a = H.parse_stdout(c.out)
                    b = H.parse_stdout(t.out)
                    if a != b or c.rc != t.rc:
                        bad(f"pre-execution answer changes when after rules are removed: {a} vs {b}", "after-rules-not-inert", c,
                            without_after={"user_config": t.user_cfg, "project_config": t.proj_cfg, "stdout": t.out[:300].decode("utf-8", "replace")})
                if any(k == "T" for k, _ in items) or not items:
                    bad(f"a pre-execution event printed {items}", "pre-not-one-object", c)
            # correspondence
            if c.fault and c.fault[0] == "match_after_mcp":
                continue
            rec = len(xcheck) < 30 and idx % 37 == 0 and len(c.data) < 400
            try:
                mi, rc, tb = hm.main(c, record=rec)
            except lib.ModelError as e:
                out.disagreements.append({"correspondence": "Hook.main <-> bin/dippy-hook", "model": f"error {e}", **H.describe(c, sc)})
                hm.restart()
                continue
            if rec and hm.model.transcript is not None and len(hm.model.transcript) < 60:
                xcheck.append((hm.model.last_request, list(hm.model.transcript), hm.last_raw))
            real = H.canon_items(items)
            if not H.same_items(mi, items) or rc != c.rc:
                out.disagreements.append({"correspondence": "Hook.main <-> bin/dippy-hook", "model": str(H.canon_items(mi)),
                                          "impl": str(real), **H.describe(c, sc)})
    finally:
        if hm:
            hm.close()
        sc.close()
    xcheck = xcheck + getattr(out, "xview", [])[:8]
    n, mism = core.coq_crosscheck("C19", xcheck)
    out.extra["coq_vm_crosscheck"] = {"cases": n, "mismatches": len(mism)}
    if mism:
        out.disagreements.append({"correspondence": "extracted OCaml model <-> vm_compute in Coq", "detail": mism[:5]})
    out.extra["rule"] = (
        "real subprocess runs. configurations: hand-written (repeated patterns, empty message last, user + project layers) and random lists "
        "of 0-9 after / after-mcp rules (10 patterns, 6 messages incl. empty / none / non-ASCII) interleaved with 0-7 rules of the other "
        "families (allow / ask / deny / redirect / alias / *-mcp); commands: simple, with arguments, pipelines, lists, subshell, env "
        "prefix, quoted, alias, redirect, unparseable, empty, blank, non-str JSON; MCP names; 15 hook_event_name values (other names, "
        "case / space variants, wrong JSON types); bypass modes, other tools, faults in match_after / tokenize / match_after_mcp / "
        "load_config, ASCII-only stdout, 200 kB commands and nesting 100000; every non-PostToolUse case is run a second time with the "
        "after lines removed; field placement (harness/hookplace.py): PostToolUse payloads of every host x every host field as a decoy "
        "key (tool_input, deeper, tool_response, other object, array, nested copy, near-miss spellings, duplicate member) x top-level "
        "state x forced mode, and hook_event_name decoys on pre-execution payloads - in-process with confirmation by real processes, "
        "plus a covering sample as real processes. distinct = distinct (stdin, configs, fault); non-trivial = the configuration contains an after rule")
    return out
