#!/bin/sh
# Build the framework from files on disk (offline): tables from /repo, full Coq .vo build,
# extraction, OCaml driver.
set -e
cd "$(dirname "$0")"
PYTHONHASHSEED=0 /venv/bin/python - <<'PY'
import sys
sys.path.insert(0, ".")
from harness import core
try:
    st = core.build()
    print("build ok in", st["seconds"], "s; broken plugins:", list(st["broken_plugins"]), "; files that do not check:", st["failed_files"])
except core.BuildBroken as e:
    print("BUILD BROKEN:", e.what); print(e.detail); sys.exit(1)
PY
