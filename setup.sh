#!/bin/sh
# Build the framework from files on disk (offline): tables from /repo, full Coq .vo build,
# extraction, OCaml driver.
set -e
cd "$(dirname "$0")"
PYTHONHASHSEED=0 /venv/bin/python - <<'PY'
import sys
sys.path.insert(0, ".")
from harness import core
try:
    print("build ok in", core.build(), "s")
except core.BuildBroken as e:
    print("BUILD BROKEN:", e.what); print(e.detail); sys.exit(1)
PY
