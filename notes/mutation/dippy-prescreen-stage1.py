"""staged pre-screen of dippy.py mutants (NOT the official mutation tool: a fast triage to know where to look).
stage 1: ~1500 basic payloads (type grid, hosts x classes x events, bypass, mcp) x 4 forced modes, in-process, outputs vs /repo
stage 2: the generalised sweeps (placement pre/post, value families, mode spellings, command sweep, fault sweep)"""
import sys, os, shutil, subprocess, json
sys.path.insert(0, '/tmp/vw/hook/tools')
import mutate
rel = 'dippy/dippy.py'
orig = open('/repo/src/' + rel).read()
ms = list(mutate.mutants(orig, None))
copy = '/tmp/hookw/pre/repo2'
shutil.rmtree(copy, ignore_errors=True)
shutil.copytree('/repo', copy, ignore=shutil.ignore_patterns('.git', '__pycache__', '.pytest_cache'))
stage1 = r'''
import sys, json, hashlib
sys.path.insert(0,'/tmp/vw/hook')
from harness import hookplace as P, hooklib as H, hookgen as g, lib, c06
lib.use_repo()
sc=H.Scratch()
sc.root2 = sc.root
try:
    import os
    wd=sc.proj(None)
    texts=[c.data.decode() for c in g.type_grid(wd)]
    hs=P.hosts(wd,'thorough')
    for h,f in hs.items():
        for ev in ('pre','post'):
            for cl in ('allow','ask','deny'):
                texts.append(json.dumps(f(ev,cl)))
    for pm in ("bypassPermissions","dontAsk","plan",None,5):
        for sh in g.SHAPES:
            texts.append(json.dumps(g.base_input(sh,"rm -rf x",wd,permission_mode=pm)))
            texts.append(json.dumps(g.base_input(sh,"rm -rf x",wd,permission_mode=pm,hook_event_name="PostToolUse")))
        texts.append(json.dumps({"tool_name":"mcp__z__t","tool_input":{},"permission_mode":pm}))
        texts.append(json.dumps({"tool_name":"mcp__q__t","tool_input":{},"permission_mode":pm,"hook_event_name":"PostToolUse"}))
    texts += ['0','[]','"x"','{}','{"a":1}','null']
    items=[]
    for t in dict.fromkeys(texts):
        for flags,env in P.FORCED+P.FORCED_ENV:
            items.append(P.Item(text=t,twin=t,expect='twin',flags=flags,env=env,dims={}))
    res=P.sweep(sc,items)
    # scratch paths differ between runs: normalise
    norm=lambda s: s.replace(sc.root,'<ROOT>') if isinstance(s,str) else s
    keyed=sorted((norm(k[0]),list(k[1]),list(k[2]),norm(v[0]),v[1]) for k,v in res.items())
    # a config-error run too
    print('HASH', hashlib.sha1(json.dumps(keyed).encode()).hexdigest(), len(keyed))
finally: sc.close()
'''
def run(code, repo, timeout=900):
    p = subprocess.run(['/venv/bin/python', '-c', code], capture_output=True, text=True, env={**os.environ, 'DIPPY_REPO': repo}, timeout=timeout)
    return p.stdout, p.stderr
out, err = run(stage1, '/repo')
base = [l for l in out.splitlines() if l.startswith('HASH')]
print('baseline', base, err[-300:] if not base else '', flush=True)
only = set(int(x) for x in sys.argv[1].split(',')) if len(sys.argv) > 1 else None
for i, (s, text) in enumerate(ms):
    if only is not None and i not in only: continue
    open(copy + '/src/' + rel, 'w').write(text)
    try:
        out, err = run(stage1, copy)
    except subprocess.TimeoutExpired:
        out, err = '', 'timeout'
    h = [l for l in out.splitlines() if l.startswith('HASH')]
    verdict = 'killed-stage1' if h != base else 'SURVIVES-stage1'
    print(f"#{i} line {s.lineno} {s.func} {s.op} {s.desc}: {verdict}", flush=True)
