"""quick pre-screen: apply each mutant of parser.py to a scratch copy, run the C19 token stream only."""
import sys, os, shutil, subprocess, json
sys.path.insert(0, '/tmp/vw/hook/tools')
import mutate
rel = 'dippy/core/parser.py'
orig = open('/repo/src/' + rel).read()
ms = list(mutate.mutants(orig, None))
copy = '/tmp/hookw/pre/repo'
shutil.rmtree(copy, ignore_errors=True)
shutil.copytree('/repo', copy, ignore=shutil.ignore_patterns('.git', '__pycache__', '.pytest_cache'))
drv = '''
import sys, random
sys.path.insert(0,'/tmp/vw/hook')
from harness import c19, hooklib as H, lib, core
lib.use_repo()
sc=H.Scratch(); hm=H.HookModel(sc); out=core.Outcome("C19")
try:
    c19.token_stream(hm,out,'quick',random.Random(1))
    v=[x for x in out.violations if not x['signature_text'].startswith('tokens-span-lines')]
    print('RESULT', len(v), len(out.disagreements), (v[0]['what'][:150] if v else (str(out.disagreements[0])[:150] if out.disagreements else '')))
finally:
    hm.close(); sc.close()
'''
for i, (s, text) in enumerate(ms):
    open(copy + '/src/' + rel, 'w').write(text)
    p = subprocess.run(['/venv/bin/python', '-c', drv], capture_output=True, text=True, env={**os.environ, 'DIPPY_REPO': copy}, timeout=300)
    line = [l for l in p.stdout.splitlines() if l.startswith('RESULT')]
    res = line[0] if line else 'CRASH ' + p.stderr[-200:].replace('\n', ' ')
    alive = res.startswith('RESULT 0 0')
    print(f"#{i} line {s.lineno} {s.func} {s.op} {s.desc}: {'SURVIVES' if alive else 'killed'} {res[:200]}", flush=True)
