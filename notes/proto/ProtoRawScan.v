(* Feasibility prototype (design round): the raw-string substitution scanner on
   "plain" strings agrees with a declarative grammar of $( ... ) and backtick spans
   (the shape of C01_rawscan_exact). *)
From Coq Require Import List NArith Bool Lia Arith.
Import ListNotations.
Definition str := list N.
Definition DOL := 36%N. Definition LP := 40%N. Definition RP := 41%N. Definition BT := 96%N.

(* --- scanner (model of _analyze_string_cmdsubs on plain strings) --- *)
Fixpoint find_close (depth : nat) (s acc : str) {struct s} : option (str * str) :=
  match s with
  | [] => None
  | c :: s1 =>
    if N.eqb c DOL then
      match s1 with
      | c2 :: s2 => if N.eqb c2 LP then find_close (S depth) s2 (acc ++ [DOL; LP])
                    else find_close depth s1 (acc ++ [c])
      | [] => find_close depth s1 (acc ++ [c])
      end
    else if N.eqb c RP then
      match depth with
      | 0 => None
      | 1 => Some (acc, s1)
      | S d => find_close d s1 (acc ++ [RP])
      end
    else find_close depth s1 (acc ++ [c])
  end.

Fixpoint find_bt (s acc : str) : option (str * str) :=
  match s with
  | [] => None
  | c :: s1 => if N.eqb c BT then Some (acc, s1) else find_bt s1 (acc ++ [c])
  end.

Fixpoint scan (fuel : nat) (s : str) : list str :=
  match fuel with 0 => [] | S fuel =>
  match s with
  | [] => []
  | c :: s1 =>
    if N.eqb c DOL then
      match s1 with
      | c2 :: s2 =>
        if N.eqb c2 LP then
          match find_close 1 s2 [] with
          | Some (inner, rest) => inner :: scan fuel rest
          | None => scan fuel s1
          end
        else scan fuel s1
      | [] => []
      end
    else if N.eqb c BT then
      match find_bt s1 [] with
      | Some (inner, rest) => inner :: scan fuel rest
      | None => scan fuel s1
      end
    else scan fuel s1
  end end.

(* --- declarative grammar --- *)
Definition plainc (c : N) : Prop := c <> LP /\ c <> RP.
Inductive B : str -> Prop :=
| B_nil : B []
| B_chr c s : plainc c -> B s -> (c = DOL -> forall s', s <> LP :: s') -> B (c :: s)
| B_sub b s : B b -> B s -> B (DOL :: LP :: b ++ RP :: s).
Inductive Top : str -> list str -> Prop :=
| T_nil : Top [] []
| T_chr c s l : plainc c -> c <> BT -> (c = DOL -> forall s', s <> LP :: s') -> Top s l -> Top (c :: s) l
| T_sub b s l : B b -> Top s l -> Top (DOL :: LP :: b ++ RP :: s) (b :: l)
| T_bt b s l : ~ In BT b -> Top s l -> Top (BT :: b ++ BT :: s) (b :: l).

Lemma find_close_B b : B b -> forall d acc rest,
  find_close (S d) (b ++ RP :: rest) acc =
  match d with 0 => Some (acc ++ b, rest) | S d' => find_close (S d') rest (acc ++ b ++ [RP]) end.
Proof.
  induction 1 as [|c s [Hl Hr] Hs IH Hd | b s Hb IHb Hs IHs]; intros d acc rest.
  - simpl. rewrite app_nil_r. destruct d; reflexivity.
  - simpl app. cbn [find_close].
    destruct (N.eqb c DOL) eqn:Ed.
    + apply N.eqb_eq in Ed. specialize (Hd Ed).
      destruct s as [|c2 s2].
      * simpl app. replace (N.eqb RP LP) with false by reflexivity.
        specialize (IH d (acc ++ [c]) rest). simpl app in IH. rewrite IH.
        destruct d; rewrite <- ?app_assoc; reflexivity.
      * cbn [app]. destruct (N.eqb c2 LP) eqn:E2.
        { apply N.eqb_eq in E2. subst. exfalso. eapply Hd; reflexivity. }
        cbn iota. rewrite ?E2.
        specialize (IH d (acc ++ [c]) rest). cbn [app] in IH. rewrite IH.
        destruct d; rewrite <- ?app_assoc; reflexivity.
    + destruct (N.eqb c RP) eqn:Er. { apply N.eqb_eq in Er. contradiction. }
      rewrite IH. destruct d; rewrite <- ?app_assoc; reflexivity.
  - cbn [app find_close]. replace (N.eqb DOL DOL) with true by reflexivity.
    replace (N.eqb LP LP) with true by reflexivity.
    rewrite <- app_assoc. cbn [app]. rewrite (IHb (S d)). rewrite IHs.
    destruct d; repeat (rewrite <- app_assoc; cbn [app]); reflexivity.
Qed.

Lemma find_bt_spec b : ~ In BT b -> forall acc rest, find_bt (b ++ BT :: rest) acc = Some (acc ++ b, rest).
Proof.
  induction b as [|c b IH]; intros Hn acc rest; simpl.
  - rewrite app_nil_r. reflexivity.
  - destruct (N.eqb c BT) eqn:E. { apply N.eqb_eq in E. subst. exfalso. apply Hn. left; reflexivity. }
    rewrite IH. rewrite <- app_assoc. reflexivity. intro H. apply Hn. right; exact H.
Qed.

Theorem scan_agrees_with_grammar s l : Top s l -> forall fuel, length s <= fuel -> scan fuel s = l.
Proof.
  induction 1 as [| c s l [Hl Hr] Hb Hd Ht IH | b s l Hb Ht IH | b s l Hn Ht IH]; intros fuel Hf.
  - destruct fuel; reflexivity.
  - destruct fuel as [|fuel]; [simpl in Hf; lia|]. cbn [scan]. simpl in Hf.
    destruct (N.eqb c DOL) eqn:Ed.
    + apply N.eqb_eq in Ed. specialize (Hd Ed). destruct s as [|c2 s2].
      * inversion Ht; reflexivity.
      * destruct (N.eqb c2 LP) eqn:E2. { apply N.eqb_eq in E2. subst. exfalso. eapply Hd; reflexivity. }
        apply IH. simpl in *. lia.
    + destruct (N.eqb c BT) eqn:Eb. { apply N.eqb_eq in Eb. contradiction. }
      apply IH. lia.
  - destruct fuel as [|fuel]; [simpl in Hf; lia|]. cbn [scan].
    replace (N.eqb DOL DOL) with true by reflexivity. replace (N.eqb LP LP) with true by reflexivity.
    rewrite (find_close_B b Hb 0 [] s). cbn [app]. f_equal. apply IH.
    simpl in Hf. rewrite app_length in Hf. simpl in Hf. lia.
  - destruct fuel as [|fuel]; [simpl in Hf; lia|]. cbn [scan].
    replace (N.eqb BT DOL) with false by reflexivity. replace (N.eqb BT BT) with true by reflexivity.
    rewrite find_bt_spec by assumption. cbn [app]. f_equal. apply IH.
    simpl in Hf. rewrite app_length in Hf. simpl in Hf. lia.
Qed.
Print Assumptions scan_agrees_with_grammar.

Example ex1 : scan 40 [97; DOL; LP; 98; DOL; LP; 99; RP; RP; 100; BT; 101; BT]%N
              = [[98; DOL; LP; 99; RP]; [101]]%N.
Proof. vm_compute. reflexivity. Qed.
