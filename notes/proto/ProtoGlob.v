(* Feasibility prototype (design round): star/qmark glob matcher and the
   "literal pattern + ' *' is whole-word prefix matching" lemma behind C07_literal. *)
From Coq Require Import List NArith Bool Lia.
Import ListNotations.
Definition str := list N.
Definition STAR := 42%N. Definition QM := 63%N. Definition LB := 91%N. Definition SP := 32%N.

Fixpoint gmatch (p : str) (s : str) {struct p} : bool :=
  match p with
  | [] => match s with [] => true | _ => false end
  | c :: p' =>
    if N.eqb c STAR then
      (fix star (s : str) : bool :=
         gmatch p' s || match s with [] => false | _ :: s' => star s' end) s
    else match s with
         | [] => false
         | d :: s' => (N.eqb c QM || N.eqb c d) && gmatch p' s'
         end
  end.

Definition is_glob (c : N) := N.eqb c STAR || N.eqb c QM || N.eqb c LB.
Definition no_glob (p : str) := forallb (fun c => negb (is_glob c)) p.

Fixpoint prefixb (p s : str) : bool :=
  match p, s with
  | [], _ => true
  | c :: p', d :: s' => N.eqb c d && prefixb p' s'
  | _, [] => false
  end.

Lemma star_nil_any s : gmatch [STAR] s = true.
Proof. induction s as [|d s IH]; simpl; auto. Qed.

Lemma gmatch_lit_star p s : no_glob p = true -> gmatch (p ++ [STAR]) s = prefixb p s.
Proof.
  revert s. induction p as [|c p IH]; intros s Hn.
  - simpl app. rewrite star_nil_any. destruct s; reflexivity.
  - simpl in Hn. apply andb_true_iff in Hn. destruct Hn as [Hc Hn].
    unfold is_glob in Hc. apply negb_true_iff in Hc.
    apply orb_false_iff in Hc. destruct Hc as [Hc _]. apply orb_false_iff in Hc. destruct Hc as [Hs Hq].
    simpl. rewrite Hs. destruct s as [|d s]; simpl; auto.
    rewrite Hq. simpl. rewrite IH by assumption. reflexivity.
Qed.

(* rule matching for a literal, non-anchored pattern: fnmatch(cmd, p ++ " *") || cmd == p *)
Fixpoint eqs (a b : str) : bool :=
  match a, b with [], [] => true | x :: a', y :: b' => N.eqb x y && eqs a' b' | _, _ => false end.
Definition rule_matches_lit (p cmd : str) : bool := gmatch (p ++ [SP; STAR]) cmd || eqs cmd p.

Theorem literal_is_word_prefix p cmd : no_glob p = true ->
  rule_matches_lit p cmd = prefixb (p ++ [SP]) cmd || eqs cmd p.
Proof.
  intro Hn. unfold rule_matches_lit.
  replace (p ++ [SP; STAR]) with ((p ++ [SP]) ++ [STAR]) by (rewrite <- app_assoc; reflexivity).
  rewrite gmatch_lit_star; auto.
  unfold no_glob in *. rewrite forallb_app, Hn. reflexivity.
Qed.
Print Assumptions literal_is_word_prefix.
