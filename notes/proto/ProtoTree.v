From Coq Require Import List NArith Bool Lia.
Import ListNotations.
Definition str := list N.
Inductive verdict := Allow | Ask | Deny.
Definition vmax (a b : verdict) : verdict :=
  match a, b with Deny, _ | _, Deny => Deny | Ask, _ | _, Ask => Ask | _, _ => Allow end.
Definition combine (l : list verdict) : verdict := fold_right vmax Allow l.
Lemma combine_allow l : combine l = Allow <-> Forall (fun v => v = Allow) l.
Proof. induction l as [|a l IH]; simpl; split; intro H; auto.
 - destruct a, (combine l) eqn:E; simpl in H; try discriminate. constructor; auto. apply IH; auto.
 - inversion H; subst. simpl. apply IH in H3. rewrite H3. reflexivity. Qed.

Inductive tree := T (kind : N) (strs : list (N * str)) (kids : list (N * tree)).
Definition kind_of t := match t with T k _ _ => k end.
Definition kids_of t := match t with T _ _ ks => ks end.

Section Ind.
  Variable P : tree -> Prop.
  Hypothesis H : forall k ss ks, Forall (fun p => P (snd p)) ks -> P (T k ss ks).
  Fixpoint tree_ind' (t : tree) : P t :=
    match t with T k ss ks =>
      H k ss ks ((fix go (l : list (N * tree)) : Forall (fun p => P (snd p)) l :=
                   match l with [] => Forall_nil _ | (n, c) :: l' => Forall_cons (n, c) (tree_ind' c) (go l') end) ks)
    end.
End Ind.

(* all descendants incl. self *)
Fixpoint desc (t : tree) : list tree :=
  t :: match t with T _ _ ks => flat_map (fun p => desc (snd p)) ks end.

Section W.
  Variable simple : tree -> verdict.  (* ladder verdict for a command node's own words *)
  Definition K_command := 1%N. Definition K_unknownish := 99%N.
  (* walker: command nodes contribute ladder verdict; all kids are walked (generic descent);
     kinds above 50 are "unknown" => Ask *)
  Fixpoint walk (t : tree) : verdict :=
    match t with T k ss ks =>
      let sub := combine (map (fun p => walk (snd p)) ks) in
      if N.eqb k K_command then vmax (simple t) sub
      else if N.ltb 50 k then Ask
      else sub
    end.
  Theorem walk_complete t : walk t = Allow ->
    Forall (fun d => kind_of d = K_command -> simple d = Allow) (desc t).
  Proof.
    induction t as [k ss ks IH] using tree_ind'. intro Hw.
    assert (Hsub : combine (map (fun p => walk (snd p)) ks) = Allow).
    { simpl in Hw. destruct (N.eqb k K_command).
      - destruct (simple (T k ss ks)); destruct (combine _); simpl in Hw; try discriminate; reflexivity.
      - destruct (N.ltb 50 k); [discriminate | exact Hw]. }
    simpl. constructor.
    - simpl. intro Hk. simpl in Hw. rewrite Hk in Hw. simpl in Hw.
      destruct (simple (T K_command ss ks)) eqn:E; rewrite Hk, ?E; auto; destruct (combine _); simpl in Hw; discriminate.
    - apply combine_allow in Hsub. rewrite Forall_map in Hsub.
      clear Hw. induction ks as [|[n c] ks IHks]; simpl; auto.
      inversion IH; subst. inversion Hsub; subst. apply Forall_app. split; auto.
  Qed.
End W.
Print Assumptions walk_complete.
