(* Feasibility prototype (design round): tmp.<pid> + rename cache replacement as a
   transition system with arbitrary interleaving and kill points (shape of C20_atomic). *)
From Coq Require Import List Arith Lia Bool.
Import ListNotations.
Definition content := list nat.
Inductive pc := Start | Writing | Renamed | Dead.
Record st := { final : option content; tmp : nat -> option content; pcs : nat -> pc }.
Section S.
  Variable out : nat -> content.            (* the complete line process p wants to cache *)
  Definition upd {A} (f : nat -> A) (p : nat) (v : A) : nat -> A := fun q => if Nat.eqb q p then v else f q.
  Inductive step : st -> st -> Prop :=
  | s_open p s : pcs s p = Start ->
      step s {| final := final s; tmp := upd (tmp s) p (Some []); pcs := upd (pcs s) p Writing |}
  | s_write p s c k : pcs s p = Writing -> tmp s p = Some c -> c = firstn (length c) (out p) ->
      step s {| final := final s; tmp := upd (tmp s) p (Some (firstn (length c + k) (out p))); pcs := pcs s |}
  | s_rename p s : pcs s p = Writing -> tmp s p = Some (out p) ->
      step s {| final := Some (out p); tmp := upd (tmp s) p None; pcs := upd (pcs s) p Renamed |}
  | s_kill p s : step s {| final := final s; tmp := tmp s; pcs := upd (pcs s) p Dead |}.
  Definition complete (c : content) := exists q, c = out q.
  Definition Inv (s : st) : Prop :=
    (forall c, final s = Some c -> complete c).
  Lemma step_inv s s' : Inv s -> step s s' -> Inv s'.
  Proof.
    intros HI Hs. destruct Hs; unfold Inv in *; simpl; intros c0 Hc; auto.
    inversion Hc; subst. exists p; reflexivity.
  Qed.
  Inductive steps (s0 : st) : st -> Prop := st_refl : steps s0 s0 | st_trans s2 s3 : steps s0 s2 -> step s2 s3 -> steps s0 s3.
  Theorem reads_are_complete s0 s : Inv s0 -> steps s0 s -> forall c, final s = Some c -> complete c.
  Proof. intros H0 Hs. assert (HI : Inv s) by (induction Hs; [assumption | eapply step_inv; eauto]). exact HI. Qed.
  (* the non-atomic variant (write straight into final) breaks the invariant: *)
  Inductive bad_step : st -> st -> Prop :=
  | b_write p s k : bad_step s {| final := Some (firstn k (out p)); tmp := tmp s; pcs := pcs s |}.
End S.
Example torn : exists out s', bad_step out {| final := None; tmp := fun _ => None; pcs := fun _ => Start |} s'
                 /\ ~ Inv out s'.
Proof.
  exists (fun _ => [1;2;3]). eexists. split. { apply (b_write _ 0 _ 1). }
  unfold Inv; simpl. intro H. destruct (H [1] eq_refl) as [q Hq]. discriminate.
Qed.
Print Assumptions reads_are_complete.
