(* C10 - lemmas about _merge_configs, _find_project_config and load_config (Model/Layers.v). *)
From DippyV Require Import Base.Str Model.Layers Proofs.DictP.

(* ------------------------------------------------------------------ observable *)
Lemma untag_tag s sc r : untag (tag s sc r) = untag r.
Proof. reflexivity. Qed.
Lemma map_untag_tag s sc l : map untag (map (tag s sc) l) = map untag l.
Proof. rewrite map_map. apply map_ext. intro; apply untag_tag. Qed.
Lemma obs_tag c s sc : observable (tag_rules c s sc) = observable c.
Proof. unfold observable, tag_rules; cbn. rewrite !map_untag_tag. reflexivity. Qed.
Lemma obs_merge a b : observable (merge_configs a b) = omerge (observable a) (observable b).
Proof.
  unfold observable, merge_configs, omerge; cbn. rewrite !map_app.
  destruct (log_full b), (log_full a); reflexivity.
Qed.
Lemma obs_empty : observable empty_config = oempty.
Proof. reflexivity. Qed.
Lemma omerge_empty_r o : omerge o oempty = o.
Proof. destruct o; unfold omerge; cbn -[dict_merge]. rewrite !app_nil_r. reflexivity. Qed.
Lemma omerge_empty_l o : NoDup (keys (o_aliases o)) -> omerge oempty o = o.
Proof.
  intro H. destruct o as [a b c d e al lg lf]; unfold omerge; cbn -[dict_merge] in *. rewrite dict_merge_nil_l by assumption.
  rewrite orb_false_r. destruct lg; reflexivity.
Qed.
Lemma fam_merge f a b : fam f (merge_configs a b) = fam f a ++ fam f b.
Proof. destruct f; reflexivity. Qed.
Lemma fam_tag f c s sc : fam f (tag_rules c s sc) = map (tag s sc) (fam f c).
Proof. destruct f; reflexivity. Qed.

(* ------------------------------------------------------------------ _find_project_config *)
Definition notfile (p : place) : Prop := is_file (pl_entry p) = IsNo.

Lemma find_project_skip pre chain : Forall notfile pre -> find_project (pre ++ chain) = find_project chain.
Proof.
  induction 1 as [|p pre Hp _ IH]; cbn [app find_project]; [reflexivity|].
  unfold notfile in Hp; rewrite Hp. exact IH.
Qed.
Lemma nearest_skip pre chain : Forall notfile pre -> nearest (pre ++ chain) = nearest chain.
Proof.
  induction 1 as [|p pre Hp _ IH]; cbn [app nearest]; [reflexivity|].
  unfold notfile in Hp; rewrite Hp. exact IH.
Qed.
Lemma find_project_hit p r post : is_file (pl_entry p) = IsYes r -> find_project (p :: post) = Ok (Some (p, r)).
Proof. intro H; cbn [find_project]; rewrite H; reflexivity. Qed.
Lemma find_project_denied p post : is_file (pl_entry p) = IsErr -> find_project (p :: post) = Crash.
Proof. intro H; cbn [find_project]; rewrite H; reflexivity. Qed.

(* a chain is either all not-files, or splits at its first level that is a file / cannot be examined *)
Lemma chain_split chain :
  Forall notfile chain \/
  exists pre p post, chain = pre ++ p :: post /\ Forall notfile pre /\ is_file (pl_entry p) <> IsNo.
Proof.
  induction chain as [|p chain IH]; [left; constructor|].
  destruct (is_file (pl_entry p)) eqn:E.
  - right; exists [], p, chain; repeat split; [constructor|congruence].
  - destruct IH as [IH|[pre [q [post [-> [Hpre Hq]]]]]].
    + left; constructor; assumption.
    + right; exists (p :: pre), q, post; repeat split; [constructor; assumption|assumption].
  - right; exists [], p, chain; repeat split; [constructor|congruence].
Qed.
Lemma find_project_none chain : Forall notfile chain -> find_project chain = Ok None.
Proof. intro H. rewrite <- (app_nil_r chain). rewrite find_project_skip by assumption. reflexivity. Qed.

Lemma split_unique (pre pre' : list place) p p' post post' :
  pre ++ p :: post = pre' ++ p' :: post' -> Forall notfile pre -> Forall notfile pre' ->
  ~ notfile p -> ~ notfile p' -> pre = pre' /\ p = p' /\ post = post'.
Proof.
  revert pre'; induction pre as [|x pre IH]; intros [|y pre'] E H1 H2 Hp Hp'; cbn [app] in E.
  - injection E as -> ->; auto.
  - injection E as -> _. inversion H2; subst. contradiction.
  - injection E as -> _. inversion H1; subst. contradiction.
  - injection E as -> E. inversion H1; inversion H2; subst.
    destruct (IH pre' E) as [-> [-> ->]]; auto.
Qed.

Theorem find_project_spec chain :
  (forall p r, find_project chain = Ok (Some (p, r)) <->
     exists pre post, chain = pre ++ p :: post /\ Forall notfile pre /\ is_file (pl_entry p) = IsYes r) /\
  (find_project chain = Ok None <-> Forall notfile chain) /\
  (find_project chain = Crash <->
     exists pre p post, chain = pre ++ p :: post /\ Forall notfile pre /\ is_file (pl_entry p) = IsErr) /\
  find_project chain <> ConfigErr.
Proof.
  assert (Hall : forall c, Forall notfile c -> forall pre p post, c = pre ++ p :: post -> notfile p).
  { intros c Hc pre p post ->. apply Forall_app in Hc. destruct Hc as [_ Hc]. inversion Hc; assumption. }
  destruct (chain_split chain) as [Hn|[pre [p [post [-> [Hpre Hp]]]]]].
  - rewrite (find_project_none _ Hn). repeat split; try congruence; try (intros; assumption).
    + intros [pre [post [E [_ Hy]]]]. pose proof (Hall _ Hn _ _ _ E) as H. unfold notfile in H. congruence.
    + intros [pre [q [post [E [_ Hy]]]]]. pose proof (Hall _ Hn _ _ _ E) as H. unfold notfile in H. congruence.
  - rewrite (find_project_skip _ _ Hpre). cbn [find_project].
    destruct (is_file (pl_entry p)) as [r| |] eqn:E; [|congruence|].
    + repeat split; try congruence.
      * intro H; injection H as <- <-. exists pre, post; auto.
      * intros [pre' [post' [E' [Hpre' Hy]]]].
        destruct (split_unique _ _ _ _ _ _ E' Hpre Hpre') as [_ [<- _]]; unfold notfile; try congruence.
      * intro H. pose proof (Hall _ H _ _ _ eq_refl) as H'. unfold notfile in H'. congruence.
      * intros [pre' [q [post' [E' [Hpre' Hy]]]]].
        destruct (split_unique _ _ _ _ _ _ E' Hpre Hpre') as [_ [<- _]]; unfold notfile; congruence.
    + repeat split; try congruence.
      * intros [pre' [post' [E' [Hpre' Hy]]]].
        destruct (split_unique _ _ _ _ _ _ E' Hpre Hpre') as [_ [<- _]]; unfold notfile; congruence.
      * intro H. pose proof (Hall _ H _ _ _ eq_refl) as H'. unfold notfile in H'. congruence.
      * intros _. exists pre, p, post; auto.
Qed.

(* what load_config sees of the search: the escaping PermissionError has become a ConfigError *)
Theorem find_project_checked_spec chain :
  (forall p r, find_project_checked chain = Ok (Some (p, r)) <->
     exists pre post, chain = pre ++ p :: post /\ Forall notfile pre /\ is_file (pl_entry p) = IsYes r) /\
  (find_project_checked chain = Ok None <-> Forall notfile chain) /\
  (find_project_checked chain = ConfigErr <->
     exists pre p post, chain = pre ++ p :: post /\ Forall notfile pre /\ is_file (pl_entry p) = IsErr) /\
  find_project_checked chain <> Crash.
Proof.
  destruct (find_project_spec chain) as [Hhit [Hnone [Hcrash Hne]]]. unfold find_project_checked.
  destruct (find_project chain) as [o| |] eqn:E.
  - repeat split; try congruence.
    + intro H. apply Hhit. exact H.
    + intro H. apply Hhit in H. exact H.
    + intro H. apply Hnone. exact H.
    + intro H. apply Hnone in H. exact H.
    + intro H. apply Hcrash in H. discriminate.
  - congruence.
  - repeat split; try congruence.
    + intro H. apply Hhit in H. discriminate.
    + intro H. apply Hnone in H. discriminate.
    + intros _. apply Hcrash. reflexivity.
Qed.
Lemma find_project_checked_skip pre chain : Forall notfile pre ->
  find_project_checked (pre ++ chain) = find_project_checked chain.
Proof. intro H. unfold find_project_checked. rewrite find_project_skip by assumption. reflexivity. Qed.

(* the search function and the "nearest level" spec function agree *)
Lemma find_project_nearest chain :
  find_project chain =
  match nearest chain with
  | None => Ok None
  | Some p => match is_file (pl_entry p) with IsYes r => Ok (Some (p, r)) | IsNo => Ok None | IsErr => Crash end
  end.
Proof.
  induction chain as [|p chain IH]; cbn [find_project nearest]; [reflexivity|].
  destruct (is_file (pl_entry p)) eqn:E; [rewrite E; reflexivity|exact IH|rewrite E; reflexivity].
Qed.

(* which kinds are skipped; links are followed to any depth *)
Fixpoint links (n : nat) (e : entry) : entry := match n with O => e | S k => ELink (links k e) end.
Lemma is_file_links n e : is_file (links n e) = is_file e.
Proof. induction n; cbn [links is_file]; auto. Qed.
Lemma skipped_kinds n path :
  notfile (mkPlace path (links n EDir)) /\ notfile (mkPlace path (links n ESpecial)) /\
  notfile (mkPlace path (links n EAbsent)) /\ notfile (mkPlace path (links n EDangling)).
Proof. unfold notfile; cbn [pl_entry]. rewrite !is_file_links. auto. Qed.

(* ------------------------------------------------------------------ load_config = fold over the effective layers *)
Section Load.
  Variable parse : str -> config.

  (* one layer merged on top of c *)
  Definition cadd (c : config) (l : layer) (scope : str) : config :=
    match l with
    | None => c
    | Some (path, s) => merge_configs c (tag_rules (parse s) path scope)
    end.
  Definition cfold (t : layer * layer * layer) : config :=
    match t with (u, p, e) => cadd (cadd (cadd empty_config u s_user) p s_project) e s_env end.

  Lemma add_layer_text c p sc r :
    add_layer parse c p sc r = bind (res_map (fun s => Some (pl_path p, s)) (text_of r)) (fun l => Ok (cadd c l sc)).
  Proof. destruct r; reflexivity. Qed.

  Lemma load_user_eff lay c :
    load_user parse lay c = bind (eff_at (l_user lay) ConfigErr) (fun l => Ok (cadd c l s_user)).
  Proof.
    unfold load_user, eff_at. destruct (is_file (pl_entry (l_user lay))); [apply add_layer_text|reflexivity|reflexivity].
  Qed.
  Lemma load_project_eff lay c :
    load_project parse lay c = bind (eff_project (l_chain lay)) (fun l => Ok (cadd c l s_project)).
  Proof.
    unfold load_project, eff_project, find_project_checked. rewrite find_project_nearest.
    destruct (nearest (l_chain lay)) as [p|]; [|reflexivity].
    unfold eff_at. destruct (is_file (pl_entry p)); [apply add_layer_text|reflexivity|reflexivity].
  Qed.
  Lemma load_env_eff lay c :
    load_env parse lay c = bind (eff_env (l_env lay)) (fun l => Ok (cadd c l s_env)).
  Proof.
    unfold load_env, eff_env. destruct (l_env lay) as [| | |p]; try reflexivity.
    unfold eff_at. destruct (is_file (pl_entry p)); [apply add_layer_text|reflexivity|reflexivity].
  Qed.

  (* the central refinement: exact equality of configs, tags and default included *)
  Theorem load_config_spec lay : load_config parse lay = res_map cfold (effective lay).
  Proof.
    unfold load_config, effective, res_map.
    rewrite load_user_eff. destruct (eff_at (l_user lay) ConfigErr) as [u| |]; cbn [bind]; try reflexivity.
    rewrite load_project_eff. destruct (eff_project (l_chain lay)) as [p| |]; cbn [bind]; try reflexivity.
    rewrite load_env_eff. destruct (eff_env (l_env lay)) as [e| |]; cbn [bind]; reflexivity.
  Qed.

  (* order of the rules of each family *)
  Definition layer_rules (f : family) (l : layer) (scope : str) : list rule :=
    match l with None => [] | Some (path, s) => map (tag path scope) (fam f (parse s)) end.
  Lemma fam_cadd f c l sc : fam f (cadd c l sc) = fam f c ++ layer_rules f l sc.
  Proof. destruct l as [[path s]|]; cbn [cadd layer_rules]; [rewrite fam_merge, fam_tag|rewrite app_nil_r]; reflexivity. Qed.
  Lemma fam_cfold f u p e :
    fam f (cfold (u, p, e)) = layer_rules f u s_user ++ layer_rules f p s_project ++ layer_rules f e s_env.
  Proof. cbn [cfold]. rewrite !fam_cadd. destruct f; cbn [fam empty_config rules redirect_rules after_rules mcp_rules after_mcp_rules app]; rewrite <- app_assoc; reflexivity. Qed.

  Theorem load_order lay c : load_config parse lay = Ok c ->
    exists u p e, effective lay = Ok (u, p, e) /\
      forall f, fam f c = layer_rules f u s_user ++ layer_rules f p s_project ++ layer_rules f e s_env.
  Proof.
    rewrite load_config_spec. destruct (effective lay) as [[[u p] e]| |]; cbn; try discriminate.
    intro H; injection H as <-. exists u, p, e; split; [reflexivity|]. intro f; apply fam_cfold.
  Qed.

  (* observable: merge-fold of the parsed texts *)
  Definition oadd (o : obs) (l : layer) : obs :=
    match l with None => o | Some (_, s) => omerge o (observable (parse s)) end.
  Definition ofold (t : layer * layer * layer) : obs :=
    match t with (u, p, e) => oadd (oadd (oadd oempty u) p) e end.
  Lemma obs_cadd c l sc : observable (cadd c l sc) = oadd (observable c) l.
  Proof. destruct l as [[path s]|]; cbn [cadd oadd]; [rewrite obs_merge, obs_tag|]; reflexivity. Qed.
  Lemma obs_cfold t : observable (cfold t) = ofold t.
  Proof. destruct t as [[u p] e]; cbn [cfold ofold]. rewrite !obs_cadd. reflexivity. Qed.
  Lemma res_map_map {T U V} (g : U -> V) (f : T -> U) r : res_map g (res_map f r) = res_map (fun x => g (f x)) r.
  Proof. destruct r; reflexivity. Qed.
  Lemma res_map_ext {T U} (f g : T -> U) r : (forall x, f x = g x) -> res_map f r = res_map g r.
  Proof. intro H; destruct r; cbn; [rewrite H|..]; reflexivity. Qed.

  Theorem load_observable lay : res_map observable (load_config parse lay) = res_map ofold (effective lay).
  Proof. rewrite load_config_spec, res_map_map. apply res_map_ext, obs_cfold. Qed.

  (* under the homomorphism assumptions about parse_config: one concatenated file *)
  Section Hom.
    Variable parse_hom : forall a b, observable (parse (a ++ nl :: b)) = omerge (observable (parse a)) (observable (parse b)).
    Variable parse_nil : observable (parse []) = oempty.
    Variable parse_dict : forall s, NoDup (keys (aliases (parse s))).

    Lemma oadd_text o l : oadd o l = omerge o (observable (parse (layer_text l))).
    Proof. destruct l as [[path s]|]; cbn [oadd layer_text]; [reflexivity|]. rewrite parse_nil, omerge_empty_r. reflexivity. Qed.
    Lemma ofold_cat3 t : ofold t = observable (parse (cat3 t)).
    Proof.
      destruct t as [[u p] e]; cbn [ofold cat3]. rewrite !oadd_text.
      rewrite omerge_empty_l by apply (parse_dict (layer_text u)).
      replace (layer_text u ++ nl :: layer_text p ++ nl :: layer_text e)
        with ((layer_text u ++ nl :: layer_text p) ++ nl :: layer_text e) by (rewrite <- app_assoc; reflexivity).
      rewrite !parse_hom. reflexivity.
    Qed.
    Theorem load_concat lay :
      res_map observable (load_config parse lay) = res_map (fun t => observable (parse (cat3 t))) (effective lay).
    Proof. rewrite load_observable. apply res_map_ext, ofold_cat3. Qed.

    (* an absent (skipped) layer = a present layer with the empty text *)
    Lemma oadd_absent o path : oadd o (Some (path, [])) = oadd o None.
    Proof. cbn [oadd]. rewrite parse_nil, omerge_empty_r. reflexivity. Qed.
  End Hom.
End Load.

(* ------------------------------------------------------------------ last match wins across the layers *)
(* the matching loops of config.py: result = None; for rule in rules: if matched(rule): result = rule *)
Definition last_match (m : rule -> bool) (l : list rule) : option rule :=
  fold_left (fun acc r => if m r then Some r else acc) l None.
Definition or_else {T} (a b : option T) : option T := match a with Some x => Some x | None => b end.

Lemma last_match_from (m : rule -> bool) (l : list rule) : forall acc : option rule,
  fold_left (fun acc r => if m r then Some r else acc) l acc = or_else (last_match m l) acc.
Proof.
  unfold last_match. set (F := fun (acc : option rule) r => if m r then Some r else acc).
  induction l as [|r l IH]; intro acc; cbn [fold_left]; [reflexivity|].
  rewrite IH, (IH (F None r)). destruct (fold_left F l None); [reflexivity|].
  cbn [or_else]. unfold F. destruct (m r); reflexivity.
Qed.
Lemma last_match_app m a b : last_match m (a ++ b) = or_else (last_match m b) (last_match m a).
Proof. unfold last_match at 1. rewrite fold_left_app. apply last_match_from. Qed.

Theorem load_override parse lay c : load_config parse lay = Ok c ->
  exists u p e, effective lay = Ok (u, p, e) /\
    forall f m, last_match m (fam f c) =
      or_else (last_match m (layer_rules parse f e s_env))
        (or_else (last_match m (layer_rules parse f p s_project)) (last_match m (layer_rules parse f u s_user))).
Proof.
  intro H. destruct (load_order parse lay c H) as [u [p [e [He Hf]]]]. exists u, p, e. split; [exact He|].
  intros f m. rewrite Hf, !last_match_app. destruct (last_match m (layer_rules parse f e s_env)); reflexivity.
Qed.
