(* main() observes the payload only at the host-written level: Model/HookView.v [host_view]. *)
From Coq Require Import List Bool NArith String Lia.
From DippyV Require Import Base.Str Base.Verdict Gen.Tables Model.Hook Model.HookView Proofs.HookP.
Import ListNotations.
Open Scope N_scope.

(* ------------------------------------------------------------------ association lists under keep / map *)
Lemma assoc_keep k keys kv : mem_str k keys = true -> assoc k (keep keys kv) = assoc k kv.
Proof.
  intro K. unfold keep. induction kv as [|[k' v] r IH]; [reflexivity|].
  cbn [filter fst assoc]. destruct (mem_str k' keys) eqn:M.
  - cbn [assoc]. destruct (str_eqb k' k); [reflexivity | exact IH].
  - destruct (str_eqb_spec k' k) as [->|N]; [congruence | exact IH].
Qed.

Lemma assoc_keep_none k keys kv : mem_str k keys = false -> assoc k (keep keys kv) = None.
Proof.
  intro K. unfold keep. induction kv as [|[k' v] r IH]; [reflexivity|].
  cbn [filter fst]. destruct (mem_str k' keys) eqn:M; [|exact IH].
  cbn [assoc]. destruct (str_eqb_spec k' k) as [->|N]; [congruence | exact IH].
Qed.

Lemma fst_top_entry p : fst (top_entry p) = fst p.
Proof. unfold top_entry. destruct (str_eqb (fst p) $"tool_input"); reflexivity. Qed.

Lemma assoc_top_other k kv : str_eqb k $"tool_input" = false -> assoc k (map top_entry kv) = assoc k kv.
Proof.
  intro N. induction kv as [|[k' v] r IH]; [reflexivity|].
  cbn [map]. unfold top_entry at 1. cbn [fst snd].
  destruct (str_eqb_spec k' $"tool_input") as [->|N'].
  - cbn [assoc]. destruct (str_eqb_spec $"tool_input" k) as [<-|_]; [|exact IH].
    rewrite str_eqb_refl in N. discriminate.
  - cbn [assoc]. destruct (str_eqb k' k); [reflexivity | exact IH].
Qed.

Lemma assoc_top_ti kv :
  assoc $"tool_input" (map top_entry kv) = option_map ti_view (assoc $"tool_input" kv).
Proof.
  induction kv as [|[k' v] r IH]; [reflexivity|].
  cbn [map]. unfold top_entry at 1. cbn [fst snd].
  destruct (str_eqb_spec k' $"tool_input") as [->|N'].
  - cbn [assoc]. rewrite str_eqb_refl. reflexivity.
  - cbn [assoc]. destruct (str_eqb_spec k' $"tool_input") as [E|_]; [contradiction | exact IH].
Qed.

(* ------------------------------------------------------------------ the typed accesses on a view *)
Definition is_top (k : str) : bool := mem_str k HOOK_TOP_KEYS && negb (str_eqb k $"tool_input").

Lemma py_get_view inp k d : is_top k = true -> py_get (host_view inp) k d = py_get inp k d.
Proof.
  unfold is_top. intro H. apply andb_prop in H as [M N]. apply negb_true_iff in N.
  destruct inp; try reflexivity. cbn [host_view py_get].
  rewrite (assoc_top_other _ _ N), (assoc_keep _ _ _ M). reflexivity.
Qed.

Lemma py_in_view inp k : mem_str k HOOK_TOP_KEYS = true -> py_in k (host_view inp) = py_in k inp.
Proof.
  intro M. destruct inp; try reflexivity. cbn [host_view py_in].
  destruct (str_eqb_spec k $"tool_input") as [->|N].
  - rewrite assoc_top_ti, (assoc_keep _ _ _ M). destruct (assoc $"tool_input" kv); reflexivity.
  - rewrite assoc_top_other, (assoc_keep _ _ _ M); [reflexivity|].
    destruct (str_eqb_spec k $"tool_input"); [contradiction | reflexivity].
Qed.

Lemma ti_view_empty : ti_view (JObj []) = JObj [].
Proof. reflexivity. Qed.

Lemma py_get_view_ti inp :
  mem_str $"tool_input" HOOK_TOP_KEYS = true ->
  py_get (host_view inp) $"tool_input" (JObj []) = (x <- py_get inp $"tool_input" (JObj []) ;; Ok (ti_view x)).
Proof.
  intro M. destruct inp; try reflexivity. cbn [host_view py_get bind].
  rewrite assoc_top_ti, (assoc_keep _ _ _ M). destruct (assoc $"tool_input" kv); reflexivity.
Qed.

Lemma py_get_ti_view v k d : mem_str k HOOK_TOOL_INPUT_KEYS = true -> py_get (ti_view v) k d = py_get v k d.
Proof.
  intro M. destruct v; try reflexivity. cbn [ti_view py_get]. rewrite (assoc_keep _ _ _ M). reflexivity.
Qed.

(* what is NOT kept: any other key, at either level *)
Lemma host_view_hides_top kv k :
  mem_str k HOOK_TOP_KEYS = false -> py_in k (host_view (JObj kv)) = Ok false.
Proof.
  intro M. cbn [host_view py_in].
  assert (N : str_eqb k $"tool_input" = false).
  { destruct (str_eqb_spec k $"tool_input") as [->|]; [|reflexivity]. vm_compute in M. discriminate. }
  rewrite (assoc_top_other _ _ N), (assoc_keep_none _ _ _ M). reflexivity.
Qed.

Lemma ti_view_hides tkv k : mem_str k HOOK_TOOL_INPUT_KEYS = false -> py_in k (ti_view (JObj tkv)) = Ok false.
Proof. intro M. cbn [ti_view py_in]. rewrite (assoc_keep_none _ _ _ M). reflexivity. Qed.

(* the closed facts about the generated tables that the model's own look-ups need: the tie *)
Lemma top_command : mem_str $"command" HOOK_TOP_KEYS = true.          Proof. vm_compute. reflexivity. Qed.
Lemma top_tool_name : mem_str $"tool_name" HOOK_TOP_KEYS = true.      Proof. vm_compute. reflexivity. Qed.
Lemma top_tool_input : mem_str $"tool_input" HOOK_TOP_KEYS = true.    Proof. vm_compute. reflexivity. Qed.
Lemma is_top_command : is_top $"command" = true.                      Proof. vm_compute. reflexivity. Qed.
Lemma is_top_tool_name : is_top $"tool_name" = true.                  Proof. vm_compute. reflexivity. Qed.
Lemma is_top_cwd : is_top $"cwd" = true.                              Proof. vm_compute. reflexivity. Qed.
Lemma is_top_event : is_top $"hook_event_name" = true.                Proof. vm_compute. reflexivity. Qed.
Lemma is_top_perm : is_top $"permission_mode" = true.                 Proof. vm_compute. reflexivity. Qed.
Lemma ti_command : mem_str $"command" HOOK_TOOL_INPUT_KEYS = true.    Proof. vm_compute. reflexivity. Qed.
Lemma ti_cwd_key : mem_str $"cwd" HOOK_TOOL_INPUT_KEYS = true.        Proof. vm_compute. reflexivity. Qed.
(* ... and the keys a model-written argument object must NOT be asked for *)
Lemma ti_no_perm : mem_str $"permission_mode" HOOK_TOOL_INPUT_KEYS = false.  Proof. vm_compute. reflexivity. Qed.
Lemma ti_no_event : mem_str $"hook_event_name" HOOK_TOOL_INPUT_KEYS = false. Proof. vm_compute. reflexivity. Qed.
Lemma ti_no_tool_name : mem_str $"tool_name" HOOK_TOOL_INPUT_KEYS = false.   Proof. vm_compute. reflexivity. Qed.
Lemma ti_no_tool_input : mem_str $"tool_input" HOOK_TOOL_INPUT_KEYS = false. Proof. vm_compute. reflexivity. Qed.

(* ------------------------------------------------------------------ mode detection *)
Lemma detect_view inp : detect_mode_from_input (host_view inp) = detect_mode_from_input inp.
Proof.
  unfold detect_mode_from_input.
  rewrite (py_in_view inp _ top_command), (py_in_view inp _ top_tool_name), (py_get_view inp _ _ is_top_tool_name).
  reflexivity.
Qed.

Lemma cursor_way_view b inp : cursor_way b (host_view inp) = cursor_way b inp.
Proof.
  unfold cursor_way. rewrite (py_in_view inp _ top_command), (py_in_view inp _ top_tool_name). reflexivity.
Qed.

(* the answering mode (C12) and the event kind (C19) are read at the host level too *)
Lemma mode_of_view e inp : mode_of e (host_view inp) = mode_of e inp.
Proof. unfold mode_of. rewrite detect_view. reflexivity. Qed.

Lemma event_of_view inp : event_of (host_view inp) = event_of inp.
Proof. unfold event_of. apply py_get_view. exact is_top_event. Qed.

Lemma post_event_view inp : post_event (host_view inp) <-> post_event inp.
Proof. unfold post_event. rewrite event_of_view. tauto. Qed.

Lemma bypass_of_view inp : bypass_of (host_view inp) = bypass_of inp.
Proof. unfold bypass_of. rewrite (py_get_view inp _ _ is_top_perm). reflexivity. Qed.

(* ------------------------------------------------------------------ main() over arbitrary oracles *)
Section Oracles.
  Variables S G : Type.
  Notation config := (config S G).
  Variable o_resolve : str -> res str.
  Variable o_getcwd : res str.
  Variable o_load_config : str -> res config.
  Variable o_configure_logging : G -> res unit.
  Variable o_log_decision : str -> str -> res unit.
  Variable o_analyze : str -> S -> str -> res (str * str).
  Variable o_gmatch : str -> str -> bool.
  Variable o_words : str -> list str.
  Variable o_after_prep : S -> str -> list str -> res unit.
  Variable o_after_rule : S -> str -> list str -> rule -> res bool.
  Variable o_print : str -> res unit.

  Notation main_try := (@main_try S G o_resolve o_getcwd o_load_config o_configure_logging o_log_decision
                                 o_analyze o_gmatch o_words o_after_prep o_after_rule o_print).
  Notation main := (@main S G o_resolve o_getcwd o_load_config o_configure_logging o_log_decision
                         o_analyze o_gmatch o_words o_after_prep o_after_rule o_print).
  Notation after_config := (@after_config S G o_log_decision o_analyze o_gmatch o_words o_after_prep o_after_rule o_print).
  Notation shell_tail := (@shell_tail S G o_log_decision o_analyze o_words o_after_prep o_after_rule o_print).
  Notation mcp_part := (@mcp_part S G o_log_decision o_gmatch o_print).
  Notation find_cwd := (find_cwd o_resolve o_getcwd).
  Notation load_stage := (@load_stage S G o_load_config o_configure_logging).

  Lemma find_cwd_view inp : find_cwd (host_view inp) = find_cwd inp.
  Proof.
    unfold Hook.find_cwd.
    rewrite (py_get_view inp _ _ is_top_cwd), (py_get_view_ti inp top_tool_input).
    destruct (py_get inp $"cwd" JNull) as [c|e]; cbn [bind]; [|reflexivity].
    destruct (truthy c); cbn [negb]; [reflexivity|].
    destruct (py_get inp $"tool_input" (JObj [])) as [ti|e]; cbn [bind]; [|reflexivity].
    rewrite (py_get_ti_view ti _ _ ti_cwd_key). reflexivity.
  Qed.

  Lemma shell_tail_view m inp he c cfg cwd : shell_tail m (host_view inp) he c cfg cwd = shell_tail m inp he c cfg cwd.
  Proof. unfold Hook.shell_tail. rewrite (py_get_view inp _ _ is_top_perm). reflexivity. Qed.

  Lemma mcp_part_view m inp he tn cfg : mcp_part m (host_view inp) he tn cfg = mcp_part m inp he tn cfg.
  Proof. unfold Hook.mcp_part. rewrite (py_get_view inp _ _ is_top_perm). reflexivity. Qed.

  Lemma after_config_view m inp cfg cwd : after_config m (host_view inp) cfg cwd = after_config m inp cfg cwd.
  Proof.
    unfold Hook.after_config.
    rewrite (py_get_view inp _ _ is_top_event), cursor_way_view, (py_get_view inp _ _ is_top_command),
      (py_get_view inp _ _ is_top_tool_name), (py_get_view_ti inp top_tool_input).
    destruct (py_get inp $"hook_event_name" (JStr $"PreToolUse")) as [he|e]; cbn [bind]; [|reflexivity].
    destruct (cursor_way (is_cursor m) inp) as [[|]|e]; cbn [bind]; [| |reflexivity].
    - destruct (py_get inp $"command" (JStr [])) as [c|e]; cbn [bind]; [|reflexivity].
      apply shell_tail_view.
    - destruct (py_get inp $"tool_name" (JStr [])) as [tn|e]; cbn [bind]; [|reflexivity].
      destruct (py_get inp $"tool_input" (JObj [])) as [ti|e]; cbn [bind]; [|reflexivity].
      destruct (py_startswith tn $"mcp__") as [[|]|e]; cbn [bind]; [| |reflexivity].
      + apply mcp_part_view.
      + destruct (py_in_frozenset tn SHELL_TOOL_NAMES) as [[|]|e]; cbn [bind negb]; [| reflexivity | reflexivity].
        rewrite (py_get_ti_view ti _ _ ti_command).
        destruct (py_get ti $"command" (JStr [])) as [c|e]; cbn [bind]; [|reflexivity].
        apply shell_tail_view.
  Qed.

  Lemma main_try_view explicit inp : main_try explicit (host_view inp) = main_try explicit inp.
  Proof.
    unfold Hook.main_try. rewrite detect_view, find_cwd_view.
    destruct (match explicit with Some m => Ok m | None => detect_mode_from_input inp end) as [m|e]; cbn [bind]; [|reflexivity].
    destruct (find_cwd inp) as [cwd|e]; cbn [bind]; [|reflexivity].
    destruct (load_stage cwd) as [cfg|e].
    - apply after_config_view.
    - destruct e; try reflexivity. rewrite (py_get_view inp _ _ is_top_event). reflexivity.
  Qed.

  (* the whole process: main() on a payload == main() on its host view *)
  Lemma main_view setup e inp : main setup e (Ok (host_view inp)) = main setup e (Ok inp).
  Proof. unfold Hook.main. cbn [bind]. rewrite main_try_view. reflexivity. Qed.

  (* two payloads with the same host view get the same answer: stdout, exit status, everything *)
  Lemma main_host_level_only setup e a b : host_view a = host_view b -> main setup e (Ok a) = main setup e (Ok b).
  Proof. intro H. rewrite <- (main_view setup e a), <- (main_view setup e b), H. reflexivity. Qed.
End Oracles.

(* ------------------------------------------------------------------ decoys leave the view alone *)
Lemma keep_insert keys n p kv : mem_str (fst p) keys = false -> keep keys (insert_at n p kv) = keep keys kv.
Proof.
  intro M. unfold keep, insert_at. rewrite filter_app. cbn [filter]. rewrite M, <- filter_app, firstn_skipn. reflexivity.
Qed.

(* (1) a member under any name the hook does not look up, at any position of the payload, holding anything -
   tool_response, session objects, look-alike spellings (permissionMode, Permission_Mode, ...), copies of the
   whole payload *)
Lemma decoy_top_inert n k v kv :
  mem_str k HOOK_TOP_KEYS = false -> host_view (JObj (insert_at n (k, v) kv)) = host_view (JObj kv).
Proof. intro M. cbn [host_view]. rewrite keep_insert; [reflexivity | exact M]. Qed.

Lemma update_keep_map k f kv :
  (forall v, ti_view (f v) = ti_view v) -> k = $"tool_input" ->
  map top_entry (keep HOOK_TOP_KEYS (update k f kv)) = map top_entry (keep HOOK_TOP_KEYS kv).
Proof.
  intros F ->. unfold keep. induction kv as [|[k' v] r IH]; [reflexivity|].
  cbn [update]. destruct (str_eqb_spec k' $"tool_input") as [->|N].
  - cbn [filter fst]. destruct (mem_str $"tool_input" HOOK_TOP_KEYS); [|reflexivity].
    cbn [map]. unfold top_entry at 1 3. cbn [fst snd]. rewrite str_eqb_refl, F. reflexivity.
  - cbn [filter fst]. destruct (mem_str k' HOOK_TOP_KEYS); [cbn [map]; rewrite IH; reflexivity | exact IH].
Qed.

(* (2) a member inside tool_input under any name but the two the hook reads there (command, cwd): in particular
   permission_mode, hook_event_name, tool_name, tool_input - the fields only the HOST may declare *)
Lemma decoy_tool_input_inert n k v kv :
  mem_str k HOOK_TOOL_INPUT_KEYS = false -> host_view (JObj (decoy_in_tool_input n k v kv)) = host_view (JObj kv).
Proof.
  intro M. cbn [host_view]. unfold decoy_in_tool_input. rewrite update_keep_map; [reflexivity | | reflexivity].
  intros [| | | |l|tkv]; try reflexivity. cbn [ti_view]. rewrite keep_insert; [reflexivity | exact M].
Qed.

(* (3) anything whatsoever below a member that survives the view is already gone: the view of tool_input keeps
   only command and cwd, so a nested object under another key (tool_input.env.permission_mode, ...) is covered by
   (2), and a nested object under a dropped top-level key by (1). *)

(* the read set inside the model-written argument object, stated outright (a closed fact about the generated table) *)
Lemma tool_input_read_set :
  mem_str $"permission_mode" HOOK_TOOL_INPUT_KEYS = false /\ mem_str $"hook_event_name" HOOK_TOOL_INPUT_KEYS = false /\
  mem_str $"tool_name" HOOK_TOOL_INPUT_KEYS = false /\ mem_str $"tool_input" HOOK_TOOL_INPUT_KEYS = false.
Proof. repeat split; vm_compute; reflexivity. Qed.
