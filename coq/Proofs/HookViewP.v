(* main() observes the payload only at the host-written level: Model/HookView.v [host_view]. *)
From Coq Require Import List Bool NArith String Lia.
From DippyV Require Import Base.Str Base.Verdict Gen.Tables Model.Hook Model.HookView Proofs.HookP.
Import ListNotations.
Open Scope N_scope.

(* ------------------------------------------------------------------ looking a key up in a picked list *)
Definition pick_val (norm : str -> json -> option json) (kv : list (str * json)) (k : str) : option json :=
  match assoc k kv with Some v => norm k v | None => None end.

Lemma assoc_pick norm keys kv k :
  assoc k (pick norm keys kv) = if mem_str k keys then pick_val norm kv k else None.
Proof.
  unfold pick, pick_val, mem_str. induction keys as [|k' r IH]; [reflexivity|].
  cbn [flat_map existsb]. destruct (str_eqb_spec k k') as [<-|N].
  - cbn [orb]. destruct (assoc k kv) as [v|]; cbn [app].
    + destruct (norm k v) as [v'|]; cbn [app assoc]; [rewrite str_eqb_refl; reflexivity|].
      rewrite IH. destruct (existsb (str_eqb k) r); reflexivity.
    + rewrite IH. destruct (existsb (str_eqb k) r); reflexivity.
  - cbn [orb]. destruct (assoc k' kv) as [v|]; cbn [app]; [|exact IH].
    destruct (norm k' v) as [v'|]; cbn [app assoc]; [|exact IH].
    destruct (str_eqb_spec k' k) as [E|_]; [congruence | exact IH].
Qed.

(* two objects that answer every look-up of the listed keys alike have the same picked list *)
Lemma pick_ext norm keys kv kv' :
  (forall k, mem_str k keys = true -> pick_val norm kv k = pick_val norm kv' k) -> pick norm keys kv = pick norm keys kv'.
Proof.
  unfold pick, pick_val, mem_str. induction keys as [|k' r IH]; intro H; [reflexivity|].
  cbn [flat_map]. f_equal.
  - assert (E := H k'). cbn [existsb] in E. rewrite str_eqb_refl in E. specialize (E eq_refl).
    destruct (assoc k' kv) as [v|], (assoc k' kv') as [v'|]; try rewrite E; try rewrite <- E; reflexivity.
  - apply IH. intros k M. apply H. cbn [existsb]. rewrite M. apply orb_true_r.
Qed.

(* ------------------------------------------------------------------ the typed accesses on a view *)
Definition is_top (k : str) : bool := mem_str k HOOK_TOP_KEYS && negb (str_eqb k $"tool_input").

Lemma top_norm_other k v : str_eqb k $"tool_input" = false -> top_norm k v = Some v.
Proof. unfold top_norm. intros ->. reflexivity. Qed.

Lemma assoc_view_top kv k : is_top k = true -> assoc k (pick top_norm HOOK_TOP_KEYS kv) = assoc k kv.
Proof.
  unfold is_top. intro H. apply andb_prop in H as [M N]. apply negb_true_iff in N.
  rewrite assoc_pick, M. unfold pick_val. destruct (assoc k kv); [apply top_norm_other; exact N | reflexivity].
Qed.

Lemma py_get_view inp k d : is_top k = true -> py_get (host_view inp) k d = py_get inp k d.
Proof. intro H. destruct inp; try reflexivity. cbn [host_view py_get]. rewrite (assoc_view_top _ _ H). reflexivity. Qed.

Lemma py_in_view inp k : is_top k = true -> py_in k (host_view inp) = py_in k inp.
Proof. intro H. destruct inp; try reflexivity. cbn [host_view py_in]. rewrite (assoc_view_top _ _ H). reflexivity. Qed.

Lemma ti_view_empty : ti_view (JObj []) = JObj [].
Proof. vm_compute. reflexivity. Qed.

Lemma is_empty_obj_eq j : is_empty_obj j = true -> j = JObj [].
Proof. destruct j as [| | | | |[|? ?]]; cbn; try discriminate. reflexivity. Qed.

Lemma py_get_view_ti inp :
  mem_str $"tool_input" HOOK_TOP_KEYS = true ->
  py_get (host_view inp) $"tool_input" (JObj []) = (x <- py_get inp $"tool_input" (JObj []) ;; Ok (ti_view x)).
Proof.
  intro M. destruct inp; try reflexivity. cbn [host_view py_get bind].
  rewrite assoc_pick, M. unfold pick_val. destruct (assoc $"tool_input" kv) as [v|]; [|rewrite ti_view_empty; reflexivity].
  unfold top_norm. rewrite str_eqb_refl. destruct (is_empty_obj (ti_view v)) eqn:E; [|reflexivity].
  apply is_empty_obj_eq in E. rewrite E. reflexivity.
Qed.

Lemma py_get_ti_view v k d : mem_str k HOOK_TOOL_INPUT_KEYS = true -> py_get (ti_view v) k d = py_get v k d.
Proof.
  intro M. destruct v; try reflexivity. cbn [ti_view py_get]. rewrite assoc_pick, M. unfold pick_val.
  destruct (assoc k kv); reflexivity.
Qed.

(* what is NOT kept: any other key, at either level *)
Lemma host_view_hides_top kv k :
  mem_str k HOOK_TOP_KEYS = false -> py_in k (host_view (JObj kv)) = Ok false.
Proof. intro M. cbn [host_view py_in]. rewrite assoc_pick, M. reflexivity. Qed.

Lemma ti_view_hides tkv k : mem_str k HOOK_TOOL_INPUT_KEYS = false -> py_in k (ti_view (JObj tkv)) = Ok false.
Proof. intro M. cbn [ti_view py_in]. rewrite assoc_pick, M. reflexivity. Qed.

(* the closed facts about the generated tables that the model's own look-ups need: the tie *)
Lemma top_command : mem_str $"command" HOOK_TOP_KEYS = true.          Proof. vm_compute. reflexivity. Qed.
Lemma top_tool_name : mem_str $"tool_name" HOOK_TOP_KEYS = true.      Proof. vm_compute. reflexivity. Qed.
Lemma top_tool_input : mem_str $"tool_input" HOOK_TOP_KEYS = true.    Proof. vm_compute. reflexivity. Qed.
Lemma is_top_command : is_top $"command" = true.                      Proof. vm_compute. reflexivity. Qed.
Lemma is_top_tool_name : is_top $"tool_name" = true.                  Proof. vm_compute. reflexivity. Qed.
Lemma is_top_cwd : is_top $"cwd" = true.                              Proof. vm_compute. reflexivity. Qed.
Lemma is_top_event : is_top $"hook_event_name" = true.                Proof. vm_compute. reflexivity. Qed.
Lemma is_top_perm : is_top $"permission_mode" = true.                 Proof. vm_compute. reflexivity. Qed.
Lemma ti_command : mem_str $"command" HOOK_TOOL_INPUT_KEYS = true.    Proof. vm_compute. reflexivity. Qed.
Lemma ti_cwd_key : mem_str $"cwd" HOOK_TOOL_INPUT_KEYS = true.        Proof. vm_compute. reflexivity. Qed.
(* ... and the keys a model-written argument object must NOT be asked for *)
Lemma ti_no_perm : mem_str $"permission_mode" HOOK_TOOL_INPUT_KEYS = false.  Proof. vm_compute. reflexivity. Qed.
Lemma ti_no_event : mem_str $"hook_event_name" HOOK_TOOL_INPUT_KEYS = false. Proof. vm_compute. reflexivity. Qed.
Lemma ti_no_tool_name : mem_str $"tool_name" HOOK_TOOL_INPUT_KEYS = false.   Proof. vm_compute. reflexivity. Qed.
Lemma ti_no_tool_input : mem_str $"tool_input" HOOK_TOOL_INPUT_KEYS = false. Proof. vm_compute. reflexivity. Qed.

(* ------------------------------------------------------------------ mode detection *)
Lemma detect_view inp : detect_mode_from_input (host_view inp) = detect_mode_from_input inp.
Proof.
  unfold detect_mode_from_input.
  rewrite (py_in_view inp _ is_top_command), (py_in_view inp _ is_top_tool_name), (py_get_view inp _ _ is_top_tool_name).
  reflexivity.
Qed.

Lemma cursor_way_view b inp : cursor_way b (host_view inp) = cursor_way b inp.
Proof.
  unfold cursor_way. rewrite (py_in_view inp _ is_top_command), (py_in_view inp _ is_top_tool_name). reflexivity.
Qed.

(* the answering mode (C12) and the event kind (C19) are read at the host level too *)
Lemma mode_of_view e inp : mode_of e (host_view inp) = mode_of e inp.
Proof. unfold mode_of. rewrite detect_view. reflexivity. Qed.

Lemma event_of_view inp : event_of (host_view inp) = event_of inp.
Proof. unfold event_of. apply py_get_view. exact is_top_event. Qed.

Lemma post_event_view inp : post_event (host_view inp) <-> post_event inp.
Proof. unfold post_event. rewrite event_of_view. tauto. Qed.

Lemma bypass_of_view inp : bypass_of (host_view inp) = bypass_of inp.
Proof. unfold bypass_of. rewrite (py_get_view inp _ _ is_top_perm). reflexivity. Qed.

(* ------------------------------------------------------------------ main() over arbitrary oracles *)
Section Oracles.
  Variables S G : Type.
  Notation config := (config S G).
  Variable o_resolve : str -> res str.
  Variable o_getcwd : res str.
  Variable o_load_config : str -> res config.
  Variable o_configure_logging : G -> res unit.
  Variable o_log_decision : str -> str -> res unit.
  Variable o_analyze : str -> S -> str -> res (str * str).
  Variable o_gmatch : str -> str -> bool.
  Variable o_words : str -> list str.
  Variable o_after_prep : S -> str -> list str -> res unit.
  Variable o_after_rule : S -> str -> list str -> rule -> res bool.
  Variable o_print : str -> res unit.

  Notation main_try := (@main_try S G o_resolve o_getcwd o_load_config o_configure_logging o_log_decision
                                 o_analyze o_gmatch o_words o_after_prep o_after_rule o_print).
  Notation main := (@main S G o_resolve o_getcwd o_load_config o_configure_logging o_log_decision
                         o_analyze o_gmatch o_words o_after_prep o_after_rule o_print).
  Notation after_config := (@after_config S G o_log_decision o_analyze o_gmatch o_words o_after_prep o_after_rule o_print).
  Notation shell_tail := (@shell_tail S G o_log_decision o_analyze o_words o_after_prep o_after_rule o_print).
  Notation mcp_part := (@mcp_part S G o_log_decision o_gmatch o_print).
  Notation find_cwd := (find_cwd o_resolve o_getcwd).
  Notation load_stage := (@load_stage S G o_load_config o_configure_logging).

  Lemma find_cwd_view inp : find_cwd (host_view inp) = find_cwd inp.
  Proof.
    unfold Hook.find_cwd.
    rewrite (py_get_view inp _ _ is_top_cwd), (py_get_view_ti inp top_tool_input).
    destruct (py_get inp $"cwd" JNull) as [c|e]; cbn [bind]; [|reflexivity].
    destruct (truthy c); cbn [negb]; [reflexivity|].
    destruct (py_get inp $"tool_input" (JObj [])) as [ti|e]; cbn [bind]; [|reflexivity].
    rewrite (py_get_ti_view ti _ _ ti_cwd_key). reflexivity.
  Qed.

  Lemma shell_tail_view m inp he c cfg cwd : shell_tail m (host_view inp) he c cfg cwd = shell_tail m inp he c cfg cwd.
  Proof. unfold Hook.shell_tail. rewrite (py_get_view inp _ _ is_top_perm). reflexivity. Qed.

  Lemma mcp_part_view m inp he tn cfg : mcp_part m (host_view inp) he tn cfg = mcp_part m inp he tn cfg.
  Proof. unfold Hook.mcp_part. rewrite (py_get_view inp _ _ is_top_perm). reflexivity. Qed.

  Lemma after_config_view m inp cfg cwd : after_config m (host_view inp) cfg cwd = after_config m inp cfg cwd.
  Proof.
    unfold Hook.after_config.
    rewrite (py_get_view inp _ _ is_top_event), cursor_way_view, (py_get_view inp _ _ is_top_command),
      (py_get_view inp _ _ is_top_tool_name), (py_get_view_ti inp top_tool_input).
    destruct (py_get inp $"hook_event_name" (JStr $"PreToolUse")) as [he|e]; cbn [bind]; [|reflexivity].
    destruct (cursor_way (is_cursor m) inp) as [[|]|e]; cbn [bind]; [| |reflexivity].
    - destruct (py_get inp $"command" (JStr [])) as [c|e]; cbn [bind]; [|reflexivity].
      apply shell_tail_view.
    - destruct (py_get inp $"tool_name" (JStr [])) as [tn|e]; cbn [bind]; [|reflexivity].
      destruct (py_get inp $"tool_input" (JObj [])) as [ti|e]; cbn [bind]; [|reflexivity].
      destruct (py_startswith tn $"mcp__") as [[|]|e]; cbn [bind]; [| |reflexivity].
      + apply mcp_part_view.
      + destruct (py_in_frozenset tn SHELL_TOOL_NAMES) as [[|]|e]; cbn [bind negb]; [| reflexivity | reflexivity].
        rewrite (py_get_ti_view ti _ _ ti_command).
        destruct (py_get ti $"command" (JStr [])) as [c|e]; cbn [bind]; [|reflexivity].
        apply shell_tail_view.
  Qed.

  Lemma main_try_view explicit inp : main_try explicit (host_view inp) = main_try explicit inp.
  Proof.
    unfold Hook.main_try. rewrite detect_view, find_cwd_view.
    destruct (match explicit with Some m => Ok m | None => detect_mode_from_input inp end) as [m|e]; cbn [bind]; [|reflexivity].
    destruct (find_cwd inp) as [cwd|e]; cbn [bind]; [|reflexivity].
    destruct (load_stage cwd) as [cfg|e].
    - apply after_config_view.
    - destruct e; try reflexivity. rewrite (py_get_view inp _ _ is_top_event). reflexivity.
  Qed.

  (* the whole process: main() on a payload == main() on its host view *)
  Lemma main_view setup e inp : main setup e (Ok (host_view inp)) = main setup e (Ok inp).
  Proof. unfold Hook.main. cbn [bind]. rewrite main_try_view. reflexivity. Qed.

  (* two payloads with the same host view get the same answer: stdout, exit status, everything *)
  Lemma main_host_level_only setup e a b : host_view a = host_view b -> main setup e (Ok a) = main setup e (Ok b).
  Proof. intro H. rewrite <- (main_view setup e a), <- (main_view setup e b), H. reflexivity. Qed.
End Oracles.

(* ------------------------------------------------------------------ decoys leave the view alone *)
Lemma assoc_app_cons k k' (v : json) l1 l2 : str_eqb k' k = false -> assoc k (l1 ++ (k', v) :: l2) = assoc k (l1 ++ l2).
Proof.
  intro N. induction l1 as [|[a x] r IH]; cbn [app assoc]; [rewrite N; reflexivity|].
  destruct (str_eqb a k); [reflexivity | exact IH].
Qed.

Lemma assoc_insert k n k' v kv : str_eqb k' k = false -> assoc k (insert_at n (k', v) kv) = assoc k kv.
Proof. intro N. unfold insert_at. rewrite (assoc_app_cons _ _ _ _ _ N), firstn_skipn. reflexivity. Qed.

Lemma mem_neq k k' keys : mem_str k keys = true -> mem_str k' keys = false -> str_eqb k' k = false.
Proof. intros A B. destruct (str_eqb_spec k' k) as [->|]; [congruence | reflexivity]. Qed.

(* (1) a member under any name the hook does not look up, at any position of the payload, holding anything -
   tool_response, session objects, look-alike spellings (permissionMode, Permission_Mode, ...), copies of the
   whole payload *)
Lemma decoy_top_inert n k v kv :
  mem_str k HOOK_TOP_KEYS = false -> host_view (JObj (insert_at n (k, v) kv)) = host_view (JObj kv).
Proof.
  intro M. cbn [host_view]. f_equal. apply pick_ext. intros k' K. unfold pick_val.
  rewrite (assoc_insert _ _ _ _ _ (mem_neq _ _ _ K M)). reflexivity.
Qed.

Lemma assoc_update_same k f kv : assoc k (update k f kv) = option_map f (assoc k kv).
Proof.
  induction kv as [|[k' v] r IH]; [reflexivity|]. cbn [update].
  destruct (str_eqb k' k) eqn:E; cbn [assoc]; rewrite E; [reflexivity | exact IH].
Qed.
Lemma assoc_update_other k k' f kv : str_eqb k' k = false -> assoc k (update k' f kv) = assoc k kv.
Proof.
  intro N. induction kv as [|[a v] r IH]; [reflexivity|]. cbn [update].
  destruct (str_eqb_spec a k') as [->|N']; cbn [assoc].
  - rewrite N. reflexivity.
  - destruct (str_eqb a k); [reflexivity | exact IH].
Qed.

(* (2) a member inside tool_input under any name but the two the hook reads there (command, cwd): in particular
   permission_mode, hook_event_name, tool_name, tool_input - the fields only the HOST may declare *)
Lemma decoy_tool_input_inert n k v kv :
  mem_str k HOOK_TOOL_INPUT_KEYS = false -> host_view (JObj (decoy_in_tool_input n k v kv)) = host_view (JObj kv).
Proof.
  intro M. cbn [host_view]. f_equal. apply pick_ext. intros k' K. unfold pick_val, decoy_in_tool_input.
  destruct (str_eqb_spec $"tool_input" k') as [<-|N].
  - rewrite assoc_update_same. destruct (assoc $"tool_input" kv) as [ti|]; [|reflexivity].
    cbn [option_map]. unfold top_norm. rewrite str_eqb_refl.
    assert (E : ti_view match ti with JObj tkv => JObj (insert_at n (k, v) tkv) | _ => ti end = ti_view ti).
    { destruct ti as [| | | |l|tkv]; try reflexivity. cbn [ti_view]. f_equal. apply pick_ext. intros k2 K2.
      unfold pick_val. rewrite (assoc_insert _ _ _ _ _ (mem_neq _ _ _ K2 M)). reflexivity. }
    rewrite E. reflexivity.
  - rewrite assoc_update_other; [reflexivity|]. destruct (str_eqb_spec $"tool_input" k'); [contradiction | reflexivity].
Qed.

(* (2b) the order of the members, and an empty tool_input, do not matter either: the view is a normal form *)
Lemma view_empty_tool_input n kv :
  assoc $"tool_input" kv = None -> host_view (JObj (insert_at n ($"tool_input", JObj []) kv)) = host_view (JObj kv).
Proof.
  intro A. cbn [host_view]. f_equal. apply pick_ext. intros k' K. unfold pick_val, insert_at.
  destruct (str_eqb_spec $"tool_input" k') as [<-|N].
  - rewrite A. clear K. assert (E : assoc $"tool_input" (firstn n kv ++ ($"tool_input", JObj []) :: skipn n kv) = Some (JObj [])).
    { rewrite <- (firstn_skipn n kv) in A. revert A. generalize (firstn n kv) (skipn n kv). intros l1 l2.
      induction l1 as [|[a x] r IH]; cbn [app assoc]; [reflexivity|].
      destruct (str_eqb a $"tool_input"); [discriminate | exact IH]. }
    rewrite E. reflexivity.
  - rewrite assoc_app_cons, firstn_skipn; [reflexivity|].
    destruct (str_eqb_spec $"tool_input" k'); [contradiction | reflexivity].
Qed.

(* (3) anything whatsoever below a member that survives the view is already gone: the view of tool_input keeps
   only command and cwd, so a nested object under another key (tool_input.env.permission_mode, ...) is covered by
   (2), and a nested object under a dropped top-level key by (1). *)

(* the read set inside the model-written argument object, stated outright (a closed fact about the generated table) *)
Lemma tool_input_read_set :
  mem_str $"permission_mode" HOOK_TOOL_INPUT_KEYS = false /\ mem_str $"hook_event_name" HOOK_TOOL_INPUT_KEYS = false /\
  mem_str $"tool_name" HOOK_TOOL_INPUT_KEYS = false /\ mem_str $"tool_input" HOOK_TOOL_INPUT_KEYS = false.
Proof. repeat split; vm_compute; reflexivity. Qed.
