(* Walker completeness: which children every node consumes, in which role, and the proof that an
   approved node has every consumed child approved in its role - for every tree.  (C01, C08) *)
From DippyV Require Import Base.Str Base.Verdict Base.Sx Base.Tree Gen.Tables Model.RawScan Model.Walker Model.Cover
  Proofs.VerdictP Proofs.WalkerP.


Section Cover.
  Variable simple : ctx -> list str -> verdict.
  Variable astr : ctx -> str -> verdict.
  Variable mredir : str -> str -> option verdict.
  Variable cdres : str -> str -> str.
  Variable injrisk : ctx -> list str -> bool.
  Variable rulematch : ctx -> list str -> bool.
  Notation ev := (ev simple astr mredir cdres injrisk rulematch).
  Notation walk := (walk simple astr mredir cdres injrisk rulematch).
  Notation build := (build simple astr mredir cdres injrisk rulematch).

  Definition field (r : role) (x : res) (c : ctx) : list verdict :=
    match r with
    | RNode => [r_node x c]
    | RExp => r_exp x c
    | RWord b => r_wp x b c
    | RCond => r_cond x c
    | RRedir => r_redir x c
    | RPat => r_pat x c
    end.

  Definition ok (l : list verdict) : Prop := Forall (fun v => v = Allow) l.

  Lemma ok_app l m : ok (l ++ m) <-> ok l /\ ok m.
  Proof. apply Forall_app. Qed.
  Lemma ok_cons v l : ok (v :: l) <-> v = Allow /\ ok l.
  Proof. split; [intro H; inversion H; auto|intros [? ?]; constructor; auto]. Qed.
  Lemma ok_flat_map {A} (f : A -> list verdict) l : ok (flat_map f l) <-> forall x, In x l -> ok (f x).
  Proof.
    induction l as [|a l IH]; cbn [flat_map].
    - split; [intros _ x []|intros _; constructor].
    - rewrite ok_app, IH. split.
      + intros [Ha Hl] x [<-|Hx]; auto.
      + intro H. split; [apply H; left; reflexivity|intros x Hx; apply H; right; exact Hx].
  Qed.
  Lemma ok_combine l : combine l = Allow <-> ok l.
  Proof. apply combine_allow. Qed.

  Lemma need_ok c o : need simple astr mredir cdres injrisk rulematch c o = Allow -> forall x, o = Some x -> walk c x = Allow.
  Proof. intros H x ->. exact H. Qed.

  Lemma firstc_child (l : string) t x : In x (firstc l t) -> child l t = Some x.
  Proof. unfold firstc, child. destruct (children l t); [intros []|intros [<-|[]]; reflexivity]. Qed.

  Lemma in_tag r l r' d : In (r', d) (tag r l) -> r' = r /\ In d l.
  Proof. unfold tag. rewrite in_map_iff. intros [x [E Hx]]. injection E as <- <-. auto. Qed.

  Definition same_mode (c c' : ctx) : Prop := snd c' = snd c.

  Lemma next_state_mode st t op : snd (fst (next_state cdres st t op)) = snd (fst st).
  Proof.
    unfold next_state. destruct (snd (fst st)) eqn:E; [exact E|].
    match goal with |- context [if snd ?m && _ then _ else _] => set (moved := m) end.
    assert (Hm : snd (fst moved) = false).
    { subst moved. destruct (str_eqb op op_bg); [exact E|].
      destruct (extract_cd_target t) as [tgt|].
      - destruct (nonempty tgt && str_eqb op op_and && negb (str_eqb (st_prev st) op_or)); [cbn [fst snd]; first [exact E|reflexivity]|].
        destruct (nonempty tgt || changes_directory t); cbn [fst snd unknown_ctx]; exact E.
      - destruct (changes_directory t); cbn [fst snd unknown_ctx]; exact E. }
    destruct (snd moved && negb (str_eqb op op_and)); cbn [fst snd unknown_ctx]; exact Hm.
  Qed.

  Lemma next_ctx_mode c t : snd (next_ctx cdres c t) = snd c.
  Proof. unfold next_ctx. apply (next_state_mode (init_state c)). Qed.

  (* the elements of a sequence are each analysed, in a context with the same remote flag *)
  Lemma seq_ctxs_mode st l : forall p, In p (seq_ctxs cdres st l) -> same_mode (fst st) (fst p).
  Proof.
    revert st; induction l as [|[t op] l IH]; intros st p; [intros []|].
    cbn [seq_ctxs]. intros [<-|H]; [reflexivity|].
    apply IH in H. unfold same_mode in *. rewrite H. apply next_state_mode.
  Qed.
  Lemma item_ctx_mode c t : snd (item_ctx c t) = snd c.
  Proof. unfold item_ctx. destruct (negb (snd c) && item_moves t); reflexivity. Qed.

  (* every item of an approved case is approved, in a context with the same remote flag *)
  Lemma pats_all c l : ok (pats simple astr mredir cdres injrisk rulematch c l) -> forall d, In d l -> exists c', same_mode c c' /\ ok (r_pat (ev d) c').
  Proof.
    revert c; induction l as [|p l IH]; intros c H d; [intros []|].
    cbn [pats] in H. apply ok_app in H as [Hp Hr]. intros [<-|Hd].
    - exists c. split; [reflexivity|exact Hp].
    - destruct (IH _ Hr d Hd) as [c' [Hm Hc']]. exists c'. split; [|exact Hc'].
      unfold same_mode in *. rewrite Hm. apply item_ctx_mode.
  Qed.

  Lemma body_ctx_mode c b : snd (body_ctx c b) = snd c.
  Proof. unfold body_ctx. destruct (negb (snd c) && b); reflexivity. Qed.

  Lemma seq_ctxs_all st l : forall t, In t (map fst l) -> exists c', In (c', t) (seq_ctxs cdres st l).
  Proof.
    revert st; induction l as [|[x op] l IH]; intros st t; [intros []|].
    cbn [seq_ctxs map fst]. intros [<-|H].
    - exists (fst st). left; reflexivity.
    - destruct (IH (next_state cdres st x op) t H) as [c' Hc]. exists c'. right; exact Hc.
  Qed.

  Ltac kinds :=
    repeat match goal with
           | |- context [str_eqb (s2l ?a) (s2l ?b)] =>
               let v := eval vm_compute in (str_eqb (s2l a) (s2l b)) in
               change (str_eqb (s2l a) (s2l b)) with v
           | H : context [str_eqb (s2l ?a) (s2l ?b)] |- _ =>
               let v := eval vm_compute in (str_eqb (s2l a) (s2l b)) in
               change (str_eqb (s2l a) (s2l b)) with v in H
           end; cbn [orb andb negb] in *.

  (* one step: an approved node has every consumed child approved in its role *)
  Lemma step_node t c : walk c t = Allow ->
    forall r' d, In (r', d) (sub RNode t) -> exists c', same_mode c c' /\ ok (field r' (ev d) c').
  Proof.
    destruct t as [k ss fs ks]. intros H r' d Hin. unfold sub, is_kind in Hin. cbn [kind_of] in Hin.
    assert (Hred : forall (x : unit), ok (redirs_of simple astr mredir cdres injrisk rulematch c (T k ss fs ks)) ->
                             In (r', d) (tag RRedir (children "redirects" (T k ss fs ks))) ->
                             exists c', same_mode c c' /\ ok (field r' (ev d) c')).
    { intros _ Hr Hi. apply in_tag in Hi as [-> Hd]. exists c. split; [reflexivity|].
      unfold redirs_of in Hr. rewrite ok_flat_map in Hr. exact (Hr d Hd). }
    destruct (str_eqb k $"command") eqn:E; [apply str_eqb_eq in E; subst k|].
    { rewrite walk_command in H. apply ok_combine in H. rewrite !ok_app in H. destruct H as [Hw [_ [_ [_ [Hr _]]]]].
      apply in_app_or in Hin as [Hi|Hi]; [|exact (Hred tt Hr Hi)].
      apply in_tag in Hi as [-> Hd]. exists c. split; [reflexivity|].
      unfold wparts, wpartsb in Hw. rewrite ok_flat_map in Hw. exact (Hw d Hd). }
    destruct (str_eqb k $"pipeline") eqn:E1; [apply str_eqb_eq in E1; subst k|].
    { rewrite walk_pipeline in H. apply ok_combine in H. apply in_tag in Hin as [-> Hd].
      exists c. split; [reflexivity|]. cbn [field]. constructor; [|constructor].
      unfold ok in H. rewrite Forall_map, Forall_forall in H. exact (H d Hd). }
    destruct (str_eqb k $"list") eqn:E2; [apply str_eqb_eq in E2; subst k|].
    { rewrite walk_list, sequence_ctxs in H. apply ok_combine in H. apply in_tag in Hin as [-> Hd].
      rewrite <- list_items_parts in Hd.
      destruct (seq_ctxs_all (init_state c) _ d Hd) as [c' Hc']. exists c'. split; [exact (seq_ctxs_mode (init_state c) _ _ Hc')|].
      cbn [field]. constructor; [|constructor]. unfold ok in H. rewrite Forall_map, Forall_forall in H.
      exact (H (c', d) Hc'). }
    destruct (str_eqb k $"if") eqn:E3; [apply str_eqb_eq in E3; subst k|].
    { rewrite walk_if in H. cbv zeta in H. apply ok_combine in H. rewrite !ok_cons, ok_app in H. destruct H as [Hc [Ht [He Hr]]].
      apply in_app_or in Hin as [Hi|Hi]; [|exact (Hred tt Hr Hi)].
      apply in_tag in Hi as [-> Hd].
      apply in_app_or in Hd as [Hd|Hd].
      { exists c. split; [reflexivity|]. cbn [field]. constructor; [|constructor].
        apply firstc_child in Hd. rewrite Hd in Hc. exact Hc. }
      eexists. split; [apply body_ctx_mode|]. cbn [field]. constructor; [|constructor].
      apply in_app_or in Hd as [Hd|Hd]; [apply firstc_child in Hd; rewrite Hd in Ht; exact Ht|].
      apply firstc_child in Hd. rewrite Hd in He. cbn [optional] in He. apply ok_cons in He. apply He. }
    destruct (str_eqb k $"while") eqn:E4; [apply str_eqb_eq in E4; subst k|].
    { kinds. rewrite walk_while in H. cbv zeta in H. apply ok_combine in H. rewrite !ok_cons in H. destruct H as [Hc [Hb Hr]].
      apply in_app_or in Hin as [Hi|Hi]; [|exact (Hred tt Hr Hi)].
      apply in_tag in Hi as [-> Hd]. eexists. split; [apply body_ctx_mode|]. cbn [field]. constructor; [|constructor].
      apply in_app_or in Hd as [Hd|Hd]; apply firstc_child in Hd; [rewrite Hd in Hc; exact Hc|rewrite Hd in Hb; exact Hb]. }
    destruct (str_eqb k $"until") eqn:E5; [apply str_eqb_eq in E5; subst k|].
    { kinds. rewrite walk_until in H. cbv zeta in H. apply ok_combine in H. rewrite !ok_cons in H. destruct H as [Hc [Hb Hr]].
      apply in_app_or in Hin as [Hi|Hi]; [|exact (Hred tt Hr Hi)].
      apply in_tag in Hi as [-> Hd]. eexists. split; [apply body_ctx_mode|]. cbn [field]. constructor; [|constructor].
      apply in_app_or in Hd as [Hd|Hd]; apply firstc_child in Hd; [rewrite Hd in Hc; exact Hc|rewrite Hd in Hb; exact Hb]. }
    cbn [orb] in Hin.
    destruct (str_eqb k $"for") eqn:E6; [apply str_eqb_eq in E6; subst k|].
    { kinds. rewrite walk_for in H. cbv zeta in H. apply ok_combine in H. rewrite ok_cons, ok_app in H. destruct H as [Hb [Hw Hr]].
      apply in_app_or in Hin as [Hi|Hi].
      - apply in_tag in Hi as [-> Hd]. eexists. split; [apply body_ctx_mode|]. cbn [field]. constructor; [|constructor].
        apply firstc_child in Hd. rewrite Hd in Hb. exact Hb.
      - apply in_app_or in Hi as [Hi|Hi]; [|exact (Hred tt Hr Hi)].
        apply in_tag in Hi as [-> Hd]. exists c. split; [reflexivity|].
        unfold wparts, wpartsb in Hw. rewrite ok_flat_map in Hw. exact (Hw d Hd). }
    destruct (str_eqb k $"select") eqn:E7; [apply str_eqb_eq in E7; subst k|].
    { kinds. rewrite walk_select in H. cbv zeta in H. apply ok_combine in H. rewrite ok_cons, ok_app in H. destruct H as [Hb [Hw Hr]].
      apply in_app_or in Hin as [Hi|Hi].
      - apply in_tag in Hi as [-> Hd]. eexists. split; [apply body_ctx_mode|]. cbn [field]. constructor; [|constructor].
        apply firstc_child in Hd. rewrite Hd in Hb. exact Hb.
      - apply in_app_or in Hi as [Hi|Hi]; [|exact (Hred tt Hr Hi)].
        apply in_tag in Hi as [-> Hd]. exists c. split; [reflexivity|].
        unfold wparts, wpartsb in Hw. rewrite ok_flat_map in Hw. exact (Hw d Hd). }
    cbn [orb] in Hin.
    destruct (str_eqb k $"for-arith") eqn:E8; [apply str_eqb_eq in E8; subst k|].
    { rewrite walk_forarith in H. cbv zeta in H. apply ok_combine in H. rewrite ok_cons, !ok_app in H. destruct H as [Hb [_ [_ [_ Hr]]]].
      apply in_app_or in Hin as [Hi|Hi]; [|exact (Hred tt Hr Hi)].
      apply in_tag in Hi as [-> Hd]. eexists. split; [apply body_ctx_mode|]. cbn [field]. constructor; [|constructor].
      apply firstc_child in Hd. rewrite Hd in Hb. exact Hb. }
    destruct (str_eqb k $"case") eqn:E9; [apply str_eqb_eq in E9; subst k|].
    { rewrite walk_case in H. apply ok_combine in H. rewrite !ok_app in H. destruct H as [Hw [Hp Hr]].
      apply in_app_or in Hin as [Hi|Hi].
      - apply in_tag in Hi as [-> Hd]. exists c. split; [reflexivity|].
        unfold wparts, wpartsb in Hw. rewrite ok_flat_map in Hw. exact (Hw d Hd).
      - apply in_app_or in Hi as [Hi|Hi]; [|exact (Hred tt Hr Hi)].
        apply in_tag in Hi as [-> Hd]. destruct (pats_all c _ Hp d Hd) as [c' [Hm Hc']]. exists c'. split; [exact Hm|exact Hc']. }
    destruct (str_eqb k $"function") eqn:E10; [apply str_eqb_eq in E10; subst k|].
    { rewrite walk_function in H. apply in_tag in Hin as [-> Hd]. exists c. split; [reflexivity|].
      cbn [field]. constructor; [|constructor]. apply firstc_child in Hd. rewrite Hd in H. exact H. }
    destruct (str_eqb k $"subshell") eqn:E11; [apply str_eqb_eq in E11; subst k|].
    { kinds. rewrite walk_subshell in H. apply ok_combine in H. rewrite ok_cons in H. destruct H as [Hb Hr].
      apply in_app_or in Hin as [Hi|Hi]; [|exact (Hred tt Hr Hi)].
      apply in_tag in Hi as [-> Hd]. exists c. split; [reflexivity|]. cbn [field]. constructor; [|constructor].
      apply firstc_child in Hd. rewrite Hd in Hb. exact Hb. }
    destruct (str_eqb k $"brace-group") eqn:E12; [apply str_eqb_eq in E12; subst k|].
    { kinds. rewrite walk_brace in H. apply ok_combine in H. rewrite ok_cons in H. destruct H as [Hb Hr].
      apply in_app_or in Hin as [Hi|Hi]; [|exact (Hred tt Hr Hi)].
      apply in_tag in Hi as [-> Hd]. exists c. split; [reflexivity|]. cbn [field]. constructor; [|constructor].
      apply firstc_child in Hd. rewrite Hd in Hb. exact Hb. }
    cbn [orb] in Hin.
    destruct (str_eqb k $"time") eqn:E13; [apply str_eqb_eq in E13; subst k|].
    { kinds. rewrite walk_time in H. apply in_tag in Hin as [-> Hd]. exists c. split; [reflexivity|].
      cbn [field]. constructor; [|constructor]. apply firstc_child in Hd. rewrite Hd in H. exact H. }
    destruct (str_eqb k $"negation") eqn:E14; [apply str_eqb_eq in E14; subst k|].
    { kinds. rewrite walk_negation in H. apply in_tag in Hin as [-> Hd]. exists c. split; [reflexivity|].
      cbn [field]. constructor; [|constructor]. apply firstc_child in Hd. rewrite Hd in H. exact H. }
    cbn [orb] in Hin.
    destruct (str_eqb k $"coproc") eqn:E15; [apply str_eqb_eq in E15; subst k|].
    { rewrite walk_coproc in H. apply in_tag in Hin as [-> Hd]. exists c. split; [reflexivity|].
      cbn [field]. constructor; [|constructor]. apply firstc_child in Hd. rewrite Hd in H. exact H. }
    destruct (str_eqb k $"cond-expr") eqn:E16; [apply str_eqb_eq in E16; subst k|].
    { rewrite walk_condexpr in H. apply ok_combine in H. rewrite ok_app in H. destruct H as [Hb Hr].
      apply in_app_or in Hin as [Hi|Hi]; [|exact (Hred tt Hr Hi)].
      apply in_tag in Hi as [-> Hd]. exists c. split; [reflexivity|]. rewrite ok_flat_map in Hb. exact (Hb d Hd). }
    destruct (str_eqb k $"arith-cmd") eqn:E17; [apply str_eqb_eq in E17; subst k|].
    { rewrite walk_arithcmd in H. apply ok_combine in H. rewrite !ok_app in H. destruct H as [Hb [_ Hr]].
      apply in_app_or in Hin as [Hi|Hi]; [|exact (Hred tt Hr Hi)].
      apply in_tag in Hi as [-> Hd]. exists c. split; [reflexivity|]. rewrite ok_flat_map in Hb. exact (Hb d Hd). }
    destruct Hin.
  Qed.

  Lemma step_word t b c : ok (r_wp (ev t) b c) ->
    forall r' d, In (r', d) (sub (RWord b) t) -> exists c', same_mode c c' /\ ok (field r' (ev d) c').
  Proof.
    destruct t as [k ss fs ks]. intros H r' d Hin. cbn [sub] in Hin. apply in_tag in Hin as [-> Hd].
    rewrite wp_unfold in H. rewrite !ok_app in H. destruct H as [_ [H _]]. rewrite ok_flat_map in H.
    exists c. split; [reflexivity|exact (H d Hd)].
  Qed.

  Lemma step_exp t c : ok (r_exp (ev t) c) ->
    forall r' d, In (r', d) (sub RExp t) -> exists c', same_mode c c' /\ ok (field r' (ev d) c').
  Proof.
    destruct t as [k ss fs ks]. intros H r' d Hin. unfold sub, is_kind in Hin. cbn [kind_of] in Hin.
    rewrite exp_unfold in H. destruct (mem_str k SUBST_KINDS).
    - apply in_tag in Hin as [-> Hd]. apply firstc_child in Hd. rewrite Hd in H. apply ok_cons in H as [H _].
      exists c. split; [reflexivity|]. cbn [field]. constructor; [exact H|constructor].
    - destruct (str_eqb k $"word").
      + apply in_tag in Hin as [-> Hd]. rewrite wp_unfold in H. rewrite !ok_app in H. destruct H as [_ [H _]]. rewrite ok_flat_map in H.
        exists c. split; [reflexivity|exact (H d Hd)].
      + apply in_tag in Hin as [-> Hd]. apply ok_app in H as [_ H]. rewrite ok_flat_map in H.
        cbn [kids_of] in Hd. apply in_map_iff in Hd as [[l x] [<- Hx]].
        exists c. split; [reflexivity|exact (H (l, x) Hx)].
  Qed.

  Lemma step_cond t c : ok (r_cond (ev t) c) ->
    forall r' d, In (r', d) (sub RCond t) -> exists c', same_mode c c' /\ ok (field r' (ev d) c').
  Proof.
    destruct t as [k ss fs ks]. intros H r' d Hin. unfold sub, is_kind in Hin. cbn [kind_of] in Hin.
    rewrite cond_unfold in H.
    destruct (str_eqb k $"unary-test").
    { apply in_tag in Hin as [-> Hd]. rewrite ok_flat_map in H. exists c. split; [reflexivity|exact (H d Hd)]. }
    destruct (str_eqb k $"binary-test").
    { apply in_tag in Hin as [-> Hd]. apply ok_app in H as [H1 H2]. rewrite ok_flat_map in H1, H2.
      exists c. split; [reflexivity|]. apply in_app_or in Hd as [Hd|Hd]; [exact (H1 d Hd)|exact (H2 d Hd)]. }
    destruct (str_eqb k $"cond-and" || str_eqb k $"cond-or").
    { apply in_tag in Hin as [-> Hd]. apply ok_app in H as [H1 H2]. rewrite ok_flat_map in H1, H2.
      exists c. split; [reflexivity|]. apply in_app_or in Hd as [Hd|Hd]; [exact (H1 d Hd)|exact (H2 d Hd)]. }
    destruct (str_eqb k $"cond-not").
    { apply in_tag in Hin as [-> Hd]. rewrite ok_flat_map in H. exists c. split; [reflexivity|exact (H d Hd)]. }
    destruct (str_eqb k $"cond-paren").
    { apply in_tag in Hin as [-> Hd]. rewrite ok_flat_map in H. exists c. split; [reflexivity|exact (H d Hd)]. }
    destruct Hin.
  Qed.

  Lemma step_redir t c : ok (r_redir (ev t) c) ->
    forall r' d, In (r', d) (sub RRedir t) -> exists c', same_mode c c' /\ ok (field r' (ev d) c').
  Proof.
    destruct t as [k ss fs ks]. intros H r' d Hin. unfold sub, is_kind in Hin. cbn [kind_of] in Hin.
    rewrite redir_unfold in H. destruct (str_eqb k $"heredoc"); [destruct Hin|].
    apply in_tag in Hin as [-> Hd]. apply firstc_child in Hd. rewrite Hd in H. apply ok_app in H as [H _].
    exists c. split; [reflexivity|exact H].
  Qed.

  Lemma step_pat t c : ok (r_pat (ev t) c) ->
    forall r' d, In (r', d) (sub RPat t) -> exists c', same_mode c c' /\ ok (field r' (ev d) c').
  Proof.
    destruct t as [k ss fs ks]. intros H r' d Hin. cbn [sub] in Hin. apply in_tag in Hin as [-> Hd].
    apply firstc_child in Hd. rewrite pat_unfold, Hd in H. apply ok_app in H as [_ H]. cbn [optional] in H.
    exists c. split; [reflexivity|exact H].
  Qed.

  Lemma step_any r t c : ok (field r (ev t) c) ->
    forall r' d, In (r', d) (sub r t) -> exists c', same_mode c c' /\ ok (field r' (ev d) c').
  Proof.
    destruct r; cbn [field]; intro H.
    - apply step_node. apply ok_cons in H. apply H.
    - apply step_exp, H.
    - apply step_word, H.
    - apply step_cond, H.
    - apply step_redir, H.
    - apply step_pat, H.
  Qed.

  (* every node reached by the role-directed descent, to any depth, is approved in its role *)
  Theorem cover n : forall r t c, ok (field r (ev t) c) ->
    forall r' d, In (r', d) (reach_fuel n r t) -> exists c', same_mode c c' /\ ok (field r' (ev d) c').
  Proof.
    induction n as [|n IH]; intros r t c H r' d Hin; cbn [reach_fuel] in Hin.
    - destruct Hin as [E|[]]. injection E as <- <-. exists c. split; [reflexivity|exact H].
    - destruct Hin as [E|Hin]; [injection E as <- <-; exists c; split; [reflexivity|exact H]|].
      apply in_flat_map in Hin as [[r1 d1] [H1 H2]]. cbn [fst snd] in H2.
      destruct (step_any r t c H r1 d1 H1) as [c1 [Hm1 Hok1]].
      destruct (IH r1 d1 c1 Hok1 r' d H2) as [c2 [Hm2 Hok2]].
      exists c2. split; [unfold same_mode in *; congruence|exact Hok2].
  Qed.

  (* C01: an approved program has every reached node approved when analysed as a node *)
  Corollary approved_all_nodes c t : walk c t = Allow ->
    forall n d, In (RNode, d) (reach_fuel n RNode t) -> exists c', snd c' = snd c /\ walk c' d = Allow.
  Proof.
    intros H n d Hin.
    assert (Hok : ok (field RNode (ev t) c)) by (cbn [field]; constructor; [exact H|constructor]).
    destruct (cover n RNode t c Hok RNode d Hin) as [c' [Hm Hd]].
    exists c'. split; [exact Hm|]. cbn [field] in Hd. apply ok_cons in Hd. apply Hd.
  Qed.

  (* the raw strings at the positions the walker scans *)
  Definition raw_ok (c : ctx) (s : str) : Prop := ok (rawscan astr c s).

  Lemma raw_ok_spec c s : raw_ok c s ->
    scan_raw s <> RComplex /\ forall l, scan_raw s = RSubs l -> forall u, In u l -> astr c u = Allow.
  Proof.
    unfold raw_ok, rawscan. destruct (scan_raw s) as [| |l]; intro H.
    - split; [discriminate|discriminate].
    - apply ok_cons in H as [H _]. discriminate.
    - split; [discriminate|]. intros l' E u Hu. injection E as <-.
      unfold ok in H. rewrite Forall_map, Forall_forall in H. exact (H u Hu).
  Qed.

  Lemma name_scans_ok c base words nassign l : forall pos,
    ok (name_scans astr c base words nassign pos l) -> forall s, In s (name_raws base words nassign pos l) -> raw_ok c s.
  Proof.
    induction l as [|t l IH]; intros pos H s Hs; [destruct Hs|].
    cbn [name_scans name_raws] in *. apply ok_app in H as [H1 H2]. apply in_app_or in Hs as [Hs|Hs]; [|exact (IH _ H2 s Hs)].
    destruct (Nat.ltb pos nassign || names_variable base words pos nassign); [|cbn [andb] in Hs; rewrite andb_false_r in Hs; destruct Hs].
    destruct (negb (nonempty (children "parts" t))); [|destruct Hs]. cbn [andb] in Hs.
    destruct Hs as [<-|[]]. exact H1.
  Qed.

  Lemma raw_step r t c : ok (field r (ev t) c) -> forall s, In s (raw_positions r t) -> raw_ok c s.
  Proof.
    destruct t as [k ss fs ks]. destruct r as [| |b| | |]; cbn [field raw_positions]; unfold is_kind; cbn [kind_of strs_of]; intros H s Hs.
    - destruct (str_eqb k $"for-arith") eqn:E.
      + apply str_eqb_eq in E. subst k.
        apply ok_cons in H as [H _]. change (walk c (T $"for-arith" ss fs ks) = Allow) in H.
        rewrite walk_forarith in H. cbv zeta in H. apply ok_combine in H.
        rewrite ok_cons, !ok_app in H. destruct H as [_ [H1 [H2 [H3 _]]]].
        destruct Hs as [<-|[<-|[<-|[]]]]; assumption.
      + destruct (str_eqb k $"command") eqn:Ec; [|destruct Hs]. apply str_eqb_eq in Ec. subst k.
        apply ok_cons in H as [H _]. change (walk c (T $"command" ss fs ks) = Allow) in H.
        rewrite walk_command in H. apply ok_combine in H. rewrite !ok_app in H. destruct H as [_ [_ [Hn _]]].
        unfold cmd_names, cmd_words in Hn. unfold command_raws in Hs.
        exact (name_scans_ok _ _ _ _ _ _ Hn s Hs).
    - rewrite exp_unfold in H. destruct (mem_str k SUBST_KINDS); [destruct Hs|].
      destruct (str_eqb k $"word"); [destruct Hs|].
      apply ok_app in H as [H _]. rewrite ok_flat_map in H. apply in_map_iff in Hs as [[l x] [<- Hx]]. exact (H (l, x) Hx).
    - destruct b; [|destruct Hs]. rewrite wp_unfold in H. rewrite !ok_app in H. destruct H as [_ [_ H]].
      destruct (nonempty (children "parts" (T k ss fs ks))); [destruct Hs|]. cbn [negb] in H.
      destruct Hs as [<-|[]]. exact H.
    - destruct Hs.
    - rewrite redir_unfold in H. destruct (str_eqb k $"heredoc"); [|destruct Hs].
      destruct (flag "quoted" (T k ss fs ks)) as [[|]|]; [destruct Hs| |destruct Hs]. destruct Hs as [<-|[]]. exact H.
    - rewrite pat_unfold in H. apply ok_app in H as [H _]. destruct Hs as [<-|[]]. exact H.
  Qed.

  (* C01: in an approved program, at every reached node, every raw string that bash expands there
     was delimitable and each substitution found in it was approved *)
  Corollary approved_all_raw c t : walk c t = Allow ->
    forall n r d s, In (r, d) (reach_fuel n RNode t) -> In s (raw_positions r d) ->
    exists c', snd c' = snd c /\ raw_ok c' s.
  Proof.
    intros H n r d s Hin Hs.
    assert (Hok : ok (field RNode (ev t) c)) by (cbn [field]; constructor; [exact H|constructor]).
    destruct (cover n RNode t c Hok r d Hin) as [c' [Hm Hd]].
    exists c'. split; [exact Hm|]. exact (raw_step r d c' Hd s Hs).
  Qed.
End Cover.
