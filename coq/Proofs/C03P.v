(* C03: verdicts compose exactly as most-restrictive-wins. *)
From Coq Require Import Permutation.
From DippyV Require Import Base.Str Base.Verdict Base.Sx Base.Tree Gen.Tables Model.RawScan Model.Walker Model.Cover
  Proofs.VerdictP Proofs.WalkerP.

Section C03.
  Variable simple : ctx -> list str -> verdict.
  Variable astr : ctx -> str -> verdict.
  Variable mredir : str -> str -> option verdict.
  Variable cdres : str -> str -> str.
  Variable injrisk : ctx -> list str -> bool.
  Variable rulematch : ctx -> list str -> bool.
  Notation walk := (walk simple astr mredir cdres injrisk rulematch).

  (* building blocks used to state the laws on concrete shapes *)
  Definition mk (k : string) (kids : list (str * tree)) : tree := T (s2l k) [] [] kids.
  Definition labelled (l : string) (ts : list tree) : list (str * tree) := map (fun t => (s2l l, t)) ts.

  Lemma children_labelled (l : string) k ss fs ts : children l (T k ss fs (labelled l ts)) = ts.
  Proof.
    unfold children, labelled. cbn [kids_of]. induction ts as [|t ts IH]; [reflexivity|].
    cbn [map filter fst]. rewrite str_eqb_refl. cbn [map snd]. f_equal. exact IH.
  Qed.

  (* a pipeline of any stages *)
  Definition pipeline (stages : list tree) : tree := mk "pipeline" (labelled "commands" stages).
  Lemma pipeline_join c stages : walk c (pipeline stages) = combine (map (walk c) stages).
  Proof. unfold pipeline, mk. rewrite walk_pipeline. rewrite children_labelled. reflexivity. Qed.

  Lemma pipeline_order c s1 s2 : Permutation s1 s2 -> walk c (pipeline s1) = walk c (pipeline s2).
  Proof. intro H. rewrite !pipeline_join. apply combine_perm, Permutation_map, H. Qed.

  Lemma pipeline_flatten c s1 s2 s3 :
    walk c (pipeline (s1 ++ pipeline s2 :: s3)) = walk c (pipeline (s1 ++ s2 ++ s3)).
  Proof.
    rewrite (pipeline_join c (s1 ++ pipeline s2 :: s3)), (pipeline_join c (s1 ++ s2 ++ s3)).
    rewrite (map_app (walk c) s1 (pipeline s2 :: s3)), (map_app (walk c) s1 (s2 ++ s3)), (map_app (walk c) s2 s3).
    cbn [map]. rewrite (combine_app (map (walk c) s1)), (combine_app (map (walk c) s1)), combine_cons, pipeline_join.
    rewrite (combine_app (map (walk c) s2)). reflexivity.
  Qed.

  (* a list (; && || & newline) of any parts, none of which is a literal cd *)
  Definition oplist (parts : list tree) : tree := mk "list" (labelled "parts" parts).
  Definition plain_part (t : tree) : Prop := is_kind "operator" t = false /\ no_cd t.

  Lemma seq_parts_plain parts : Forall plain_part parts -> seq_parts (oplist parts) = parts.
  Proof.
    intro H. unfold seq_parts, oplist, mk. rewrite children_labelled.
    induction H as [|t ts [Hk _] _ IH]; [reflexivity|]. cbn [filter]. rewrite Hk. cbn [negb]. f_equal. exact IH.
  Qed.

  Lemma list_join c parts : Forall plain_part parts -> walk c (oplist parts) = combine (map (walk c) parts).
  Proof.
    intro H. unfold oplist, mk. rewrite walk_list_plain.
    - fold (mk "list" (labelled "parts" parts)). fold (oplist parts). rewrite seq_parts_plain by exact H. reflexivity.
    - right. fold (mk "list" (labelled "parts" parts)). fold (oplist parts). rewrite seq_parts_plain by exact H.
      eapply Forall_impl; [|exact H]. intros t [_ Ht]. exact Ht.
  Qed.

  Lemma list_order c p1 p2 : Forall plain_part p1 -> Permutation p1 p2 -> walk c (oplist p1) = walk c (oplist p2).
  Proof.
    intros H1 HP. assert (H2 : Forall plain_part p2).
    { rewrite Forall_forall in *. intros x Hx. apply H1. eapply Permutation_in; [apply Permutation_sym, HP|exact Hx]. }
    rewrite !list_join by assumption. apply combine_perm, Permutation_map, HP.
  Qed.

  (* with cd commands in the list the law still holds, each part being judged in the
     directory it would run in *)
  Lemma list_join_cd c ss fs ks : let t := T $"list" ss fs ks in
    walk c t = combine (map (fun p => walk (fst p) (snd p)) (seq_ctxs cdres (init_state c) (list_items t))).
  Proof. intro t. subst t. rewrite walk_list, sequence_ctxs. reflexivity. Qed.

  (* transparent wrappers: ! cmd, time cmd, name() body, coproc cmd, ( body ), { body; } *)
  Inductive wrapper := WNeg | WTime | WFun | WCoproc | WSub | WBrace.
  Definition wrap (w : wrapper) (t : tree) : tree :=
    match w with
    | WNeg => mk "negation" [($"pipeline", t)]
    | WTime => mk "time" [($"pipeline", t)]
    | WFun => mk "function" [($"body", t)]
    | WCoproc => mk "coproc" [($"command", t)]
    | WSub => mk "subshell" [($"body", t)]
    | WBrace => mk "brace-group" [($"body", t)]
    end.

  Lemma wrap_transparent c w t : walk c (wrap w t) = walk c t.
  Proof.
    destruct w; unfold wrap, mk.
    - rewrite walk_negation. reflexivity.
    - rewrite walk_time. reflexivity.
    - rewrite walk_function. reflexivity.
    - rewrite walk_coproc. reflexivity.
    - rewrite walk_subshell. cbv [child children kids_of filter map fst snd redirs_of flat_map need].
      vm_compute (str_eqb _ _). vm_compute (str_eqb _ _). cbn [app]. apply combine_one.
    - rewrite walk_brace. cbv [child children kids_of filter map fst snd redirs_of flat_map need].
      vm_compute (str_eqb _ _). vm_compute (str_eqb _ _). cbn [app]. apply combine_one.
  Qed.

  Fixpoint nest (ws : list wrapper) (t : tree) : tree :=
    match ws with [] => t | w :: r => wrap w (nest r t) end.

  Lemma nest_transparent c ws t : walk c (nest ws t) = walk c t.
  Proof. induction ws as [|w ws IH]; [reflexivity|]. cbn [nest]. rewrite wrap_transparent. exact IH. Qed.

  (* if / while / until without redirects of their own *)
  Definition mk_if (cond thn : tree) (els : option tree) : tree :=
    mk "if" (($"condition", cond) :: ($"then_body", thn) :: match els with Some e => [($"else_body", e)] | None => [] end).
  (* (a condition that changes the directory moves the branches: see C03_list_cd for how
     directory changes enter the law) *)
  Lemma if_join c cond thn els : changes_directory cond = false ->
    walk c (mk_if cond thn els) =
    combine (walk c cond :: walk c thn :: match els with Some e => [walk c e] | None => [] end).
  Proof.
    intro Hcd. unfold mk_if, mk. rewrite walk_if.
    destruct els; cbv [child children kids_of filter map fst snd redirs_of flat_map need optional];
      repeat vm_compute (str_eqb _ _); cbn [app]; rewrite ?app_nil_r; rewrite Hcd;
      unfold body_ctx; rewrite andb_false_r; reflexivity.
  Qed.

  Definition mk_loop (k : string) (cond body : tree) : tree := mk k [($"condition", cond); ($"body", body)].
  Lemma while_join c cond body : changes_directory (mk_loop "while" cond body) = false ->
    walk c (mk_loop "while" cond body) = combine [walk c cond; walk c body].
  Proof.
    intro Hcd. unfold mk_loop, mk in *. rewrite walk_while. cbv zeta. rewrite Hcd.
    unfold body_ctx. rewrite andb_false_r.
    cbv [child children kids_of filter map fst snd redirs_of flat_map need]; repeat vm_compute (str_eqb _ _). reflexivity.
  Qed.
  Lemma until_join c cond body : changes_directory (mk_loop "until" cond body) = false ->
    walk c (mk_loop "until" cond body) = combine [walk c cond; walk c body].
  Proof.
    intro Hcd. unfold mk_loop, mk in *. rewrite walk_until. cbv zeta. rewrite Hcd.
    unfold body_ctx. rewrite andb_false_r.
    cbv [child children kids_of filter map fst snd redirs_of flat_map need]; repeat vm_compute (str_eqb _ _). reflexivity.
  Qed.

  (* the verdict of a composition is allow iff every constituent is, deny iff some constituent is:
     no prompt that no part needs, no ask or deny hidden *)
  Lemma join_exact (l : list verdict) :
    (combine l = Allow <-> Forall (fun v => v = Allow) l) /\
    (combine l = Deny <-> Exists (fun v => v = Deny) l) /\
    (l <> [] -> In (combine l) l) /\
    (forall v, In v l -> vle v (combine l) = true).
  Proof.
    split; [apply combine_allow|]. split; [apply combine_deny|]. split; [apply combine_attained|].
    intros v Hv. apply combine_ge, Hv.
  Qed.
End C03.
