(* The assignment-word recogniser of the analyzer (Walker.is_assignment) against the grammar bash uses for
   an assignment prefix:  NAME [ "[" SUB "]" ] [ "+" ] "=" VALUE,  NAME an ASCII identifier, SUB free of "[" and "]"
   (bash matches brackets inside a subscript: a[[]=] is a command name, a[b[1]]=2 an assignment; the recogniser takes
   neither for an assignment - the first is the repair of `a[[]=] ls`, the second is asked about). *)
From DippyV Require Import Base.Str Model.Walker.
Local Open Scope list_scope.

Inductive assignment_word : str -> Prop :=
| aw_plain c name plus v :
    ident_start c = true -> forallb ident_char name = true -> (plus = [] \/ plus = [43]) ->
    assignment_word (c :: name ++ plus ++ 61 :: v)
| aw_sub c name sub plus v :
    ident_start c = true -> forallb ident_char name = true -> mem_ch 93 sub = false -> mem_ch 91 sub = false ->
    (plus = [] \/ plus = [43]) ->
    assignment_word (c :: name ++ 91 :: sub ++ 93 :: plus ++ 61 :: v).

Lemma skip_ident_split s : exists name t, s = name ++ t /\ forallb ident_char name = true /\ skip_ident s = t /\
  match t with d :: _ => ident_char d = false | [] => True end.
Proof.
  induction s as [|c s IH].
  { exists (@nil N), (@nil N). repeat split; reflexivity. }
  cbn [skip_ident]. destruct (ident_char c) eqn:E.
  - destruct IH as (name & t & -> & Hn & Hs & Ht). exists (c :: name), t. cbn [forallb app]. rewrite E, Hn. repeat split; assumption.
  - exists (@nil N), (c :: s). repeat split; try reflexivity. exact E.
Qed.

Lemma skip_ident_app name t : forallb ident_char name = true ->
  match t with d :: _ => ident_char d = false | [] => True end -> skip_ident (name ++ t) = t.
Proof.
  induction name as [|c name IH]; cbn [forallb app]; intros Hn Ht.
  - destruct t as [|d u]; [reflexivity|]. cbn [skip_ident]. rewrite Ht. reflexivity.
  - apply andb_true_iff in Hn as [Hc Hn]. cbn [skip_ident]. rewrite Hc. apply IH; assumption.
Qed.

Lemma assign_tail_spec s : assign_tail s = true <-> exists plus v, (plus = [] \/ plus = [43]) /\ s = plus ++ 61 :: v.
Proof.
  split.
  - destruct s as [|c r]; cbn [assign_tail]; [discriminate|].
    destruct (N.eqb c 61) eqn:E1; [apply N.eqb_eq in E1; subst; intros _; exists [], r; split; [left|]; reflexivity|].
    destruct (N.eqb c 43) eqn:E2; [|discriminate]. apply N.eqb_eq in E2. subst.
    destruct r as [|d u]; [discriminate|]. intro H. apply N.eqb_eq in H. subst. exists [43], u. split; [right|]; reflexivity.
  - intros (plus & v & [-> | ->] & ->); reflexivity.
Qed.

Lemma after_bracket_spec s v : after_bracket s = Some v <->
  exists sub, mem_ch 93 sub = false /\ mem_ch 91 sub = false /\ s = sub ++ 93 :: v.
Proof.
  split.
  - revert v. induction s as [|c r IH]; cbn [after_bracket]; intros v; [discriminate|].
    destruct (N.eqb c 93) eqn:E.
    + apply N.eqb_eq in E. subst. intro H. injection H as <-. exists []. split; [|split]; reflexivity.
    + destruct (N.eqb c 91) eqn:E2; [discriminate|].
      intro H. destruct (IH _ H) as (sub & Hs & Hs2 & ->). exists (c :: sub). split; [|split; [|reflexivity]].
      * unfold mem_ch in *. cbn [existsb]. rewrite N.eqb_sym, E. exact Hs.
      * unfold mem_ch in *. cbn [existsb]. rewrite N.eqb_sym, E2. exact Hs2.
  - intros (sub & Hs & Hs2 & ->). induction sub as [|c sub IH]; cbn [after_bracket app]; [rewrite N.eqb_refl; reflexivity|].
    unfold mem_ch in Hs, Hs2. cbn [existsb] in Hs, Hs2. apply orb_false_iff in Hs as [Hc Hs]. apply orb_false_iff in Hs2 as [Hc2 Hs2].
    rewrite N.eqb_sym, Hc. rewrite N.eqb_sym, Hc2. apply IH; assumption.
Qed.

Lemma ident_char_61 : ident_char 61 = false. Proof. reflexivity. Qed.
Lemma ident_char_43 : ident_char 43 = false. Proof. reflexivity. Qed.
Lemma ident_char_91 : ident_char 91 = false. Proof. reflexivity. Qed.

Theorem is_assignment_spec w : is_assignment w = true <-> assignment_word w.
Proof.
  split.
  - destruct w as [|c r]; cbn [is_assignment]; [discriminate|]. intro H. apply andb_true_iff in H as [Hc H].
    destruct (skip_ident_split r) as (name & t & -> & Hn & Hs & Ht). rewrite Hs in H.
    destruct t as [|d u]; [discriminate|].
    destruct (N.eqb d 91) eqn:E.
    + apply N.eqb_eq in E. subst d. apply orb_true_iff in H as [H|H]; [|discriminate H].
      destruct (after_bracket u) as [v|] eqn:Ea; [|discriminate].
      apply after_bracket_spec in Ea as (sub & Hsub & Hsub2 & ->). apply assign_tail_spec in H as (plus & v' & Hp & ->).
      apply aw_sub; assumption.
    + apply assign_tail_spec in H as (plus & v & Hp & Heq). rewrite Heq. apply aw_plain; assumption.
  - intros [c name plus v Hc Hn Hp | c name sub plus v Hc Hn Hs Hs2 Hp]; cbn [is_assignment]; rewrite Hc; cbn [andb].
    + assert (Ht : skip_ident (name ++ plus ++ 61 :: v) = plus ++ 61 :: v)
        by (apply skip_ident_app; [exact Hn| destruct Hp as [-> | ->]; reflexivity]).
      rewrite Ht. destruct Hp as [-> | ->]; reflexivity.
    + rewrite (skip_ident_app name (91 :: sub ++ 93 :: plus ++ 61 :: v) Hn ident_char_91).
      cbn [N.eqb Pos.eqb]. replace (N.eqb 91 91) with true by reflexivity.
      assert (Ha : after_bracket (sub ++ 93 :: plus ++ 61 :: v) = Some (plus ++ 61 :: v))
        by (apply after_bracket_spec; exists sub; split; [exact Hs|split; [exact Hs2|reflexivity]]).
      rewrite Ha. assert (Hq : assign_tail (plus ++ 61 :: v) = true) by (apply assign_tail_spec; exists plus, v; split; [exact Hp|reflexivity]).
      rewrite Hq. reflexivity.
Qed.

(* consequences used by the property files: what is never an assignment prefix *)
Lemma not_assignment_head c r : ident_start c = false -> is_assignment (c :: r) = false.
Proof. intro H. cbn [is_assignment]. rewrite H. reflexivity. Qed.

Lemma assignment_has_eq w : is_assignment w = true -> mem_ch 61 w = true.
Proof.
  intro H. apply is_assignment_spec in H. unfold mem_ch.
  destruct H as [c name plus v _ _ _ | c name sub plus v _ _ _ _ _]; apply existsb_exists; exists 61; (split; [|reflexivity]).
  - right. apply in_or_app. right. apply in_or_app. right. left. reflexivity.
  - right. apply in_or_app. right. right. apply in_or_app. right. right. apply in_or_app. right. left. reflexivity.
Qed.

(* repair of `a[[]=] ls` (bash matches brackets inside a subscript: the word is a command name): a word whose subscript,
   read up to the first "]", holds a "[" is never taken for an assignment *)
Lemma after_bracket_none sub r : mem_ch 91 sub = true -> mem_ch 93 sub = false -> after_bracket (sub ++ r) = None.
Proof.
  unfold mem_ch. induction sub as [|c sub IH]; cbn [existsb app after_bracket]; [discriminate|].
  intros H1 H2. apply orb_false_iff in H2 as [Hc H2]. rewrite N.eqb_sym, Hc.
  destruct (N.eqb c 91) eqn:E; [reflexivity|]. rewrite N.eqb_sym, E in H1. cbn [orb] in H1. apply IH; assumption.
Qed.
Lemma bracket_in_subscript_not_assignment c name sub v :
  forallb ident_char name = true -> mem_ch 91 sub = true -> mem_ch 93 sub = false ->
  is_assignment (c :: name ++ 91 :: sub ++ 93 :: v) = false.
Proof.
  intros Hn H1 H2. cbn [is_assignment]. destruct (ident_start c); [|reflexivity]. cbn [andb].
  rewrite (skip_ident_app name (91 :: sub ++ 93 :: v) Hn ident_char_91).
  replace (N.eqb 91 91) with true by reflexivity. rewrite (after_bracket_none sub (93 :: v) H1 H2). reflexivity.
Qed.
Example bracket_witness : is_assignment (s2l "a[[]=]") = false /\ is_assignment (s2l "a[1]=x") = true /\ is_assignment (s2l "a[b[1]]=2") = false.
Proof. vm_compute. repeat split. Qed.
