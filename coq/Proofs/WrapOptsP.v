(* Option spellings of env and xargs: the repaired handlers agree with GNU getopt_long on clusters,
   attached / separate / =-joined arguments and EVERY unique abbreviation of a long option. *)
From Coq Require Import Arith Permutation.
From DippyV Require Import Base.Str Base.Verdict Gen.Tables Model.BashQuote Model.Getopt Model.Wrappers Model.WrapSpec
  Proofs.VerdictP Proofs.BashQuoteP Proofs.WrappersP.

(* ================================================================== long names: handler table vs specification *)
Fixpoint nodupb (l : list str) : bool :=
  match l with [] => true | x :: r => negb (mem_str x r) && nodupb r end.
Lemma nodupb_NoDup l : nodupb l = true -> NoDup l.
Proof.
  induction l as [|x r IH]; intro H; [constructor|].
  cbn [nodupb] in H. apply andb_true_iff in H as [H1 H2]. apply negb_true_iff in H1.
  constructor; [|apply IH, H2]. intro Hin. apply mem_str_In in Hin. congruence.
Qed.

Lemma perm_of_tables (T L : list str) :
  nodupb T = true -> nodupb L = true -> forallb (fun x => mem_str x L) T = true -> forallb (fun x => mem_str x T) L = true ->
  Permutation T L.
Proof.
  intros NT NL A B. apply NoDup_Permutation; [apply nodupb_NoDup, NT|apply nodupb_NoDup, NL|].
  intro x. split; intro H.
  - apply mem_str_In. exact (proj1 (forallb_forall _ _) A x H).
  - apply mem_str_In. exact (proj1 (forallb_forall _ _) B x H).
Qed.

Lemma perm_filter {A} (f : A -> bool) l m : Permutation l m -> Permutation (filter f l) (filter f m).
Proof.
  induction 1 as [|x l m _ IH|x y l|l m k _ IH1 _ IH2]; cbn [filter].
  - constructor.
  - destruct (f x); [constructor|]; exact IH.
  - destruct (f x), (f y); try apply perm_swap; apply Permutation_refl.
  - eapply Permutation_trans; eassumption.
Qed.

Lemma filter_eq_absent (names : list str) n : ~ In n names -> filter (fun x => str_eqb x n) names = [].
Proof.
  induction names as [|x r IH]; intro H; [reflexivity|]. cbn [filter].
  destruct (str_eqb_spec x n) as [->|_]; [exfalso; apply H; left; reflexivity|]. apply IH. intro; apply H; right; assumption.
Qed.

Lemma filter_eq_nodup (names : list str) n : NoDup names -> In n names -> filter (fun x => str_eqb x n) names = [n].
Proof.
  induction names as [|x r IH]; intros ND Hin; [destruct Hin|].
  inversion ND as [|? ? Hx Hr]; subst. cbn [filter]. destruct (str_eqb_spec x n) as [->|Hn].
  - rewrite (filter_eq_absent r n Hx). reflexivity.
  - apply IH; [exact Hr|destruct Hin; [congruence|assumption]].
Qed.

Lemma exact_long_names n L m k : exact_long n L = Some (m, k) -> m = n /\ In n (map fst L).
Proof.
  induction L as [|[a b] r IH]; intro H; [discriminate|]. cbn [exact_long] in H.
  destruct (str_eqb_spec n a) as [->|_].
  - injection H as <- <-. split; [reflexivity|left; reflexivity].
  - destruct (IH H) as [-> Hin]. split; [reflexivity|right; exact Hin].
Qed.
Lemma exact_long_none n L : exact_long n L = None -> ~ In n (map fst L).
Proof.
  induction L as [|[a b] r IH]; intro H; [intros []|]. cbn [exact_long] in H.
  destruct (str_eqb_spec n a) as [->|Hn]; [discriminate|]. intros [E|Hin]; [cbn in E; congruence|exact (IH H Hin)].
Qed.
Lemma prefix_longs_map n L : map fst (prefix_longs n L) = filter (prefixb n) (map fst L).
Proof.
  unfold prefix_longs. induction L as [|[a b] r IH]; [reflexivity|]. cbn [filter map fst].
  destruct (prefixb n a); cbn [map fst]; rewrite IH; reflexivity.
Qed.

(* whenever getopt resolves a (possibly abbreviated) long name to m, the handler's list is exactly [m] *)
Lemma long_names_resolve (T : list str) (L : list (str * akind)) n m k :
  Permutation T (map fst L) -> NoDup (map fst L) -> resolve_long n L = Some (m, k) -> long_names T n = [m].
Proof.
  intros P ND H. unfold resolve_long in H. unfold long_names.
  assert (NT : NoDup T) by (eapply Permutation_NoDup; [apply Permutation_sym; exact P|exact ND]).
  destruct (exact_long n L) as [[m' k']|] eqn:E.
  - injection H as <- <-. destruct (exact_long_names _ _ _ _ E) as [-> Hin].
    rewrite (filter_eq_nodup T n NT); [reflexivity|]. eapply Permutation_in; [apply Permutation_sym; exact P|exact Hin].
  - rewrite (filter_eq_absent T n).
    + destruct (prefix_longs n L) as [|e [|e2 r]] eqn:PL; try discriminate. injection H as ->.
      pose proof (prefix_longs_map n L) as M. rewrite PL in M. cbn [map fst] in M.
      pose proof (perm_filter (prefixb n) _ _ P) as PF. rewrite <- M in PF.
      apply Permutation_sym, Permutation_length_1_inv in PF. exact PF.
    + intro Hin. apply (exact_long_none n L E). eapply Permutation_in; eassumption.
Qed.

(* ================================================================== env *)
Lemma env_tables_perm : Permutation ENV_LONG_OPTIONS (map fst (longs env_spec)) /\ NoDup (map fst (longs env_spec)).
Proof.
  split; [apply perm_of_tables; vm_compute; reflexivity|apply nodupb_NoDup; vm_compute; reflexivity].
Qed.

Lemma resolve_long_in n L e : resolve_long n L = Some e -> In e L.
Proof.
  unfold resolve_long. destruct (exact_long n L) as [e'|] eqn:E.
  - intro H. injection H as <-. clear -E. induction L as [|[a b] r IH]; [discriminate|]. cbn [exact_long] in E.
    destruct (str_eqb n a); [injection E as <-; left; reflexivity|right; apply IH, E].
  - destruct (prefix_longs n L) as [|x [|y r]] eqn:P; try discriminate. intro H. injection H as <-.
    assert (I : In x (prefix_longs n L)) by (rewrite P; left; reflexivity).
    unfold prefix_longs in I. apply filter_In in I. tauto.
Qed.

Lemma partition_eq_none n : mem_ch 61 n = false -> partition_eq n = (n, None).
Proof.
  induction n as [|c r IH]; intro H; [reflexivity|]. unfold mem_ch in H. cbn [existsb] in H.
  apply orb_false_iff in H as [H1 H2]. cbn [partition_eq]. rewrite (N.eqb_sym c 61), H1. rewrite (IH H2). reflexivity.
Qed.
Lemma partition_eq_some n v : mem_ch 61 n = false -> partition_eq (n ++ 61 :: v) = (n, Some v).
Proof.
  induction n as [|c r IH]; intro H; [reflexivity|]. unfold mem_ch in H. cbn [existsb] in H.
  apply orb_false_iff in H as [H1 H2]. cbn [app partition_eq]. rewrite (N.eqb_sym c 61), H1. rewrite (IH H2). reflexivity.
Qed.
Lemma split_eq_none' n : mem_ch 61 n = false -> split_eq n = (n, None).
Proof.
  induction n as [|c r IH]; intro H; [reflexivity|]. unfold mem_ch in H. cbn [existsb] in H.
  apply orb_false_iff in H as [H1 H2]. cbn [split_eq]. unfold EQ. rewrite (N.eqb_sym c 61), H1. rewrite (IH H2). reflexivity.
Qed.
Lemma split_eq_some' n v : mem_ch 61 n = false -> split_eq (n ++ 61 :: v) = (n, Some v).
Proof.
  induction n as [|c r IH]; intro H; [reflexivity|]. unfold mem_ch in H. cbn [existsb] in H.
  apply orb_false_iff in H as [H1 H2]. cbn [app split_eq]. unfold EQ. rewrite (N.eqb_sym c 61), H1. rewrite (IH H2). reflexivity.
Qed.

Definition ENV_BOOLS : list N := [105; 118].                         (* i v *)
Definition bools_ok (bs : str) : bool := forallb (fun c => mem_ch c ENV_BOOLS) bs.
Definition ENV_NOARG_LONG : list str :=
  map s2l ["ignore-environment"; "debug"; "list-signal-handling"; "block-signal"; "default-signal"; "ignore-signal"].
Definition name_ok (n : str) : bool := nonempty n && negb (mem_ch 61 n).

Lemma bool_char c : mem_ch c ENV_BOOLS = true -> c = 105 \/ c = 118.
Proof. unfold mem_ch. cbn. rewrite orb_false_r, orb_true_iff, !N.eqb_eq. intuition. Qed.

Lemma env_cluster_bools bs x : bools_ok bs = true -> env_cluster (bs ++ x) = env_cluster x.
Proof.
  induction bs as [|c r IH]; intro H; [reflexivity|]. cbn [bools_ok forallb] in H. apply andb_true_iff in H as [Hc Hr].
  cbn [app env_cluster]. destruct (bool_char c Hc) as [->| ->]; (replace (mem_str [_] ENV_SHORT_WITH_ARG) with false by (vm_compute; reflexivity)); apply IH, Hr.
Qed.

Definition gs_none (bs : str) : list gopt := map (fun c => GS c None) bs.
Lemma cluster_bools bs x : bools_ok bs = true ->
  cluster env_spec (bs ++ x) = match cluster env_spec x with
                               | CErr => CErr | CDone o => CDone (gs_none bs ++ o) | CNeed o d => CNeed (gs_none bs ++ o) d end.
Proof.
  induction bs as [|c r IH]; intro H; [cbn [app]; destruct (cluster env_spec x); reflexivity|].
  cbn [bools_ok forallb] in H. apply andb_true_iff in H as [Hc Hr].
  cbn [app cluster]. rewrite (IH Hr).
  destruct (bool_char c Hc) as [->| ->]; (replace (lookup_short _ (shorts env_spec)) with (Some ANo) by (vm_compute; reflexivity));
    destruct (cluster env_spec x); reflexivity.
Qed.

Lemma split_stop_none (o : list gopt) : forallb (fun g => negb (env_is_S g)) o = true -> split_stop env_is_S o = (o, None).
Proof.
  induction o as [|g r IH]; intro H; [reflexivity|]. cbn [forallb] in H. apply andb_true_iff in H as [Hg Hr].
  apply negb_true_iff in Hg. cbn [split_stop]. rewrite Hg, (IH Hr). reflexivity.
Qed.
Lemma gs_none_nostop bs : bools_ok bs = true -> forallb (fun g => negb (env_is_S g)) (gs_none bs) = true.
Proof.
  induction bs as [|c r IH]; intro H; [reflexivity|]. cbn [bools_ok forallb] in H. apply andb_true_iff in H as [Hc Hr].
  cbn [gs_none map forallb]. fold (gs_none r). rewrite (IH Hr). destruct (bool_char c Hc) as [->| ->]; reflexivity.
Qed.

(* the options found so far are harmless for the rest of env's processing *)
Definition okO (o : list gopt) : Prop :=
  help_or_version o = false /\ env_opts_ok o = true /\ has_short (c1 "0") o = false /\ has_long (S "null") o = false.
Lemma okO_nil : okO [].
Proof. repeat split. Qed.
Lemma okO_app a b : okO a -> okO b -> okO (a ++ b).
Proof.
  unfold okO, help_or_version, env_opts_ok, has_long, has_short, short_args, long_args.
  intros (A1 & A2 & A3 & A4) (B1 & B2 & B3 & B4).
  rewrite !existsb_app, !flat_map_app in *.
  apply orb_false_iff in A1 as [A1 A1']. apply orb_false_iff in B1 as [B1 B1'].
  apply andb_true_iff in A2 as [A2 A2']. apply andb_true_iff in B2 as [B2 B2'].
  rewrite !forallb_app in *. apply andb_true_iff in A2 as [A2a A2b]. apply andb_true_iff in B2 as [B2a B2b].
  apply andb_true_iff in A2' as [A2c A2d]. apply andb_true_iff in A2d as [A2d A2e].
  apply andb_true_iff in B2' as [B2c B2d]. apply andb_true_iff in B2d as [B2d B2e].
  rewrite A1, A1', B1, B1', A3, A4, B3, B4, A2a, A2b, B2a, B2b, A2c, A2d, A2e, B2c, B2d, B2e. repeat split.
Qed.
Lemma okO_bools bs : bools_ok bs = true -> okO (gs_none bs).
Proof.
  induction bs as [|c r IH]; intro H; [exact okO_nil|]. cbn [bools_ok forallb] in H. apply andb_true_iff in H as [Hc Hr].
  change (gs_none (c :: r)) with ([GS c None] ++ gs_none r). apply okO_app; [|apply IH, Hr].
  destruct (bool_char c Hc) as [->| ->]; repeat split.
Qed.
Lemma okO_unset_s v : name_ok v = true -> okO [GS (c1 "u") (Some v)].
Proof. intro H. unfold okO, name_ok in *. repeat split. unfold env_opts_ok. cbn. rewrite H. reflexivity. Qed.
Lemma okO_unset_l v : name_ok v = true -> okO [GL (S "unset") (Some v)].
Proof. intro H. unfold okO, name_ok in *. repeat split. unfold env_opts_ok. cbn. rewrite H. reflexivity. Qed.
Lemma okO_chdir_s v : okO [GS (c1 "C") (Some v)].
Proof. repeat split. Qed.
Lemma okO_chdir_l v : okO [GL (S "chdir") (Some v)].
Proof. repeat split. Qed.

(* ---- the option words of env on which handler and GNU env agree: ALL of these spellings *)
Inductive env_opts : list str -> Prop :=
| eo_nil : env_opts []
(* -i -v -iv -vvi ... *)
| eo_cluster bs r : bs <> [] -> bools_ok bs = true -> env_opts r -> env_opts ((45 :: bs) :: r)
(* -u NAME  -iu NAME  -C DIR  -vC DIR : the value is the next word *)
| eo_unset_sep bs v r : bools_ok bs = true -> name_ok v = true -> env_opts r -> env_opts ((45 :: bs ++ [117]) :: v :: r)
| eo_chdir_sep bs v r : bools_ok bs = true -> env_opts r -> env_opts ((45 :: bs ++ [67]) :: v :: r)
(* -uNAME  -iuNAME  -CDIR *)
| eo_unset_att bs v r : bools_ok bs = true -> name_ok v = true -> env_opts r -> env_opts ((45 :: bs ++ 117 :: v) :: r)
| eo_chdir_att bs v r : bools_ok bs = true -> v <> [] -> env_opts r -> env_opts ((45 :: bs ++ 67 :: v) :: r)
(* --NAME for every spelling NAME that getopt resolves (exactly or as a unique abbreviation) to an
   option without argument *)
| eo_long n m k r : mem_ch 61 n = false -> resolve_long n (longs env_spec) = Some (m, k) -> In m ENV_NOARG_LONG ->
                    env_opts r -> env_opts ((45 :: 45 :: n) :: r)
(* --unset NAME  --uns NAME  --chdir DIR ... and the =-joined forms *)
| eo_long_unset_sep n k v r : mem_ch 61 n = false -> resolve_long n (longs env_spec) = Some (S "unset", k) -> name_ok v = true ->
                    env_opts r -> env_opts ((45 :: 45 :: n) :: v :: r)
| eo_long_chdir_sep n k v r : mem_ch 61 n = false -> resolve_long n (longs env_spec) = Some (S "chdir", k) ->
                    env_opts r -> env_opts ((45 :: 45 :: n) :: v :: r)
| eo_long_unset_eq n k v r : mem_ch 61 n = false -> resolve_long n (longs env_spec) = Some (S "unset", k) -> name_ok v = true ->
                    env_opts r -> env_opts ((45 :: 45 :: n ++ 61 :: v) :: r)
| eo_long_chdir_eq n k v r : mem_ch 61 n = false -> resolve_long n (longs env_spec) = Some (S "chdir", k) ->
                    env_opts r -> env_opts ((45 :: 45 :: n ++ 61 :: v) :: r).

Lemma body_head bs tail : bools_ok bs = true ->
  (bs <> [] \/ exists f t, tail = f :: t /\ (f = 117 \/ f = 67)) -> exists x body, bs ++ tail = x :: body /\ x <> 45.
Proof.
  intros Hb H. destruct bs as [|c r].
  - destruct H as [H|(f & t & -> & Hf)]; [congruence|]. exists f, t. split; [reflexivity|]. destruct Hf; subst; discriminate.
  - cbn [bools_ok forallb] in Hb. apply andb_true_iff in Hb as [Hc _]. exists c, (r ++ tail). split; [reflexivity|].
    destruct (bool_char c Hc); subst; discriminate.
Qed.

(* handler: one cluster word *)
Lemma env_scan_cluster kp bs tail r : bools_ok bs = true ->
  (bs <> [] \/ exists f t, tail = f :: t /\ (f = 117 \/ f = 67)) ->
  env_scan kp ((45 :: bs ++ tail) :: r) =
  match env_cluster tail with
  | None => env_scan kp r
  | Some (c, []) => match r with [] => HAsk | value :: r' => if N.eqb c 83 then env_S value r' else env_scan kp r' end
  | Some (c, value) => if N.eqb c 83 then env_S value r else env_scan kp r
  end.
Proof.
  intros Hb H. destruct (body_head bs tail Hb H) as (x & body & E & Hx).
  cbn [env_scan]. rewrite E.
  assert (D1 : is "--" (45 :: x :: body) = false).
  { unfold is. destruct (str_eqb_spec (45 :: x :: body) (s2l "--")) as [Q|]; [|reflexivity]. injection Q as Q _. congruence. }
  assert (D2 : starts "--" (45 :: x :: body) = false).
  { unfold starts. change (s2l "--") with [45; 45]. cbn [prefixb]. apply N.eqb_neq in Hx. rewrite (N.eqb_sym 45 x), Hx. reflexivity. }
  rewrite D1, D2. change (dash (45 :: x :: body)) with true. cbn [length Nat.ltb Nat.leb andb tl'].
  rewrite <- E. rewrite (env_cluster_bools bs tail Hb). reflexivity.
Qed.

Notation gx := (getopt_x (fun _ => false) env_is_S env_spec).

(* specification: one cluster word *)
Lemma gx_cluster bs tail r : bools_ok bs = true ->
  (bs <> [] \/ exists f t, tail = f :: t /\ (f = 117 \/ f = 67)) ->
  gx ((45 :: bs ++ tail) :: r) =
  match cluster env_spec tail with
  | CErr => GErr
  | CDone o => gword env_is_S (gs_none bs ++ o) r (gx r)
  | CNeed o d => match r with x :: r' => gword env_is_S ((gs_none bs ++ o) ++ [GS d (Some x)]) r' (gx r') | [] => GErr end
  end.
Proof.
  intros Hb H. destruct (body_head bs tail Hb H) as (x & body & E & Hx).
  cbn [getopt_x]. rewrite E, (word_kind_short x body Hx). rewrite <- E, (cluster_bools bs tail Hb).
  destruct (cluster env_spec tail); reflexivity.
Qed.

Lemma gword_nostop o r k : forallb (fun g => negb (env_is_S g)) o = true -> gword env_is_S o r k = gcons o k.
Proof. intro H. unfold gword. rewrite (split_stop_none o H). reflexivity. Qed.

Lemma gcons_assoc a b k : gcons a (gcons b k) = gcons (a ++ b) k.
Proof. destruct k; cbn [gcons]; rewrite ?app_assoc; reflexivity. Qed.

Lemma noarg_kind m k : In (m, k) (longs env_spec) -> In m ENV_NOARG_LONG -> (k = ANo \/ k = AOpt) /\ okO [GL m None] /\
  mem_str m ENV_LONG_WITH_ARG = false /\ is "split-string" m = false.
Proof.
  intros H1 H2. cbn in H1.
  repeat (destruct H1 as [E|H1]; [injection E as <- <-;
     first [ (split; [auto|]; split; [repeat split|]; split; vm_compute; reflexivity)
           | (exfalso; cbn in H2; repeat (destruct H2 as [H2|H2]; [discriminate|]); destruct H2) ]|]).
  destruct H1.
Qed.

Lemma witharg_kind m k : In (m, k) (longs env_spec) -> (m = S "unset" \/ m = S "chdir") -> k = AReq /\
  mem_str m ENV_LONG_WITH_ARG = true /\ is "split-string" m = false.
Proof.
  intros H1 H2. cbn in H1.
  repeat (destruct H1 as [E|H1]; [injection E as <- <-;
     first [ (split; [reflexivity|]; split; vm_compute; reflexivity)
           | (exfalso; destruct H2 as [H2|H2]; discriminate) ]|]).
  destruct H1.
Qed.

Lemma env_scan_long kp n r :
  env_scan kp ((45 :: 45 :: n) :: r) =
  (if is "--" (45 :: 45 :: n) then match r with [] => HAllow | _ => HWords [kp ++ r] false end
   else let '(name, v) := partition_eq n in
        match long_names ENV_LONG_OPTIONS name with
        | [nm] =>
            if mem_str nm ENV_LONG_WITH_ARG && is_none v then
              match r with
              | [] => HAsk
              | value :: r' => if is "split-string" nm then env_S value r' else env_scan kp r'
              end
            else if is "split-string" nm then env_S (oval v) r
            else env_scan kp r
        | _ => HAsk
        end).
Proof. reflexivity. Qed.

Lemma resolved_nonempty n e : resolve_long n (longs env_spec) = Some e -> n <> [].
Proof. intros H ->. vm_compute in H. discriminate. Qed.

Lemma env_opts_handler opts : env_opts opts -> forall kp l, env_scan kp (opts ++ l) = env_scan kp l.
Proof.
  destruct env_tables_perm as [P ND].
  induction 1 as [|bs r Hn Hb _ IH|bs v r Hb Hv _ IH|bs v r Hb _ IH|bs v r Hb Hv _ IH|bs v r Hb Hv _ IH
                  |n m k r He Hr Hm _ IH|n k v r He Hr Hv _ IH|n k v r He Hr _ IH|n k v r He Hr Hv _ IH|n k v r He Hr _ IH]; intros kp l.
  - reflexivity.
  - cbn [app]. rewrite <- (app_nil_r bs). rewrite env_scan_cluster by auto. apply IH.
  - cbn [app]. rewrite env_scan_cluster by (auto; right; eauto). apply IH.
  - cbn [app]. rewrite env_scan_cluster by (auto; right; eauto). apply IH.
  - cbn [app]. rewrite env_scan_cluster by (auto; right; eauto).
    change (env_cluster (117 :: v)) with (Some (117, v)). unfold name_ok in Hv. destruct v; [discriminate|]. apply IH.
  - cbn [app]. rewrite env_scan_cluster by (auto; right; eauto).
    change (env_cluster (67 :: v)) with (Some (67, v)). destruct v; [congruence|]. apply IH.
  - cbn [app]. rewrite env_scan_long. rewrite (is_ddash_false_long n (resolved_nonempty n _ Hr)).
    rewrite (partition_eq_none n He). cbv iota beta. rewrite (long_names_resolve _ _ n m k P ND Hr).
    destruct (noarg_kind m k (resolve_long_in _ _ _ Hr) Hm) as (_ & _ & W & Sp). rewrite W, Sp. cbn [andb]. apply IH.
  - cbn [app]. rewrite env_scan_long. rewrite (is_ddash_false_long n (resolved_nonempty n _ Hr)).
    rewrite (partition_eq_none n He). cbv iota beta. rewrite (long_names_resolve _ _ n _ k P ND Hr).
    destruct (witharg_kind _ k (resolve_long_in _ _ _ Hr) (or_introl eq_refl)) as (_ & W & Sp). rewrite W, Sp. cbn [andb is_none]. apply IH.
  - cbn [app]. rewrite env_scan_long. rewrite (is_ddash_false_long n (resolved_nonempty n _ Hr)).
    rewrite (partition_eq_none n He). cbv iota beta. rewrite (long_names_resolve _ _ n _ k P ND Hr).
    destruct (witharg_kind _ k (resolve_long_in _ _ _ Hr) (or_intror eq_refl)) as (_ & W & Sp). rewrite W, Sp. cbn [andb is_none]. apply IH.
  - cbn [app]. rewrite env_scan_long.
    assert (Nn : n ++ 61 :: v <> []) by (destruct n; discriminate).
    rewrite (is_ddash_false_long _ Nn). rewrite (partition_eq_some n v He). cbv iota beta.
    rewrite (long_names_resolve _ _ n _ k P ND Hr).
    destruct (witharg_kind _ k (resolve_long_in _ _ _ Hr) (or_introl eq_refl)) as (_ & W & Sp). rewrite W, Sp. cbn [andb is_none]. apply IH.
  - cbn [app]. rewrite env_scan_long.
    assert (Nn : n ++ 61 :: v <> []) by (destruct n; discriminate).
    rewrite (is_ddash_false_long _ Nn). rewrite (partition_eq_some n v He). cbv iota beta.
    rewrite (long_names_resolve _ _ n _ k P ND Hr).
    destruct (witharg_kind _ k (resolve_long_in _ _ _ Hr) (or_intror eq_refl)) as (_ & W & Sp). rewrite W, Sp. cbn [andb is_none]. apply IH.
Qed.

Lemma gx_long body r : body <> [] ->
  gx ((45 :: 45 :: body) :: r) =
  (let '(n, v) := split_eq body in
   match resolve_long n (longs env_spec) with
   | None => GErr
   | Some (m, ANo) => match v with Some _ => GErr | None => gword env_is_S [GL m None] r (gx r) end
   | Some (m, AOpt) => gword env_is_S [GL m v] r (gx r)
   | Some (m, AReq) =>
       match v with
       | Some x => gword env_is_S [GL m (Some x)] r (gx r)
       | None => match r with x :: r' => gword env_is_S [GL m (Some x)] r' (gx r') | [] => GErr end
       end
   end).
Proof. intro H. destruct body; [congruence|reflexivity]. Qed.

Lemma env_opts_spec opts : env_opts opts -> forall l, exists o, okO o /\ gx (opts ++ l) = gcons o (gx l).
Proof.
  induction 1 as [|bs r Hn Hb _ IH|bs v r Hb Hv _ IH|bs v r Hb _ IH|bs v r Hb Hv _ IH|bs v r Hb Hv _ IH
                  |n m k r He Hr Hm _ IH|n k v r He Hr Hv _ IH|n k v r He Hr _ IH|n k v r He Hr Hv _ IH|n k v r He Hr _ IH]; intro l;
    try (destruct (IH l) as (o & Ho & E)).
  - exists []. split; [exact okO_nil|]. cbn [app]. destruct (gx l); reflexivity.
  - exists (gs_none bs ++ o). split; [apply okO_app; [apply okO_bools, Hb|exact Ho]|].
    cbn [app]. rewrite <- (app_nil_r bs) at 1. rewrite gx_cluster by auto. cbn [cluster]. rewrite app_nil_r.
    rewrite gword_nostop by (apply gs_none_nostop, Hb). rewrite E, gcons_assoc. reflexivity.
  - exists ((gs_none bs ++ [GS 117 (Some v)]) ++ o). split.
    { apply okO_app; [apply okO_app; [apply okO_bools, Hb|apply okO_unset_s, Hv]|exact Ho]. }
    cbn [app]. rewrite gx_cluster by (auto; right; eauto). change (cluster env_spec [117]) with (CNeed [] 117).
    cbv iota. rewrite app_nil_r. rewrite gword_nostop.
    + rewrite E, gcons_assoc. reflexivity.
    + rewrite forallb_app, (gs_none_nostop bs Hb). reflexivity.
  - exists ((gs_none bs ++ [GS 67 (Some v)]) ++ o). split.
    { apply okO_app; [apply okO_app; [apply okO_bools, Hb|apply okO_chdir_s]|exact Ho]. }
    cbn [app]. rewrite gx_cluster by (auto; right; eauto). change (cluster env_spec [67]) with (CNeed [] 67).
    cbv iota. rewrite app_nil_r. rewrite gword_nostop.
    + rewrite E, gcons_assoc. reflexivity.
    + rewrite forallb_app, (gs_none_nostop bs Hb). reflexivity.
  - exists ((gs_none bs ++ [GS 117 (Some v)]) ++ o). split.
    { apply okO_app; [apply okO_app; [apply okO_bools, Hb|apply okO_unset_s, Hv]|exact Ho]. }
    cbn [app]. rewrite gx_cluster by (auto; right; eauto).
    assert (C : cluster env_spec (117 :: v) = CDone [GS 117 (Some v)]).
    { unfold name_ok in Hv. destruct v; [discriminate|reflexivity]. }
    rewrite C. rewrite gword_nostop.
    + rewrite E, gcons_assoc. reflexivity.
    + rewrite forallb_app, (gs_none_nostop bs Hb). reflexivity.
  - exists ((gs_none bs ++ [GS 67 (Some v)]) ++ o). split.
    { apply okO_app; [apply okO_app; [apply okO_bools, Hb|apply okO_chdir_s]|exact Ho]. }
    cbn [app]. rewrite gx_cluster by (auto; right; eauto).
    assert (C : cluster env_spec (67 :: v) = CDone [GS 67 (Some v)]) by (destruct v; [congruence|reflexivity]).
    rewrite C. rewrite gword_nostop.
    + rewrite E, gcons_assoc. reflexivity.
    + rewrite forallb_app, (gs_none_nostop bs Hb). reflexivity.
  - destruct (noarg_kind m k (resolve_long_in _ _ _ Hr) Hm) as (Hk & Hok & _ & _).
    exists ([GL m None] ++ o). split; [apply okO_app; assumption|].
    cbn [app]. rewrite gx_long by (exact (resolved_nonempty n _ Hr)). rewrite (split_eq_none' n He). cbv iota beta. rewrite Hr.
    assert (NS : forallb (fun g => negb (env_is_S g)) [GL m None] = true).
    { cbn. destruct Hok as (_ & _ & _ & _). cbn in Hm. repeat (destruct Hm as [<-|Hm]; [reflexivity|]). destruct Hm. }
    destruct Hk as [-> | ->]; rewrite gword_nostop by exact NS; rewrite E, gcons_assoc; reflexivity.
  - destruct (witharg_kind _ k (resolve_long_in _ _ _ Hr) (or_introl eq_refl)) as (-> & _ & _).
    exists ([GL (S "unset") (Some v)] ++ o). split; [apply okO_app; [apply okO_unset_l, Hv|exact Ho]|].
    cbn [app]. rewrite gx_long by (exact (resolved_nonempty n _ Hr)). rewrite (split_eq_none' n He). cbv iota beta. rewrite Hr.
    rewrite gword_nostop by reflexivity. rewrite E, gcons_assoc. reflexivity.
  - destruct (witharg_kind _ k (resolve_long_in _ _ _ Hr) (or_intror eq_refl)) as (-> & _ & _).
    exists ([GL (S "chdir") (Some v)] ++ o). split; [apply okO_app; [apply okO_chdir_l|exact Ho]|].
    cbn [app]. rewrite gx_long by (exact (resolved_nonempty n _ Hr)). rewrite (split_eq_none' n He). cbv iota beta. rewrite Hr.
    rewrite gword_nostop by reflexivity. rewrite E, gcons_assoc. reflexivity.
  - destruct (witharg_kind _ k (resolve_long_in _ _ _ Hr) (or_introl eq_refl)) as (-> & _ & _).
    exists ([GL (S "unset") (Some v)] ++ o). split; [apply okO_app; [apply okO_unset_l, Hv|exact Ho]|].
    cbn [app]. rewrite gx_long by (destruct n; discriminate). rewrite (split_eq_some' n v He). cbv iota beta. rewrite Hr.
    rewrite gword_nostop by reflexivity. rewrite E, gcons_assoc. reflexivity.
  - destruct (witharg_kind _ k (resolve_long_in _ _ _ Hr) (or_intror eq_refl)) as (-> & _ & _).
    exists ([GL (S "chdir") (Some v)] ++ o). split; [apply okO_app; [apply okO_chdir_l|exact Ho]|].
    cbn [app]. rewrite gx_long by (destruct n; discriminate). rewrite (split_eq_some' n v He). cbv iota beta. rewrite Hr.
    rewrite gword_nostop by reflexivity. rewrite E, gcons_assoc. reflexivity.
Qed.

(* env OPTION... [NAME=VALUE]... COMMAND ARG... : for every sequence of the option spellings of env_opts,
   every assignment list and every command, the handler delegates exactly what env executes *)
Theorem env_extract_opts opts assigns c0 cs :
  env_opts opts -> forallb assign_word assigns = true -> dash c0 = false -> has_eq c0 = false ->
  env_h (s2l "env" :: opts ++ assigns ++ c0 :: cs) = HWords [env_kept assigns ++ c0 :: cs] false /\
  env_exec (opts ++ assigns ++ c0 :: cs) = Some [c0 :: cs].
Proof.
  intros Ho Ha Hd He. split.
  - unfold env_h. cbn [tl']. rewrite (env_opts_handler opts Ho).
    exact (proj1 (env_extract assigns c0 cs Ha Hd He)).
  - destruct (env_opts_spec opts Ho (assigns ++ c0 :: cs)) as (o & (O1 & O2 & O3 & O4) & E).
    unfold env_exec. cbn [env_exec_f]. rewrite E, (gx_operands assigns c0 cs Ha Hd). cbn [gcons]. rewrite app_nil_r.
    apply (env_tail_spec o assigns c0 cs); auto.
Qed.
