(* What the decision log receives: exactly one well-formed line per decision, and the command
   text only under log-full. *)
From DippyV Require Import Base.Str Base.Verdict Model.Logging Proofs.LoggingP Proofs.JsonP.

(* the decision-log sink works (the approvals sink may still fail in any way) *)
Definition dec_ok (f : faults) : Prop :=
  forall k, f Expand k = None /\ f CfgMkdir k = None /\ f DecOpen k = None /\ f DecWrite k = None.
Lemma nofault_dec_ok : dec_ok nofault.
Proof. intro k; repeat split. Qed.

(* the dict log_decision builds on each route *)
Definition route_entry (full : bool) (ts : str) (r : route) : option (list (str * str)) :=
  match r with
  | RMcpBypass pm => Some (entry full $"allow" pm None None None ts)
  | RMcp v reason pattern => Some (entry full (verdict_str v) reason (Some pattern) None None ts)
  | RBypass pm c => Some (entry full $"allow" pm None None (Some c) ts)
  | RCheck c v reason => Some (entry full (verdict_str v) reason None None (Some c) ts)
  | _ => None
  end.
Definition route_lines (full : bool) (ts : str) (r : route) : list str :=
  match route_entry full ts r with Some e => [jline e] | None => [] end.
(* what one run appends to the decision log when that sink works *)
Definition dec_lines (ts : str) (i : hin) : list str :=
  if h_json_ok i && negb (h_cfg_error i) then
    match final_log (h_cfg i) None false with
    | (Some _, full) => route_lines full ts (h_route i)
    | (None, _) => []
    end
  else [].

Definition proj (s : st) := (declog s, lcfg s, disabled s).
Definition pres (a : st -> st * bool) : Prop := forall s, proj (fst (a s)) = proj s.

Lemma pres_bind a b : pres a -> pres b -> pres (bind a b).
Proof.
  intros Ha Hb s. unfold bind. specialize (Ha s). destruct (a s) as [s1 r]; simpl in Ha.
  destruct r; simpl; [exact Ha|]. rewrite Hb. exact Ha.
Qed.
Lemma pres_ret : pres ret. Proof. intro s; reflexivity. Qed.
Lemma pres_raise : pres raise. Proof. intro s; reflexivity. Qed.
Lemma pres_print o : pres (lift (print o)). Proof. intro s; reflexivity. Qed.
Lemma pres_emit C f l : pres (emit C f l).
Proof.
  intro s. unfold emit, consult. destruct (app s); try (destruct (level_geb_warning l); reflexivity).
  destruct (f Emit (n s)); [destruct (c_tb C)|]; reflexivity.
Qed.
Lemma pres_setup C f : pres (setup C f).
Proof.
  intro s. unfold setup, consult. destruct (f SetupMkdir (n s)); [reflexivity|]. simpl.
  destruct (f SetupOpen (S (n s))); reflexivity.
Qed.
Lemma pres_respond C f m v r : pres (respond C f m v r).
Proof. apply pres_bind; [apply pres_emit | apply pres_print]. Qed.
Lemma pres_say msg : pres (say msg).
Proof. destruct msg as [[|c t]|]; simpl; first [apply pres_ret | apply pres_print]. Qed.

Section Dec.
  Variable C : catches.
  Variable f : faults.
  Variable ts : str.
  Variable Hok : dec_ok f.

  Lemma load_final evs : forall log full s,
    snd (load C f evs log full s) = final_log evs log full /\
    snd (fst (load C f evs log full s)) = false /\
    proj (fst (fst (load C f evs log full s))) = proj s.
  Proof.
    induction evs as [|ev evs IH]; intros log full s; cbn [load final_log].
    - repeat split.
    - destruct ev as [|p|].
      + pose proof (pres_emit C f Warning s) as P. destruct (emit C f Warning s) as [s1 b]; simpl in P.
        destruct (IH log full s1) as (A & B & D). repeat split; [exact A | exact B | rewrite D; exact P].
      + unfold consult. destruct (Hok (n s)) as (E & _). rewrite E.
        destruct (IH (Some p) full (tick Expand s)) as (A & B & D). repeat split; [exact A | exact B | rewrite D; reflexivity].
      + apply IH.
  Qed.

  Lemma configure_proj log full s :
    snd (configure C f log full s) = false /\
    proj (fst (configure C f log full s)) = (declog s, option_map (fun p => (p, full)) log, false).
  Proof.
    unfold configure, consult. destruct log as [p|]; [|split; reflexivity].
    destruct (Hok (n s)) as (_ & E & _). rewrite E. split; reflexivity.
  Qed.

  Lemma log_decision_proj d c rule cmd s :
    snd (log_decision C f ts d c rule cmd s) = false /\
    proj (fst (log_decision C f ts d c rule cmd s)) =
    match lcfg s with
    | Some (p, full) =>
        if disabled s then proj s else (declog s ++ [jline (entry full d c rule None cmd ts)], lcfg s, false)
    | None => proj s
    end.
  Proof.
    unfold log_decision, consult. destruct (lcfg s) as [[p full]|] eqn:L; [|split; reflexivity].
    destruct (disabled s) eqn:D; [split; reflexivity|].
    destruct (Hok (n s)) as (_ & _ & E1 & _). rewrite E1. simpl.
    destruct (Hok (S (n s))) as (_ & _ & _ & E2). rewrite E2. split; [reflexivity|].
    unfold proj; simpl. rewrite L, D. reflexivity.
  Qed.

  (* emit ; log_decision ; respond *)
  Lemma decide_proj m v r d c rule cmd s :
    proj (fst ((bind (emit C f Info) (bind (log_decision C f ts d c rule cmd) (respond C f m v r))) s)) =
    match lcfg s with
    | Some (p, full) =>
        if disabled s then proj s else (declog s ++ [jline (entry full d c rule None cmd ts)], lcfg s, false)
    | None => proj s
    end.
  Proof.
    unfold bind at 1. pose proof (pres_emit C f Info s) as P.
    assert (R : snd (emit C f Info s) = false) by (destruct (eff_emit C f Info s); assumption).
    destruct (emit C f Info s) as [s1 r1]; simpl in P, R. subst r1.
    unfold bind. destruct (log_decision_proj d c rule cmd s1) as [R2 P2].
    destruct (log_decision C f ts d c rule cmd s1) as [s2 r2]; simpl in R2, P2. subst r2.
    rewrite (pres_respond C f m v r s2), P2.
    unfold proj in P. injection P as P1 P3 P4. unfold proj. rewrite P3, P4, P1. reflexivity.
  Qed.

  Lemma dispatch_declog m r s p full : lcfg s = Some (p, full) -> disabled s = false ->
    declog (fst (dispatch C f ts m r s)) = declog s ++ route_lines full ts r.
  Proof.
    intros L D.
    assert (Q : forall a, pres a -> declog (fst (a s)) = declog s ++ [])
      by (intros a Ha; specialize (Ha s); unfold proj in Ha; injection Ha as -> _ _; rewrite app_nil_r; reflexivity).
    destruct r; cbn [dispatch route_lines route_entry];
      try solve [apply Q; repeat apply pres_bind; auto using pres_emit, pres_say, pres_print, pres_raise];
      match goal with |- declog (fst (?a s)) = _ =>
        pose proof (decide_proj m) as X end.
    - specialize (X Allow pm $"allow" pm None None s). rewrite L, D in X. apply (f_equal (fun t => fst (fst t))) in X. exact X.
    - specialize (X v reason (verdict_str v) reason (Some pattern) None s). rewrite L, D in X. apply (f_equal (fun t => fst (fst t))) in X. exact X.
    - specialize (X Allow pm $"allow" pm None (Some command) s). rewrite L, D in X. apply (f_equal (fun t => fst (fst t))) in X. exact X.
    - specialize (X v reason (verdict_str v) reason None (Some command) s). rewrite L, D in X. apply (f_equal (fun t => fst (fst t))) in X. exact X.
  Qed.

  Lemma dispatch_declog_off m r s : lcfg s = None -> declog (fst (dispatch C f ts m r s)) = declog s.
  Proof.
    intros L.
    assert (Q : forall a, pres a -> declog (fst (a s)) = declog s)
      by (intros a Ha; specialize (Ha s); unfold proj in Ha; injection Ha as -> _ _; reflexivity).
    destruct r; cbn [dispatch];
      try solve [apply Q; repeat apply pres_bind; auto using pres_emit, pres_say, pres_print, pres_raise];
      match goal with |- declog (fst (?a s)) = _ => pose proof (decide_proj m) as X end.
    - specialize (X Allow pm $"allow" pm None None s). rewrite L in X. apply (f_equal (fun t => fst (fst t))) in X. exact X.
    - specialize (X v reason (verdict_str v) reason (Some pattern) None s). rewrite L in X. apply (f_equal (fun t => fst (fst t))) in X. exact X.
    - specialize (X Allow pm $"allow" pm None (Some command) s). rewrite L in X. apply (f_equal (fun t => fst (fst t))) in X. exact X.
    - specialize (X v reason (verdict_str v) reason None (Some command) s). rewrite L in X. apply (f_equal (fun t => fst (fst t))) in X. exact X.
  Qed.

  Lemma bind_noraise a b s : snd (a s) = false -> bind a b s = b (fst (a s)).
  Proof. intro E. unfold bind. destruct (a s) as [s1 r]; simpl in *. subst r. reflexivity. Qed.

  Definition pre (i : hin) : st -> st * bool :=
    if h_explicit i then ret else bind (if h_unknown_tool i then emit C f Warning else ret) (emit C f Info).
  Definition rest (i : hin) : st -> st * bool := fun s =>
    let '((s1, raised), (log, full)) := load C f (h_cfg i) None false s in
    if raised then (s1, true)
    else if h_cfg_error i then (bind (emit C f Error) (respond C f (h_mode i) Ask $"config error")) s1
    else (bind (configure C f log full) (dispatch C f ts (h_mode i) (h_route i))) s1.
  Lemma body_unfold i : h_json_ok i = true -> body C f ts i = bind (pre i) (rest i).
  Proof. intro E. unfold body. rewrite E. reflexivity. Qed.
  Lemma pre_noraise i s : snd (pre i s) = false.
  Proof.
    unfold pre. destruct (h_explicit i); [reflexivity|].
    assert (E : eff (bind (if h_unknown_tool i then emit C f Warning else ret) (emit C f Info)) ([] ++ []) false).
    { apply eff_bind; [|apply eff_emit]. destruct (h_unknown_tool i); [apply eff_emit | apply eff_ret]. }
    destruct (E s); assumption.
  Qed.
  Lemma pre_pres i : pres (pre i).
  Proof.
    unfold pre. destruct (h_explicit i); [apply pres_ret|]. apply pres_bind; [|apply pres_emit].
    destruct (h_unknown_tool i); [apply pres_emit | apply pres_ret].
  Qed.

  Lemma rest_declog i s : proj s = ([], None, false) ->
    declog (fst (rest i s)) =
    if h_cfg_error i then [] else
    match final_log (h_cfg i) None false with
    | (Some _, full) => route_lines full ts (h_route i)
    | (None, _) => []
    end.
  Proof.
    intro P0. unfold rest.
    destruct (load_final (h_cfg i) None false s) as (A & B & D).
    destruct (load C f (h_cfg i) None false s) as [[s1 raised] [log full]]; simpl in A, B, D. subst raised.
    rewrite <- A. rewrite P0 in D.
    destruct (h_cfg_error i).
    - assert (Q : pres (bind (emit C f Error) (respond C f (h_mode i) Ask $"config error")))
        by (apply pres_bind; [apply pres_emit | apply pres_respond]).
      specialize (Q s1). rewrite D in Q. apply (f_equal (fun t => fst (fst t))) in Q. exact Q.
    - destruct (configure_proj log full s1) as [R2 P2]. rewrite bind_noraise by exact R2.
      apply (f_equal (fun t => fst (fst t))) in D. simpl in D. rewrite D in P2.
      set (s2 := fst (configure C f log full s1)) in *.
      assert (P21 : declog s2 = []) by (apply (f_equal (fun t => fst (fst t))) in P2; exact P2).
      assert (P22 : lcfg s2 = option_map (fun p => (p, full)) log) by (apply (f_equal (fun t => snd (fst t))) in P2; exact P2).
      assert (P23 : disabled s2 = false) by (apply (f_equal snd) in P2; exact P2).
      destruct log as [p|]; simpl in P22.
      + rewrite (dispatch_declog (h_mode i) (h_route i) s2 p full P22 P23), P21. reflexivity.
      + rewrite (dispatch_declog_off (h_mode i) (h_route i) s2 P22), P21. reflexivity.
  Qed.

  Lemma body_declog i s : proj s = ([], None, false) -> declog (fst (body C f ts i s)) = dec_lines ts i.
  Proof.
    intro P0. unfold dec_lines. destruct (h_json_ok i) eqn:J; simpl.
    - rewrite (body_unfold i J), bind_noraise by apply pre_noraise.
      rewrite rest_declog; [destruct (h_cfg_error i); reflexivity|]. rewrite pre_pres. exact P0.
    - unfold body. rewrite J. simpl. apply (f_equal (fun t => fst (fst t))) in P0. exact P0.
  Qed.
End Dec.

Lemma run_declog f ts i : realistic f -> dec_ok f -> r_declog (hook_run head f ts i) = dec_lines ts i.
Proof.
  intros Hr Hok. unfold hook_run.
  pose proof (pres_setup head f init) as P. destruct (eff_setup head f (realistic_handled f Hr) init) as [R _].
  destruct (setup head f init) as [s1 crashed]; simpl in P, R. subst crashed.
  pose proof (body_declog head f ts Hok i s1 P) as B.
  destruct (body head f ts i s1) as [s2 raised]; simpl in B. destruct raised; unfold finish; simpl; [|exact B].
  assert (Q : pres (bind (emit head f Error) (lift (print OEmpty)))) by (apply pres_bind; [apply pres_emit | apply pres_print]).
  specialize (Q s2). unfold proj in Q. injection Q as -> _ _. exact B.
Qed.

(* ---------------------------------------------------------------- the line itself *)
Definition ascii_key (k : str) : Prop := Forall (fun c => c < 65536) k.
Lemma entry_keys full d c rule msg cmd ts :
  map fst (entry full d c rule msg cmd ts) =
  [$"decision"; $"cmd"] ++ (match rule with Some _ => [$"rule"] | None => [] end)
  ++ (match msg with Some _ => [$"message"] | None => [] end)
  ++ (if full then match cmd with Some _ => [$"command"] | None => [] end else []) ++ [$"ts"].
Proof. unfold entry, opt_field. destruct rule, msg, cmd, full; reflexivity. Qed.

Definition unicode_route (r : route) : Prop :=
  match r with
  | RMcpBypass pm => unicode pm
  | RMcp _ reason pattern => unicode reason /\ unicode pattern
  | RBypass pm c => unicode pm /\ unicode c
  | RCheck c _ reason => unicode c /\ unicode reason
  | _ => True
  end.
Lemma unicode_b s : forallb (fun c => c <=? 1114111) s = true -> unicode s.
Proof. intro H. apply Forall_forall. intros c Hc. rewrite forallb_forall in H. apply N.leb_le. apply H. exact Hc. Qed.
Ltac lit := apply unicode_b; vm_compute; reflexivity.
Lemma unicode_lit_decision v : unicode (verdict_str v).
Proof. destruct v; lit. Qed.
Definition unicode_opt (o : option str) : Prop := match o with Some s => unicode s | None => True end.
Lemma entry_unicode full d c rule msg cmd ts :
  unicode d -> unicode c -> unicode_opt rule -> unicode_opt msg -> unicode_opt cmd -> unicode ts ->
  unicode_entry (entry full d c rule msg cmd ts).
Proof.
  intros. unfold entry, opt_field, unicode_entry.
  destruct rule, msg, cmd, full; simpl in *;
    repeat (apply Forall_cons; [split; [lit | assumption]|]); apply Forall_nil.
Qed.
Lemma entry_nonempty full d c rule msg cmd ts : entry full d c rule msg cmd ts <> [].
Proof. unfold entry. discriminate. Qed.
Lemma route_entry_unicode full ts r e : unicode ts -> unicode_route r -> route_entry full ts r = Some e ->
  unicode_entry e /\ e <> [].
Proof.
  intros Hts Hr He. destruct r; simpl in He; try discriminate; injection He as <-; simpl in Hr;
    (split; [|apply entry_nonempty]); apply entry_unicode; simpl; try tauto; try apply unicode_lit_decision; lit.
Qed.

Lemma has_key_command_entry full d c rule cmd ts :
  has_key "command" (map upair (entry full d c rule None cmd ts)) = full && (match cmd with Some _ => true | None => false end).
Proof. unfold entry, opt_field. destruct rule, cmd, full; vm_compute; reflexivity. Qed.

Lemma route_entry_command full ts r e : route_entry full ts r = Some e ->
  has_key "command" (map upair e) = full && (match route_command r with Some _ => true | None => false end).
Proof.
  intro He. destruct r; simpl in He; try discriminate; injection He as <-; apply has_key_command_entry.
Qed.

(* the keys, in the order log_decision inserts them *)
Definition documented_keys (full : bool) (r : route) : list str :=
  [$"decision"; $"cmd"] ++ (match r with RMcp _ _ _ => [$"rule"] | _ => [] end)
  ++ (if full then match route_command r with Some _ => [$"command"] | None => [] end else []) ++ [$"ts"].

Lemma decides_entry full ts r : decides r = true ->
  exists e, route_entry full ts r = Some e /\ map fst e = documented_keys full r.
Proof.
  intro D. destruct r; try discriminate; eexists; (split; [reflexivity|]); rewrite entry_keys; reflexivity.
Qed.
Lemma not_decides_entry full ts r : decides r = false -> route_entry full ts r = None.
Proof. destruct r; try discriminate; reflexivity. Qed.

(* C15_one_line *)
Lemma one_line f ts i p full :
  realistic f -> dec_ok f -> unicode ts -> unicode_route (h_route i) ->
  h_json_ok i = true -> h_cfg_error i = false -> final_log (h_cfg i) None false = (Some p, full) ->
  decides (h_route i) = true ->
  exists e,
    r_declog (hook_run head f ts i) = [jline e] /\
    complete_line (jline e) /\
    read_line (jline e) = Some (map upair e) /\
    route_entry full ts (h_route i) = Some e /\
    map fst e = documented_keys full (h_route i).
Proof.
  intros Hr Hok Hts Hu J E L D. destruct (decides_entry full ts (h_route i) D) as [e [He Hk]].
  exists e. rewrite (run_declog f ts i Hr Hok). unfold dec_lines, route_lines. rewrite J, E, L, He. simpl.
  destruct (route_entry_unicode full ts (h_route i) e Hts Hu He) as [U N].
  repeat split; [apply jline_complete | apply read_jline; assumption | exact Hk].
Qed.

(* no decision, no logging configured, a config error or unreadable input: nothing is appended *)
Lemma no_line f ts i :
  realistic f -> dec_ok f ->
  h_json_ok i = false \/ h_cfg_error i = true \/ fst (final_log (h_cfg i) None false) = None \/ decides (h_route i) = false ->
  r_declog (hook_run head f ts i) = [].
Proof.
  intros Hr Hok H. rewrite (run_declog f ts i Hr Hok). unfold dec_lines, route_lines.
  destruct H as [H | [H | [H | H]]].
  - rewrite H. reflexivity.
  - rewrite H, andb_false_r. reflexivity.
  - destruct (h_json_ok i), (h_cfg_error i); simpl; try reflexivity.
    destruct (final_log (h_cfg i) None false) as [[p|] full]; simpl in H; [discriminate | reflexivity].
  - destruct (h_json_ok i), (h_cfg_error i); simpl; try reflexivity.
    destruct (final_log (h_cfg i) None false) as [[p|] full]; [|reflexivity].
    rewrite (not_decides_entry full ts (h_route i) H). reflexivity.
Qed.

(* a failing decision-log sink never leaves a partial line: the log stays as it was *)
Lemma no_partial_line f ts i : realistic f ->
  r_declog (hook_run head f ts i) = [] \/ exists e, r_declog (hook_run head f ts i) = [jline e].
Proof.
  intro Hr. unfold hook_run.
  assert (G : forall (a : st -> st * bool) (s : st), (forall s, declog (fst (a s)) = declog s \/ exists e, declog (fst (a s)) = declog s ++ [jline e]) ->
              declog s = [] -> declog (fst (a s)) = [] \/ exists e, declog (fst (a s)) = [jline e]).
  { intros a s Ha E. destruct (Ha s) as [X | [e X]]; rewrite X, E; [left; reflexivity | right; exists e; reflexivity]. }
  pose proof (pres_setup head f init) as P.
  destruct (setup head f init) as [s1 crashed]; simpl in P.
  assert (D1 : declog s1 = []) by (apply (f_equal (fun t => fst (fst t))) in P; exact P).
  destruct crashed; [left; exact D1|].
  (* every action of the body either keeps the decision log or appends one complete rendered line *)
  assert (K : forall a : st -> st * bool, pres a -> forall s, declog (fst (a s)) = declog s \/ exists e, declog (fst (a s)) = declog s ++ [jline e])
    by (intros a Ha s; left; specialize (Ha s); apply (f_equal (fun t => fst (fst t))) in Ha; exact Ha).
  assert (LD : forall d c rule cmd s, declog (fst (log_decision head f ts d c rule cmd s)) = declog s \/
                 exists e, declog (fst (log_decision head f ts d c rule cmd s)) = declog s ++ [jline e]).
  { intros d c rule cmd s. unfold log_decision, consult. destruct (lcfg s) as [[p full]|]; [|left; reflexivity].
    destruct (disabled s); [left; reflexivity|].
    destruct (f DecOpen (n s)) as [e|]; [(match goal with |- context [if ?b then _ else _] => destruct b end); left; reflexivity|]. simpl.
    destruct (f DecWrite (S (n s))) as [e|]; [(match goal with |- context [if ?b then _ else _] => destruct b end); left; reflexivity|].
    right. eexists. reflexivity. }
  assert (B : forall a b : st -> st * bool, (forall s, declog (fst (a s)) = declog s \/ exists e, declog (fst (a s)) = declog s ++ [jline e]) ->
              pres b -> forall s, declog (fst (bind a b s)) = declog s \/ exists e, declog (fst (bind a b s)) = declog s ++ [jline e]).
  { intros a b Ha Hb s. unfold bind. specialize (Ha s). destruct (a s) as [sa ra]; simpl in Ha.
    destruct ra; simpl; [exact Ha|]. specialize (Hb sa). apply (f_equal (fun t => fst (fst t))) in Hb. simpl in Hb.
    rewrite Hb. exact Ha. }
  assert (B2 : forall a b : st -> st * bool, pres a ->
              (forall s, declog (fst (b s)) = declog s \/ exists e, declog (fst (b s)) = declog s ++ [jline e]) ->
              forall s, declog (fst (bind a b s)) = declog s \/ exists e, declog (fst (bind a b s)) = declog s ++ [jline e]).
  { intros a b Ha Hb s. unfold bind. specialize (Ha s). apply (f_equal (fun t => fst (fst t))) in Ha. simpl in Ha.
    destruct (a s) as [sa ra]; simpl in Ha. destruct ra; simpl; [left; exact Ha|]. rewrite <- Ha. apply Hb. }
  assert (DSP : forall m r s, declog (fst (dispatch head f ts m r s)) = declog s \/
                  exists e, declog (fst (dispatch head f ts m r s)) = declog s ++ [jline e]).
  { intros m r. destruct r; cbn [dispatch];
      try (apply K; repeat apply pres_bind; auto using pres_emit, pres_say, pres_print, pres_raise; fail);
      (apply B2; [apply pres_emit|]; apply B; [apply LD | apply pres_respond]). }
  assert (BODY : forall s, declog (fst (body head f ts i s)) = declog s \/ exists e, declog (fst (body head f ts i s)) = declog s ++ [jline e]).
  { intro s. unfold body. destruct (h_json_ok i); simpl; [|left; reflexivity].
    apply B2.
    - destruct (h_explicit i); [apply pres_ret|]. apply pres_bind; [|apply pres_emit].
      destruct (h_unknown_tool i); [apply pres_emit | apply pres_ret].
    - clear s. intro s.
      assert (LQ : forall evs log full s, declog (fst (fst (load head f evs log full s))) = declog s).
      { induction evs as [|ev evs IH]; intros log full s0; cbn [load]; [reflexivity|]. destruct ev as [|p|].
        - pose proof (pres_emit head f Warning s0) as PE. destruct (emit head f Warning s0) as [sa b]; simpl in PE.
          rewrite IH. apply (f_equal (fun t => fst (fst t))) in PE. exact PE.
        - unfold consult. destruct (f Expand (n s0)) as [e|].
          + (match goal with |- context [if ?b then _ else _] => destruct b end); [|reflexivity].
            pose proof (pres_emit head f Warning (tick Expand s0)) as PE. destruct (emit head f Warning (tick Expand s0)) as [sa b]; simpl in PE.
            rewrite IH. apply (f_equal (fun t => fst (fst t))) in PE. exact PE.
          + rewrite IH. reflexivity.
        - apply IH. }
      specialize (LQ (h_cfg i) None false s).
      destruct (load head f (h_cfg i) None false s) as [[sl raised] [log full]]; simpl in LQ.
      destruct raised; simpl; [left; exact LQ|]. rewrite <- LQ.
      destruct (h_cfg_error i).
      + apply K. apply pres_bind; [apply pres_emit | apply pres_respond].
      + unfold bind. assert (CD : declog (fst (configure head f log full sl)) = declog sl).
        { unfold configure, consult. destruct log as [p|]; [|reflexivity].
          destruct (f CfgMkdir (n sl)) as [e|]; [(match goal with |- context [if ?b then _ else _] => destruct b end)|]; reflexivity. }
        destruct (configure head f log full sl) as [sc rc]; simpl in CD. destruct rc; simpl; [left; exact CD|].
        rewrite <- CD. apply DSP. }
  specialize (BODY s1). destruct (body head f ts i s1) as [s2 raised]; simpl in BODY.
  assert (F : declog s2 = [] \/ exists e, declog s2 = [jline e]).
  { destruct BODY as [X | [e X]]; rewrite X, D1; [left; reflexivity | right; exists e; reflexivity]. }
  destruct raised; unfold finish; simpl; [|exact F].
  assert (Q : pres (bind (emit head f Error) (lift (print OEmpty)))) by (apply pres_bind; [apply pres_emit | apply pres_print]).
  specialize (Q s2). apply (f_equal (fun t => fst (fst t))) in Q. simpl in Q. rewrite Q. exact F.
Qed.

(* C15_full *)
Lemma full_iff full ts r e : route_entry full ts r = Some e ->
  (has_key "command" (map upair e) = true <-> full = true /\ route_command r <> None).
Proof.
  intro He. rewrite (route_entry_command full ts r e He). destruct full, (route_command r); simpl; split;
    try discriminate; try (intros [A B]; congruence); intros _; split; congruence.
Qed.
