(* Lemmas about the hook-run model of Model/Logging.v: logging never changes stdout / exit. *)
From DippyV Require Import Base.Str Base.Verdict Model.Logging.

(* every fault the oracle can produce at a site is one the site catches *)
Definition handled (C : catches) (f : faults) : Prop :=
  forall k e,
    (f SetupMkdir k = Some e -> c_setup C e = true) /\
    (f SetupOpen k = Some e -> c_setup C e = true) /\
    (f Expand k = Some e -> c_expand C e = true) /\
    (f CfgMkdir k = Some e -> c_cfg C e = true) /\
    (f DecOpen k = Some e -> c_dec C e = true) /\
    (f DecWrite k = Some e -> c_dec C e = true).

(* the faults the real calls can raise, by site, for today's code: mkdir/open/write raise OSError
   (any subclass) or ValueError (NUL in the path; not possible below HOME, whose value comes from
   the environment or the password database); expanduser raises RuntimeError (unknown user, no
   home) or ValueError (NUL in the user name); the logging handler may fail in any way. *)
Definition realistic (f : faults) : Prop :=
  forall k e,
    (f SetupMkdir k = Some e -> e = EOS) /\
    (f SetupOpen k = Some e -> e = EOS) /\
    (f Expand k = Some e -> e = ERuntime \/ e = EValue) /\
    (f CfgMkdir k = Some e -> e = EOS \/ e = EValue) /\
    (f DecOpen k = Some e -> e = EOS \/ e = EValue) /\
    (f DecWrite k = Some e -> e = EOS \/ e = EValue).

Lemma realistic_handled f : realistic f -> handled head f.
Proof.
  intros H k e. destruct (H k e) as (H1 & H2 & H3 & H4 & H5 & H6).
  repeat split; intro Hf;
    [ rewrite (H1 Hf) | rewrite (H2 Hf) | destruct (H3 Hf) as [-> | ->] | destruct (H4 Hf) as [-> | ->]
    | destruct (H5 Hf) as [-> | ->] | destruct (H6 Hf) as [-> | ->] ]; reflexivity.
Qed.
Lemma nofault_realistic : realistic nofault.
Proof. intros k e; repeat split; discriminate. Qed.

Section Obs.
  Variable C : catches.
  Variable f : faults.
  Variable ts : str.
  Variable H : handled C f.

  Notation act := (st -> st * bool).
  (* an action that appends l to stdout and ends raising (r = true) or normally *)
  Definition eff (a : act) (l : list outv) (r : bool) : Prop :=
    forall s, snd (a s) = r /\ out (fst (a s)) = out s ++ l.

  Lemma eff_bind a b l1 l2 r : eff a l1 false -> eff b l2 r -> eff (bind a b) (l1 ++ l2) r.
  Proof.
    intros Ha Hb s. unfold bind. destruct (Ha s) as [Hr Ho]. destruct (a s) as [s1 r1]; simpl in *. subst r1.
    destruct (Hb s1) as [Hr2 Ho2]. split; [exact Hr2|]. rewrite Ho2, Ho, app_assoc. reflexivity.
  Qed.
  Lemma eff_bind_raise a b l1 : eff a l1 true -> eff (bind a b) l1 true.
  Proof.
    intros Ha s. unfold bind. destruct (Ha s) as [Hr Ho]. destruct (a s) as [s1 r1]; simpl in *. subst r1.
    split; [reflexivity | exact Ho].
  Qed.
  Lemma eff_ret : eff ret [] false.
  Proof. intro s; split; [reflexivity | simpl; rewrite app_nil_r; reflexivity]. Qed.
  Lemma eff_raise : eff raise [] true.
  Proof. intro s; split; [reflexivity | simpl; rewrite app_nil_r; reflexivity]. Qed.
  Lemma eff_print o : eff (lift (print o)) [o] false.
  Proof. intro s; split; reflexivity. Qed.

  Lemma eff_emit l : eff (emit C f l) [] false.
  Proof.
    intro s. unfold emit, consult. rewrite app_nil_r.
    destruct (app s); try (destruct (level_geb_warning l); split; reflexivity).
    destruct (f Emit (n s)); [destruct (c_tb C)|]; split; reflexivity.
  Qed.

  Lemma eff_setup : eff (setup C f) [] false.
  Proof.
    intro s. unfold setup, consult. rewrite app_nil_r. simpl.
    destruct (f SetupMkdir (n s)) as [e|] eqn:E1.
    - destruct (H (n s) e) as (H1 & _). rewrite (H1 E1). split; reflexivity.
    - destruct (f SetupOpen (S (n s))) as [e|] eqn:E2.
      + destruct (H (S (n s)) e) as (_ & H2 & _). rewrite (H2 E2). split; reflexivity.
      + split; reflexivity.
  Qed.

  Lemma load_quiet evs : forall log full s,
    snd (fst (load C f evs log full s)) = false /\ out (fst (fst (load C f evs log full s))) = out s.
  Proof.
    induction evs as [|ev evs IH]; intros log full s; cbn [load].
    - split; reflexivity.
    - destruct ev as [|p|].
      + destruct (eff_emit Warning s) as [_ Ho]. rewrite app_nil_r in Ho.
        destruct (emit C f Warning s) as [s1 b]; simpl in Ho. destruct (IH log full s1) as [A B].
        split; [exact A | rewrite B; exact Ho].
      + unfold consult. destruct (f Expand (n s)) as [e|] eqn:E.
        * destruct (H (n s) e) as (_ & _ & H3 & _). rewrite (H3 E).
          destruct (eff_emit Warning (tick Expand s)) as [_ Ho]. rewrite app_nil_r in Ho.
          destruct (emit C f Warning (tick Expand s)) as [s2 b]; simpl in Ho. destruct (IH log full s2) as [A B].
          split; [exact A | rewrite B; exact Ho].
        * destruct (IH (Some p) full (tick Expand s)) as [A B]. split; [exact A | rewrite B; reflexivity].
      + apply IH.
  Qed.

  Lemma eff_configure log full : eff (configure C f log full) [] false.
  Proof.
    intro s. unfold configure, consult. rewrite app_nil_r. destruct log as [p|]; [|split; reflexivity].
    destruct (f CfgMkdir (n s)) as [e|] eqn:E; [|split; reflexivity].
    destruct (H (n s) e) as (_ & _ & _ & H4 & _). rewrite (H4 E). split; reflexivity.
  Qed.

  Lemma eff_log_decision d c rule cmd : eff (log_decision C f ts d c rule cmd) [] false.
  Proof.
    intro s. unfold log_decision, consult. rewrite app_nil_r.
    destruct (lcfg s) as [[p full]|]; [|split; reflexivity].
    destruct (disabled s); [split; reflexivity|].
    destruct (f DecOpen (n s)) as [e|] eqn:E.
    - destruct (H (n s) e) as (_ & _ & _ & _ & H5 & _). rewrite (H5 E). split; reflexivity.
    - simpl. destruct (f DecWrite (S (n s))) as [e|] eqn:E2.
      + destruct (H (S (n s)) e) as (_ & _ & _ & _ & _ & H6). rewrite (H6 E2). split; reflexivity.
      + split; reflexivity.
  Qed.

  Lemma eff_respond m v r : eff (respond C f m v r) [OEnv m v r] false.
  Proof. unfold respond. apply (eff_bind _ _ [] [OEnv m v r]); [apply eff_emit | apply eff_print]. Qed.

  Lemma eff_say msg : eff (say msg) (match msg with Some (c :: t) => [OMsg (c :: t)] | _ => [] end) false.
  Proof. destruct msg as [[|c t]|]; simpl; try apply eff_ret. apply eff_print. Qed.

  Definition is_raise (r : route) : bool := match r with RRaise => true | _ => false end.

  Lemma eff_dispatch m r :
    eff (dispatch C f ts m r) (if is_raise r then [] else expected_route m r) (is_raise r).
  Proof.
    destruct r; cbn [dispatch is_raise expected_route].
    - apply (eff_bind _ _ [] _); [apply eff_emit|]. apply (eff_bind _ _ [] _); [apply eff_log_decision | apply eff_respond].
    - apply (eff_bind _ _ [] _); [apply eff_emit | apply eff_say].
    - apply (eff_bind _ _ [] _); [apply eff_emit | apply eff_print].
    - apply (eff_bind _ _ [] _); [apply eff_emit|]. apply (eff_bind _ _ [] _); [apply eff_log_decision | apply eff_respond].
    - apply eff_print.
    - apply (eff_bind _ _ [] _); [apply eff_emit|]. apply (eff_bind _ _ [] _); [apply eff_log_decision | apply eff_respond].
    - apply (eff_bind _ _ [] _); [apply eff_emit | apply eff_say].
    - apply (eff_bind _ _ [] _); [apply eff_emit|]. apply (eff_bind _ _ [] _); [apply eff_log_decision | apply eff_respond].
    - apply eff_raise.
  Qed.

  (* does main's try body end in the generic exception handler? *)
  Definition raising (i : hin) : bool :=
    negb (h_json_ok i) || (negb (h_cfg_error i) && is_raise (h_route i)).

  Lemma eff_body i : eff (body C f ts i) (if raising i then [] else expected i) (raising i).
  Proof.
    unfold body, raising, expected. destruct (h_json_ok i); simpl; [|apply eff_raise].
    apply (eff_bind _ _ [] _).
    - destruct (h_explicit i); [apply eff_ret|]. apply (eff_bind _ _ [] []); [|apply eff_emit].
      destruct (h_unknown_tool i); [apply eff_emit | apply eff_ret].
    - intro s. destruct (load_quiet (h_cfg i) None false s) as [A B].
      destruct (load C f (h_cfg i) None false s) as [[s1 raised] [log full]]; simpl in A, B. subst raised.
      destruct (h_cfg_error i); simpl.
      + rewrite <- B. apply (eff_bind _ _ [] _); [apply eff_emit | apply eff_respond].
      + rewrite <- B. apply (eff_bind _ _ [] _); [apply eff_configure | apply eff_dispatch].
  Qed.

  Lemma expected_raising i : raising i = true -> expected i = [OEmpty].
  Proof.
    unfold raising, expected. destruct (h_json_ok i); simpl; [|reflexivity].
    destruct (h_cfg_error i); simpl; [discriminate|]. destruct (h_route i); simpl; try discriminate. reflexivity.
  Qed.

  (* the hook's stdout and exit status are what main prescribes, whatever the sinks do *)
  Lemma run_out i : r_stdout (hook_run C f ts i) = expected i /\ r_exit (hook_run C f ts i) = 0%nat.
  Proof.
    unfold hook_run. destruct (eff_setup init) as [Hs Ho]. destruct (setup C f init) as [s1 crashed]; simpl in Hs, Ho.
    subst crashed. destruct (eff_body i s1) as [Hr Hb]. destruct (body C f ts i s1) as [s2 raised]; simpl in Hr, Hb.
    rewrite Ho in Hb. simpl in Hb. subst raised. destruct (raising i) eqn:R.
    - assert (E : eff (bind (emit C f Error) (lift (print OEmpty))) [OEmpty] false)
        by (apply (eff_bind _ _ [] _); [apply eff_emit | apply eff_print]).
      destruct (E s2) as [_ E2]. split; [|reflexivity]. unfold finish; simpl. rewrite E2, Hb, (expected_raising i R).
      reflexivity.
    - split; [|reflexivity]. unfold finish; simpl. exact Hb.
  Qed.
End Obs.

Lemma expected_strip i : expected (strip_log i) = expected i.
Proof. reflexivity. Qed.

(* C15_observer *)
Lemma observer : forall ts1 ts2 i f1 f2, realistic f1 -> realistic f2 ->
  let a := hook_run head f1 ts1 i in let b := hook_run head f2 ts2 i in let c := run_nolog i in
  r_stdout a = r_stdout b /\ r_exit a = r_exit b /\ r_stdout a = r_stdout c /\ r_exit a = r_exit c.
Proof.
  intros ts1 ts2 i f1 f2 H1 H2.
  destruct (run_out head f1 ts1 (realistic_handled f1 H1) i) as [A1 A2].
  destruct (run_out head f2 ts2 (realistic_handled f2 H2) i) as [B1 B2].
  destruct (run_out head nofault [] (realistic_handled _ nofault_realistic) (strip_log i)) as [C1 C2].
  cbv zeta. unfold run_nolog. rewrite A1, A2, B1, B2, C1, C2, expected_strip. repeat split; reflexivity.
Qed.

(* the same for any catch table, as long as every fault is caught where it arises *)
Lemma observer_gen : forall C ts i f, handled C f ->
  r_stdout (hook_run C f ts i) = r_stdout (run_nolog i) /\ r_exit (hook_run C f ts i) = r_exit (run_nolog i).
Proof.
  intros C ts i f Hf. destruct (run_out C f ts Hf i) as [A1 A2].
  destruct (run_out head nofault [] (realistic_handled _ nofault_realistic) (strip_log i)) as [C1 C2].
  unfold run_nolog. rewrite A1, A2, C1, C2, expected_strip. split; reflexivity.
Qed.

(* the traceback on stderr: exactly the failed emits *)
Definition a_check : hin :=
  {| h_json_ok := true; h_explicit := false; h_mode := Claude; h_unknown_tool := false;
     h_cfg := [CSetLog $"/x/a.log"]; h_cfg_error := false; h_route := RCheck $"ls -la" Allow $"ls" |}.
Definition emit_fails : faults := fun s _ => match s with Emit => Some EOS | _ => None end.
Definition cfg_value_fault : faults := fun s _ => match s with CfgMkdir => Some EValue | _ => None end.
Definition expand_rt_fault : faults := fun s _ => match s with Expand => Some ERuntime | _ => None end.
Definition setup_value_fault : faults := fun s _ => match s with SetupMkdir => Some EValue | _ => None end.

(* the pre-repair code: a ValueError (NUL in the log path) at configure_logging, or the
   RuntimeError of expanduser, reaches main's generic handler and the verdict becomes {} *)
Lemma legacy_refuted :
  exists i f, realistic f /\ r_stdout (hook_run legacy f [] i) <> r_stdout (run_nolog i).
Proof. exists a_check, cfg_value_fault. split; [|vm_compute; discriminate].
  intros k e; repeat split; simpl; try discriminate. intro E; injection E as <-; auto. Qed.
Lemma legacy_expand_refuted :
  exists i f, realistic f /\ r_stdout (hook_run legacy f [] i) <> r_stdout (run_nolog i).
Proof. exists a_check, expand_rt_fault. split; [|vm_compute; discriminate].
  intros k e; repeat split; simpl; try discriminate. intro E; injection E as <-; auto. Qed.
(* the hypothesis on the setup site is needed: setup_logging catches OSError only *)
Lemma setup_unrealistic_refuted :
  exists i f, r_exit (hook_run head f [] i) <> r_exit (run_nolog i) /\ r_stdout (hook_run head f [] i) <> r_stdout (run_nolog i).
Proof. exists a_check, setup_value_fault. split; vm_compute; discriminate. Qed.
(* before 1aa56d9 a failing approvals sink was not silent on stderr (logging.raiseExceptions) *)
Lemma traceback_refuted :
  exists i f, realistic f /\ r_tracebacks (hook_run loud f [] i) <> r_tracebacks (run_nolog i).
Proof. exists a_check, emit_fails. split; [|vm_compute; discriminate].
  intros k e; repeat split; simpl; discriminate. Qed.

(* with logging.raiseExceptions off nothing is ever printed by a failing handler *)
Section Quiet.
  Variable C : catches.
  Variable f : faults.
  Variable ts : str.
  Variable HQ : c_tb C = false.

  Definition tbp (a : st -> st * bool) : Prop := forall s, tbs (fst (a s)) = tbs s.
  Lemma tbp_bind a b : tbp a -> tbp b -> tbp (bind a b).
  Proof.
    intros Ha Hb s. unfold bind. specialize (Ha s). destruct (a s) as [s1 r]; simpl in Ha.
    destruct r; simpl; [exact Ha|]. rewrite Hb. exact Ha.
  Qed.
  Lemma tbp_ret : tbp ret. Proof. intro s; reflexivity. Qed.
  Lemma tbp_raise : tbp raise. Proof. intro s; reflexivity. Qed.
  Lemma tbp_print o : tbp (lift (print o)). Proof. intro s; reflexivity. Qed.
  Lemma tbp_emit l : tbp (emit C f l).
  Proof.
    intro s. unfold emit, consult. destruct (app s); try (destruct (level_geb_warning l); reflexivity).
    destruct (f Emit (n s)); [rewrite HQ|]; reflexivity.
  Qed.
  Lemma tbp_setup : tbp (setup C f).
  Proof.
    intro s. unfold setup, consult. destruct (f SetupMkdir (n s)); [reflexivity|]. simpl.
    destruct (f SetupOpen (S (n s))); reflexivity.
  Qed.
  Lemma tbp_respond m v r : tbp (respond C f m v r).
  Proof. apply tbp_bind; [apply tbp_emit | apply tbp_print]. Qed.
  Lemma tbp_say msg : tbp (say msg).
  Proof. destruct msg as [[|c t]|]; simpl; first [apply tbp_ret | apply tbp_print]. Qed.
  Lemma tbp_configure log full : tbp (configure C f log full).
  Proof.
    intro s. unfold configure, consult. destruct log; [|reflexivity].
    destruct (f CfgMkdir (n s)) as [e|]; [destruct (c_cfg C e)|]; reflexivity.
  Qed.
  Lemma tbp_log_decision d c rule cmd : tbp (log_decision C f ts d c rule cmd).
  Proof.
    intro s. unfold log_decision, consult. destruct (lcfg s) as [[p full]|]; [|reflexivity].
    destruct (disabled s); [reflexivity|].
    destruct (f DecOpen (n s)) as [e|]; [destruct (c_dec C e); reflexivity|]. simpl.
    destruct (f DecWrite (S (n s))) as [e|]; [destruct (c_dec C e)|]; reflexivity.
  Qed.
  Lemma tbp_dispatch m r : tbp (dispatch C f ts m r).
  Proof.
    destruct r; cbn [dispatch]; repeat apply tbp_bind;
      auto using tbp_emit, tbp_say, tbp_print, tbp_raise, tbp_log_decision, tbp_respond.
  Qed.
  Lemma tbp_load evs : forall log full s, tbs (fst (fst (load C f evs log full s))) = tbs s.
  Proof.
    induction evs as [|ev evs IH]; intros log full s; cbn [load]; [reflexivity|]. destruct ev as [|p|].
    - pose proof (tbp_emit Warning s) as E. destruct (emit C f Warning s) as [s1 b]; simpl in E. rewrite IH. exact E.
    - unfold consult. destruct (f Expand (n s)) as [e|].
      + destruct (c_expand C e); [|reflexivity].
        pose proof (tbp_emit Warning (tick Expand s)) as E. destruct (emit C f Warning (tick Expand s)) as [s1 b]; simpl in E.
        rewrite IH. exact E.
      + rewrite IH. reflexivity.
    - apply IH.
  Qed.
  Lemma tbp_body i : tbp (body C f ts i).
  Proof.
    unfold body. destruct (h_json_ok i); simpl; [|apply tbp_raise]. apply tbp_bind.
    - destruct (h_explicit i); [apply tbp_ret|]. apply tbp_bind; [|apply tbp_emit].
      destruct (h_unknown_tool i); [apply tbp_emit | apply tbp_ret].
    - intro s. pose proof (tbp_load (h_cfg i) None false s) as L.
      destruct (load C f (h_cfg i) None false s) as [[s1 raised] [log full]]; simpl in L.
      destruct raised; simpl; [exact L|]. rewrite <- L. destruct (h_cfg_error i).
      + apply (tbp_bind _ _ (tbp_emit Error) (tbp_respond _ _ _)).
      + apply (tbp_bind _ _ (tbp_configure log full) (tbp_dispatch _ _)).
  Qed.

  Lemma quiet_run (H : handled C f) i : r_tracebacks (hook_run C f ts i) = 0%nat.
  Proof.
    unfold hook_run. pose proof (tbp_setup init) as S0. destruct (eff_setup C f H init) as [R _].
    destruct (setup C f init) as [s1 crashed]; simpl in S0, R. subst crashed.
    pose proof (tbp_body i s1) as B. destruct (body C f ts i s1) as [s2 raised]; simpl in B.
    destruct raised; unfold finish; simpl.
    - pose proof (tbp_bind _ _ (tbp_emit Error) (tbp_print OEmpty) s2) as E. rewrite E, B, S0. reflexivity.
    - rewrite B, S0. reflexivity.
  Qed.
End Quiet.

Lemma no_traceback f ts i : realistic f ->
  r_tracebacks (hook_run head f ts i) = 0%nat /\
  r_stdout (hook_run head f ts i) = r_stdout (run_nolog i) /\ r_exit (hook_run head f ts i) = r_exit (run_nolog i).
Proof.
  intro H. split; [apply quiet_run; [reflexivity | apply realistic_handled; exact H]|].
  apply observer_gen. apply realistic_handled. exact H.
Qed.

Lemma tables_tie : catches_agree current head = true.
Proof. vm_compute. reflexivity. Qed.

(* ---- config.log_decision as a function of its arguments (function-level correspondence `log_entry`) *)
Definition is_given {T} (o : option T) : bool := match o with Some _ => true | None => false end.
Lemma direct_entry_keys full d c r m cmd ts :
  map fst (entry full d c r m cmd ts) =
  [$"decision"; $"cmd"] ++ (if is_given r then [$"rule"] else []) ++ (if is_given m then [$"message"] else [])
  ++ (if full && is_given cmd then [$"command"] else []) ++ [$"ts"].
Proof. destruct full, r, m, cmd; reflexivity. Qed.
Lemma direct_entry_command_iff full d c r m cmd ts :
  In ($"command") (map fst (entry full d c r m cmd ts)) <-> full = true /\ cmd <> None.
Proof.
  rewrite direct_entry_keys. destruct full, r, m, cmd; cbn; split; intro H;
    repeat match goal with
           | H : _ \/ _ |- _ => destruct H
           | H : _ /\ _ |- _ => destruct H
           | H : False |- _ => destruct H
           end; try discriminate; try congruence; try (split; [reflexivity | discriminate]); auto 10.
Qed.
Lemma direct_entry_values full d c r m cmd ts :
  In ($"decision", d) (entry full d c r m cmd ts) /\ In ($"cmd", c) (entry full d c r m cmd ts) /\
  In ($"ts", ts) (entry full d c r m cmd ts) /\
  (forall x, cmd = Some x -> full = true -> In ($"command", x) (entry full d c r m cmd ts)).
Proof.
  unfold entry, opt_field. repeat split; try (intros x -> ->); rewrite ?in_app_iff; cbn; auto 10.
Qed.
