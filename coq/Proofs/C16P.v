(* C16: simulation between the regular-expression stripper of core/sql.py (Model/Sql.v) and the reference
   tokenizer of SQLite (Model/SqlSpec.v), and what it gives for statement counting and the leading keyword. *)
From DippyV Require Import Base.Str Base.Verdict Gen.Tables Model.Sql Model.SqlSpec Proofs.SqlP Proofs.SqlSpecP.

(* ================================================================ character tables *)
Lemma small_cases (P : N -> bool) :
  forallb P (map N.of_nat (seq 0 128)) = true -> forall c, c < 128 -> P c = true.
Proof.
  intros H c Hc. rewrite forallb_forall in H. apply H.
  rewrite <- (N2Nat.id c). apply in_map. apply in_seq. lia.
Qed.

Lemma re_word_idchar c : re_word c = true -> idchar c = true.
Proof.
  destruct (N.ltb_spec c 128) as [Hc|Hc].
  - intro H. pose proof (small_cases (fun c => implb (re_word c) (idchar c))) as K.
    specialize (K ltac:(vm_compute; reflexivity) c Hc). cbv beta in K. rewrite H in K. exact K.
  - intros _. unfold idchar. apply N.leb_le in Hc. rewrite Hc. rewrite !orb_true_r. reflexivity.
Qed.
Lemma not_idchar_small c : idchar c = false -> c < 128.
Proof.
  unfold idchar. intro H. apply orb_false_elim in H as [_ H]. apply N.leb_gt in H. exact H.
Qed.

Ltac fin K :=
  let Hx := fresh in
  intro Hx; rewrite Hx in K; cbn [implb] in K;
  repeat (let a := fresh in apply andb_true_iff in K; destruct K as [K a]);
  repeat match goal with Hn : negb _ = true |- _ => apply negb_true_iff in Hn end;
  repeat split; assumption.

(* facts about the ASCII range, each checked on all 128 characters *)
Lemma ascii_facts c : c < 128 ->
  (kw_start c = true -> re_word c = true /\ idchar c = true /\ py_space c = false) /\
  (sq_space c = true -> opener c = false /\ py_space c = true /\ kw_start c = false /\ N.eqb c 59 = false) /\
  (idchar c = true -> opener c = false /\ N.eqb c 59 = false /\ sq_space_start c = false /\ N.eqb c 58 = false) /\
  (var_start c = true -> opener c = false /\ py_space c = false /\ kw_start c = false /\ N.eqb c 59 = false /\ sq_space_start c = false) /\
  (sq_space_start c = true -> sq_space c = true) /\
  (N.eqb c 58 = true -> opener c = false /\ N.eqb c 59 = false) /\
  (py_space c = true -> kw_start c = false).
Proof.
  intro Hc.
  pose proof (small_cases (fun c =>
    implb (kw_start c) (re_word c && idchar c && negb (py_space c)) &&
    implb (sq_space c) (negb (opener c) && py_space c && negb (kw_start c) && negb (N.eqb c 59)) &&
    implb (idchar c) (negb (opener c) && negb (N.eqb c 59) && negb (sq_space_start c) && negb (N.eqb c 58)) &&
    implb (var_start c) (negb (opener c) && negb (py_space c) && negb (kw_start c) && negb (N.eqb c 59) && negb (sq_space_start c)) &&
    implb (sq_space_start c) (sq_space c) &&
    implb (N.eqb c 58) (negb (opener c) && negb (N.eqb c 59)) &&
    implb (py_space c) (negb (kw_start c)))
    ltac:(vm_compute; reflexivity) c Hc) as K. cbv beta in K.
  apply andb_true_iff in K as [K K7]. apply andb_true_iff in K as [K K6]. apply andb_true_iff in K as [K K5].
  apply andb_true_iff in K as [K K4]. apply andb_true_iff in K as [K K3]. apply andb_true_iff in K as [K1 K2].
  split; [fin K1|]. split; [fin K2|]. split; [fin K3|]. split; [fin K4|]. split; [fin K5|]. split; [fin K6|fin K7].
Qed.

Lemma big_facts c : 128 <= c -> opener c = false /\ N.eqb c 59 = false /\ kw_start c = false /\ sq_space c = false /\
  sq_space_start c = false /\ var_start c = false /\ idchar c = true /\ N.eqb c 58 = false.
Proof.
  intro H.
  assert (forall k, k < 128 -> N.eqb c k = false) as E by (intros k Hk; apply N.eqb_neq; lia).
  unfold opener, kw_start, sq_space, sq_space_start, var_start, idchar, mem_ch; cbn [existsb].
  rewrite !E by lia. cbn [orb].
  assert (N.leb c 13 = false) as -> by (apply N.leb_gt; lia).
  assert (N.leb c 90 = false) as -> by (apply N.leb_gt; lia).
  assert (N.leb c 122 = false) as -> by (apply N.leb_gt; lia).
  assert (N.leb 128 c = true) as -> by (apply N.leb_le; lia).
  rewrite !andb_false_r, !orb_true_r. cbn [orb]. repeat split; reflexivity.
Qed.

Lemma idchar_facts c : idchar c = true -> opener c = false /\ N.eqb c 59 = false /\ sq_space_start c = false.
Proof.
  intro H. destruct (N.ltb_spec c 128) as [Hc|Hc].
  - destruct (ascii_facts c Hc) as (_ & _ & K & _). destruct (K H) as (? & ? & ? & ?). auto.
  - destruct (big_facts c Hc) as (? & ? & _ & _ & ? & _). auto.
Qed.
Lemma sq_space_facts c : sq_space c = true -> opener c = false /\ py_space c = true /\ kw_start c = false /\ N.eqb c 59 = false.
Proof.
  intro H. destruct (N.ltb_spec c 128) as [Hc|Hc].
  - destruct (ascii_facts c Hc) as (_ & K & _). exact (K H).
  - destruct (big_facts c Hc) as (_ & _ & _ & K & _). congruence.
Qed.
Lemma var_start_facts c : var_start c = true ->
  opener c = false /\ py_space c = false /\ kw_start c = false /\ N.eqb c 59 = false /\ sq_space_start c = false.
Proof.
  intro H. destruct (N.ltb_spec c 128) as [Hc|Hc].
  - destruct (ascii_facts c Hc) as (_ & _ & _ & K & _). exact (K H).
  - destruct (big_facts c Hc) as (_ & _ & _ & _ & _ & K & _). congruence.
Qed.
Lemma kw_start_facts c : kw_start c = true -> re_word c = true /\ idchar c = true /\ py_space c = false.
Proof.
  intro H. destruct (N.ltb_spec c 128) as [Hc|Hc].
  - destruct (ascii_facts c Hc) as (K & _). exact (K H).
  - destruct (big_facts c Hc) as (_ & _ & K & _). congruence.
Qed.
Lemma sq_space_start_space c : sq_space_start c = true -> sq_space c = true.
Proof.
  intro H. destruct (N.ltb_spec c 128) as [Hc|Hc].
  - destruct (ascii_facts c Hc) as (_ & _ & _ & _ & K & _). exact (K H).
  - destruct (big_facts c Hc) as (_ & _ & _ & _ & K & _). congruence.
Qed.
Lemma py_space_not_kw c : py_space c = true -> kw_start c = false.
Proof.
  intro H. destruct (N.ltb_spec c 128) as [Hc|Hc].
  - destruct (ascii_facts c Hc) as (_ & _ & _ & _ & _ & _ & K). exact (K H).
  - destruct (big_facts c Hc) as (_ & _ & K & _). exact K.
Qed.
Lemma bom_facts : opener 65279 = false /\ py_space 65279 = false /\ kw_start 65279 = false /\ re_word 65279 = false.
Proof. vm_compute. auto. Qed.
Lemma blank_facts : py_space 32 = true /\ re_word 32 = false /\ kw_start 32 = false.
Proof. vm_compute. auto. Qed.

(* ================================================================ the scanners of the two sides agree *)
Lemma quoted_groups q : forall n s a b, (length s <= n)%nat -> quoted q s = Some (a, b) -> quote_groups q s = Some b.
Proof.
  induction n as [|n IH]; intros s a b Hn H; destruct s as [|c r]; cbn [quoted quote_groups length] in *; try discriminate; try lia.
  destruct (N.eqb c q).
  - destruct r as [|c2 r2]; [inversion H; reflexivity|].
    destruct (N.eqb c2 q); [|inversion H; reflexivity].
    apply cons1_some in H as [a1 [H _]]. apply cons1_some in H as [a2 [H _]].
    apply IH in H; [|cbn [length] in *; lia]. rewrite H. reflexivity.
  - apply cons1_some in H as [a1 [H _]]. apply IH in H; [exact H|lia].
Qed.
Lemma until_until_ch c s a b : until c s = Some (a, b) -> until_ch c s = Some b.
Proof.
  revert a b; induction s as [|x r IH]; intros a b; cbn [until until_ch]; [discriminate|].
  destruct (N.eqb x c); [intro H; inversion H; reflexivity|].
  intro H. apply cons1_some in H as [a1 [H _]]. eapply IH, H.
Qed.
Lemma to_eol_line_rest s : snd (to_eol s) = line_rest s.
Proof.
  induction s as [|x r IH]; cbn [to_eol line_rest]; [reflexivity|].
  destruct (N.eqb x 10); [reflexivity|]. destruct (to_eol r) as [a b]. exact IH.
Qed.
Lemma block_end_uss : forall n s a b, (length s <= n)%nat -> block_end s = Some (a, b) -> until_star_slash s = Some b.
Proof.
  induction n as [|n IH]; intros s a b Hn H; destruct s as [|x r]; cbn [block_end until_star_slash length] in *; try discriminate; try lia.
  destruct r as [|y r']; [discriminate|].
  destruct (N.eqb x 42 && N.eqb y 47); [inversion H; reflexivity|].
  apply cons1_some in H as [a1 [H _]]. apply IH in H; [exact H|cbn [length] in *; lia].
Qed.

(* a doubling-aware quote token [q ... q] where the stripper pairs the quotes without doubling (backtick):
   the same characters are covered by one or more adjacent matches *)
Lemma quoted_first q : forall s a b, quoted q s = Some (a, b) ->
  exists r1, until_ch q s = Some r1 /\
    (b = r1 \/ exists r2 a', r1 = q :: r2 /\ quoted q r2 = Some (a', b)).
Proof.
  induction s as [|c r IH]; intros a b; cbn [quoted until_ch]; [discriminate|].
  destruct (N.eqb_spec c q) as [->|Hn].
  - intro H. exists r. split; [reflexivity|].
    destruct r as [|c2 r2]; [inversion H; auto|].
    destruct (N.eqb_spec c2 q) as [->|Hn2]; [|inversion H; auto].
    apply cons1_some in H as [a1 [H _]]. apply cons1_some in H as [a2 [H _]]. right. eauto.
  - intro H. apply cons1_some in H as [a1 [H _]]. apply IH in H. exact H.
Qed.

Lemma match_backtick r r1 : until_ch 96 r = Some r1 -> match_quoted (96 :: r) = Some r1.
Proof. intro H. unfold match_quoted, quoted_alts. cbn [first_alt alt_quote alt_delim N.eqb Pos.eqb]. rewrite H. reflexivity. Qed.

Lemma backtick_spans : forall n r a b, (length r <= n)%nat -> quoted 96 r = Some (a, b) ->
  exists k, strip_quoted (96 :: r) = 32 :: repeat 32 k ++ strip_quoted b.
Proof.
  induction n as [|n IH]; intros r a b Hn H.
  - destruct r; [discriminate|cbn [length] in Hn; lia].
  - destruct (quoted_first 96 r a b H) as [r1 [Hu [->|[r2 [a' [-> Hq]]]]]].
    + exists O. rewrite strip_quoted_eq, (match_backtick _ _ Hu). reflexivity.
    + pose proof (until_ch_len _ _ _ Hu) as Hl. cbn [length] in Hl.
      destruct (IH r2 a' b ltac:(lia) Hq) as [k Hk].
      exists (S k). rewrite strip_quoted_eq, (match_backtick _ _ Hu), Hk. reflexivity.
Qed.

(* ================================================================ the simulation relation *)
Definition sp_ch (c : N) : bool := sq_space c || N.eqb c 65279.

(* tokens whose characters the stripper copies *)
Definition live_ok (t : tok) : bool :=
  match t with
  | TSpace w => forallb sp_ch w
  | TSemi => true
  | TWord w => match w with [] => false | _ => forallb idchar w end
  | TVar w false => match w with c :: w' => var_start c && forallb (fun x => idchar x || N.eqb x 58) w' | [] => false end
  | TOther c => negb (N.eqb c 59) && negb (sq_space_start c) && negb (idchar c) && negb (var_start c)
  | _ => false
  end.
(* tokens the stripper replaces by blanks *)
Definition dead_ok (t : tok) : bool :=
  match t with TComment _ true | TStr _ _ | TBr _ => true | _ => false end.
(* tokens that end the text for SQLite *)
Definition end_ok (t : tok) : bool :=
  match t with TIllegal _ | TComment _ false => true | _ => false end.

(* after a word the stripped text does not continue with a \w character *)
Definition word_ok (t : tok) (s : str) : Prop :=
  match t with
  | TWord _ => match s with [] => True | h :: _ => re_word h = false end
  | _ => True
  end.

Inductive sim : str -> list tok -> Prop :=
| sim_nil : sim [] []
| sim_live t s ts : live_ok t = true -> word_ok t s -> sim s ts -> sim (tok_text t ++ s) (t :: ts)
| sim_dead t k s ts : dead_ok t = true -> sim s ts -> sim (32 :: repeat 32 k ++ s) (t :: ts)
| sim_end t s : end_ok t = true -> sim s [t].

(* ---------------------------------------------------------------- one token *)
Definition word_next (t : tok) (r : str) : Prop :=
  match t with
  | TWord _ => match r with [] => True | h :: _ => idchar h = false end
  | _ => True
  end.

Lemma word_next_ok t r : word_next t r -> word_ok t (strip_quoted r).
Proof.
  destruct t; cbn [word_next word_ok]; auto.
  destruct r as [|h r']; [intros _; rewrite strip_quoted_nil; exact I|].
  intro Hh. destruct (strip_quoted (h :: r')) as [|x t] eqn:E; [exact I|].
  destruct (strip_head _ _ _ _ E) as [->| ->].
  - destruct (re_word h) eqn:W; [apply re_word_idchar in W; congruence|reflexivity].
  - apply blank_facts.
Qed.

Lemma forallb_imp {A} (p q : A -> bool) l : (forall x, p x = true -> q x = true) -> forallb p l = true -> forallb q l = true.
Proof. intros H. rewrite !forallb_forall. auto. Qed.

Lemma var_body_name : forall n s named a b nm, (length s <= n)%nat -> var_body s named = (a, b, VName nm) ->
  forallb (fun x => idchar x || N.eqb x 58) a = true.
Proof.
  induction n as [|n IH]; intros s named a b nm Hn H; destruct s as [|c r]; cbn [var_body length] in *;
    try (inversion H; reflexivity); try lia.
  destruct (idchar c) eqn:Ic.
  - unfold vcons in H. destruct (var_body r true) as [[a' b'] st'] eqn:E. inversion H; subst.
    cbn [forallb]. rewrite Ic. cbn [orb andb]. eapply IH; [|exact E]. lia.
  - destruct (N.eqb c 40 && named).
    + unfold vcons in H. destruct (var_paren r) as [[a' b'] st'] eqn:E. inversion H; subst.
      unfold var_paren in E. destruct (span _ r) as [x y]. destruct y as [|h y']; [inversion E|].
      destruct h as [|p]; [inversion E|]. do 6 (destruct p; try (inversion E; fail)).
    + destruct (N.eqb_spec c 58) as [->|Hn58]; [|inversion H; reflexivity].
      destruct r as [|d r']; [inversion H; reflexivity|].
      destruct (N.eqb_spec d 58) as [->|Hd].
      * unfold vcons in H. destruct (var_body r' named) as [[a' b'] st'] eqn:E. inversion H; subst.
        cbn [forallb]. cbn [N.eqb Pos.eqb]. rewrite !orb_true_r. cbn [andb]. eapply IH; [|exact E]. cbn [length] in *; lia.
      * assert ((@nil N, 58 :: d :: r', VName named) = (a, b, VName nm) -> forallb (fun x => idchar x || N.eqb x 58) a = true) as K
          by (intro H'; inversion H'; reflexivity).
        destruct d as [|p]; [exact (K H)|].
        do 6 (destruct p; try exact (K H)). contradiction.
Qed.

Inductive step (s : str) (t : tok) (r : str) : Prop :=
| step_live : live_ok t = true -> strip_quoted s = tok_text t ++ strip_quoted r -> word_next t r -> step s t r
| step_dead k : dead_ok t = true -> strip_quoted s = 32 :: repeat 32 k ++ strip_quoted r -> step s t r
| step_end : end_ok t = true -> r = [] -> step s t r.

Lemma strip_copy c r : match_quoted (c :: r) = None -> strip_quoted (c :: r) = c :: strip_quoted r.
Proof. intro H. rewrite strip_quoted_eq, H. reflexivity. Qed.
Lemma strip_blank s r : match_quoted s = Some r -> s <> [] -> strip_quoted s = 32 :: strip_quoted r.
Proof. intros H Hs. rewrite strip_quoted_eq, H. destruct s; [contradiction|reflexivity]. Qed.

Lemma lex1_step s t r : lex1 s = Some (t, r) -> tcl_paren t = false -> step s t r.
Proof.
  destruct s as [|c r0]; [discriminate|]. unfold lex1.
  destruct (sq_space_start c) eqn:E1.
  { (* white space *)
    destruct (span sq_space r0) as [a b] eqn:E. intros H _; inversion H; subst. clear H.
    pose proof (span_all _ _ _ _ E) as Ha. apply span_app in E. subst r0.
    assert (forallb sp_ch (c :: a) = true) as Hsp.
    { cbn [forallb]. unfold sp_ch at 1. rewrite (sq_space_start_space _ E1). cbn [orb andb].
      eapply forallb_imp; [|exact Ha]. intros x Hx. unfold sp_ch. rewrite Hx. reflexivity. }
    apply step_live; [exact Hsp| |exact I].
    cbn [tok_text]. change (c :: a ++ r) with ((c :: a) ++ r). apply strip_inert_prefix.
    cbn [forallb]. destruct (sq_space_facts c (sq_space_start_space _ E1)) as (-> & _). cbn [negb andb].
    eapply forallb_imp; [|exact Ha]. intros x Hx. destruct (sq_space_facts x Hx) as (-> & _). reflexivity. }
  destruct (N.eqb_spec c 45) as [->|N45].
  { destruct r0 as [|d r'].
    - intros H _; inversion H; subst. apply step_live; [reflexivity| |exact I]. apply strip_copy. reflexivity.
    - destruct (N.eqb_spec d 45) as [->|Nd].
      + destruct (to_eol r') as [a b] eqn:E.
        pose proof (to_eol_line_rest r') as K. rewrite E in K. cbn [snd] in K.
        intros H _; inversion H; subst. clear H.
        apply (step_dead _ _ _ O); [reflexivity|]. cbn [repeat app].
        apply strip_blank; [|discriminate].
        unfold match_quoted, quoted_alts. cbn [first_alt alt_quote alt_delim alt_line N.eqb Pos.eqb andb]. congruence.
      + intros H _; inversion H; subst. apply step_live; [reflexivity| |exact I]. apply strip_copy.
        unfold match_quoted, quoted_alts. cbn [first_alt alt_quote alt_delim alt_line alt_block N.eqb Pos.eqb].
        apply N.eqb_neq in Nd. rewrite Nd. reflexivity. }
  destruct (N.eqb_spec c 47) as [->|N47].
  { assert (forall r1, match_quoted (47 :: r1) = match r1 with d :: r2 => if N.eqb d 42 then until_star_slash r2 else None | [] => None end) as MQ.
    { intro r1. unfold match_quoted, quoted_alts. cbn [first_alt alt_quote alt_delim alt_line alt_block N.eqb Pos.eqb].
      destruct r1 as [|d r2]; [reflexivity|]. cbn [andb]. destruct (N.eqb d 42); [destruct (until_star_slash r2)|]; reflexivity. }
    destruct r0 as [|d [|e r'']].
    - intros H _; inversion H; subst. apply step_live; [reflexivity| |exact I]. apply strip_copy. rewrite MQ. reflexivity.
    - intros H _; inversion H; subst. apply step_live; [reflexivity| |exact I]. apply strip_copy. rewrite MQ.
      destruct (N.eqb d 42); reflexivity.
    - destruct (N.eqb_spec d 42) as [->|Nd].
      + destruct (block_end (e :: r'')) as [[a b]|] eqn:E.
        * intros H _; inversion H; subst. apply (step_dead _ _ _ O); [reflexivity|]. cbn [repeat app].
          apply strip_blank; [|discriminate]. rewrite MQ. cbn [N.eqb Pos.eqb].
          eapply (block_end_uss (length (e :: r''))); [lia|exact E].
        * intros H _; inversion H; subst. apply step_end; reflexivity.
      + intros H _; inversion H; subst. apply step_live; [reflexivity| |exact I]. apply strip_copy. rewrite MQ.
        apply N.eqb_neq in Nd. rewrite Nd. reflexivity. }
  destruct (is_quote c) eqn:Q.
  { destruct (quoted c r0) as [[a b]|] eqn:E; [|intros H _; inversion H; subst; apply step_end; reflexivity].
    intros H _; inversion H; subst. clear H.
    unfold is_quote, mem_ch in Q. cbn [existsb] in Q. rewrite orb_false_r in Q.
    apply orb_true_iff in Q as [Q|Q]; [|apply orb_true_iff in Q as [Q|Q]]; apply N.eqb_eq in Q; subst c.
    - apply (step_dead _ _ _ O); [reflexivity|]. cbn [repeat app]. apply strip_blank; [|discriminate].
      unfold match_quoted, quoted_alts. cbn [first_alt alt_quote N.eqb Pos.eqb].
      rewrite (quoted_groups 39 (length r0) r0 a r); [reflexivity|lia|exact E].
    - apply (step_dead _ _ _ O); [reflexivity|]. cbn [repeat app]. apply strip_blank; [|discriminate].
      unfold match_quoted, quoted_alts. cbn [first_alt alt_quote N.eqb Pos.eqb].
      rewrite (quoted_groups 34 (length r0) r0 a r); [reflexivity|lia|exact E].
    - destruct (backtick_spans (length r0) r0 a r ltac:(lia) E) as [k Hk].
      apply (step_dead _ _ _ k); [reflexivity|exact Hk]. }
  destruct (N.eqb_spec c 91) as [->|N91].
  { destruct (until 93 r0) as [[a b]|] eqn:E; [|intros H _; inversion H; subst; apply step_end; reflexivity].
    intros H _; inversion H; subst. apply (step_dead _ _ _ O); [reflexivity|]. cbn [repeat app].
    apply strip_blank; [|discriminate].
    unfold match_quoted, quoted_alts. cbn [first_alt alt_quote alt_delim N.eqb Pos.eqb].
    rewrite (until_until_ch _ _ _ _ E). reflexivity. }
  assert (opener c = false) as Hop.
  { unfold opener, mem_ch. cbn [existsb]. unfold is_quote, mem_ch in Q. cbn [existsb] in Q.
    apply orb_false_elim in Q as [Q1 Q]. apply orb_false_elim in Q as [Q2 Q]. apply orb_false_elim in Q as [Q3 _].
    rewrite Q1, Q2, Q3. apply N.eqb_neq in N45, N47, N91. rewrite N45, N47, N91. reflexivity. }
  destruct (N.eqb_spec c 59) as [->|N59].
  { intros H _; inversion H; subst. apply step_live; [reflexivity| |exact I]. apply strip_copy, match_quoted_inert. reflexivity. }
  destruct (var_start c) eqn:V.
  { destruct (var_body r0 false) as [[a b] st] eqn:E.
    destruct st as [[|]| |]; intros H Hp; inversion H; subst; clear H; try discriminate; try (apply step_end; reflexivity).
    pose proof (var_body_name (length r0) r0 false a r true ltac:(lia) E) as Ha.
    apply (var_body_app (length r0)) in E; [|lia]. subst r0.
    apply step_live; [cbn [live_ok]; rewrite V, Ha; reflexivity| |exact I].
    cbn [tok_text]. change (c :: a ++ r) with ((c :: a) ++ r). apply strip_inert_prefix.
    cbn [forallb]. rewrite Hop. cbn [negb andb].
    eapply forallb_imp; [|exact Ha]. intros x Hx. apply orb_true_iff in Hx as [Hx|Hx].
    - destruct (idchar_facts x Hx) as (-> & _). reflexivity.
    - apply N.eqb_eq in Hx. subst x. reflexivity. }
  destruct (N.eqb_spec c 65279) as [->|NB].
  { intros H _; inversion H; subst. apply step_live; [reflexivity| |exact I]. apply strip_copy, match_quoted_inert. reflexivity. }
  destruct (idchar c) eqn:Ic.
  { destruct (span idchar r0) as [a b] eqn:E. intros H _; inversion H; subst. clear H.
    pose proof (span_all _ _ _ _ E) as Ha. pose proof (span_stop _ _ _ _ E) as Hs. apply span_app in E. subst r0.
    apply step_live; [cbn [live_ok forallb]; rewrite Ic, Ha; reflexivity| |exact Hs].
    cbn [tok_text]. change (c :: a ++ r) with ((c :: a) ++ r). apply strip_inert_prefix.
    cbn [forallb]. rewrite Hop. cbn [negb andb].
    eapply forallb_imp; [|exact Ha]. intros x Hx. destruct (idchar_facts x Hx) as (-> & _). reflexivity. }
  intros H _; inversion H; subst. apply step_live; [|apply strip_copy, match_quoted_inert, Hop|exact I].
  cbn [live_ok]. apply N.eqb_neq in N59. rewrite N59, E1, Ic, V. reflexivity.
Qed.

(* ---------------------------------------------------------------- the whole text *)
Lemma strip_sim : forall n sql, (length sql <= n)%nat -> has_tcl_paren (sql_lex sql) = false ->
  sim (strip_quoted sql) (sql_lex sql).
Proof.
  induction n as [|n IH]; intros sql Hn; rewrite sql_lex_eq.
  - destruct sql; [intros _; exact sim_nil|cbn [length] in Hn; lia].
  - destruct (lex1 sql) as [[t r]|] eqn:E.
    + unfold has_tcl_paren. cbn [existsb]. intro H. apply orb_false_elim in H as [Ht Hr].
      pose proof (lex1_len _ _ _ E) as Hl.
      destruct (lex1_step _ _ _ E Ht) as [Hlive Hs Hw|k Hd Hs|He ->].
      * rewrite Hs. apply sim_live; [exact Hlive|apply word_next_ok, Hw|apply IH; [lia|exact Hr]].
      * rewrite Hs. apply sim_dead; [exact Hd|apply IH; [lia|exact Hr]].
      * rewrite sql_lex_eq. cbn [lex1]. apply sim_end, He.
    + apply lex1_none in E. subst. intros _. exact sim_nil.
Qed.
Lemma strip_simulates sql : has_tcl_paren (sql_lex sql) = false -> sim (strip_quoted sql) (sql_lex sql).
Proof. apply (strip_sim (length sql)). lia. Qed.

(* ================================================================ consequences *)
(* the white space of the text is SQLite's: every character Python regards as white space starts an SQLite
   white-space token (TAB LF FF CR SPACE) *)
Definition plain_ws (sql : str) : Prop := forall c, In c sql -> py_space c = true -> sq_space_start c = true.
Definition plain_toks (ts : list tok) : Prop :=
  forall t c, In t ts -> In c (tok_text t) -> py_space c = true -> sq_space_start c = true.

Lemma plain_ws_toks sql : plain_ws sql -> plain_toks (sql_lex sql).
Proof.
  intros H t c Ht Hc. apply H. rewrite <- (sql_lex_lossless sql). apply in_flat_map. eauto.
Qed.
Lemma plain_toks_tail t ts : plain_toks (t :: ts) -> plain_toks ts.
Proof. intros H t' c Ht. apply H. right. exact Ht. Qed.

Lemma tail_ok_app a b : tail_ok (a ++ b) -> tail_ok a /\ tail_ok b.
Proof. unfold tail_ok. intro H. split; intros c Hc; apply H, in_or_app; auto. Qed.

(* Lemma B: after the first semicolon of the stripped text only semicolons and white space => the tokens there are quiet *)
Lemma sim_tail_quiet s ts : sim s ts -> tail_ok s -> plain_toks ts -> forallb quiet ts = true.
Proof.
  induction 1 as [|t s ts Hl Hw Hs IH|t k s ts Hd Hs IH|t s He]; intros Ht Hp.
  - reflexivity.
  - apply tail_ok_app in Ht as [Ht1 Ht2]. cbn [forallb]. rewrite (IH Ht2 (plain_toks_tail _ _ Hp)), andb_true_r.
    assert (forall c, In c (tok_text t) -> sq_space_start c = true \/ c = 59) as Hc.
    { intros c Hc. destruct (Ht1 c Hc) as [->|Hsp]; [auto|]. left. apply (Hp t c); [left; reflexivity|exact Hc|exact Hsp]. }
    destruct t as [w|w cl|q w|w| |w|w p|c|w]; cbn [live_ok] in Hl; try discriminate; try reflexivity; exfalso.
    + (* word *) destruct w as [|c w]; [discriminate|]. cbn [forallb] in Hl. apply andb_true_iff in Hl as [Hi _].
      destruct (idchar_facts c Hi) as (_ & H59 & Hss). destruct (Hc c (or_introl eq_refl)) as [H| ->]; [congruence|discriminate].
    + (* variable *) destruct p; [discriminate|]. destruct w as [|c w]; [discriminate|]. apply andb_true_iff in Hl as [Hv _].
      destruct (var_start_facts c Hv) as (_ & _ & _ & H59 & Hss).
      destruct (Hc c (or_introl eq_refl)) as [H| ->]; [congruence|discriminate].
    + (* other *) apply andb_true_iff in Hl as [Hl _]. apply andb_true_iff in Hl as [Hl _]. apply andb_true_iff in Hl as [H59 Hss].
      apply negb_true_iff in H59, Hss. destruct (Hc c (or_introl eq_refl)) as [H| ->]; [congruence|discriminate].
  - cbn [forallb]. rewrite IH; [| |exact (plain_toks_tail _ _ Hp)].
    + rewrite andb_true_r. destruct t as [w|w [|]|q w|w| |w|w p|c|w]; cbn [dead_ok] in Hd; try discriminate; reflexivity.
    + intros c Hc. apply Ht. right. apply in_or_app. right. exact Hc.
  - cbn [forallb]. rewrite andb_true_r. destruct t as [w|w [|]|q w|w| |w|w p|c|w]; cbn [end_ok] in He; try discriminate; reflexivity.
Qed.

Lemma after_first_app c w s : ~ In c w -> after_first c (w ++ s) = after_first c s.
Proof.
  induction w as [|x w IH]; cbn [app after_first]; [reflexivity|].
  intro H. destruct (N.eqb_spec x c) as [->|_]; [exfalso; apply H; left; reflexivity|].
  apply IH. intro Hc. apply H. right. exact Hc.
Qed.

Lemma live_no_semi t : live_ok t = true -> is_semi t = false -> ~ In 59 (tok_text t).
Proof.
  destruct t as [w|w cl|q w|w| |w|w p|c|w]; cbn [live_ok is_semi tok_text]; try discriminate; intros Hl _ Hin.
  - rewrite forallb_forall in Hl. specialize (Hl 59 Hin). vm_compute in Hl. discriminate.
  - destruct w as [|c w]; [discriminate|]. rewrite forallb_forall in Hl. specialize (Hl 59 Hin). vm_compute in Hl. discriminate.
  - destruct p; [discriminate|]. destruct w as [|c w]; [discriminate|]. apply andb_true_iff in Hl as [Hv Hw].
    destruct Hin as [->|Hin]; [vm_compute in Hv; discriminate|].
    rewrite forallb_forall in Hw. specialize (Hw 59 Hin). vm_compute in Hw. discriminate.
  - destruct Hin as [->|[]]. vm_compute in Hl. discriminate.
Qed.

Lemma repeat_no (c : N) k (x : N) : x <> c -> ~ In x (repeat c k).
Proof. intros Hn Hin. apply repeat_spec in Hin. contradiction. Qed.

(* Lemma C *)
Lemma sim_after_semi s ts : sim s ts -> shape s -> plain_toks ts ->
  match after_semi ts with None => True | Some post => forallb quiet post = true end.
Proof.
  induction 1 as [|t s ts Hl Hw Hs IH|t k s ts Hd Hs IH|t s He]; intros Hsh Hp.
  - exact I.
  - cbn [after_semi]. destruct (is_semi t) eqn:S.
    + destruct t; try discriminate. cbn [tok_text app] in Hsh. unfold shape in Hsh. cbn [after_first N.eqb Pos.eqb] in Hsh.
      eapply sim_tail_quiet; [exact Hs|exact Hsh|exact (plain_toks_tail _ _ Hp)].
    + apply IH; [|exact (plain_toks_tail _ _ Hp)]. unfold shape in *.
      rewrite after_first_app in Hsh by (apply live_no_semi; assumption). exact Hsh.
  - cbn [after_semi].
    assert (is_semi t = false) as -> by (destruct t as [w|w [|]|q w|w| |w|w p|c|w]; cbn [dead_ok] in Hd; try discriminate; reflexivity).
    apply IH; [|exact (plain_toks_tail _ _ Hp)]. unfold shape in *.
    change (32 :: repeat 32 k ++ s) with ((32 :: repeat 32 k) ++ s) in Hsh.
    rewrite after_first_app in Hsh; [exact Hsh|].
    intros [H|H]; [discriminate|]. revert H. apply repeat_no. discriminate.
  - cbn [after_semi].
    assert (is_semi t = false) as -> by (destruct t as [w|w [|]|q w|w| |w|w p|c|w]; cbn [end_ok] in He; try discriminate; reflexivity).
    exact I.
Qed.

(* ---------------------------------------------------------------- the leading keyword *)
Lemma skip_blankish w s x : forallb (fun c => negb (kw_start c)) w = true ->
  match_kw (skip_ws (w ++ s)) = Some x -> match_kw (skip_ws s) = Some x.
Proof.
  induction w as [|c w IH]; cbn [forallb app]; [auto|].
  intro H. apply andb_true_iff in H as [Hc Hw]. apply negb_true_iff in Hc.
  unfold skip_ws. cbn [lstrip_p]. destruct (py_space c).
  - apply IH, Hw.
  - cbn [match_kw]. rewrite Hc. discriminate.
Qed.

Lemma span_p_app_stop p w s : match s with [] => True | h :: _ => p h = false end ->
  fst (span_p p (w ++ s)) = fst (span_p p w).
Proof.
  intro Hs. induction w as [|c w IH]; cbn [app span_p].
  - destruct s as [|h s']; [reflexivity|]. cbn [span_p]. rewrite Hs. reflexivity.
  - destruct (p c); [|reflexivity]. destruct (span_p p (w ++ s)) as [a b]. destruct (span_p p w) as [a' b'].
    cbn [fst] in *. congruence.
Qed.

Definition leading (P : str -> Prop) (ts : list tok) : Prop :=
  match first_live ts with
  | Some (TWord w) => P (fst (span_p re_word w))
  | Some (TIllegal _) | None => True
  | Some _ => False
  end.

Lemma sim_leading s ts : sim s ts -> plain_toks ts -> forall kw rest,
  match_kw (skip_ws s) = Some (kw, rest) -> leading (fun k => kw = k) ts.
Proof.
  unfold leading.
  induction 1 as [|t s ts Hl Hw Hs IH|t k s ts Hd Hs IH|t s He]; intros Hp kw rest Hm.
  - discriminate.
  - assert (forall c, In c (tok_text t) -> py_space c = true -> sq_space_start c = true) as Hc
      by (intros c Hc; apply (Hp t c); [left; reflexivity|exact Hc]).
    destruct t as [w|w cl|q w|w| |w|w p|c|w]; cbn [live_ok] in Hl; try discriminate; cbn [first_live skippable tok_text] in *.
    + (* white space *) apply (IH (plain_toks_tail _ _ Hp) kw rest). eapply skip_blankish; [|exact Hm].
      eapply forallb_imp; [|exact Hl]. intros x Hx. unfold sp_ch in Hx. apply orb_true_iff in Hx as [Hx|Hx].
      * destruct (sq_space_facts x Hx) as (_ & _ & -> & _). reflexivity.
      * apply N.eqb_eq in Hx. subst x. reflexivity.
    (* the semicolon case is closed by computation: it is neither white space nor the start of a keyword *)
    + (* word *) destruct w as [|c w]; [discriminate|]. cbn [forallb] in Hl. apply andb_true_iff in Hl as [Hi _].
      destruct (idchar_facts c Hi) as (_ & _ & Hss).
      assert (py_space c = false) as Hsp.
      { destruct (py_space c) eqn:E; [|reflexivity]. rewrite (Hc c (or_introl eq_refl) E) in Hss. discriminate. }
      unfold skip_ws in Hm. cbn [app lstrip_p] in Hm. rewrite Hsp in Hm. cbn [match_kw] in Hm.
      destruct (kw_start c) eqn:K; [|discriminate].
      destruct (kw_start_facts c K) as (Hrw & _).
      pose proof (span_p_app_stop re_word w s) as Hsp2.
      destruct (span_p re_word (w ++ s)) as [a b]. inversion Hm; subst.
      cbn [span_p]. rewrite Hrw. destruct (span_p re_word w) as [a' b']. cbn [fst] in *.
      f_equal. apply Hsp2. exact Hw.
    + (* variable *) destruct p; [discriminate|]. destruct w as [|c w]; [discriminate|]. apply andb_true_iff in Hl as [Hv _].
      destruct (var_start_facts c Hv) as (_ & Hsp & K & _).
      unfold skip_ws in Hm. cbn [app lstrip_p] in Hm. rewrite Hsp in Hm. cbn [match_kw] in Hm. rewrite K in Hm. discriminate.
    + (* other *) apply andb_true_iff in Hl as [Hl _]. apply andb_true_iff in Hl as [Hl Hi]. apply andb_true_iff in Hl as [_ Hss].
      apply negb_true_iff in Hi, Hss.
      assert (py_space c = false) as Hsp.
      { destruct (py_space c) eqn:E; [|reflexivity]. rewrite (Hc c (or_introl eq_refl) E) in Hss. discriminate. }
      unfold skip_ws in Hm. cbn [app lstrip_p] in Hm. rewrite Hsp in Hm. cbn [match_kw] in Hm.
      destruct (kw_start c) eqn:K; [|discriminate]. destruct (kw_start_facts c K) as (_ & Hi' & _). congruence.
  - assert (skippable t = true) as Hsk
      by (destruct t as [w|w [|]|q w|w| |w|w p|c|w]; cbn [dead_ok] in Hd; try discriminate; reflexivity).
    cbn [first_live]. rewrite Hsk. apply (IH (plain_toks_tail _ _ Hp) kw rest).
    change (32 :: repeat 32 k ++ s) with ((32 :: repeat 32 k) ++ s) in Hm.
    eapply skip_blankish; [|exact Hm]. cbn [forallb]. apply andb_true_iff. split; [reflexivity|].
    apply forallb_forall. intros x Hx. apply repeat_spec in Hx. subst x. reflexivity.
  - destruct t as [w|w [|]|q w|w| |w|w p|c|w]; cbn [end_ok] in He; try discriminate; exact I.
Qed.

(* SQLite's keyword lookup is ASCII-only: for a word of ASCII letters, digits and "_" Python's \w-prefix is the
   whole word and str.upper is the ASCII upper-casing *)
Lemma ascii_word_facts c : ascii_alnum c || N.eqb c 95 = true -> re_word c = true /\ py_upper_ch c = [ascii_upper_ch c].
Proof.
  intro H.
  assert (c < 128) as Hc.
  { unfold ascii_alnum in H. repeat (apply orb_true_iff in H; destruct H as [H|H]);
      try (apply andb_true_iff in H as [_ H]; apply N.leb_le in H; lia). apply N.eqb_eq in H. lia. }
  pose proof (small_cases (fun c => implb (ascii_alnum c || N.eqb c 95)
     (re_word c && match py_upper_ch c with [x] => N.eqb x (ascii_upper_ch c) | _ => false end))
     ltac:(vm_compute; reflexivity) c Hc) as K. cbv beta in K. rewrite H in K. cbn [implb] in K.
  apply andb_true_iff in K as [K1 K2]. split; [exact K1|].
  destruct (py_upper_ch c) as [|x [|y l]]; try discriminate. apply N.eqb_eq in K2. congruence.
Qed.
Lemma ascii_word_kw w : ascii_word w = true -> fst (span_p re_word w) = w /\ py_upper w = ascii_upper w.
Proof.
  induction w as [|c w IH]; cbn [ascii_word forallb]; [intros _; split; reflexivity|].
  intro H. apply andb_true_iff in H as [Hc Hw]. destruct (IH Hw) as [I1 I2].
  destruct (ascii_word_facts c Hc) as [R U]. split.
  - cbn [span_p]. rewrite R. destruct (span_p re_word w) as [a b]. cbn [fst] in *. congruence.
  - unfold py_upper in *. cbn [flat_map]. rewrite U, I2. reflexivity.
Qed.

Section Dialect.
  Variable ero ewr : list str.

  (* (2) the leading keyword *)
  Lemma leading_keyword sql :
    plain_ws sql -> has_tcl_paren (sql_lex sql) = false ->
    is_readonly_sql ero ewr sql = Some true -> leading (fun k => ro_word ero (py_upper k)) (sql_lex sql).
  Proof.
    intros Hp Ht Hr. apply is_readonly_true in Hr as [_ Hc].
    apply classify_true_kw in Hc as (kw & rest & Hm & Hro).
    pose proof (sim_leading _ _ (strip_simulates sql Ht) (plain_ws_toks _ Hp) kw rest Hm) as H.
    unfold leading in *. destruct (first_live (sql_lex sql)) as [[w|w cl|q w|w| |w|w p|c|w]|]; auto. subst kw. exact Hro.
  Qed.

  (* in SQLite's own terms: if the leading word can be a keyword at all, its upper-case form is read-only *)
  Lemma leading_keyword_ascii sql w :
    plain_ws sql -> has_tcl_paren (sql_lex sql) = false ->
    is_readonly_sql ero ewr sql = Some true ->
    first_live (sql_lex sql) = Some (TWord w) -> ascii_word w = true -> ro_word ero (ascii_upper w).
  Proof.
    intros Hp Ht Hr Hf Ha. pose proof (leading_keyword sql Hp Ht Hr) as H. unfold leading in H. rewrite Hf in H.
    destruct (ascii_word_kw w Ha) as [-> <-] in H. exact H.
  Qed.

  (* (1) at most one live statement *)
  Lemma single_statement sql :
    plain_ws sql -> has_tcl_paren (sql_lex sql) = false ->
    is_readonly_sql ero ewr sql = Some true -> (live_statements (sql_lex sql) <= 1)%nat.
  Proof.
    intros Hp Ht Hr. apply is_readonly_true in Hr as [Hm _].
    apply live_statements_le1. eapply sim_after_semi.
    - apply strip_simulates, Ht.
    - apply multi_false_shape, Hm.
    - apply plain_ws_toks, Hp.
  Qed.

  (* (3) the contrapositives: what the reference tokenizer sees as several statements, or as a text that does
     not begin with a read-only keyword, is never classified read-only *)
  Lemma several_statements_not_readonly sql :
    plain_ws sql -> has_tcl_paren (sql_lex sql) = false ->
    (2 <= live_statements (sql_lex sql))%nat -> is_readonly_sql ero ewr sql <> Some true.
  Proof. intros Hp Ht H2 Hr. pose proof (single_statement sql Hp Ht Hr). lia. Qed.

  Definition unrecognised_first (t : tok) : Prop :=
    match t with
    | TWord w => ~ ro_word ero (py_upper (fst (span_p re_word w)))
    | TIllegal _ => False
    | _ => True          (* a semicolon, a variable, an operator or any other character *)
    end.
  Lemma unrecognised_first_not_readonly sql t :
    plain_ws sql -> has_tcl_paren (sql_lex sql) = false ->
    first_live (sql_lex sql) = Some t -> unrecognised_first t -> is_readonly_sql ero ewr sql <> Some true.
  Proof.
    intros Hp Ht Hf Hu Hr. pose proof (leading_keyword sql Hp Ht Hr) as H. unfold leading in H. rewrite Hf in H.
    destruct t; cbn [unrecognised_first] in Hu; auto.
  Qed.
End Dialect.

(* ================================================================ the sqlite3 handler (as repaired) *)
Definition plain_wsb (sql : str) : bool := forallb (fun c => implb (py_space c) (sq_space_start c)) sql.
Lemma plain_wsb_spec sql : plain_wsb sql = true -> plain_ws sql.
Proof.
  unfold plain_wsb, plain_ws. rewrite forallb_forall. intros H c Hc Hs. specialize (H c Hc). rewrite Hs in H. exact H.
Qed.

(* the guard _TCL_VARIABLE over-approximates SQLite's $name(...) token: if the search finds nothing, the
   reference tokenizer produces no such token *)
Lemma tcl_idc_idchar c : tcl_idc c = idchar c.
Proof.
  unfold tcl_idc, idchar, ascii_alnum.
  destruct (N.leb 65 c && N.leb c 90), (N.leb 97 c && N.leb c 122), (N.leb 48 c && N.leb c 57); reflexivity.
Qed.
Lemma tcl_first_var_start c : tcl_first c = var_start c.
Proof. reflexivity. Qed.

Lemma var_body_paren_tcl : forall n s named a b, (length s <= n)%nat -> var_body s named = (a, b, VParen) -> tcl_body s = true.
Proof.
  induction n as [|n IH]; intros s named a b Hn H; destruct s as [|c r]; cbn [var_body tcl_body length] in *;
    try (inversion H; fail); try lia.
  rewrite tcl_idc_idchar.
  destruct (N.eqb_spec c 40) as [->|N40]; [reflexivity|].
  destruct (idchar c) eqn:Ic.
  - unfold vcons in H. destruct (var_body r true) as [[a' b'] st'] eqn:E. inversion H; subst.
    eapply IH; [|exact E]. lia.
  - cbn [andb] in H.
    destruct (N.eqb_spec c 58) as [->|N58]; [|inversion H].
    destruct r as [|d r']; [inversion H|].
    destruct (N.eqb_spec d 58) as [->|Nd].
    + unfold vcons in H. destruct (var_body r' named) as [[a' b'] st'] eqn:E. inversion H; subst.
      eapply IH; [|exact E]. cbn [length] in *; lia.
    + exfalso. destruct d as [|p]; [inversion H|]. do 6 (destruct p; try (inversion H; fail)). contradiction.
Qed.

Lemma lex1_paren_tcl s t r : lex1 s = Some (t, r) -> tcl_paren t = true -> tcl_at s = true.
Proof.
  destruct s as [|c r0]; [discriminate|]. unfold lex1.
  destruct (sq_space_start c); [destruct (span sq_space r0); intros H; inversion H; subst; discriminate|].
  destruct (N.eqb c 45).
  { destruct r0 as [|d r']; [intros H; inversion H; subst; discriminate|].
    destruct (N.eqb d 45); [destruct (to_eol r')|]; intros H; inversion H; subst; discriminate. }
  destruct (N.eqb c 47).
  { destruct r0 as [|d [|e r'']]; try (intros H; inversion H; subst; discriminate).
    destruct (N.eqb d 42); [destruct (block_end (e :: r'')) as [[? ?]|]|]; intros H; inversion H; subst; discriminate. }
  destruct (is_quote c); [destruct (quoted c r0) as [[? ?]|]; intros H; inversion H; subst; discriminate|].
  destruct (N.eqb c 91); [destruct (until 93 r0) as [[? ?]|]; intros H; inversion H; subst; discriminate|].
  destruct (N.eqb c 59); [intros H; inversion H; subst; discriminate|].
  destruct (var_start c) eqn:V.
  { destruct (var_body r0 false) as [[a b] st] eqn:E.
    destruct st as [[|]| |]; intros H; inversion H; subst; try discriminate. intros _.
    cbn [tcl_at]. rewrite tcl_first_var_start, V. cbn [andb].
    eapply (var_body_paren_tcl (length r0)); [lia|exact E]. }
  destruct (N.eqb c 65279); [intros H; inversion H; subst; discriminate|].
  destruct (idchar c); [destruct (span idchar r0)|]; intros H; inversion H; subst; discriminate.
Qed.

Lemma tcl_search_suffix p r : tcl_search (p ++ r) = false -> tcl_search r = false.
Proof.
  induction p as [|c p IH]; cbn [app]; [auto|]. cbn [tcl_search]. intro H. apply orb_false_elim in H as [_ H]. apply IH, H.
Qed.

Lemma tcl_search_no_paren : forall n s, (length s <= n)%nat -> tcl_search s = false -> has_tcl_paren (sql_lex s) = false.
Proof.
  induction n as [|n IH]; intros s Hn Hs; rewrite sql_lex_eq.
  - destruct s; [reflexivity|cbn [length] in Hn; lia].
  - destruct (lex1 s) as [[t r]|] eqn:E; [|reflexivity].
    unfold has_tcl_paren. cbn [existsb]. apply orb_false_intro.
    + destruct (tcl_paren t) eqn:P; [|reflexivity]. pose proof (lex1_paren_tcl _ _ _ E P) as K.
      destruct s as [|c s']; [discriminate|]. cbn [tcl_search] in Hs. rewrite K in Hs. discriminate.
    + pose proof (lex1_len _ _ _ E) as Hl. apply lex1_app in E as [E _]. apply IH; [lia|].
      rewrite <- E in Hs. eapply tcl_search_suffix, Hs.
Qed.
Lemma guard_no_paren s : tcl_search s = false -> has_tcl_paren (sql_lex s) = false.
Proof. apply (tcl_search_no_paren (length s)). lia. Qed.

(* an argument the repaired handler takes for read-only: (1) and (2) hold without any hypothesis on variable tokens *)
Lemma classify_sql_readonly part : classify_sql part = Some true ->
  sqlite3_sql part = Some true /\ has_tcl_paren (sql_lex part) = false /\
  (plain_ws part -> (live_statements (sql_lex part) <= 1)%nat /\ leading (fun k => ro_word [] (py_upper k)) (sql_lex part)).
Proof.
  intro H. apply classify_sql_true in H as (Ht & _ & Hr). pose proof (guard_no_paren _ Ht) as Hp.
  split; [exact Hr|]. split; [exact Hp|]. intro Hw.
  split; [eapply single_statement; eauto|eapply leading_keyword; eauto].
Qed.

(* (4) every way the handler allows *)
Lemma sqlite3_allow_each tokens :
  sqlite3_classify tokens = Allow ->
  let '(parts, help_flag, readonly_flag, cmd_seen) := sqlite3_scan (tl tokens) false in
  mem_str $"-init" tokens = false /\
  ((help_flag = true /\ cmd_seen = false) \/
   (readonly_flag = true /\ forall part, In part parts -> acts_anyway part = false) \/
   (parts <> [] /\ forall part, In part parts ->
      sqlite3_sql part = Some true /\ has_tcl_paren (sql_lex part) = false /\
      (plain_ws part -> (live_statements (sql_lex part) <= 1)%nat /\ leading (fun k => ro_word [] (py_upper k)) (sql_lex part)))).
Proof.
  intro Ha. pose proof (sqlite3_allow_cases tokens Ha) as H.
  destruct (sqlite3_scan (tl tokens) false) as [[[parts h] r] c]. destruct H as [Hi H]. split; [exact Hi|].
  destruct H as [H|[H|[Hne H]]]; [left; exact H|right; left; exact H|right; right].
  split; [exact Hne|]. intros part Hin. apply classify_sql_readonly, H, Hin.
Qed.

(* ================================================================ witnesses (checked by computation) *)
Lemma single_refuted_witness : exists sql,
  plain_ws sql /\ is_readonly_sql [] SQLITE_WRITE sql = Some true /\ live_statements (sql_lex sql) = 2%nat.
Proof.
  exists $"SELECT $a('), 1; DELETE FROM t; --')". split; [apply plain_wsb_spec; vm_compute; reflexivity|].
  split; vm_compute; reflexivity.
Qed.
Lemma single_ws_refuted_witness : exists sql,
  has_tcl_paren (sql_lex sql) = false /\ is_readonly_sql [] SQLITE_WRITE sql = Some true /\ live_statements (sql_lex sql) = 2%nat.
Proof. exists ($"SELECT 1;" ++ [160]). repeat split; vm_compute; reflexivity. Qed.
Lemma nonblank_refuted_witness : exists sql,
  plain_ws sql /\ has_tcl_paren (sql_lex sql) = false /\ is_readonly_sql [] SQLITE_WRITE sql = Some true /\
  nonblank_statements (sql_lex sql) = 2%nat /\ live_statements (sql_lex sql) = 1%nat.
Proof.
  exists $"SELECT 1; 'a'". split; [apply plain_wsb_spec; vm_compute; reflexivity|].
  repeat split; vm_compute; reflexivity.
Qed.
Lemma args_refuted_witness : exists tokens part,
  sqlite3_classify tokens = Allow /\ In part (sqlite3_parts (tl tokens) false) /\ sqlite3_sql part = Some false.
Proof.
  exists [$"sqlite3"; $"-safe"; $"main.db"; $"DELETE FROM t"], $"DELETE FROM t".
  split; [vm_compute; reflexivity|]. split; [vm_compute; left; reflexivity|vm_compute; reflexivity].
Qed.
