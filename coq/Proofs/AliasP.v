(* C10 - identity and aliasing of the layer files.
   (1) what the hook can tell apart: two observable configs are EQUIVALENT when every matcher has the same last
       match in each of the five rule families, every alias key has the same target, and log / log_full agree;
   (2) algebra of repeated layers under that equivalence: a layer named twice counts where it is named LAST
       (a;b;a ~ b;a), an adjacent repeat is inert (a;b;b ~ a;b, a;a;b ~ a;b), but a;b;a is NOT a;b;
   (3) a filesystem with identity (Model/Layers.v: fsys): names with the same inode contribute the same text, once per
       layer that names them; $DIPPY_CONFIG naming the user config gives user;project;user ~ project;user. *)
From DippyV Require Import Base.Str Model.Layers Proofs.DictP Proofs.LayersP Proofs.C10P.

(* ------------------------------------------------------------------ (1) equivalence of observable configs *)
Definition lastm {T} (m : T -> bool) (l : list T) : option T :=
  fold_left (fun acc r => if m r then Some r else acc) l None.
Lemma lastm_from {T} (m : T -> bool) (l : list T) : forall acc : option T,
  fold_left (fun acc r => if m r then Some r else acc) l acc = or_else (lastm m l) acc.
Proof.
  unfold lastm. set (F := fun (acc : option T) r => if m r then Some r else acc).
  induction l as [|r l IH]; intro acc; cbn [fold_left]; [reflexivity|].
  rewrite IH, (IH (F None r)). destruct (fold_left F l None); [reflexivity|].
  cbn [or_else]. unfold F. destruct (m r); reflexivity.
Qed.
Lemma lastm_app {T} (m : T -> bool) a b : lastm m (a ++ b) = or_else (lastm m b) (lastm m a).
Proof. unfold lastm at 1. rewrite fold_left_app. apply lastm_from. Qed.

(* same deciding rule for every matcher *)
Definition same_last (a b : list orule) : Prop := forall m, lastm m a = lastm m b.
Definition oequiv (x y : obs) : Prop :=
  same_last (o_rules x) (o_rules y) /\ same_last (o_redirect x) (o_redirect y) /\ same_last (o_after x) (o_after y) /\
  same_last (o_mcp x) (o_mcp y) /\ same_last (o_after_mcp x) (o_after_mcp y) /\
  (forall k, dict_get k (o_aliases x) = dict_get k (o_aliases y)) /\
  o_log x = o_log y /\ o_log_full x = o_log_full y.

Lemma oequiv_refl x : oequiv x x.
Proof. unfold oequiv, same_last. repeat split; reflexivity. Qed.
Lemma oequiv_sym x y : oequiv x y -> oequiv y x.
Proof. unfold oequiv, same_last. intros (A & B & C & D & E & F & G & H). repeat split; intros; symmetry; auto. Qed.
Lemma oequiv_trans x y z : oequiv x y -> oequiv y z -> oequiv x z.
Proof.
  unfold oequiv, same_last. intros (A & B & C & D & E & F & G & H) (A' & B' & C' & D' & E' & F' & G' & H').
  repeat split; intros; etransitivity; eauto.
Qed.

(* ------------------------------------------------------------------ (2) repeated layers *)
Lemma or_else_aba {T} (a b : option T) : or_else a (or_else b a) = or_else a b.
Proof. destruct a, b; reflexivity. Qed.
Lemma or_else_abb {T} (a b : option T) : or_else b (or_else b a) = or_else b a.
Proof. destruct a, b; reflexivity. Qed.
Lemma or_else_aab {T} (a b : option T) : or_else b (or_else a a) = or_else b a.
Proof. destruct a, b; reflexivity. Qed.

Lemma same_last_aba a b : same_last ((a ++ b) ++ a) (b ++ a).
Proof. intro m. rewrite !lastm_app. apply or_else_aba. Qed.
Lemma same_last_abb a b : same_last ((a ++ b) ++ b) (a ++ b).
Proof. intro m. rewrite !lastm_app. apply or_else_abb. Qed.
Lemma same_last_aab a b : same_last ((a ++ a) ++ b) (a ++ b).
Proof. intro m. rewrite !lastm_app. apply or_else_aab. Qed.

Lemma dict_merge_nodup a b : NoDup (keys a) -> NoDup (keys (dict_merge a b)).
Proof. intro H. unfold dict_merge. apply dict_setall_nodup, H. Qed.

Definition odict (x : obs) : Prop := NoDup (keys (o_aliases x)).

(* a layer named twice counts where it is named LAST: the earlier copy is shadowed by itself *)
Theorem omerge_repeat_last a b : odict a -> odict b ->
  oequiv (omerge (omerge a b) a) (omerge b a).
Proof.
  intros Ha Hb. unfold oequiv, omerge; cbn [o_rules o_redirect o_after o_mcp o_after_mcp o_aliases o_log o_log_full].
  repeat split; try apply same_last_aba.
  - intro k. rewrite !dict_get_merge by assumption. destruct (dict_get k (o_aliases a)), (dict_get k (o_aliases b)); reflexivity.
  - destruct (o_log a), (o_log b); reflexivity.
  - destruct (o_log_full a), (o_log_full b); reflexivity.
Qed.
(* an adjacent repeat is inert *)
Theorem omerge_repeat_adjacent a b : odict a -> odict b ->
  oequiv (omerge (omerge a b) b) (omerge a b) /\ oequiv (omerge (omerge a a) b) (omerge a b).
Proof.
  intros Ha Hb. split; unfold oequiv, omerge; cbn [o_rules o_redirect o_after o_mcp o_after_mcp o_aliases o_log o_log_full].
  - repeat split; try apply same_last_abb.
    + intro k. rewrite !dict_get_merge by assumption. destruct (dict_get k (o_aliases a)), (dict_get k (o_aliases b)); reflexivity.
    + destruct (o_log a), (o_log b); reflexivity.
    + destruct (o_log_full a), (o_log_full b); reflexivity.
  - repeat split; try apply same_last_aab.
    + intro k. rewrite !dict_get_merge by assumption. destruct (dict_get k (o_aliases a)), (dict_get k (o_aliases b)); reflexivity.
    + destruct (o_log a), (o_log b); reflexivity.
    + destruct (o_log_full a), (o_log_full b); reflexivity.
Qed.

(* ... but the first layer named again at the end is NOT inert: dropping the repeat (a;b instead of a;b;a)
   changes the deciding rule *)
Definition o_one (d : string) : obs := mkObs [(s2l d, $"zap", None, false)] [] [] [] [] [] None false.
Lemma repeat_first_not_inert :
  exists a b, odict a /\ odict b /\ ~ oequiv (omerge (omerge a b) a) (omerge a b).
Proof.
  exists (o_one "deny"), (o_one "allow"). split; [constructor|split; [constructor|]].
  intros (H & _). specialize (H (fun _ => true)). vm_compute in H. discriminate H.
Qed.

(* ------------------------------------------------------------------ (3) filesystem with identity *)
Definition same_file (fs : fsys) (a b : str) : Prop := exists i, stat_of fs a = SIno i /\ stat_of fs b = SIno i.

Lemma same_file_entry fs a b : same_file fs a b -> entry_of fs a = entry_of fs b.
Proof. intros (i & Ha & Hb). unfold entry_of. rewrite Ha, Hb. reflexivity. Qed.

(* what a name contributes depends on the inode only: two names of one file contribute the same text,
   each under its own name *)
Lemma eff_at_same_file fs a b s : same_file fs a b ->
  eff_at (place_of fs a) ConfigErr = Ok (Some (a, s)) -> eff_at (place_of fs b) ConfigErr = Ok (Some (b, s)).
Proof.
  intros H. unfold eff_at, place_of; cbn [pl_entry pl_path]. rewrite (same_file_entry fs a b H).
  destruct (is_file (entry_of fs b)) as [r| |]; [|discriminate|discriminate].
  destruct r; cbn; try discriminate. intro E; injection E as <-. reflexivity.
Qed.

Section Fs.
  Variable parse : str -> config.
  Variable parse_dict : forall s, NoDup (keys (aliases (parse s))).

  Lemma odict_parse s : odict (observable (parse s)).
  Proof. unfold odict, observable; cbn [o_aliases]. apply parse_dict. Qed.
  Lemma odict_omerge a b : odict a -> odict (omerge a b).
  Proof. unfold odict, omerge; cbn [o_aliases]. apply dict_merge_nodup. Qed.
  Lemma odict_oadd o l : odict o -> odict (oadd parse o l).
  Proof. destruct l as [[p s]|]; cbn [oadd]; [apply odict_omerge|trivial]. Qed.

  (* $DIPPY_CONFIG names the file that is the user config (any spelling, any kind of link): the env layer contributes
     the user's text AGAIN, after the project layer - exactly user;project;user - and that is equivalent to
     project;user (the user's rules decide over the project's), whatever the project layer is *)
  Theorem env_names_user fs n e s : n_env n = NAt e -> same_file fs (n_user n) e ->
    eff_at (place_of fs (n_user n)) ConfigErr = Ok (Some (n_user n, s)) ->
    forall p, eff_project (map (place_of fs) (n_chain n)) = Ok p ->
      effective_fs fs n = Ok (Some (n_user n, s), p, Some (e, s)) /\
      res_map observable (load_config_fs parse fs n) = Ok (ofold parse (Some (n_user n, s), p, Some (e, s))) /\
      oequiv (ofold parse (Some (n_user n, s), p, Some (e, s))) (ofold parse (None, p, Some (e, s))).
  Proof.
    intros He Hsame Hu p Hp.
    assert (Heff : effective_fs fs n = Ok (Some (n_user n, s), p, Some (e, s))).
    { unfold effective_fs, effective, layout_of; cbn [l_user l_chain l_env]. rewrite Hu; cbn [bind]. rewrite Hp; cbn [bind].
      rewrite He; cbn [env_of eff_env]. rewrite (eff_at_same_file fs (n_user n) e s Hsame Hu). reflexivity. }
    split; [exact Heff|]. split.
    - unfold load_config_fs. rewrite load_observable. unfold effective_fs in Heff. rewrite Heff. reflexivity.
    - cbn [ofold oadd]. set (U := observable (parse s)).
      assert (HU : odict U) by apply odict_parse.
      rewrite (omerge_empty_l U HU).
      destruct p as [[pp ps]|]; cbn [oadd].
      + set (P := observable (parse ps)). assert (HP : odict P) by apply odict_parse.
        eapply oequiv_trans; [apply omerge_repeat_last; assumption|].
        rewrite (omerge_empty_l P HP). apply oequiv_refl.
      + rewrite (omerge_empty_l U HU).
        destruct (omerge_repeat_adjacent oempty U) as [H _]; [constructor|exact HU|].
        rewrite (omerge_empty_l U HU) in H. exact H.
  Qed.

  (* $DIPPY_CONFIG names the nearest project file: user;project;project, equivalent to user;project (the repeat is inert) *)
  Theorem env_names_project fs n e u pp s : n_env n = NAt e ->
    eff_at (place_of fs (n_user n)) ConfigErr = Ok u ->
    eff_project (map (place_of fs) (n_chain n)) = Ok (Some (pp, s)) ->
    eff_at (place_of fs e) ConfigErr = Ok (Some (e, s)) ->
      effective_fs fs n = Ok (u, Some (pp, s), Some (e, s)) /\
      oequiv (ofold parse (u, Some (pp, s), Some (e, s))) (ofold parse (u, Some (pp, s), None)).
  Proof.
    intros He Hu Hp Hee. split.
    - unfold effective_fs, effective, layout_of; cbn [l_user l_chain l_env]. rewrite Hu; cbn [bind]. rewrite Hp; cbn [bind].
      rewrite He; cbn [env_of eff_env]. rewrite Hee. reflexivity.
    - cbn [ofold oadd]. apply omerge_repeat_adjacent; [apply odict_oadd; constructor|apply odict_parse].
  Qed.
End Fs.

(* the env layer's contribution does not depend on what the other two layers name (no state between the layers) *)
Lemma env_independent fs n n' : n_env n = n_env n' -> l_env (layout_of fs n) = l_env (layout_of fs n').
Proof. intro H. unfold layout_of; cbn [l_env]. rewrite H. reflexivity. Qed.

(* ------------------------------------------------------------------ witnesses *)
(* one inode behind ~/.dippy/config and $DIPPY_CONFIG (here: a symlink elsewhere), the project allows what the user denies *)
Definition alias_fs : fsys :=
  mkFs [($"/h/.dippy/config", SIno $"8:1"); ($"/w/p/.dippy", SIno $"8:2"); ($"/links/cfg", SIno $"8:1");
        ($"/w/p/sub/.dippy", SNone); ($"/w/.dippy", SNone); ($"/.dippy", SNone)]
       [($"8:1", IReg (RText $"deny zap")); ($"8:2", IReg (RText $"allow zap"))].
Definition alias_names (e : envname) : names :=
  mkNames $"/h/.dippy/config" [$"/w/p/sub/.dippy"; $"/w/p/.dippy"; $"/w/.dippy"; $"/.dippy"] e.
Definition decisions (r : res config) : res (list str) := res_map (fun c => map r_decision (rules c)) r.
Lemma alias_example :
  decisions (load_config_fs mini_parse alias_fs (alias_names (NAt $"/links/cfg"))) = Ok [$"deny"; $"allow"; $"deny"] /\
  decisions (load_config_fs mini_parse alias_fs (alias_names NUnset)) = Ok [$"deny"; $"allow"] /\
  decisions (load_config_fs mini_parse alias_fs (alias_names (NAt $"/w/p/.dippy"))) = Ok [$"deny"; $"allow"; $"allow"] /\
  same_file alias_fs $"/h/.dippy/config" $"/links/cfg".
Proof. vm_compute. repeat split. exists $"8:1". split; reflexivity. Qed.
