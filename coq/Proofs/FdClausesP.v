(* fd with several exec clauses: fd -x C1 ; -x C2 ; ... -x Cn  - the handler delegates exactly the commands the
   specification says fd runs, each with the appended path (induction over the clause list; the handler's recursion on
   the words behind a lone ; is the model's fuel) *)
From DippyV Require Import Base.Str Base.Verdict Gen.Tables Model.BashQuote Model.Getopt Model.Wrappers Model.WrapSpec Proofs.WrappersP.
Require Import List NArith Bool Arith Lia. Import ListNotations.
Local Open Scope list_scope.

Definition FX : str := s2l "-x".
Definition SEMI : str := s2l ";".
Fixpoint fd_line (cs : list (list str)) : list str :=
  match cs with
  | [] => []
  | [c] => FX :: c
  | c :: r => FX :: c ++ SEMI :: fd_line r
  end.
Definition clause_ok (c : list str) : Prop := c <> [] /\ no_semi c = true.

Lemma fd_cut_app c rest : no_semi c = true -> fd_cut (c ++ SEMI :: rest) = (c, Some rest).
Proof.
  induction c as [|t r IH]; [reflexivity|]. unfold no_semi. cbn [forallb]. intro H.
  apply andb_prop in H. destruct H as [Ht Hr]. cbn [fd_cut app].
  destruct (is_semi t); [discriminate|]. rewrite (IH Hr). reflexivity.
Qed.
Lemma fd_until_semi_app c rest : no_semi c = true -> fd_until_semi (c ++ SEMI :: rest) = (c, rest).
Proof.
  induction c as [|t r IH]; [reflexivity|]. unfold no_semi. cbn [forallb]. intro H.
  apply andb_prop in H. destruct H as [Ht Hr]. cbn [fd_until_semi app].
  assert (E : str_eqb t (WrapSpec.S ";") = false).
  { unfold is_semi, is in Ht. apply negb_true_iff in Ht. apply orb_false_iff in Ht. exact (proj1 Ht). }
  rewrite E, (IH Hr). reflexivity.
Qed.
Lemma fd_line_nonempty c r : exists t l, fd_line (c :: r) = t :: l.
Proof. destruct r; cbn [fd_line]; eauto. Qed.

Lemma fd_scan_clauses : forall cs fuel, cs <> [] -> Forall clause_ok cs -> (length cs <= fuel)%nat ->
  fd_scan_f fuel (fd_line cs) = HWords (map fd_with_path cs) false.
Proof.
  induction cs as [|c r IH]; intros fuel Hne Hok Hf; [congruence|].
  destruct fuel as [|f]; [cbn [length] in Hf; lia|].
  inversion Hok as [|? ? [Hc Hs] Hr]; subst.
  destruct r as [|c2 r'].
  - cbn [fd_line map]. cbn [fd_scan_f]. change (mem_str FX FD_EXEC_FLAGS) with true. cbv iota.
    destruct c as [|c0 cr]; [congruence|]. rewrite (fd_cut_nosemi _ Hs). reflexivity.
  - assert (IH' := IH f ltac:(discriminate) Hr ltac:(cbn [length] in *; lia)).
    change (fd_line (c :: c2 :: r')) with (FX :: c ++ SEMI :: fd_line (c2 :: r')).
    cbn [fd_scan_f]. change (mem_str FX FD_EXEC_FLAGS) with true. cbv iota.
    destruct c as [|c0 cr]; [congruence|]. cbn [app]. cbv iota.
    change (c0 :: cr ++ SEMI :: fd_line (c2 :: r')) with ((c0 :: cr) ++ SEMI :: fd_line (c2 :: r')).
    rewrite (fd_cut_app _ _ Hs).
    destruct (fd_line_nonempty c2 r') as (t & l & El). rewrite El. rewrite <- El. rewrite IH'. reflexivity.
Qed.

Lemma fd_run_clauses : forall cs fuel, cs <> [] -> Forall clause_ok cs -> (length cs < fuel)%nat ->
  fd_run fuel (fd_line cs) = Some (map fd_path cs).
Proof.
  induction cs as [|c r IH]; intros fuel Hne Hok Hf; [congruence|].
  destruct fuel as [|f]; [lia|].
  inversion Hok as [|? ? [Hc Hs] Hr]; subst.
  destruct r as [|c2 r'].
  - cbn [fd_line map]. cbn [fd_run].
    change (word_kind FX) with (WShort (s2l "x")). cbv iota beta.
    change (fd_cluster (s2l "x")) with (FDExec []). cbv iota beta. cbn [app].
    rewrite (fd_until_semi_nosemi _ Hs).
    destruct c as [|c0 cr]; [congruence|].
    destruct f as [|f']; [cbn [length] in Hf; lia|]. reflexivity.
  - assert (IH' := IH f ltac:(discriminate) Hr ltac:(cbn [length] in *; lia)).
    change (fd_line (c :: c2 :: r')) with (FX :: c ++ SEMI :: fd_line (c2 :: r')).
    cbn [fd_run].
    change (word_kind FX) with (WShort (s2l "x")). cbv iota beta.
    change (fd_cluster (s2l "x")) with (FDExec []). cbv iota beta. cbn [app].
    rewrite (fd_until_semi_app _ _ Hs).
    destruct c as [|c0 cr]; [congruence|]. rewrite IH'. reflexivity.
Qed.

Lemma fd_line_length cs : (length cs <= length (fd_line cs))%nat.
Proof.
  induction cs as [|c r IH]; [cbn; lia|]. destruct r as [|c2 r'].
  - cbn [fd_line length]. lia.
  - change (fd_line (c :: c2 :: r')) with (FX :: c ++ SEMI :: fd_line (c2 :: r')).
    cbn [length] in *. rewrite app_length. cbn [length]. lia.
Qed.

(* fd -x C1 ; -x C2 ; ... ; -x Cn for every n >= 1 and all commands without a lone ; *)
Theorem fd_clauses cs : cs <> [] -> Forall clause_ok cs ->
  fd_h (s2l "fd" :: fd_line cs) = HWords (map fd_with_path cs) false /\
  fd_exec (fd_line cs) = Some (map fd_path cs) /\
  map fd_with_path cs = map fd_path cs.
Proof.
  intros Hne Hok. pose proof (fd_line_length cs) as Hl. split; [|split].
  - unfold fd_h. destruct cs as [|c r]; [congruence|]. destruct (fd_line_nonempty c r) as (t & l & El).
    rewrite El. rewrite <- El. apply fd_scan_clauses; try assumption. lia.
  - unfold fd_exec. apply fd_run_clauses; try assumption. lia.
  - apply map_ext. exact fd_with_path_spec.
Qed.
Example fd_clauses_example :
  Forall clause_ok [w ["ls"]; w ["nice"; "env"]; w ["mv"; "{}"; "{.}.bak"]] /\
  fd_line [w ["ls"]; w ["nice"; "env"]; w ["mv"; "{}"; "{.}.bak"]] = w ["-x"; "ls"; ";"; "-x"; "nice"; "env"; ";"; "-x"; "mv"; "{}"; "{.}.bak"].
Proof. split; [repeat constructor; try discriminate; reflexivity | reflexivity]. Qed.
