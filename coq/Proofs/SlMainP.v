(* C20, parts "never crashes" and "single line": control flow of main / build_statusline for
   every input and every behaviour of the data sources; provenance of the characters of the line;
   histories of invocations sharing the cache. *)
From Coq Require Import ZArith.
From DippyV Require Import Base.Str Gen.Tables Model.Statusline.

(* ------------------------------------------------------------------ style = wrapping *)
Definition style_wrap (fg bg : option str) : option (str * str) :=
  if negb (opt_truthy fg) && negb (opt_truthy bg) then Some ([], [])
  else match style_prefix fg bg with Some p => Some (p, RESET) | None => None end.

Lemma style_eq text fg bg :
  style text fg bg = option_map (fun ps => fst ps ++ text ++ snd ps) (style_wrap fg bg).
Proof.
  unfold style, style_wrap. destruct (negb (opt_truthy fg) && negb (opt_truthy bg)); simpl.
  - rewrite app_nil_r. reflexivity.
  - destruct (style_prefix fg bg); reflexivity.
Qed.

Definition styled_wrap (e : string) : option (str * str) :=
  match assoc_gen (s2l e) SL_STYLES with Some (fg, bg) => style_wrap fg bg | None => None end.

Lemma styled_eq e t : styled e t = option_map (fun ps => fst ps ++ t ++ snd ps) (styled_wrap e).
Proof. unfold styled, styled_wrap. destruct (assoc_gen (s2l e) SL_STYLES) as [[fg bg]|]; [apply style_eq | reflexivity]. Qed.

(* every element used by the code has a style, and its palette entries parse: style() never raises *)
Lemma styles_total :
  forallb (fun e => match styled_wrap e with Some _ => true | None => false end)
    ["model"; "directory"; "branch"; "branch_detached"; "changes_clean"; "changes_dirty"; "context"; "mcp_title"]%string
  = true /\ (match conn_rgb with Some _ => true | None => false end) = true.
Proof. split; vm_compute; reflexivity. Qed.

Lemma styled_model t : exists p s, styled "model" t = Some (p ++ t ++ s).
Proof.
  rewrite styled_eq. destruct (styled_wrap "model") as [[p s]|] eqn:E; [|vm_compute in E; discriminate].
  exists p, s. reflexivity.
Qed.
Lemma styled_directory t : exists p s, styled "directory" t = Some (p ++ t ++ s).
Proof.
  rewrite styled_eq. destruct (styled_wrap "directory") as [[p s]|] eqn:E; [|vm_compute in E; discriminate].
  exists p, s. reflexivity.
Qed.
Lemma styled_title t : exists p s, styled "mcp_title" t = Some (p ++ t ++ s).
Proof.
  rewrite styled_eq. destruct (styled_wrap "mcp_title") as [[p s]|] eqn:E; [|vm_compute in E; discriminate].
  exists p, s. reflexivity.
Qed.
Lemma conn_some : exists c, conn_rgb = Some c.
Proof. destruct conn_rgb eqn:E; [eauto | vm_compute in E; discriminate]. Qed.

(* all characters any wrap can contribute *)
Definition WRAP_CHARS : list N :=
  flat_map (fun x => match style_wrap (fst (snd x)) (snd (snd x)) with Some (p, s) => p ++ s | None => [] end) SL_STYLES.

Lemma assoc_gen_In {B} k (l : list (str * B)) v : assoc_gen k l = Some v -> exists k', In (k', v) l.
Proof.
  induction l as [|[a b] l IH]; simpl; [discriminate|].
  destruct (str_eqb a k).
  - intro H; injection H as ->. eauto.
  - intro H. destruct (IH H) as [k' Hk]. eauto.
Qed.

Lemma styled_wrap_chars e p s : styled_wrap e = Some (p, s) -> incl (p ++ s) WRAP_CHARS.
Proof.
  unfold styled_wrap. destruct (assoc_gen (s2l e) SL_STYLES) as [[fg bg]|] eqn:E; [|discriminate].
  intros H c Hc. apply assoc_gen_In in E as [k' Hk]. unfold WRAP_CHARS. apply in_flat_map.
  exists (k', (fg, bg)). split; [assumption|]. cbn [fst snd]. rewrite H. assumption.
Qed.

Section Chars.
  Variable P : N -> Prop.

  Lemma styled_chars e t r : Forall P WRAP_CHARS -> Forall P t -> styled e t = Some r -> Forall P r.
  Proof.
    intros HW Ht. rewrite styled_eq. destruct (styled_wrap e) as [[p s]|] eqn:E; [|discriminate].
    simpl. intro H; injection H as <-.
    pose proof (incl_Forall (styled_wrap_chars _ _ _ E) HW) as Hps. rewrite Forall_app in Hps.
    rewrite !Forall_app. tauto.
  Qed.

  Lemma join_chars sep parts : Forall P sep -> Forall (Forall P) parts -> Forall P (join sep parts).
  Proof.
    intros Hs Hp. induction Hp as [|x l Hx Hl IH]; [constructor|].
    cbn [join]. destruct l as [|y l']; [assumption|].
    rewrite !Forall_app. auto.
  Qed.

  Lemma split_last_eq p : fst (split_last p) ++ snd (split_last p) = p.
  Proof.
    induction p as [|c r IH]; [reflexivity|]. cbn [split_last].
    destruct (split_last r) as [h t]. cbn [fst snd] in IH.
    destruct h as [|x h'].
    - simpl in IH. subst r. destruct (is_slash c); reflexivity.
    - cbn [fst snd]. rewrite <- IH. reflexivity.
  Qed.

  Lemma basename_chars s : Forall P s -> Forall P (basename s).
  Proof. intro H. rewrite <- (split_last_eq s) in H. rewrite Forall_app in H. apply H. Qed.

  (* every piece of s.splitlines() consists of non-break characters of s *)
  Lemma splitlines_aux_prop (Q : N -> Prop) s : forall cur b,
    (forall c, In c s -> is_break c = false -> Q c) -> Forall Q cur -> Forall (Forall Q) (splitlines_aux s cur b).
  Proof.
    induction s as [|c r IH]; intros cur b Hs Hc; cbn [splitlines_aux].
    - destruct cur; [constructor|]. constructor; [|constructor]. rewrite <- rev_alt. apply Forall_rev. assumption.
    - assert (Hr : forall x, In x r -> is_break x = false -> Q x) by (intros; apply Hs; [right|]; assumption).
      destruct (b && (c =? 10)); [apply IH; assumption|].
      destruct (is_break c) eqn:B.
      + constructor; [rewrite <- rev_alt; apply Forall_rev; assumption | apply IH; [assumption | constructor]].
      + apply IH; [assumption|]. constructor; [apply Hs; [left; reflexivity | assumption] | assumption].
  Qed.

  Lemma splitlines_chars s : Forall P s -> Forall (Forall P) (splitlines s).
  Proof.
    intro H. apply splitlines_aux_prop; [|constructor]. intros c Hc _. rewrite Forall_forall in H. auto.
  Qed.

  Lemma collapse_chars s : Forall P SL_COLLAPSE_SEP -> Forall P s -> Forall P (collapse s).
  Proof. intros Hsep H. apply join_chars; [assumption | apply splitlines_chars; assumption]. Qed.

  Lemma opt_list_chars o : (forall s, o = Some s -> Forall P s) -> Forall (Forall P) (opt_list o).
  Proof. intro H. destruct o as [s|]; simpl; [|constructor]. destruct (nonempty s); auto. Qed.
End Chars.

Definition nobreak (c : N) : Prop := is_break c = false.

Lemma splitlines_nobreak s : Forall (Forall nobreak) (splitlines s).
Proof. apply splitlines_aux_prop; [|constructor]. intros c _ H. exact H. Qed.

Lemma collapse_nobreak s : Forall nobreak (collapse s).
Proof. apply join_chars; [repeat constructor | apply splitlines_nobreak]. Qed.

Lemma single_line_nobreak s : single_line s = true -> Forall nobreak s /\ s <> [].
Proof.
  unfold single_line. pose proof (splitlines_nobreak s) as H.
  destruct (splitlines s) as [|x [|y l]] eqn:E; try discriminate.
  intro Hx. apply str_eqb_eq in Hx. subst x. inversion H; subst. split; [assumption|].
  intros ->. discriminate.
Qed.

(* the constant text of the line *)
Definition CONN_PRE : str := match conn_rgb with Some c => sgr $"38" c | None => [] end.
Definition TEMPLATE : list N :=
  WRAP_CHARS ++ SEP ++ QMARK ++ CHICK ++ BRANCH_GLYPH ++ $"[detached head]" ++ $"clean" ++ DELTA ++ $",-" ++
  $"ctx: 80% left" ++ $"ctx: " ++ $"% left" ++ $"MCP:" ++ $" " ++ $", " ++ RESET ++ CONN_PRE.

(* Python's str.splitlines() boundaries *)
Definition LINE_BREAKS : list N := SL_LINE_BREAKS.
Lemma template_no_breaks : Forall (fun c => ~ In c LINE_BREAKS) TEMPLATE.
Proof.
  apply Forall_forall. intros c Hc Hb.
  assert (E : forallb (fun c => negb (mem_ch c LINE_BREAKS)) TEMPLATE = true) by (vm_compute; reflexivity).
  rewrite forallb_forall in E. specialize (E c Hc). apply mem_ch_In in Hb. rewrite Hb in E. discriminate.
Qed.

Section Main.
  Variable base : str.
  Variable pid : str.
  Variable sesc : bool.
  Variable fx : fixes.
  Variable o_repr : json -> str.
  Variable o_configured : res bool.
  Variable o_branch : str -> res (bool * str).
  Variable o_changes : str -> res changes.
  Variable o_transcript : json -> option str.
  Variable o_pct : str -> json -> res str.
  Variable o_mcp_local : list str.
  Variable o_mcp_cache : res (Z * str).
  Variable o_age : str -> res Z.
  Variable o_read : str -> res str.
  Variable o_fs : str -> str -> wres.

  Notation build := (build_statusline fx o_repr o_configured o_branch o_changes o_transcript o_pct o_mcp_local o_mcp_cache).
  Notation braw := (build_raw fx o_repr o_configured o_branch o_changes o_transcript o_pct o_mcp_local o_mcp_cache).
  Notation run := (sl_main base pid sesc fx o_repr o_configured o_branch o_changes o_transcript o_pct o_mcp_local o_mcp_cache
                       o_age o_read o_fs).
  Notation ctxrem := (get_context_remaining fx o_transcript o_pct).
  Notation mcp := (get_mcp_servers o_mcp_local o_mcp_cache).

  (* ---------------------------------------------------------------- totality *)
  (* a descriptor is closed only by the code before fe4fc32 *)
  Lemma ctx_fd data n : snd (ctxrem data) = Some n ->
    fx_tpstr fx = false /\ exists tp, jget data $"transcript_path" (JStr []) = Ok tp /\ fd_of tp = Some n.
  Proof.
    unfold get_context_remaining.
    destruct (jget data $"context_window" (JObj [])) as [ctx|]; [|discriminate].
    destruct (jget ctx $"context_window_size" (JNum true $"0")) as [size|]; [|discriminate].
    destruct (negb (truthy size)); [discriminate|].
    destruct (jget data $"transcript_path" (JStr [])) as [tp|]; [|discriminate].
    destruct (fx_tpstr fx).
    - assert (E : (if match tp with JStr (_ :: _) => true | _ => false end then fd_of tp else None) = None)
        by (destruct tp as [| | |[|]| |]; reflexivity).
      destruct (match tp with JStr (_ :: _) => true | _ => false end);
        [destruct (o_transcript tp) as [u|]; [destruct (o_pct u size)|] |]; cbn [snd]; rewrite ?E; discriminate.
    - destruct (truthy tp).
      + destruct (o_transcript tp) as [u|]; [destruct (o_pct u size)|]; cbn [snd]; eauto.
      + cbn [snd]. discriminate.
  Qed.

  Lemma raw_fd data : fd_is_stdout (b_fd (braw data)) = true ->
    fx_tpstr fx = false /\ exists tp, jget data $"transcript_path" (JStr []) = Ok tp /\ fd_is_stdout (fd_of tp) = true.
  Proof.
    unfold build_raw.
    destruct (styled "model" _); [|discriminate].
    destruct (cwd_str _) as [cwd|]; [|discriminate].
    destruct (if nonempty (if nonempty cwd then basename cwd else []) then _ else _); [|discriminate].
    destruct (ctxrem data) as [cx fd] eqn:E.
    assert (Hfd : forall n, fd = Some n -> fx_tpstr fx = false /\ exists tp, jget data $"transcript_path" (JStr []) = Ok tp /\ fd_of tp = Some n).
    { intros n ->. apply ctx_fd. rewrite E. reflexivity. }
    destruct mcp as [[m|] rf]; cbn [b_fd]; intro H; destruct fd as [n|]; try discriminate;
      destruct (Hfd n eq_refl) as [T [tp [A B]]]; (split; [exact T|]); exists tp; rewrite B; auto.
  Qed.

  Lemma build_b_fd data : b_fd (build data) = b_fd (braw data).
  Proof. unfold build_statusline. destruct (fx_oneline fx); reflexivity. Qed.

  Lemma build_fd data : fd_is_stdout (b_fd (build data)) = true ->
    fx_tpstr fx = false /\ exists tp, jget data $"transcript_path" (JStr []) = Ok tp /\ fd_is_stdout (fd_of tp) = true.
  Proof. rewrite build_b_fd. apply raw_fd. Qed.

  (* the repaired code never closes stdout; the old code only on a hazardous input *)
  Lemma no_hazard inp : fx_tpstr fx = true \/ stdout_hazard inp = false ->
    fd_is_stdout (b_fd (build (data_of inp))) = false.
  Proof.
    intro Hz. destruct (fd_is_stdout _) eqn:F; [|reflexivity]. exfalso.
    apply build_fd in F as [T [tp [A B]]]. destruct Hz as [Hz|Hz]; [congruence|].
    unfold stdout_hazard in Hz. rewrite A in Hz. congruence.
  Qed.

  Lemma nl_nonempty l : l ++ NL <> [].
  Proof. destruct l; discriminate. Qed.

  Definition well (o : outcome) : Prop := exit_ok o = true /\ out o <> [] /\ traceback o = false.

  Variable Hguard : fx_guard fx = true.

  Lemma emit_well line c st rf : well (emit sesc fx line c st rf).
  Proof.
    unfold emit, well. rewrite Hguard.
    destruct (encodable_out sesc line); cbn [exit_ok out traceback]; repeat split; apply nl_nonempty.
  Qed.

  Lemma total_gen inp : fx_tpstr fx = true \/ stdout_hazard inp = false -> well (run inp).
  Proof.
    intro Hz. unfold Statusline.sl_main. rewrite (no_hazard inp Hz), Hguard.
    destruct (match get_cached _ _ _ _ with Some c => _ | None => None end); [apply emit_well|].
    destruct (b_out (build (data_of inp))); [apply emit_well|].
    unfold well; cbn [exit_ok out traceback]; repeat split; apply nl_nonempty.
  Qed.

  (* the line is the cached text, the built line, or "?" *)
  Lemma run_shape inp : fx_tpstr fx = true \/ stdout_hazard inp = false ->
    (exists c, get_cached base o_age o_read (session_of (data_of inp)) = Some c /\ servable fx c = true /\ out (run inp) = c ++ NL /\
               served (run inp) = true /\ store (run inp) = SNothing) \/
    (exists line, b_out (build (data_of inp)) = Ok line /\ out (run inp) = line ++ NL /\
                  store (run inp) = set_cache base pid o_fs (session_of (data_of inp)) line) \/
    out (run inp) = QMARK ++ NL.
  Proof.
    intro Hz. unfold Statusline.sl_main. rewrite (no_hazard inp Hz), Hguard.
    destruct (get_cached _ _ _ _) as [c|] eqn:G; [destruct (servable fx c) eqn:Sv|].
    - unfold emit. rewrite Hguard. destruct (encodable_out sesc c); cbn; [left; exists c; repeat split; auto | auto].
    - destruct (b_out (build (data_of inp))) as [line|]; cbn; auto.
      unfold emit; rewrite Hguard; destruct (encodable_out sesc line); cbn; [right; left; exists line; auto | auto].
    - destruct (b_out (build (data_of inp))) as [line|]; cbn; auto.
      unfold emit; rewrite Hguard; destruct (encodable_out sesc line); cbn; [right; left; exists line; auto | auto].
  Qed.

  (* the repaired code prints exactly one line, whatever the input, the data sources and the cache contain *)
  Definition one_line (o : outcome) : Prop := exists line, out o = line ++ NL /\ Forall nobreak line.

  Lemma qmark_nobreak : Forall nobreak QMARK.
  Proof. repeat constructor. Qed.

  Lemma oneline_gen inp : fx_oneline fx = true -> fx_tpstr fx = true \/ stdout_hazard inp = false -> one_line (run inp).
  Proof.
    intros Ho Hz. unfold Statusline.sl_main. rewrite (no_hazard inp Hz), Hguard.
    assert (Hemit : forall line c st rf, Forall nobreak line -> one_line (emit sesc fx line c st rf)).
    { intros. unfold emit. rewrite Hguard. destruct (encodable_out sesc line); [exists line | exists QMARK]; cbn [out]; auto using qmark_nobreak. }
    assert (Hb : forall line, b_out (build (data_of inp)) = Ok line -> Forall nobreak line).
    { unfold build_statusline. rewrite Ho. cbn [b_out]. intros line. destruct (b_out (braw _)); [|discriminate].
      intro H; injection H as <-. apply collapse_nobreak. }
    destruct (get_cached _ _ _ _) as [c|] eqn:G; [destruct (servable fx c) eqn:Sv|].
    - apply Hemit. unfold servable in Sv. rewrite Ho in Sv. apply single_line_nobreak in Sv. apply Sv.
    - destruct (b_out (build (data_of inp))) as [line|] eqn:B; [apply Hemit; auto | exists QMARK; cbn [out]; auto using qmark_nobreak].
    - destruct (b_out (build (data_of inp))) as [line|] eqn:B; [apply Hemit; auto | exists QMARK; cbn [out]; auto using qmark_nobreak].
  Qed.

  (* ---------------------------------------------------------------- provenance of characters *)
  Variable P : N -> Prop.
  Variable HT : Forall P TEMPLATE.

  Variable data : json.
  Variable Hmodel : Forall P (py_str o_repr (field_model data)).
  Variable Hcwd : forall s, field_cwd data = JStr s -> Forall P s.
  Variable Hbranch : forall cwd b, o_branch cwd = Ok (true, b) -> Forall P b.
  Variable Hchanges : forall cwd a r, o_changes cwd = Ok (CDirty a r) -> Forall P a /\ Forall P r.
  Variable Hpct : forall u size t, o_pct u size = Ok t -> Forall P t.
  Variable Hlocal : Forall (Forall P) o_mcp_local.
  Variable Hmcpc : forall a c, o_mcp_cache = Ok (a, c) -> Forall P c.

  Ltac tsplit := pose proof HT as HT0; unfold TEMPLATE in HT0; rewrite !Forall_app in HT0;
    destruct HT0 as (TW & TSEP & TQ & TCH & TBR & TDET & TCL & TDE & TCM & TC80 & TCX & TLEFT & TMCP & TSP & TCS & TRST & TCONN).

  Lemma branch_chars cwd s : get_git_branch o_branch cwd = Some s -> Forall P s.
  Proof.
    tsplit. unfold get_git_branch. destruct (nonempty cwd); [|discriminate].
    destruct (o_branch cwd) as [[[|] b]|] eqn:E; try discriminate.
    destruct (nonempty b); intro H; eapply styled_chars in H; eauto; rewrite Forall_app; eauto.
  Qed.

  Lemma changes_chars cwd s : get_git_changes o_changes cwd = Some s -> Forall P s.
  Proof.
    tsplit. unfold get_git_changes. destruct (nonempty cwd); [|discriminate].
    destruct (o_changes cwd) as [[| |a r]|] eqn:E; try discriminate; intro H; eapply styled_chars in H; eauto.
    destruct (Hchanges _ _ _ E). rewrite !Forall_app. auto.
  Qed.

  Lemma ctx_chars s : fst (ctxrem data) = Some s -> Forall P s.
  Proof.
    tsplit. unfold get_context_remaining.
    destruct (jget data $"context_window" (JObj [])) as [ctx|]; [|discriminate].
    destruct (jget ctx $"context_window_size" (JNum true $"0")) as [size|]; [|discriminate].
    destruct (negb (truthy size)); [discriminate|].
    destruct (jget data $"transcript_path" (JStr [])) as [tp|]; [|discriminate].
    match goal with |- context [if ?b then o_transcript tp else None] => destruct (if b then o_transcript tp else None) as [u|] end.
    - destruct (o_pct u size) as [t|] eqn:E; [|discriminate]. cbn [fst]. intro H.
      eapply styled_chars in H; eauto. rewrite !Forall_app. eauto.
    - cbn [fst]. intro H. eapply styled_chars in H; eauto.
  Qed.

  Lemma mcp_chars s rf : mcp = (Some (Some s), rf) -> Forall P s.
  Proof.
    tsplit. unfold get_mcp_servers, CONN_PRE in *. destruct conn_rgb as [conn|]; [|discriminate].
    destruct (match o_mcp_cache with Ok (a, c) => (a, c) | Raise => _ end) as [age cached] eqn:E.
    assert (Hc : Forall P cached).
    { destruct o_mcp_cache as [[a c]|] eqn:E2; injection E as _ <-; [eauto | constructor]. }
    set (all := map (fun name => sgr $"38" conn ++ name ++ RESET) o_mcp_local ++ (if nonempty cached then [cached] else [])).
    assert (Hall : Forall (Forall P) all).
    { subst all. rewrite Forall_app. split.
      - rewrite Forall_map. eapply Forall_impl; [|exact Hlocal]. cbn beta. intros a Ha. rewrite !Forall_app. auto.
      - destruct (nonempty cached); auto. }
    destruct all as [|x l] eqn:Eall; [discriminate|].
    destruct (styled "mcp_title" $"MCP:") as [title|] eqn:Et; [|discriminate].
    assert (Hgoal : Forall P (title ++ $" " ++ join $", " (x :: l))).
    { rewrite !Forall_app. repeat split; auto.
      - eapply styled_chars; [exact TW | | exact Et]. exact TMCP.
      - apply join_chars; auto. }
    intro H; injection H as <- _. exact Hgoal.
  Qed.

  Lemma raw_chars line : b_out (braw data) = Ok line -> Forall P line.
  Proof.
    tsplit. unfold build_raw.
    destruct (styled "model" _) as [m0|] eqn:Em; [|discriminate].
    assert (Hm0 : Forall P m0) by (eapply styled_chars; [exact TW | exact Hmodel | exact Em]).
    destruct (cwd_str _) as [cwd|] eqn:Ec; [|discriminate].
    assert (Hcw : Forall P cwd).
    { unfold cwd_str in Ec. destruct (field_cwd data) eqn:Ef; try discriminate. injection Ec as <-. eauto. }
    set (disp := if nonempty cwd then basename cwd else []).
    assert (Hd : Forall P disp) by (subst disp; destruct (nonempty cwd); [apply basename_chars; assumption | constructor]).
    destruct (if nonempty disp then styled "directory" disp else Some []) as [disp_s|] eqn:Ed; [|discriminate].
    assert (Hds : Forall P disp_s).
    { destruct (nonempty disp); [eapply styled_chars; [exact TW | exact Hd | exact Ed] | injection Ed as <-; constructor]. }
    destruct (ctxrem data) as [cx fd] eqn:Ecx.
    destruct mcp as [[m|] rf] eqn:Emcp; [|discriminate].
    cbn [b_out]. intro H; injection H as <-.
    apply join_chars; [assumption|].
    rewrite !Forall_app. repeat split.
    - assert (Forall P (if is_dippy_configured o_configured then CHICK ++ m0 else m0))
        by (destruct (is_dippy_configured _); [rewrite Forall_app|]; auto).
      destruct (nonempty disp_s); auto.
    - apply opt_list_chars. intros s Hs. eapply branch_chars; eauto.
    - apply opt_list_chars. intros s Hs. eapply changes_chars; eauto.
    - apply opt_list_chars. intros s ->. apply ctx_chars. rewrite Ecx. reflexivity.
    - apply opt_list_chars. intros s ->. eapply mcp_chars; eauto.
  Qed.

  Lemma build_chars line : b_out (build data) = Ok line -> Forall P line.
  Proof.
    tsplit. unfold build_statusline. destruct (fx_oneline fx); [|apply raw_chars].
    cbn [b_out]. destruct (b_out (braw data)) as [l|] eqn:E; [|discriminate].
    intro H; injection H as <-. apply collapse_chars; [exact TSP | apply raw_chars; assumption].
  Qed.

  Variable Hread : forall p s, o_read p = Ok s -> Forall P s.

  Lemma cached_chars sid c : get_cached base o_age o_read sid = Some c -> Forall P c.
  Proof.
    unfold get_cached. destruct (get_cache_path base sid) as [p|]; [|discriminate].
    destruct (o_age p); [|discriminate]. destruct (older _ _ _); [discriminate|].
    destruct (o_read p) eqn:E; [|discriminate]. intro H; injection H as <-. eauto.
  Qed.

  Definition line_ok (o : outcome) : Prop := out o = [] \/ exists line, out o = line ++ NL /\ Forall P line.
  Definition store_ok (st : stored) : Prop :=
    match st with SNothing => True | STmpLeft _ c => Forall P c | SStored _ _ c => Forall P c end.

  Lemma set_cache_ok sid line : Forall P line -> store_ok (set_cache base pid o_fs sid line).
  Proof.
    intro H. unfold set_cache. destruct (get_cache_path base sid); [|exact I].
    destruct (o_fs _ _); cbn; auto; destruct (encodable line); cbn; auto.
  Qed.

  Lemma run_chars inp : data = data_of inp -> line_ok (run inp) /\ store_ok (store (run inp)).
  Proof.
    intros Hdata. tsplit. unfold Statusline.sl_main. rewrite <- Hdata. rewrite Hguard.
    assert (Hq : forall st rf, line_ok {| exit_ok := true; out := QMARK ++ NL; traceback := false; served := false;
                                          store := st; refresh := rf |}).
    { intros. right. exists QMARK. auto. }
    assert (Hemit : forall line c st rf, Forall P line -> line_ok (emit sesc fx line c st rf)).
    { intros. unfold emit. rewrite Hguard. destruct (encodable_out sesc line); [right; exists line; auto | apply Hq]. }
    assert (Hst : forall line c st rf, store (emit sesc fx line c st rf) = st).
    { intros. unfold emit. rewrite Hguard. destruct (encodable_out sesc line); reflexivity. }
    assert (Hbuilt : forall b0 : built, b0 = build data ->
              line_ok (match b_out b0 with
                       | Raise => if fd_is_stdout (b_fd b0) then broken SNothing (b_refresh b0)
                                  else {| exit_ok := true; out := QMARK ++ NL; traceback := false; served := false;
                                          store := SNothing; refresh := b_refresh b0 |}
                       | Ok line => if fd_is_stdout (b_fd b0) then broken (set_cache base pid o_fs (session_of data) line) (b_refresh b0)
                                    else emit sesc fx line false (set_cache base pid o_fs (session_of data) line) (b_refresh b0)
                       end) /\
              store_ok (store (match b_out b0 with
                       | Raise => if fd_is_stdout (b_fd b0) then broken SNothing (b_refresh b0)
                                  else {| exit_ok := true; out := QMARK ++ NL; traceback := false; served := false;
                                          store := SNothing; refresh := b_refresh b0 |}
                       | Ok line => if fd_is_stdout (b_fd b0) then broken (set_cache base pid o_fs (session_of data) line) (b_refresh b0)
                                    else emit sesc fx line false (set_cache base pid o_fs (session_of data) line) (b_refresh b0)
                       end))).
    { intros b0 ->. destruct (b_out (build data)) as [line|] eqn:B;
        [ pose proof (build_chars _ B) as Hl | ];
        destruct (fd_is_stdout _); cbn [store broken]; try rewrite Hst;
        (split; [first [apply Hemit; assumption | apply Hq | left; reflexivity] | first [apply set_cache_ok; assumption | exact I]]). }
    destruct (get_cached _ _ _ _) as [c|] eqn:G; [destruct (servable fx c)|].
    - split; [apply Hemit; eapply cached_chars; eauto | rewrite Hst; exact I].
    - apply Hbuilt. reflexivity.
    - apply Hbuilt. reflexivity.
  Qed.
End Main.

(* ------------------------------------------------------------------ histories *)
Definition clean (P : N -> Prop) (i : invocation) : Prop :=
  let data := data_of (i_inp i) in
  Forall P (py_str (i_repr i) (field_model data)) /\
  (forall s, field_cwd data = JStr s -> Forall P s) /\
  (forall cwd b, i_branch i cwd = Ok (true, b) -> Forall P b) /\
  (forall cwd a r, i_changes i cwd = Ok (CDirty a r) -> Forall P a /\ Forall P r) /\
  (forall u size t, i_pct i u size = Ok t -> Forall P t) /\
  Forall (Forall P) (i_mcp_local i) /\
  (forall a c, i_mcp_cache i = Ok (a, c) -> Forall P c).

Definition files_ok (P : N -> Prop) (f : files) : Prop := forall p s, f p = Some s -> Forall P s.

Lemma univ_nl_id s : Forall (fun c => c <> 13) s -> univ_nl s = s.
Proof.
  induction 1 as [|c r Hc Hr IH]; [reflexivity|].
  assert (E : univ_nl (c :: r) = c :: univ_nl r).
  { destruct c as [|p]; [reflexivity|]. do 4 (destruct p as [p|p|]; try reflexivity). exfalso; apply Hc; reflexivity. }
  rewrite E, IH. reflexivity.
Qed.

Section Hist.
  Variable P : N -> Prop.
  Variable Pcr : forall c, P c -> c <> 13.
  Variable HT : Forall P TEMPLATE.
  Variable fx : fixes.
  Variable Hguard : fx_guard fx = true.
  Variable base : str.

  Lemma invoke_ok f i : files_ok P f -> clean P i ->
    files_ok P (fst (invoke fx base f i)) /\ line_ok P (snd (invoke fx base f i)).
  Proof.
    intros Hf (C1 & C2 & C3 & C4 & C5 & C6 & C7). unfold invoke.
    set (fage := fun p : str => match f p with Some _ => Ok (i_age i) | None => Raise end).
    set (fread := fun p : str => match f p with Some s => Ok (univ_nl s) | None => Raise end).
    match goal with |- context [store ?x] => set (o := x) end.
    assert (Hread : forall p s, fread p = Ok s -> Forall P s).
    { intros p s. unfold fread. destruct (f p) as [s0|] eqn:E; [|discriminate]. intro H; injection H as <-.
      pose proof (Hf _ _ E) as Hs. rewrite univ_nl_id; [assumption|].
      eapply Forall_impl; [|exact Hs]. auto. }
    destruct (run_chars base (i_pid i) (i_sesc i) fx (i_repr i) (i_configured i) (i_branch i) (i_changes i) (i_transcript i)
                (i_pct i) (i_mcp_local i) (i_mcp_cache i) fage fread (fun _ _ => i_fs i) Hguard P HT (data_of (i_inp i))
                C1 C2 C3 C4 C5 C6 C7 Hread (i_inp i) eq_refl) as [L S].
    fold o in L, S. cbn [fst snd]. split; [|exact L].
    destruct (store o) as [|t c|p t c]; cbn in S; [assumption| |];
      intros q s; unfold fupd; destruct (str_eqb q _); try (intro H; injection H as <-; assumption); apply Hf.
  Qed.

  Lemma history_ok l : forall f, files_ok P f -> Forall (clean P) l -> Forall (line_ok P) (history fx base f l).
  Proof.
    induction l as [|i l IH]; intros f Hf Hl; [constructor|].
    inversion Hl as [|? ? Hi Hl']; subst. cbn [history].
    destruct (invoke fx base f i) as [f' o] eqn:E.
    pose proof (invoke_ok f i Hf Hi) as [A B]. rewrite E in A, B. cbn [fst snd] in A, B.
    constructor; auto.
  Qed.
End Hist.

(* the repaired code: every output of every history is one line - no hypothesis on inputs, answers or files *)
Lemma history_oneline fx base l : fx_guard fx = true -> fx_tpstr fx = true -> fx_oneline fx = true ->
  forall f, Forall one_line (history fx base f l).
Proof.
  intros Hg Ht Ho. induction l as [|i l IH]; intro f; [constructor|].
  cbn [history]. destruct (invoke fx base f i) as [f' o] eqn:E. constructor; [|apply IH].
  unfold invoke in E. injection E as _ <-. apply oneline_gen; auto.
Qed.

(* ------------------------------------------------------------------ witnesses *)
Definition quiet (pid : str) (inp : option json) : invocation :=
  {| i_pid := pid; i_sesc := false; i_inp := inp; i_repr := fun _ => []; i_configured := Raise; i_branch := fun _ => Raise;
     i_changes := fun _ => Raise; i_transcript := fun _ => None; i_pct := fun _ _ => Raise; i_mcp_local := [];
     i_mcp_cache := Raise; i_age := 0%Z; i_fs := WOk |}.

Definition run_quiet (fx : fixes) (inp : option json) : outcome :=
  sl_main [47; 99] $"1" false fx (fun _ => []) Raise (fun _ => Raise) (fun _ => Raise) (fun _ => None) (fun _ _ => Raise) [] Raise
      (fun _ => Raise) (fun _ => Raise) (fun _ _ => WOk) inp.

(* {"context_window": {"context_window_size": 100}, "transcript_path": true} *)
Definition hazard_input : option json :=
  Some (JObj [($"context_window", JObj [($"context_window_size", JNum false $"100")]); ($"transcript_path", JBool true)]).
(* {"workspace": {"current_dir": 5}} *)
Definition f18_input : option json := Some (JObj [($"workspace", JObj [($"current_dir", JNum false $"5")])]).

(* the code before each repair *)
Definition before_guard : fixes := {| fx_guard := false; fx_tpstr := true; fx_oneline := true |}.      (* before c6068c5 *)
Definition before_tpstr : fixes := {| fx_guard := true; fx_tpstr := false; fx_oneline := true |}.      (* before fe4fc32 *)
Definition before_oneline : fixes := {| fx_guard := true; fx_tpstr := true; fx_oneline := false |}.    (* before 16f7bd5 *)

Lemma tpstr_legacy_refuted : stdout_hazard hazard_input = true /\ out (run_quiet before_tpstr hazard_input) = [].
Proof. split; vm_compute; reflexivity. Qed.

Lemma tpstr_example : out (run_quiet current hazard_input) <> [] /\ exit_ok (run_quiet current hazard_input) = true.
Proof. split; vm_compute; [discriminate | reflexivity]. Qed.

Lemma legacy_refuted : traceback (run_quiet before_guard f18_input) = true /\ exit_ok (run_quiet before_guard f18_input) = false.
Proof. split; vm_compute; reflexivity. Qed.

Lemma guard_example : out (run_quiet current f18_input) = QMARK ++ [10] /\ exit_ok (run_quiet current f18_input) = true.
Proof. split; vm_compute; reflexivity. Qed.

(* "\r" is not "\n", but a line cached with "\r" is served with "\n" *)
Definition cr_inv (name : str) : invocation :=
  quiet $"1" (Some (JObj [($"session_id", JStr $"s"); ($"model", JObj [($"display_name", JStr name)])])).

Lemma cr_clean name : Forall (fun c => c <> 10) name -> clean (fun c => c <> 10) (cr_inv name).
Proof.
  intro H. unfold clean, cr_inv, quiet. cbn [i_inp i_repr i_branch i_changes i_pct i_mcp_local i_mcp_cache].
  split; [|split; [|split; [|split; [|split; [|split]]]]]; try (intros; discriminate).
  - cbn. destruct name; cbn; [repeat constructor; discriminate | assumption].
  - intros s E. vm_compute in E. injection E as <-. constructor.
  - constructor.
Qed.

Lemma history_cr_refuted :
  let P := fun c : N => c <> 10 in
  let l := [cr_inv [97; 13; 98]; cr_inv [122]] in
  Forall P TEMPLATE /\ Forall (clean P) l /\
  exists o1 o2, history before_oneline [47; 99] (fun _ => None) l = [o1; o2] /\ served o2 = true /\ In 10 (removelast (out o2)).
Proof.
  cbn zeta. split; [|split].
  - eapply Forall_impl; [|exact template_no_breaks]. cbn beta. intros c H E. apply H. subst c. left. reflexivity.
  - constructor; [|constructor; [|constructor]]; apply cr_clean; repeat (apply Forall_cons; [discriminate|]); constructor.
  - eexists. eexists. split; [vm_compute; reflexivity|]. split; vm_compute; auto 30.
Qed.

(* the same two invocations on the repaired code: the first line is collapsed, the second is served as one line *)
Lemma history_cr_example :
  exists o1 o2, history current [47; 99] (fun _ => None) [cr_inv [97; 13; 98]; cr_inv [122]] = [o1; o2] /\
    served o2 = true /\ ~ In 10 (removelast (out o1)) /\ ~ In 13 (out o1) /\ out o2 = out o1.
Proof.
  eexists. eexists. split; [vm_compute; reflexivity|]. split; [reflexivity|].
  split; [|split]; vm_compute; try reflexivity; intuition discriminate.
Qed.
