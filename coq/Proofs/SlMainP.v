(* C20, parts "never crashes" and "single line": control flow of main / build_statusline for
   every input and every behaviour of the data sources; provenance of the characters of the line;
   histories of invocations sharing the cache. *)
From Coq Require Import ZArith.
From DippyV Require Import Base.Str Gen.Tables Model.Statusline.

(* ------------------------------------------------------------------ style = wrapping *)
Definition style_wrap (fg bg : option str) : option (str * str) :=
  if negb (opt_truthy fg) && negb (opt_truthy bg) then Some ([], [])
  else match style_prefix fg bg with Some p => Some (p, RESET) | None => None end.

Lemma style_eq text fg bg :
  style text fg bg = option_map (fun ps => fst ps ++ text ++ snd ps) (style_wrap fg bg).
Proof.
  unfold style, style_wrap. destruct (negb (opt_truthy fg) && negb (opt_truthy bg)); simpl.
  - rewrite app_nil_r. reflexivity.
  - destruct (style_prefix fg bg); reflexivity.
Qed.

Definition styled_wrap (e : string) : option (str * str) :=
  match assoc_gen (s2l e) SL_STYLES with Some (fg, bg) => style_wrap fg bg | None => None end.

Lemma styled_eq e t : styled e t = option_map (fun ps => fst ps ++ t ++ snd ps) (styled_wrap e).
Proof. unfold styled, styled_wrap. destruct (assoc_gen (s2l e) SL_STYLES) as [[fg bg]|]; [apply style_eq | reflexivity]. Qed.

(* every element used by the code has a style, and its palette entries parse: style() never raises *)
Lemma styles_total :
  forallb (fun e => match styled_wrap e with Some _ => true | None => false end)
    ["model"; "directory"; "branch"; "branch_detached"; "changes_clean"; "changes_dirty"; "context"; "mcp_title"]%string
  = true /\ (match conn_rgb with Some _ => true | None => false end) = true.
Proof. split; vm_compute; reflexivity. Qed.

Lemma styled_model t : exists p s, styled "model" t = Some (p ++ t ++ s).
Proof.
  rewrite styled_eq. destruct (styled_wrap "model") as [[p s]|] eqn:E; [|vm_compute in E; discriminate].
  exists p, s. reflexivity.
Qed.
Lemma styled_directory t : exists p s, styled "directory" t = Some (p ++ t ++ s).
Proof.
  rewrite styled_eq. destruct (styled_wrap "directory") as [[p s]|] eqn:E; [|vm_compute in E; discriminate].
  exists p, s. reflexivity.
Qed.
Lemma styled_title t : exists p s, styled "mcp_title" t = Some (p ++ t ++ s).
Proof.
  rewrite styled_eq. destruct (styled_wrap "mcp_title") as [[p s]|] eqn:E; [|vm_compute in E; discriminate].
  exists p, s. reflexivity.
Qed.
Lemma conn_some : exists c, conn_rgb = Some c.
Proof. destruct conn_rgb eqn:E; [eauto | vm_compute in E; discriminate]. Qed.

(* all characters any wrap can contribute *)
Definition WRAP_CHARS : list N :=
  flat_map (fun x => match style_wrap (fst (snd x)) (snd (snd x)) with Some (p, s) => p ++ s | None => [] end) SL_STYLES.

Lemma assoc_gen_In {B} k (l : list (str * B)) v : assoc_gen k l = Some v -> exists k', In (k', v) l.
Proof.
  induction l as [|[a b] l IH]; simpl; [discriminate|].
  destruct (str_eqb a k).
  - intro H; injection H as ->. eauto.
  - intro H. destruct (IH H) as [k' Hk]. eauto.
Qed.

Lemma styled_wrap_chars e p s : styled_wrap e = Some (p, s) -> incl (p ++ s) WRAP_CHARS.
Proof.
  unfold styled_wrap. destruct (assoc_gen (s2l e) SL_STYLES) as [[fg bg]|] eqn:E; [|discriminate].
  intros H c Hc. apply assoc_gen_In in E as [k' Hk]. unfold WRAP_CHARS. apply in_flat_map.
  exists (k', (fg, bg)). split; [assumption|]. cbn [fst snd]. rewrite H. assumption.
Qed.

Section Chars.
  Variable P : N -> Prop.

  Lemma styled_chars e t r : Forall P WRAP_CHARS -> Forall P t -> styled e t = Some r -> Forall P r.
  Proof.
    intros HW Ht. rewrite styled_eq. destruct (styled_wrap e) as [[p s]|] eqn:E; [|discriminate].
    simpl. intro H; injection H as <-.
    pose proof (incl_Forall (styled_wrap_chars _ _ _ E) HW) as Hps. rewrite Forall_app in Hps.
    rewrite !Forall_app. tauto.
  Qed.

  Lemma join_chars sep parts : Forall P sep -> Forall (Forall P) parts -> Forall P (join sep parts).
  Proof.
    intros Hs Hp. induction Hp as [|x l Hx Hl IH]; [constructor|].
    cbn [join]. destruct l as [|y l']; [assumption|].
    rewrite !Forall_app. auto.
  Qed.

  Lemma split_last_eq p : fst (split_last p) ++ snd (split_last p) = p.
  Proof.
    induction p as [|c r IH]; [reflexivity|]. cbn [split_last].
    destruct (split_last r) as [h t]. cbn [fst snd] in IH.
    destruct h as [|x h'].
    - simpl in IH. subst r. destruct (is_slash c); reflexivity.
    - cbn [fst snd]. rewrite <- IH. reflexivity.
  Qed.

  Lemma basename_chars s : Forall P s -> Forall P (basename s).
  Proof. intro H. rewrite <- (split_last_eq s) in H. rewrite Forall_app in H. apply H. Qed.

  Lemma opt_list_chars o : (forall s, o = Some s -> Forall P s) -> Forall (Forall P) (opt_list o).
  Proof. intro H. destruct o as [s|]; simpl; [|constructor]. destruct (nonempty s); auto. Qed.
End Chars.

(* the constant text of the line *)
Definition CONN_PRE : str := match conn_rgb with Some c => sgr $"38" c | None => [] end.
Definition TEMPLATE : list N :=
  WRAP_CHARS ++ SEP ++ QMARK ++ CHICK ++ BRANCH_GLYPH ++ $"[detached head]" ++ $"clean" ++ DELTA ++ $",-" ++
  $"ctx: 80% left" ++ $"ctx: " ++ $"% left" ++ $"MCP:" ++ $" " ++ $", " ++ RESET ++ CONN_PRE.

(* Python's str.splitlines() boundaries *)
Definition LINE_BREAKS : list N := [10; 11; 12; 13; 28; 29; 30; 133; 8232; 8233].
Lemma template_no_breaks : Forall (fun c => ~ In c LINE_BREAKS) TEMPLATE.
Proof.
  apply Forall_forall. intros c Hc Hb.
  assert (E : forallb (fun c => negb (mem_ch c LINE_BREAKS)) TEMPLATE = true) by (vm_compute; reflexivity).
  rewrite forallb_forall in E. specialize (E c Hc). apply mem_ch_In in Hb. rewrite Hb in E. discriminate.
Qed.

Section Main.
  Variable base : str.
  Variable pid : str.
  Variable sesc : bool.
  Variable o_repr : json -> str.
  Variable o_configured : res bool.
  Variable o_branch : str -> res (bool * str).
  Variable o_changes : str -> res changes.
  Variable o_transcript : json -> option str.
  Variable o_pct : str -> json -> res str.
  Variable o_mcp_local : list str.
  Variable o_mcp_cache : res (Z * str).
  Variable o_age : str -> res Z.
  Variable o_read : str -> res str.
  Variable o_fs : str -> str -> wres.

  Notation build := (build_statusline o_repr o_configured o_branch o_changes o_transcript o_pct o_mcp_local o_mcp_cache).
  Notation run := (sl_main base pid sesc o_repr o_configured o_branch o_changes o_transcript o_pct o_mcp_local o_mcp_cache
                       o_age o_read o_fs).
  Notation ctxrem := (get_context_remaining o_transcript o_pct).
  Notation mcp := (get_mcp_servers o_mcp_local o_mcp_cache).

  (* ---------------------------------------------------------------- totality *)
  Lemma ctx_fd data n : snd (ctxrem data) = Some n ->
    exists tp, jget data $"transcript_path" (JStr []) = Ok tp /\ fd_of tp = Some n.
  Proof.
    unfold get_context_remaining.
    destruct (jget data $"context_window" (JObj [])) as [ctx|]; [|discriminate].
    destruct (jget ctx $"context_window_size" (JNum true $"0")) as [size|]; [|discriminate].
    destruct (negb (truthy size)); [discriminate|].
    destruct (jget data $"transcript_path" (JStr [])) as [tp|]; [|discriminate].
    destruct (truthy tp).
    - destruct (o_transcript tp) as [u|]; [destruct (o_pct u size)|]; cbn [snd]; eauto.
    - cbn [snd]. discriminate.
  Qed.

  Lemma build_fd data : fd_is_stdout (b_fd (build data)) = true ->
    exists tp, jget data $"transcript_path" (JStr []) = Ok tp /\ fd_is_stdout (fd_of tp) = true.
  Proof.
    unfold build_statusline.
    destruct (styled "model" _); [|discriminate].
    destruct (cwd_str _) as [cwd|]; [|discriminate].
    destruct (if nonempty (if nonempty cwd then basename cwd else []) then _ else _); [|discriminate].
    destruct (ctxrem data) as [cx fd] eqn:E.
    assert (Hfd : forall n, fd = Some n -> exists tp, jget data $"transcript_path" (JStr []) = Ok tp /\ fd_of tp = Some n).
    { intros n ->. apply ctx_fd. rewrite E. reflexivity. }
    destruct mcp as [[m|] rf]; cbn [b_fd]; intro H; destruct fd as [n|]; try discriminate;
      destruct (Hfd n eq_refl) as [tp [A B]]; exists tp; rewrite B; auto.
  Qed.

  Lemma nl_nonempty l : l ++ NL <> [].
  Proof. destruct l; discriminate. Qed.

  Definition well (o : outcome) : Prop := exit_ok o = true /\ out o <> [] /\ traceback o = false.

  Lemma emit_well line c st rf : well (emit sesc true line c st rf).
  Proof. unfold emit, well. destruct (encodable_out sesc line); cbn [exit_ok out traceback]; repeat split; apply nl_nonempty. Qed.

  Lemma total_partial inp : stdout_hazard inp = false -> well (run true inp).
  Proof.
    intro Hz. unfold Statusline.sl_main.
    destruct (get_cached _ _ _ _) as [[|c cs]|]; try apply emit_well.
    all: destruct (fd_is_stdout (b_fd (build (data_of inp)))) eqn:F;
      [ exfalso; apply build_fd in F as [tp [A B]]; unfold stdout_hazard in Hz; rewrite A in Hz; congruence | ].
    all: destruct (b_out (build (data_of inp))); try apply emit_well; unfold well; cbn [exit_ok out traceback]; repeat split; apply nl_nonempty.
  Qed.

  (* the line is the cached text, the built line, or "?" *)
  Lemma run_shape inp : stdout_hazard inp = false ->
    (exists c, get_cached base o_age o_read (session_of (data_of inp)) = Some c /\ c <> [] /\ out (run true inp) = c ++ NL /\
               served (run true inp) = true /\ store (run true inp) = SNothing) \/
    (exists line, b_out (build (data_of inp)) = Ok line /\ out (run true inp) = line ++ NL /\
                  store (run true inp) = set_cache base pid o_fs (session_of (data_of inp)) line) \/
    out (run true inp) = QMARK ++ NL.
  Proof.
    intro Hz. unfold Statusline.sl_main.
    assert (F : fd_is_stdout (b_fd (build (data_of inp))) = false).
    { destruct (fd_is_stdout _) eqn:F; [|reflexivity]. exfalso.
      apply build_fd in F as [tp [A B]]. unfold stdout_hazard in Hz. rewrite A in Hz. congruence. }
    destruct (get_cached _ _ _ _) as [[|c cs]|] eqn:G.
    2:{ unfold emit. destruct (encodable_out sesc (c :: cs)); cbn; [left; exists (c :: cs); repeat split; auto; discriminate | auto]. }
    all: rewrite F; destruct (b_out (build (data_of inp))) as [line|]; cbn; auto;
      unfold emit; destruct (encodable_out sesc line); cbn; [right; left; exists line; auto | auto].
  Qed.

  (* ---------------------------------------------------------------- provenance of characters *)
  Variable P : N -> Prop.
  Variable HT : Forall P TEMPLATE.

  Variable data : json.
  Variable Hmodel : Forall P (py_str o_repr (field_model data)).
  Variable Hcwd : forall s, field_cwd data = JStr s -> Forall P s.
  Variable Hbranch : forall cwd b, o_branch cwd = Ok (true, b) -> Forall P b.
  Variable Hchanges : forall cwd a r, o_changes cwd = Ok (CDirty a r) -> Forall P a /\ Forall P r.
  Variable Hpct : forall u size t, o_pct u size = Ok t -> Forall P t.
  Variable Hlocal : Forall (Forall P) o_mcp_local.
  Variable Hmcpc : forall a c, o_mcp_cache = Ok (a, c) -> Forall P c.

  Ltac tsplit := pose proof HT as HT0; unfold TEMPLATE in HT0; rewrite !Forall_app in HT0;
    destruct HT0 as (TW & TSEP & TQ & TCH & TBR & TDET & TCL & TDE & TCM & TC80 & TCX & TLEFT & TMCP & TSP & TCS & TRST & TCONN).

  Lemma branch_chars cwd s : get_git_branch o_branch cwd = Some s -> Forall P s.
  Proof.
    tsplit. unfold get_git_branch. destruct (nonempty cwd); [|discriminate].
    destruct (o_branch cwd) as [[[|] b]|] eqn:E; try discriminate.
    destruct (nonempty b); intro H; eapply styled_chars in H; eauto; rewrite Forall_app; eauto.
  Qed.

  Lemma changes_chars cwd s : get_git_changes o_changes cwd = Some s -> Forall P s.
  Proof.
    tsplit. unfold get_git_changes. destruct (nonempty cwd); [|discriminate].
    destruct (o_changes cwd) as [[| |a r]|] eqn:E; try discriminate; intro H; eapply styled_chars in H; eauto.
    destruct (Hchanges _ _ _ E). rewrite !Forall_app. auto.
  Qed.

  Lemma ctx_chars s : fst (ctxrem data) = Some s -> Forall P s.
  Proof.
    tsplit. unfold get_context_remaining.
    destruct (jget data $"context_window" (JObj [])) as [ctx|]; [|discriminate].
    destruct (jget ctx $"context_window_size" (JNum true $"0")) as [size|]; [|discriminate].
    destruct (negb (truthy size)); [discriminate|].
    destruct (jget data $"transcript_path" (JStr [])) as [tp|]; [|discriminate].
    destruct (if truthy tp then o_transcript tp else None) as [u|].
    - destruct (o_pct u size) as [t|] eqn:E; [|discriminate]. cbn [fst]. intro H.
      eapply styled_chars in H; eauto. rewrite !Forall_app. eauto.
    - cbn [fst]. intro H. eapply styled_chars in H; eauto.
  Qed.

  Lemma mcp_chars s rf : mcp = (Some (Some s), rf) -> Forall P s.
  Proof.
    tsplit. unfold get_mcp_servers, CONN_PRE in *. destruct conn_rgb as [conn|]; [|discriminate].
    destruct (match o_mcp_cache with Ok (a, c) => (a, c) | Raise => _ end) as [age cached] eqn:E.
    assert (Hc : Forall P cached).
    { destruct o_mcp_cache as [[a c]|] eqn:E2; injection E as _ <-; [eauto | constructor]. }
    set (all := map (fun name => sgr $"38" conn ++ name ++ RESET) o_mcp_local ++ (if nonempty cached then [cached] else [])).
    assert (Hall : Forall (Forall P) all).
    { subst all. rewrite Forall_app. split.
      - rewrite Forall_map. eapply Forall_impl; [|exact Hlocal]. cbn beta. intros a Ha. rewrite !Forall_app. auto.
      - destruct (nonempty cached); auto. }
    destruct all as [|x l] eqn:Eall; [discriminate|].
    destruct (styled "mcp_title" $"MCP:") as [title|] eqn:Et; [|discriminate].
    assert (Hgoal : Forall P (title ++ $" " ++ join $", " (x :: l))).
    { rewrite !Forall_app. repeat split; auto.
      - eapply styled_chars; [exact TW | | exact Et]. exact TMCP.
      - apply join_chars; auto. }
    intro H; injection H as <- _. exact Hgoal.
  Qed.

  Lemma build_chars line : b_out (build data) = Ok line -> Forall P line.
  Proof.
    tsplit. unfold build_statusline.
    destruct (styled "model" _) as [m0|] eqn:Em; [|discriminate].
    assert (Hm0 : Forall P m0) by (eapply styled_chars; [exact TW | exact Hmodel | exact Em]).
    destruct (cwd_str _) as [cwd|] eqn:Ec; [|discriminate].
    assert (Hcw : Forall P cwd).
    { unfold cwd_str in Ec. destruct (field_cwd data) eqn:Ef; try discriminate. injection Ec as <-. eauto. }
    set (disp := if nonempty cwd then basename cwd else []).
    assert (Hd : Forall P disp) by (subst disp; destruct (nonempty cwd); [apply basename_chars; assumption | constructor]).
    destruct (if nonempty disp then styled "directory" disp else Some []) as [disp_s|] eqn:Ed; [|discriminate].
    assert (Hds : Forall P disp_s).
    { destruct (nonempty disp); [eapply styled_chars; [exact TW | exact Hd | exact Ed] | injection Ed as <-; constructor]. }
    destruct (ctxrem data) as [cx fd] eqn:Ecx.
    destruct mcp as [[m|] rf] eqn:Emcp; [|discriminate].
    cbn [b_out]. intro H; injection H as <-.
    apply join_chars; [assumption|].
    rewrite !Forall_app. repeat split.
    - assert (Forall P (if is_dippy_configured o_configured then CHICK ++ m0 else m0))
        by (destruct (is_dippy_configured _); [rewrite Forall_app|]; auto).
      destruct (nonempty disp_s); auto.
    - apply opt_list_chars. intros s Hs. eapply branch_chars; eauto.
    - apply opt_list_chars. intros s Hs. eapply changes_chars; eauto.
    - apply opt_list_chars. intros s ->. apply ctx_chars. rewrite Ecx. reflexivity.
    - apply opt_list_chars. intros s ->. eapply mcp_chars; eauto.
  Qed.

  Variable Hread : forall p s, o_read p = Ok s -> Forall P s.

  Lemma cached_chars sid c : get_cached base o_age o_read sid = Some c -> Forall P c.
  Proof.
    unfold get_cached. destruct (get_cache_path base sid) as [p|]; [|discriminate].
    destruct (o_age p); [|discriminate]. destruct (older _ _ _); [discriminate|].
    destruct (o_read p) eqn:E; [|discriminate]. intro H; injection H as <-. eauto.
  Qed.

  Definition line_ok (o : outcome) : Prop := out o = [] \/ exists line, out o = line ++ NL /\ Forall P line.
  Definition store_ok (st : stored) : Prop :=
    match st with SNothing => True | STmpLeft _ c => Forall P c | SStored _ _ c => Forall P c end.

  Lemma set_cache_ok sid line : Forall P line -> store_ok (set_cache base pid o_fs sid line).
  Proof.
    intro H. unfold set_cache. destruct (get_cache_path base sid); [|exact I].
    destruct (o_fs _ _); cbn; auto; destruct (encodable line); cbn; auto.
  Qed.

  Lemma run_chars inp : data = data_of inp -> line_ok (run true inp) /\ store_ok (store (run true inp)).
  Proof.
    intros Hdata. tsplit. unfold Statusline.sl_main. rewrite <- Hdata.
    assert (Hq : forall st rf, line_ok {| exit_ok := true; out := QMARK ++ NL; traceback := false; served := false;
                                          store := st; refresh := rf |}).
    { intros. right. exists QMARK. auto. }
    assert (Hemit : forall line c st rf, Forall P line -> line_ok (emit sesc true line c st rf)).
    { intros. unfold emit. destruct (encodable_out sesc line); [right; exists line; auto | apply Hq]. }
    assert (Hst : forall line c st rf, store (emit sesc true line c st rf) = st).
    { intros. unfold emit. destruct (encodable_out sesc line); reflexivity. }
    destruct (get_cached _ _ _ _) as [[|c cs]|] eqn:G.
    2:{ split; [apply Hemit; eapply cached_chars; eauto | rewrite Hst; exact I]. }
    all: destruct (b_out (build data)) as [line|] eqn:B;
      [ pose proof (build_chars _ B) as Hl | ];
      destruct (fd_is_stdout _); cbn [store broken]; try rewrite Hst;
      try (split; [first [apply Hemit; assumption | apply Hq | left; reflexivity] | first [apply set_cache_ok; assumption | exact I]]).
  Qed.
End Main.

(* ------------------------------------------------------------------ histories *)
Definition clean (P : N -> Prop) (i : invocation) : Prop :=
  let data := data_of (i_inp i) in
  Forall P (py_str (i_repr i) (field_model data)) /\
  (forall s, field_cwd data = JStr s -> Forall P s) /\
  (forall cwd b, i_branch i cwd = Ok (true, b) -> Forall P b) /\
  (forall cwd a r, i_changes i cwd = Ok (CDirty a r) -> Forall P a /\ Forall P r) /\
  (forall u size t, i_pct i u size = Ok t -> Forall P t) /\
  Forall (Forall P) (i_mcp_local i) /\
  (forall a c, i_mcp_cache i = Ok (a, c) -> Forall P c).

Definition files_ok (P : N -> Prop) (f : files) : Prop := forall p s, f p = Some s -> Forall P s.

Lemma univ_nl_id s : Forall (fun c => c <> 13) s -> univ_nl s = s.
Proof.
  induction 1 as [|c r Hc Hr IH]; [reflexivity|].
  assert (E : univ_nl (c :: r) = c :: univ_nl r).
  { destruct c as [|p]; [reflexivity|]. do 4 (destruct p as [p|p|]; try reflexivity). exfalso; apply Hc; reflexivity. }
  rewrite E, IH. reflexivity.
Qed.

Section Hist.
  Variable P : N -> Prop.
  Variable Pcr : forall c, P c -> c <> 13.
  Variable HT : Forall P TEMPLATE.
  Variable base : str.

  Lemma invoke_ok f i : files_ok P f -> clean P i ->
    files_ok P (fst (invoke base f i)) /\ line_ok P (snd (invoke base f i)).
  Proof.
    intros Hf (C1 & C2 & C3 & C4 & C5 & C6 & C7). unfold invoke.
    set (fage := fun p : str => match f p with Some _ => Ok (i_age i) | None => Raise end).
    set (fread := fun p : str => match f p with Some s => Ok (univ_nl s) | None => Raise end).
    match goal with |- context [store ?x] => set (o := x) end.
    assert (Hread : forall p s, fread p = Ok s -> Forall P s).
    { intros p s. unfold fread. destruct (f p) as [s0|] eqn:E; [|discriminate]. intro H; injection H as <-.
      pose proof (Hf _ _ E) as Hs. rewrite univ_nl_id; [assumption|].
      eapply Forall_impl; [|exact Hs]. auto. }
    destruct (run_chars base (i_pid i) (i_sesc i) (i_repr i) (i_configured i) (i_branch i) (i_changes i) (i_transcript i)
                (i_pct i) (i_mcp_local i) (i_mcp_cache i) fage fread (fun _ _ => i_fs i) P HT (data_of (i_inp i))
                C1 C2 C3 C4 C5 C6 C7 Hread (i_inp i) eq_refl) as [L S].
    fold o in L, S. cbn [fst snd]. split; [|exact L].
    destruct (store o) as [|t c|p t c]; cbn in S; [assumption| |];
      intros q s; unfold fupd; destruct (str_eqb q _); try (intro H; injection H as <-; assumption); apply Hf.
  Qed.

  Lemma history_ok l : forall f, files_ok P f -> Forall (clean P) l -> Forall (line_ok P) (history base f l).
  Proof.
    induction l as [|i l IH]; intros f Hf Hl; [constructor|].
    inversion Hl as [|? ? Hi Hl']; subst. cbn [history].
    destruct (invoke base f i) as [f' o] eqn:E.
    pose proof (invoke_ok f i Hf Hi) as [A B]. rewrite E in A, B. cbn [fst snd] in A, B.
    constructor; auto.
  Qed.
End Hist.

(* ------------------------------------------------------------------ witnesses *)
Definition quiet (pid : str) (inp : option json) : invocation :=
  {| i_pid := pid; i_sesc := false; i_inp := inp; i_repr := fun _ => []; i_configured := Raise; i_branch := fun _ => Raise;
     i_changes := fun _ => Raise; i_transcript := fun _ => None; i_pct := fun _ _ => Raise; i_mcp_local := [];
     i_mcp_cache := Raise; i_age := 0%Z; i_fs := WOk |}.

Definition run_quiet (guarded : bool) (inp : option json) : outcome :=
  sl_main [47; 99] $"1" false (fun _ => []) Raise (fun _ => Raise) (fun _ => Raise) (fun _ => None) (fun _ _ => Raise) [] Raise
      (fun _ => Raise) (fun _ => Raise) (fun _ _ => WOk) guarded inp.

(* {"context_window": {"context_window_size": 100}, "transcript_path": true} *)
Definition hazard_input : option json :=
  Some (JObj [($"context_window", JObj [($"context_window_size", JNum false $"100")]); ($"transcript_path", JBool true)]).
(* {"workspace": {"current_dir": 5}} *)
Definition f18_input : option json := Some (JObj [($"workspace", JObj [($"current_dir", JNum false $"5")])]).

Lemma total_refuted : exit_ok (run_quiet true hazard_input) = false /\ out (run_quiet true hazard_input) = [].
Proof. split; vm_compute; reflexivity. Qed.

Lemma legacy_refuted : traceback (run_quiet false f18_input) = true /\ exit_ok (run_quiet false f18_input) = false.
Proof. split; vm_compute; reflexivity. Qed.

Lemma guard_example : out (run_quiet true f18_input) = QMARK ++ [10] /\ exit_ok (run_quiet true f18_input) = true.
Proof. split; vm_compute; reflexivity. Qed.

(* "\r" is not "\n", but a line cached with "\r" is served with "\n" *)
Definition cr_inv (name : str) : invocation :=
  quiet $"1" (Some (JObj [($"session_id", JStr $"s"); ($"model", JObj [($"display_name", JStr name)])])).

Lemma cr_clean name : Forall (fun c => c <> 10) name -> clean (fun c => c <> 10) (cr_inv name).
Proof.
  intro H. unfold clean, cr_inv, quiet. cbn [i_inp i_repr i_branch i_changes i_pct i_mcp_local i_mcp_cache].
  split; [|split; [|split; [|split; [|split; [|split]]]]]; try (intros; discriminate).
  - cbn. destruct name; cbn; [repeat constructor; discriminate | assumption].
  - intros s E. vm_compute in E. injection E as <-. constructor.
  - constructor.
Qed.

Lemma history_cr_refuted :
  let P := fun c : N => c <> 10 in
  let l := [cr_inv [97; 13; 98]; cr_inv [122]] in
  Forall P TEMPLATE /\ Forall (clean P) l /\
  exists o1 o2, history [47; 99] (fun _ => None) l = [o1; o2] /\ served o2 = true /\ In 10 (removelast (out o2)).
Proof.
  cbn zeta. split; [|split].
  - eapply Forall_impl; [|exact template_no_breaks]. cbn beta. intros c H E. apply H. subst c. left. reflexivity.
  - constructor; [|constructor; [|constructor]]; apply cr_clean; repeat (apply Forall_cons; [discriminate|]); constructor.
  - eexists. eexists. split; [vm_compute; reflexivity|]. split; vm_compute; auto 30.
Qed.
