(* Insertion-ordered dictionaries (Python dict as the config code uses it): d[k] = v, {**a, **b}. *)
From DippyV Require Import Base.Str Model.Layers.

Definition keys (d : dict) : list str := map fst d.

Lemma nodup_snoc {A} (l : list A) x : NoDup l -> ~ In x l -> NoDup (l ++ [x]).
Proof.
  induction l as [|y l IH]; cbn [app]; intros Hn Hx.
  - constructor; [intros []|constructor].
  - inversion Hn as [|? ? Hy Hl]; subst. constructor.
    + intro H. apply in_app_or in H. destruct H as [H|[H|[]]]; [auto|subst; apply Hx; left; reflexivity].
    + apply IH; [assumption|]. intro; apply Hx; right; assumption.
Qed.

Lemma dict_set_in k v d : In k (keys d) -> keys (dict_set k v d) = keys d.
Proof.
  induction d as [|[k' v'] r IH]; cbn [dict_set keys map fst]; intro H; [destruct H|].
  destruct (str_eqb_spec k' k) as [->|Hn]; cbn [map fst]; [reflexivity|].
  destruct H as [H|H]; [congruence|]. f_equal. apply IH, H.
Qed.
Lemma dict_set_notin k v d : ~ In k (keys d) -> dict_set k v d = d ++ [(k, v)].
Proof.
  induction d as [|[k' v'] r IH]; cbn [dict_set keys map fst app]; intro H; [reflexivity|].
  destruct (str_eqb_spec k' k) as [->|Hn]; [exfalso; apply H; left; reflexivity|].
  f_equal. apply IH. intro; apply H; right; assumption.
Qed.
Lemma dict_set_keys k v d : keys (dict_set k v d) = if mem_str k (keys d) then keys d else keys d ++ [k].
Proof.
  destruct (mem_str k (keys d)) eqn:E.
  - apply dict_set_in, mem_str_In, E.
  - rewrite dict_set_notin; [unfold keys; rewrite map_app; reflexivity|].
    intro H; apply mem_str_In in H; congruence.
Qed.
Lemma dict_set_in_keys k v d : In k (keys (dict_set k v d)).
Proof.
  rewrite dict_set_keys. destruct (mem_str k (keys d)) eqn:E; [apply mem_str_In, E|].
  apply in_or_app; right; left; reflexivity.
Qed.
Lemma dict_set_keeps k k' v d : In k (keys d) -> In k (keys (dict_set k' v d)).
Proof.
  intro H. rewrite dict_set_keys. destruct (mem_str k' (keys d)); [assumption|]. apply in_or_app; left; assumption.
Qed.
Lemma dict_set_nodup k v d : NoDup (keys d) -> NoDup (keys (dict_set k v d)).
Proof.
  intro H. rewrite dict_set_keys. destruct (mem_str k (keys d)) eqn:E; [assumption|].
  apply nodup_snoc; [assumption|]. intro Hi; apply mem_str_In in Hi; congruence.
Qed.
Lemma dict_setall_nodup l d : NoDup (keys d) -> NoDup (keys (dict_setall l d)).
Proof.
  revert d; induction l as [|[k v] l IH]; intros d H; cbn [dict_setall fold_left]; [assumption|].
  apply IH, dict_set_nodup, H.
Qed.
Lemma dict_setall_keeps k l d : In k (keys d) -> In k (keys (dict_setall l d)).
Proof.
  revert d; induction l as [|[k' v] l IH]; intros d H; cbn [dict_setall fold_left]; [assumption|].
  apply IH, dict_set_keeps, H.
Qed.

(* overwriting twice = overwriting once *)
Lemma dict_set_twice k v v' d : dict_set k v (dict_set k v' d) = dict_set k v d.
Proof.
  induction d as [|[k1 v1] r IH]; cbn [dict_set].
  - rewrite str_eqb_refl; reflexivity.
  - destruct (str_eqb_spec k1 k) as [->|Hn]; cbn [dict_set].
    + rewrite str_eqb_refl; reflexivity.
    + destruct (str_eqb_spec k1 k); [congruence|]. f_equal; apply IH.
Qed.
(* assignments to different keys commute once the first key is present (no reordering of insertions) *)
Lemma dict_set_comm k v k1 v1 d : k <> k1 -> In k (keys d) ->
  dict_set k v (dict_set k1 v1 d) = dict_set k1 v1 (dict_set k v d).
Proof.
  intros Hne. induction d as [|[k2 v2] r IH]; cbn [keys map fst]; intro H; [destruct H|].
  cbn [dict_set].
  destruct (str_eqb_spec k2 k1) as [E1|H1]; destruct (str_eqb_spec k2 k) as [E2|H2]; cbn [dict_set].
  - congruence.
  - destruct (str_eqb_spec k2 k1); [|congruence]. destruct (str_eqb_spec k2 k); [congruence|]. reflexivity.
  - destruct (str_eqb_spec k2 k1); [congruence|]. destruct (str_eqb_spec k2 k); [|congruence]. reflexivity.
  - destruct (str_eqb_spec k2 k1); [congruence|]. destruct (str_eqb_spec k2 k); [congruence|].
    f_equal. apply IH. destruct H as [H|H]; [congruence|assumption].
Qed.
Lemma dict_set_setall_comm k v r : ~ In k (keys r) -> forall d, In k (keys d) ->
  dict_set k v (dict_setall r d) = dict_setall r (dict_set k v d).
Proof.
  induction r as [|[k1 v1] r IH]; intros Hk d Hd; cbn [dict_setall fold_left fst snd]; [reflexivity|].
  fold (dict_setall r (dict_set k1 v1 d)). fold (dict_setall r (dict_set k1 v1 (dict_set k v d))).
  assert (k <> k1) by (intro; subst; apply Hk; left; reflexivity).
  rewrite IH; [|intro; apply Hk; right; assumption|apply dict_set_keeps, Hd].
  rewrite dict_set_comm by assumption. reflexivity.
Qed.
(* assigning the entries of a dictionary one by one, then k: same as assigning k inside it first *)
Lemma dict_setall_set k v e : NoDup (keys e) -> forall d,
  dict_setall (dict_set k v e) d = dict_set k v (dict_setall e d).
Proof.
  induction e as [|[k1 v1] r IH]; intros Hn d.
  - reflexivity.
  - cbn [keys map fst] in Hn. inversion Hn as [|? ? Hk1 Hr]; subst.
    cbn [dict_set]. destruct (str_eqb_spec k1 k) as [->|Hne].
    + cbn [dict_setall fold_left fst snd]. fold (dict_setall r (dict_set k v d)). fold (dict_setall r (dict_set k v1 d)).
      rewrite dict_set_setall_comm; [|exact Hk1|apply dict_set_in_keys].
      rewrite dict_set_twice. reflexivity.
    + cbn [dict_setall fold_left fst snd]. fold (dict_setall (dict_set k v r) (dict_set k1 v1 d)).
      fold (dict_setall r (dict_set k1 v1 d)). apply IH, Hr.
Qed.
Lemma dict_setall_assoc l : forall e d, NoDup (keys e) ->
  dict_setall (dict_setall l e) d = dict_setall l (dict_setall e d).
Proof.
  induction l as [|[k v] l IH]; intros e d Hn; [reflexivity|].
  cbn [dict_setall fold_left fst snd]. fold (dict_setall l (dict_set k v e)).
  fold (dict_setall l (dict_set k v (dict_setall e d))).
  rewrite IH by (apply dict_set_nodup, Hn). rewrite dict_setall_set by assumption. reflexivity.
Qed.
(* {**d, **dict(l)} = d after the assignments of l in order: building the overlay first loses nothing *)
Lemma dict_setall_canon l d : dict_setall (dict_setall l []) d = dict_setall l d.
Proof. apply (dict_setall_assoc l [] d). constructor. Qed.

Lemma dict_setall_app l m d : dict_setall (l ++ m) d = dict_setall m (dict_setall l d).
Proof. apply fold_left_app. Qed.

(* {**{}, **d} = d and {**d, **{}} = d *)
Lemma dict_setall_fresh d : NoDup (keys d) -> forall pre, (forall k, In k (keys d) -> ~ In k (keys pre)) ->
  dict_setall d pre = pre ++ d.
Proof.
  induction d as [|[k v] r IH]; intros Hn pre Hd; cbn [dict_setall fold_left fst snd].
  - rewrite app_nil_r; reflexivity.
  - fold (dict_setall r (dict_set k v pre)). cbn [keys map fst] in Hn. inversion Hn as [|? ? Hk Hr]; subst.
    rewrite dict_set_notin by (apply Hd; left; reflexivity).
    rewrite IH; [rewrite <- app_assoc; reflexivity|assumption|].
    intros k' Hk' Hin. unfold keys in Hin. rewrite map_app in Hin. apply in_app_or in Hin.
    destruct Hin as [Hin|[Hin|[]]].
    + apply (Hd k'); [right; assumption|assumption].
    + cbn [fst] in Hin. subst. apply Hk, Hk'.
Qed.
Lemma dict_merge_nil_l d : NoDup (keys d) -> dict_merge [] d = d.
Proof. intro H. unfold dict_merge. rewrite dict_setall_fresh; [reflexivity|assumption|intros ? ? []]. Qed.
Lemma dict_merge_nil_r d : dict_merge d [] = d.
Proof. reflexivity. Qed.

(* lookups: the later assignment wins per key, other keys are untouched *)
Lemma dict_get_set k v k' d : dict_get k' (dict_set k v d) = if str_eqb k k' then Some v else dict_get k' d.
Proof.
  induction d as [|[k1 v1] r IH]; cbn [dict_set dict_get].
  - destruct (str_eqb_spec k k'); reflexivity.
  - destruct (str_eqb_spec k1 k) as [->|Hn]; cbn [dict_get].
    + destruct (str_eqb_spec k k'); reflexivity.
    + destruct (str_eqb_spec k1 k') as [->|Hn']; [destruct (str_eqb_spec k k'); [congruence|reflexivity]|apply IH].
Qed.
Lemma dict_get_notin k d : ~ In k (keys d) -> dict_get k d = None.
Proof.
  induction d as [|[k1 v1] r IH]; cbn [dict_get keys map fst]; intro H; [reflexivity|].
  destruct (str_eqb_spec k1 k) as [->|Hn]; [exfalso; apply H; left; reflexivity|].
  apply IH. intro; apply H; right; assumption.
Qed.
Lemma dict_get_merge k a b : NoDup (keys b) ->
  dict_get k (dict_merge a b) = match dict_get k b with Some v => Some v | None => dict_get k a end.
Proof.
  unfold dict_merge. revert a; induction b as [|[k1 v1] r IH]; intros a Hn; cbn [dict_setall fold_left fst snd dict_get]; [reflexivity|].
  fold (dict_setall r (dict_set k1 v1 a)). cbn [keys map fst] in Hn. inversion Hn as [|? ? Hk Hr]; subst.
  rewrite IH by assumption. destruct (str_eqb_spec k1 k) as [->|Hne].
  - rewrite (dict_get_notin k r Hk). rewrite dict_get_set, str_eqb_refl. reflexivity.
  - destruct (dict_get k r); [reflexivity|]. rewrite dict_get_set. destruct (str_eqb_spec k1 k); [congruence|reflexivity].
Qed.
