(* C20, part "confinement": get_cache_path and the tmp name of set_cache stay inside CACHE_DIR. *)
From DippyV Require Import Base.Str Gen.Tables Model.Statusline.

Lemma split_last_noslash b : ~ In slash b -> split_last b = ([], b).
Proof.
  induction b as [|c b IH]; simpl; intro H; [reflexivity|].
  rewrite IH by (intro; apply H; auto).
  unfold is_slash. destruct (N.eqb_spec c slash) as [->|_]; [exfalso; apply H; auto | reflexivity].
Qed.

Lemma split_last_app a b : ~ In slash b -> split_last (a ++ slash :: b) = (a ++ [slash], b).
Proof.
  intro H. induction a as [|c a IH]; simpl.
  - rewrite split_last_noslash by assumption. reflexivity.
  - rewrite IH. destruct a; reflexivity.
Qed.

Lemma basename_app a b : ~ In slash b -> basename (a ++ slash :: b) = b.
Proof. intro H. unfold basename. rewrite split_last_app by assumption. reflexivity. Qed.

(* a directory name that does not end with a slash (and is not empty) *)
Definition good_dir (d : str) : Prop := exists x c, d = x ++ [c] /\ c <> slash.

Lemma suffixb_last x c : suffixb [slash] (x ++ [c]) = N.eqb slash c.
Proof. unfold suffixb. rewrite rev_app_distr. simpl. rewrite andb_true_r. reflexivity. Qed.

Lemma good_dir_join d name : good_dir d -> prefixb [slash] name = false ->
  path_join d name = d ++ slash :: name.
Proof.
  intros [x [c [-> Hc]]] Hn. unfold path_join. rewrite Hn, suffixb_last.
  destruct (N.eqb_spec slash c) as [E|_]; [congruence|].
  destruct x; reflexivity.
Qed.

Lemma rstrip_slash x c : c <> slash -> rstrip [slash] ((x ++ [c]) ++ [slash]) = x ++ [c].
Proof.
  intro Hc. unfold rstrip. rewrite !rev_app_distr. simpl.
  destruct (N.eqb_spec c slash) as [E|_]; [congruence|]. simpl.
  rewrite rev_involutive. reflexivity.
Qed.

Lemma good_dir_dirname d name : good_dir d -> ~ In slash name -> dirname (d ++ slash :: name) = d.
Proof.
  intros [x [c [-> Hc]]] Hn. unfold dirname. rewrite split_last_app by assumption. cbn [fst].
  assert (Hne : nonempty ((x ++ [c]) ++ [slash]) = true) by (destruct x; reflexivity).
  assert (Hall : forallb is_slash ((x ++ [c]) ++ [slash]) = false).
  { rewrite !forallb_app. cbn [forallb]. unfold is_slash at 2.
    destruct (N.eqb_spec c slash); [congruence|]. rewrite andb_false_r. reflexivity. }
  rewrite Hne, Hall. cbn [negb andb]. apply rstrip_slash; assumption.
Qed.

Lemma prefixb_noslash name : ~ In slash name -> prefixb [slash] name = false.
Proof.
  destruct name as [|c r]; [reflexivity|]. intro H. cbn [prefixb].
  destruct (N.eqb_spec slash c) as [E|_]; [exfalso; apply H; left; auto | reflexivity].
Qed.

(* ---- CACHE_DIR *)
Lemma dir_name_facts :
  prefixb [slash] SL_CACHE_DIR_NAME = false /\
  exists x c, SL_CACHE_DIR_NAME = x ++ [c] /\ c <> slash.
Proof.
  split; [vm_compute; reflexivity|].
  exists (removelast SL_CACHE_DIR_NAME), (last SL_CACHE_DIR_NAME 0).
  split; [vm_compute; reflexivity | vm_compute; discriminate].
Qed.

Lemma cache_dir_good base : good_dir (cache_dir base).
Proof.
  destruct dir_name_facts as [Hp [x [c [E Hc]]]].
  unfold cache_dir, path_join. rewrite Hp.
  destruct (negb (nonempty base) || suffixb [slash] base).
  - exists (base ++ x), c. rewrite E, app_assoc. auto.
  - exists (base ++ [slash] ++ x), c. rewrite E, <- !app_assoc. auto.
Qed.

(* ---- the file name *)
Lemma sid_facts : SL_SID_FROM = slash /\ SL_SID_TO <> slash /\ ~ In slash SL_CACHE_SUFFIX /\
                  ~ In slash SL_SID_DEFAULT /\ (3 <= length SL_CACHE_SUFFIX)%nat /\ ~ In slash SL_TMP_INFIX.
Proof.
  repeat split; try (vm_compute; congruence); try (vm_compute; lia);
    intro H; vm_compute in H; repeat (destruct H as [H|H]; [discriminate|]); exact H.
Qed.

Lemma replace_noslash s : ~ In slash (replace_ch SL_SID_FROM SL_SID_TO s).
Proof.
  destruct sid_facts as [Hf [Ht _]]. unfold replace_ch. rewrite in_map_iff. intros [x [Hx _]].
  destruct (N.eqb_spec x SL_SID_FROM); congruence.
Qed.

Definition entry_name (n : str) : Prop :=
  ~ In slash n /\ n <> $"." /\ n <> $".." /\ suffixb SL_CACHE_SUFFIX n = true.

Lemma suffixb_app x s : suffixb s (x ++ s) = true.
Proof. unfold suffixb. rewrite rev_app_distr. apply prefixb_spec. eauto. Qed.

Lemma name_ok x : ~ In slash x -> entry_name (x ++ SL_CACHE_SUFFIX).
Proof.
  destruct sid_facts as [_ [_ [Hs [_ [Hl _]]]]]. intro Hx.
  assert (Hlen : (3 <= length (x ++ SL_CACHE_SUFFIX))%nat) by (rewrite app_length; lia).
  repeat split.
  - rewrite in_app_iff. tauto.
  - intro E. rewrite E in Hlen. simpl in Hlen. lia.
  - intro E. rewrite E in Hlen. simpl in Hlen. lia.
  - apply suffixb_app.
Qed.

(* the shape of every cache path *)
Lemma cache_path_shape base sid p : get_cache_path base sid = Some p ->
  exists n, p = cache_dir base ++ slash :: n /\ entry_name n.
Proof.
  unfold get_cache_path. destruct (truthy sid).
  - destruct sid; try discriminate. intro H; injection H as <-.
    pose proof (name_ok _ (replace_noslash s)) as Hn.
    exists (replace_ch SL_SID_FROM SL_SID_TO s ++ SL_CACHE_SUFFIX). split; [|exact Hn].
    apply good_dir_join; [apply cache_dir_good | apply prefixb_noslash, Hn].
  - intro H; injection H as <-.
    destruct sid_facts as [_ [_ [_ [Hd _]]]].
    pose proof (name_ok _ Hd) as Hn.
    exists (SL_SID_DEFAULT ++ SL_CACHE_SUFFIX). split; [|exact Hn].
    apply good_dir_join; [apply cache_dir_good | apply prefixb_noslash, Hn].
Qed.

Lemma confine base sid p : get_cache_path base sid = Some p ->
  dirname p = cache_dir base /\ ~ In slash (basename p) /\ basename p <> $"." /\ basename p <> $".." /\
  p = cache_dir base ++ slash :: basename p.
Proof.
  intro H. destruct (cache_path_shape _ _ _ H) as [n [-> [Hs [H1 [H2 _]]]]].
  rewrite basename_app by assumption.
  rewrite good_dir_dirname by (auto using cache_dir_good). auto.
Qed.

(* exactly the truthy non-strings have no cache path (get_cache_path raises) *)
Lemma no_path_iff base sid :
  get_cache_path base sid = None <-> (truthy sid = true /\ forall s, sid <> JStr s).
Proof.
  unfold get_cache_path. split.
  - destruct (truthy sid) eqn:T; [|discriminate]. destruct sid; try discriminate; intros _; split; auto; discriminate.
  - intros [T Hn]. rewrite T. destruct sid; try reflexivity. exfalso. eapply Hn. reflexivity.
Qed.

(* ---- the tmp file of set_cache *)
Definition digits (s : str) : Prop := s <> [] /\ Forall (fun c => 48 <= c <= 57) s.

Lemma digits_noslash s : digits s -> ~ In slash s.
Proof. intros [_ H] Hin. rewrite Forall_forall in H. apply H in Hin. unfold slash in Hin. lia. Qed.

Lemma confine_tmp base pid sid p : digits pid -> get_cache_path base sid = Some p ->
  let t := tmp_of pid p in
  dirname t = cache_dir base /\ ~ In slash (basename t) /\ basename t <> $"." /\ basename t <> $".." /\
  basename t = basename p ++ SL_TMP_INFIX ++ pid.
Proof.
  intros Hd H. destruct (cache_path_shape _ _ _ H) as [n [-> [Hs [H1 [H2 Hsuf]]]]].
  destruct sid_facts as [_ [_ [_ [_ [_ Hi]]]]].
  unfold tmp_of. cbn zeta. rewrite <- app_assoc. cbn [app].
  assert (Hn : ~ In slash (n ++ SL_TMP_INFIX ++ pid)).
  { rewrite !in_app_iff. pose proof (digits_noslash _ Hd). tauto. }
  rewrite !basename_app by assumption.
  rewrite good_dir_dirname by (auto using cache_dir_good).
  assert (Hlen : (3 <= length (n ++ SL_TMP_INFIX ++ pid))%nat).
  { rewrite !app_length. assert (1 <= length SL_TMP_INFIX)%nat by (vm_compute; lia).
    destruct Hd as [Hne _]. destruct pid; [congruence|]. simpl. lia. }
  repeat split; auto; intro E; rewrite E in Hlen; simpl in Hlen; lia.
Qed.

(* a tmp name is never the name of a cache entry: it ends with a digit, an entry with the suffix *)
Lemma last_app_ne {A} (x y : list A) d : y <> [] -> last (x ++ y) d = last y d.
Proof.
  intro Hy. induction x as [|a x IH]; [reflexivity|].
  cbn [app]. cbn [last]. destruct (x ++ y) eqn:E.
  - destruct x; destruct y; try discriminate; congruence.
  - exact IH.
Qed.

Lemma tmp_not_entry base pid sid p sid' p' : digits pid ->
  get_cache_path base sid = Some p -> get_cache_path base sid' = Some p' -> tmp_of pid p <> p'.
Proof.
  intros [Hne Hd] H H'. unfold tmp_of.
  destruct (cache_path_shape _ _ _ H') as [n' [-> [_ [_ [_ Hsuf]]]]].
  intro E. apply (f_equal (fun l => last l 0)) in E.
  rewrite app_assoc in E. rewrite last_app_ne in E by assumption.
  unfold suffixb in Hsuf. apply prefixb_spec in Hsuf as [r Hr].
  apply (f_equal (@rev N)) in Hr. rewrite rev_involutive, rev_app_distr, rev_involutive in Hr.
  assert (Hl : last (cache_dir base ++ slash :: n') 0 = last SL_CACHE_SUFFIX 0).
  { rewrite Hr. change (slash :: rev r ++ SL_CACHE_SUFFIX) with ((slash :: rev r) ++ SL_CACHE_SUFFIX).
    rewrite app_assoc. apply last_app_ne. vm_compute. discriminate. }
  rewrite Hl in E.
  assert (Hdig : 48 <= last pid 0 <= 57).
  { destruct (exists_last Hne) as [x [c ->]]. rewrite last_app_ne by discriminate. cbn [last].
    rewrite Forall_forall in Hd. apply Hd. rewrite in_app_iff. right. left. reflexivity. }
  rewrite E in Hdig. vm_compute in Hdig. destruct Hdig as [A1 A2]. apply A2. reflexivity.
Qed.

(* ---- the MCP server-list cache lives in the same directory under a name of the same shape *)
Lemma replace_ch_id a b s t : ~ In b t -> replace_ch a b s = t -> s = t.
Proof.
  revert t; induction s as [|c s IH]; intros [|d t] Hb H; try discriminate; [reflexivity|].
  unfold replace_ch in H. cbn [map] in H. injection H as Hc Hs.
  destruct (N.eqb_spec c a) as [->|Hne].
  - exfalso. apply Hb. left. symmetry. exact Hc.
  - subst d. f_equal. apply IH; [intro; apply Hb; right; assumption | exact Hs].
Qed.

Definition sid_name (sid : json) : str :=
  if truthy sid then match sid with JStr s => replace_ch SL_SID_FROM SL_SID_TO s ++ SL_CACHE_SUFFIX | _ => [] end
  else SL_SID_DEFAULT ++ SL_CACHE_SUFFIX.

Lemma cache_path_name base sid p : get_cache_path base sid = Some p -> p = cache_dir base ++ slash :: sid_name sid.
Proof.
  unfold get_cache_path, sid_name. destruct (truthy sid).
  - destruct sid; try discriminate. intro H; injection H as <-.
    apply good_dir_join; [apply cache_dir_good | apply prefixb_noslash, (name_ok _ (replace_noslash s))].
  - intro H; injection H as <-. destruct sid_facts as [_ [_ [_ [Hd _]]]].
    apply good_dir_join; [apply cache_dir_good | apply prefixb_noslash, (name_ok _ Hd)].
Qed.

Lemma mcp_path_eq base : mcp_cache_path base = cache_dir base ++ slash :: SL_MCP_CACHE_NAME.
Proof. unfold mcp_cache_path. apply good_dir_join; [apply cache_dir_good | vm_compute; reflexivity]. Qed.

(* the MCP cache's name is not of the shape of an entry name: no session id maps to it *)
Lemma mcp_no_alias base sid p : get_cache_path base sid = Some p -> p <> mcp_cache_path base.
Proof.
  intros H E. destruct (cache_path_shape _ _ _ H) as [n [-> [_ [_ [_ Hsuf]]]]].
  rewrite mcp_path_eq in E. apply app_inv_head in E. injection E as ->.
  vm_compute in Hsuf. discriminate.
Qed.

(* digit strings followed by a "." are determined by the whole *)
Lemma digits_prefix a b x y :
  Forall (fun c => 48 <= c <= 57) a -> Forall (fun c => 48 <= c <= 57) b ->
  a ++ 46 :: x = b ++ 46 :: y -> a = b /\ x = y.
Proof.
  revert b. induction a as [|c a IH]; intros [|d b] Ha Hb E; cbn [app] in E.
  - injection E as ->. auto.
  - injection E as <- _. inversion Hb as [|? ? Hd _]. lia.
  - injection E as -> _. inversion Ha as [|? ? Hc _]. lia.
  - injection E as -> E. inversion Ha; inversion Hb; subst.
    destruct (IH b) as [-> ->]; auto.
Qed.

(* ... and neither does the tmp.<pid> file of any session coincide with the file the refresh pipeline
   redirects into (whatever the two pids), nor with the MCP cache, nor an entry with that tmp file *)
Lemma mcp_tmp_no_alias base pid pid' sid p : digits pid -> digits pid' -> get_cache_path base sid = Some p ->
  tmp_of pid p <> mcp_tmp base pid' /\ tmp_of pid p <> mcp_cache_path base /\ p <> mcp_tmp base pid'.
Proof.
  intros [Hne Hd] [Hne' Hd'] H.
  destruct (cache_path_shape _ _ _ H) as [n [-> [Hns [_ [_ Hsuf]]]]].
  unfold tmp_of, mcp_tmp. rewrite mcp_path_eq.
  assert (Hi : exists i, rev SL_TMP_INFIX = 46 :: i) by (eexists; vm_compute; reflexivity).
  assert (Hi' : rev SL_MCP_TMP_INFIX = rev SL_TMP_INFIX) by (vm_compute; reflexivity).
  destruct Hi as [i Hi].
  assert (Hm : suffixb SL_CACHE_SUFFIX SL_MCP_CACHE_NAME = false) by (vm_compute; reflexivity).
  assert (Hl1 : ~ (last SL_MCP_CACHE_NAME 0 <= 57)) by (vm_compute; intro A; apply A; reflexivity).
  assert (Hl2 : ~ (last SL_CACHE_SUFFIX 0 <= 57)) by (vm_compute; intro A; apply A; reflexivity).
  assert (Hs0 : SL_CACHE_SUFFIX <> []) by (vm_compute; discriminate).
  remember SL_TMP_INFIX as I1. remember SL_MCP_TMP_INFIX as I2. remember SL_MCP_CACHE_NAME as M. remember SL_CACHE_SUFFIX as S.
  repeat split; intro E; rewrite <- !app_assoc in E; apply app_inv_head in E; injection E as E.
  - apply (f_equal (@rev N)) in E. rewrite !rev_app_distr, Hi', Hi in E. rewrite <- !app_assoc in E. cbn [app] in E.
    apply digits_prefix in E as [_ E]; [|apply Forall_rev; assumption|apply Forall_rev; assumption].
    apply app_inv_head in E. apply (f_equal (@rev N)) in E. rewrite !rev_involutive in E. subst n.
    congruence.
  - (* a tmp name ends with a digit, the MCP cache name does not *)
    apply (f_equal (fun l => last l 0)) in E. rewrite app_assoc, last_app_ne in E by assumption.
    assert (Hdig : 48 <= last pid 0 <= 57).
    { destruct (exists_last Hne) as [x [c ->]]. rewrite last_app_ne by discriminate. cbn [last].
      rewrite Forall_forall in Hd. apply Hd. rewrite in_app_iff. right. left. reflexivity. }
    rewrite E in Hdig. apply Hl1, Hdig.
  - (* an entry ends with the suffix, the pipeline's tmp with a digit *)
    apply (f_equal (fun l => last l 0)) in E. rewrite (app_assoc M), last_app_ne in E by assumption.
    assert (Hdig : 48 <= last pid' 0 <= 57).
    { destruct (exists_last Hne') as [x [c ->]]. rewrite last_app_ne by discriminate. cbn [last].
      rewrite Forall_forall in Hd'. apply Hd'. rewrite in_app_iff. right. left. reflexivity. }
    unfold suffixb in Hsuf. apply prefixb_spec in Hsuf as [r Hr].
    apply (f_equal (@rev N)) in Hr. rewrite rev_involutive, rev_app_distr, rev_involutive in Hr.
    rewrite Hr in E. rewrite last_app_ne in E by assumption.
    rewrite <- E in Hdig. apply Hl2, Hdig.
Qed.

(* Legacy (before b2d8f58 the MCP cache was called "mcp.cache"): session id "mcp" was mapped onto it, and its
   tmp.<pid> onto the pipeline's *)
Lemma mcp_alias_legacy base pid :
  get_cache_path base (JStr $"mcp") = Some (path_join (cache_dir base) $"mcp.cache") /\
  tmp_of pid (path_join (cache_dir base) $"mcp.cache") = path_join (cache_dir base) $"mcp.cache" ++ SL_MCP_TMP_INFIX ++ pid.
Proof.
  split; [|reflexivity].
  destruct (get_cache_path base (JStr $"mcp")) as [p|] eqn:E; [|vm_compute in E; discriminate].
  rewrite (cache_path_name _ _ _ E).
  rewrite good_dir_join by (auto using cache_dir_good; vm_compute; reflexivity).
  do 3 f_equal.
Qed.
