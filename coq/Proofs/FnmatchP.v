(* Facts about the fnmatch model: glob-free patterns are literals; "lit *" is prefix matching. *)
From DippyV Require Import Base.Str Model.Fnmatch.

Definition globc (c : N) : bool := N.eqb c c_star || N.eqb c c_q || N.eqb c c_lb.
(* no '*', '?' or '[' anywhere *)
Definition no_glob (p : str) : bool := forallb (fun c => negb (globc c)) p.

Lemma no_glob_cons c p : no_glob (c :: p) = negb (globc c) && no_glob p.
Proof. reflexivity. Qed.
Lemma no_glob_app a b : no_glob (a ++ b) = no_glob a && no_glob b.
Proof. unfold no_glob. apply forallb_app. Qed.

Lemma globc_false c : globc c = false -> N.eqb c c_star = false /\ N.eqb c c_q = false /\ N.eqb c c_lb = false.
Proof.
  unfold globc. intro H. apply orb_false_iff in H. destruct H as [H H3].
  apply orb_false_iff in H. destruct H as [H1 H2]. auto.
Qed.

Lemma translate_lit p : forall fuel, no_glob p = true -> (length p <= fuel)%nat ->
  translate fuel p = map TLit p.
Proof.
  induction p as [|c p IH]; intros fuel Hn Hf.
  - destruct fuel; reflexivity.
  - destruct fuel as [|f]; [simpl in Hf; lia|].
    rewrite no_glob_cons in Hn. apply andb_true_iff in Hn. destruct Hn as [Hc Hn].
    apply negb_true_iff in Hc. apply globc_false in Hc. destruct Hc as [H1 [H2 H3]].
    cbn [translate map]. rewrite H1, H2, H3. f_equal. apply IH; auto. simpl in Hf. lia.
Qed.

(* a glob-free prefix followed by one trailing star *)
Lemma translate_lit_star p : forall fuel, no_glob p = true -> (length p < fuel)%nat ->
  translate fuel (p ++ [c_star]) = map TLit p ++ [TStar].
Proof.
  induction p as [|c p IH]; intros fuel Hn Hf.
  - destruct fuel as [|f]; [lia|]. cbn. destruct f; reflexivity.
  - destruct fuel as [|f]; [simpl in Hf; lia|].
    rewrite no_glob_cons in Hn. apply andb_true_iff in Hn. destruct Hn as [Hc Hn].
    apply negb_true_iff in Hc. apply globc_false in Hc. destruct Hc as [H1 [H2 H3]].
    cbn [translate map app]. rewrite H1, H2, H3. f_equal. apply IH; auto. simpl in Hf. lia.
Qed.

Lemma tmatch_lit p : forall s, tmatch (map TLit p) s = str_eqb p s.
Proof.
  induction p as [|c p IH]; intros [|d s]; cbn [map tmatch str_eqb tok1]; auto.
  rewrite IH. reflexivity.
Qed.

Lemma tmatch_star_nil s : tmatch [TStar] s = true.
Proof. induction s as [|d s IH]; cbn; auto. Qed.

Lemma tmatch_lit_star p : forall s, tmatch (map TLit p ++ [TStar]) s = prefixb p s.
Proof.
  induction p as [|c p IH]; intros s.
  - cbn [map app]. rewrite tmatch_star_nil. destruct s; reflexivity.
  - destruct s as [|d s]; cbn [map app tmatch prefixb tok1]; auto.
    rewrite IH. reflexivity.
Qed.

(* fnmatch on a glob-free pattern is string equality *)
Lemma fnmatch_lit p s : no_glob p = true -> fnmatch s p = str_eqb p s.
Proof.
  intro Hn. unfold fnmatch, fn_tokens. rewrite translate_lit by auto. apply tmatch_lit.
Qed.

(* fnmatch on  lit ++ "*"  is startswith(lit) *)
Lemma fnmatch_lit_star p s : no_glob p = true -> fnmatch s (p ++ [c_star]) = prefixb p s.
Proof.
  intro Hn. unfold fnmatch, fn_tokens. rewrite translate_lit_star; auto.
  - apply tmatch_lit_star.
  - rewrite app_length. simpl. lia.
Qed.

Lemma str_eqb_sym a b : str_eqb a b = str_eqb b a.
Proof.
  destruct (str_eqb_spec a b) as [E|H]; destruct (str_eqb_spec b a) as [E'|H']; auto; congruence.
Qed.

(* a glob-free pattern never makes `re` fail *)
Lemma fn_error_lit p : no_glob p = true -> fn_error p = false.
Proof.
  intro Hn. unfold fn_error, fn_tokens. rewrite translate_lit by auto.
  clear Hn. induction p as [|c p IH]; cbn [map existsb is_terr orb]; auto.
Qed.

(* the star is monotone: whatever the rest, a star can absorb a prefix of the subject *)
Lemma tmatch_star_skip ts : forall a s, tmatch (TStar :: ts) s = true -> tmatch (TStar :: ts) (a ++ s) = true.
Proof.
  intros a s H. induction a as [|x a IH]; auto.
  cbn [app]. cbn [tmatch] in *. rewrite IH. apply orb_true_r.
Qed.

(* general star law: "*rest" matches s iff rest matches some suffix of s *)
Lemma tmatch_star_iff ts s : tmatch (TStar :: ts) s = true <-> exists a b, s = a ++ b /\ tmatch ts b = true.
Proof.
  split.
  - induction s as [|x s IH]; cbn [tmatch]; intro H.
    + rewrite orb_false_r in H. exists [], []. auto.
    + apply orb_true_iff in H. destruct H as [H|H].
      * exists [], (x :: s). auto.
      * destruct (IH H) as [a [b [-> Hb]]]. exists (x :: a), b. auto.
  - intros [a [b [-> Hb]]]. apply tmatch_star_skip. destruct b; cbn [tmatch]; rewrite Hb; reflexivity.
Qed.
