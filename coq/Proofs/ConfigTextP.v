(* Lemmas about the config-text model: totality, line locality, family separation. *)
From DippyV Require Import Base.Str Gen.Tables Model.ConfigText.

Local Arguments is_space : simpl never.

(* ---------------------------------------------------------------- tie to the source tables *)
Definition listid_name (l : listid) : str :=
  match l with LRules => $"rules" | LRedirect => $"redirect_rules" | LAfter => $"after_rules"
          | LMcp => $"mcp_rules" | LAfterMcp => $"after_mcp_rules" end.
Definition dspec_row (sp : dspec) : str * str * str * bool * bool * bool :=
  (d_name sp, listid_name (d_list sp), d_dec sp, d_msg sp, d_anchor sp, d_tilde sp).

(* the branches of the chain compare one string with distinct constants, so their order is immaterial:
   the translator sorts by name and so do we *)
Fixpoint str_leb (a b : str) : bool :=
  match a, b with
  | [], _ => true
  | _ :: _, [] => false
  | x :: a', y :: b' => if N.ltb x y then true else if N.eqb x y then str_leb a' b' else false
  end.
Fixpoint insert_by {A} (key : A -> str) (x : A) (l : list A) : list A :=
  match l with
  | [] => [x]
  | y :: r => if str_leb (key x) (key y) then x :: l else y :: insert_by key x r
  end.
Definition sort_by {A} (key : A -> str) (l : list A) : list A := fold_right (insert_by key) [] l.
Definition row_name (r : str * str * str * bool * bool * bool) : str := fst (fst (fst (fst (fst r)))).

Lemma tie_rule_directives : CFG_RULE_DIRECTIVES = sort_by row_name (map dspec_row rule_dirs).
Proof. vm_compute; reflexivity. Qed.
Lemma tie_directives : CFG_DIRECTIVES = sort_by (fun s => s) (map d_name rule_dirs ++ [$"alias"; $"set"]).
Proof. vm_compute; reflexivity. Qed.
Lemma tie_line_sep : CFG_LINE_SEP = [NL].
Proof. vm_compute; reflexivity. Qed.
Lemma tie_settings : CFG_BOOL_SETTINGS = [$"log_full"] /\ CFG_DEFAULT_VALUES = [$"allow"; $"ask"].
Proof. split; vm_compute; reflexivity. Qed.
Lemma tie_escapable : CFG_ESCAPABLE = [[DQ]; [BS]].
Proof. vm_compute; reflexivity. Qed.

(* ---------------------------------------------------------------- white space *)
Lemma sp_SP : is_space SP = true. Proof. vm_compute; reflexivity. Qed.
Lemma sp_DQ : is_space DQ = false. Proof. vm_compute; reflexivity. Qed.
Lemma sp_BS : is_space BS = false. Proof. vm_compute; reflexivity. Qed.
Lemma sp_BAR : is_space BAR = false. Proof. vm_compute; reflexivity. Qed.

Lemma lstrip_head s c t : lstrip_ws s = c :: t -> is_space c = false.
Proof.
  induction s as [|x s IH]; simpl; [discriminate|].
  destruct (is_space x) eqn:E; [exact IH|]. intros H; injection H as <- _. exact E.
Qed.
Lemma lstrip_In s c : In c s -> is_space c = false -> lstrip_ws s <> [].
Proof.
  induction s as [|x s IH]; simpl; [tauto|].
  intros [->|H] Hc.
  - rewrite Hc. discriminate.
  - destruct (is_space x); [auto|discriminate].
Qed.
Lemma lstrip_id c s : is_space c = false -> lstrip_ws (c :: s) = c :: s.
Proof. intro H; simpl; rewrite H; reflexivity. Qed.

(* a stripped string is empty or starts with a non-space character *)
Lemma strip_ws_head s : strip_ws s = [] \/ lstrip_ws (strip_ws s) <> [].
Proof.
  unfold strip_ws, rstrip_ws.
  destruct (lstrip_ws (rev (lstrip_ws s))) as [|c t] eqn:E; [left; reflexivity|right].
  apply lstrip_head in E as Hc.
  apply lstrip_In with (c := c); [|exact Hc].
  simpl. apply in_or_app. right. left. reflexivity.
Qed.

Lemma split1_nonempty s : lstrip_ws s <> [] -> split1 s <> [].
Proof.
  unfold split1. destruct (lstrip_ws s) as [|c t]; [congruence|intros _].
  destruct (span_ns (c :: t)) as [tok r]. destruct (lstrip_ws r); discriminate.
Qed.

(* ---------------------------------------------------------------- totality *)
Section Total.
  Variable home : option str.
  Variable expu : str -> eu_result.
  Notation expand_home_only := (expand_home_only home).
  Notation expand_tildes := (expand_tildes home).
  Notation body := (body home expu).
  Notation step := (step home expu).
  Notation parse_lines := (parse_lines home expu).
  Notation parse_config := (parse_config home expu).

  Lemma pre_line_total raw : exists o, pre_line raw = Ok o.
  Proof.
    unfold pre_line.
    destruct (negb (nonempty (strip_ws raw)) || prefixb [HASH] (strip_ws raw)) eqn:E; [eauto|].
    apply orb_false_elim in E as [E _]. apply negb_false_iff in E.
    destruct (strip_ws_head raw) as [H|H]; [rewrite H in E; discriminate|].
    apply split1_nonempty in H. destruct (split1 (strip_ws raw)); [congruence|eauto].
  Qed.

  (* the second field pre_line hands to the body is stripped *)
  Lemma pre_line_rest raw d rest : pre_line raw = Ok (Some (d, rest)) -> rest = [] \/ lstrip_ws rest <> [].
  Proof.
    unfold pre_line.
    destruct (negb (nonempty (strip_ws raw)) || prefixb [HASH] (strip_ws raw)); [discriminate|].
    destruct (split1 (strip_ws raw)) as [|a more]; [discriminate|].
    intros H; injection H as _ <-. destruct more; [left; reflexivity|apply strip_ws_head].
  Qed.

  Lemma extract_message_exn s e : extract_message s = Exn e -> e = ValueError.
  Proof.
    unfold extract_message. destruct (rev (rstrip_ws s)) as [|c r1]; [discriminate|].
    destruct (N.eqb c DQ); [|discriminate].
    destruct (Nat.odd (count_bs r1)); [discriminate|].
    destruct (find_open r1 []) as [[r2 inner]|]; [|discriminate].
    destruct (nonempty (rstrip_ws (rev r2))); [discriminate|congruence].
  Qed.

  Lemma mapM_ok {A B} (f : A -> res B) l : (forall x, exists y, f x = Ok y) -> exists ys, mapM f l = Ok ys.
  Proof.
    intros Hf; induction l as [|x l [ys IH]]; simpl; [eauto|].
    destruct (Hf x) as [y ->]. simpl. rewrite IH. simpl. eauto.
  Qed.

  (* with a home directory, tilde expansion cannot raise; without one, only RuntimeError *)
  Lemma expand_home_only_exn t e : expand_home_only t = Exn e -> e = RuntimeError /\ home = None.
  Proof.
    unfold ConfigText.expand_home_only. destruct (classify_token t); try discriminate.
    destruct home; [discriminate|]. intros H; injection H as <-. auto.
  Qed.
  Lemma mapM_exn {A B} (f : A -> res B) (P : exn -> Prop) l e :
    (forall x e, f x = Exn e -> P e) -> mapM f l = Exn e -> P e.
  Proof.
    intros Hf; induction l as [|x l IH]; simpl; [discriminate|].
    destruct (f x) eqn:E; simpl.
    - destruct (mapM f l); simpl; [discriminate|]. intros H; injection H as <-. apply IH; reflexivity.
    - intros H; injection H as <-. eapply Hf; eauto.
  Qed.
  Lemma expand_tildes_exn p e : expand_tildes p = Exn e -> e = RuntimeError /\ home = None.
  Proof.
    unfold ConfigText.expand_tildes. destruct (mapM expand_home_only (split_all p)) eqn:E; simpl; [discriminate|].
    intros H; injection H as <-.
    eapply (mapM_exn expand_home_only (fun e => e = RuntimeError /\ home = None)); [|exact E].
    intros x e'. apply expand_home_only_exn.
  Qed.

  Definition benign (guard : bool) (e : exn) : Prop :=
    e = ValueError \/ (e = RuntimeError /\ (home = None \/ guard = false)).

  Lemma do_rule_exn g sp rest e : do_rule home sp rest = Exn e -> benign g e.
  Proof.
    unfold do_rule. destruct (nonempty rest); [|intros H; injection H as <-; left; reflexivity].
    destruct (if d_msg sp then extract_message rest else Ok (rest, None)) as [pm|e0] eqn:E1; simpl.
    - destruct (if d_tilde sp then expand_tildes _ else Ok _) eqn:E2; simpl; [discriminate|].
      intros H; injection H as <-. destruct (d_tilde sp); [|discriminate].
      apply expand_tildes_exn in E2 as [-> ->]. right; auto.
    - intros H; injection H as <-. destruct (d_msg sp); [|discriminate].
      apply extract_message_exn in E1 as ->. left; reflexivity.
  Qed.

  Lemma do_alias_exn g rest e : do_alias home rest = Exn e -> benign g e.
  Proof.
    unfold do_alias. destruct (split_all rest) as [|a [|b [|c l]]]; try (intros H; injection H as <-; left; reflexivity).
    destruct (expand_tildes a) eqn:E; simpl; [discriminate|].
    intros H; injection H as <-. apply expand_tildes_exn in E as [-> ->]. right; auto.
  Qed.

  Lemma apply_setting_exn g rest e :
    (rest = [] \/ lstrip_ws rest <> []) -> apply_setting expu g rest = Exn e -> benign g e.
  Proof.
    intros Hrest. unfold apply_setting.
    destruct (nonempty rest) eqn:Hn; [|intros H; injection H as <-; left; reflexivity].
    destruct Hrest as [->|Hrest]; [discriminate|].
    apply split1_nonempty in Hrest. destruct (split1 rest) as [|k more]; [congruence|].
    destruct (str_eqb _ $"log_full").
    { destruct more; intros H; [discriminate|injection H as <-; left; reflexivity]. }
    destruct (str_eqb _ $"default").
    { destruct more as [|v ?]; [intros H; injection H as <-; left; reflexivity|].
      destruct (str_eqb v $"allow" || str_eqb v $"ask"); intros H; [discriminate|injection H as <-; left; reflexivity]. }
    destruct (str_eqb _ $"log"); [|intros H; injection H as <-; left; reflexivity].
    destruct more as [|v ?]; [intros H; injection H as <-; left; reflexivity|].
    unfold expanduser_guarded, expanduser_raw.
    destruct g; destruct (expu v); simpl; intros H; try discriminate; injection H as <-;
      solve [left; reflexivity | right; auto].
  Qed.

  Lemma body_exn g d rest e : (rest = [] \/ lstrip_ws rest <> []) -> body g d rest = Exn e -> benign g e.
  Proof.
    intros Hrest. unfold ConfigText.body. destruct (find_dir d rule_dirs) as [sp|].
    - apply do_rule_exn.
    - destruct (str_eqb d $"alias"); [apply do_alias_exn|].
      destruct (str_eqb d $"set"); [apply apply_setting_exn; exact Hrest|].
      intros H; injection H as <-; left; reflexivity.
  Qed.

  (* every exception that can leave one iteration is a RuntimeError from an undeterminable home
     directory (or, before the repair, from expanduser): in particular never IndexError *)
  Lemma step_exn g raw e : step g raw = Exn e -> e = RuntimeError /\ (home = None \/ g = false).
  Proof.
    unfold ConfigText.step. destruct (pre_line_total raw) as [o Ho]. rewrite Ho.
    destruct o as [[d rest]|]; [|discriminate].
    apply pre_line_rest in Ho. destruct (body g d rest) as [x|e0] eqn:E; [discriminate|].
    apply body_exn in E; [|exact Ho].
    destruct E as [->|[-> H]]; [discriminate|]. intros H'; injection H' as <-. auto.
  Qed.

  Lemma step_total h raw : home = Some h -> exists o, step true raw = Ok o.
  Proof.
    intros Hh. destruct (step true raw) as [o|e] eqn:E; [eauto|].
    apply step_exn in E as [_ [H|H]]; [congruence|discriminate].
  Qed.

  (* ---------------------------------------------------------------- the loop is a fold *)
  Definition eff (l : str) : option effect := match step true l with Ok o => o | Exn _ => None end.
  Definition apply_opt (o : option effect) (st : state) : state :=
    match o with Some e => apply_effect e st | None => st end.
  Definition run (ls : list str) (st : state) : state := fold_left (fun st l => apply_opt (eff l) st) ls st.

  Lemma parse_lines_run h ls st : home = Some h -> parse_lines true ls st = Ok (run ls st).
  Proof.
    intros Hh. revert st. induction ls as [|l ls IH]; intros st; simpl; [reflexivity|].
    unfold eff. destruct (step_total h l Hh) as [o ->]. destruct o; simpl; apply IH.
  Qed.

  Lemma parse_config_total h text : home = Some h -> parse_config text = Ok (config_of (run (lines_of text) init)).
  Proof. intros Hh. unfold ConfigText.parse_config, parse_of_lines. rewrite (parse_lines_run h _ _ Hh). reflexivity. Qed.

  Lemma run_app ls1 ls2 st : run (ls1 ++ ls2) st = run ls2 (run ls1 st).
  Proof. unfold run. apply fold_left_app. Qed.

  Lemma run_cons l ls st : run (l :: ls) st = run ls (apply_opt (eff l) st).
  Proof. reflexivity. Qed.

  Lemma run_skip ls1 l ls2 st : eff l = None -> run (ls1 ++ l :: ls2) st = run (ls1 ++ ls2) st.
  Proof. intros H. rewrite !run_app. simpl. rewrite H. reflexivity. Qed.

  (* rule lists: plain concatenation of what each line contributes *)
  Definition listid_eqb (a b : listid) : bool :=
    match a, b with
    | LRules, LRules | LRedirect, LRedirect | LAfter, LAfter | LMcp, LMcp | LAfterMcp, LAfterMcp => true
    | _, _ => false
    end.
  Definition get_list (i : listid) (st : state) : list rule :=
    match i with LRules => s_rules st | LRedirect => s_redirect st | LAfter => s_after st
            | LMcp => s_mcp st | LAfterMcp => s_after_mcp st end.
  Definition contrib (i : listid) (l : str) : list rule :=
    match eff l with Some (ERule j r) => if listid_eqb i j then [r] else [] | _ => [] end.

  Lemma get_list_apply i o st :
    get_list i (apply_opt o st) = get_list i st ++ match o with Some (ERule j r) => if listid_eqb i j then [r] else [] | _ => [] end.
  Proof.
    destruct o as [[j r|k v|[]]|]; destruct i; try destruct j; simpl; try rewrite app_nil_r; reflexivity.
  Qed.

  Lemma run_rules i ls st : get_list i (run ls st) = get_list i st ++ flat_map (contrib i) ls.
  Proof.
    revert st. induction ls as [|l ls IH]; intros st; simpl; [rewrite app_nil_r; reflexivity|].
    change (fold_left _ ls ?s) with (run ls s). rewrite IH, get_list_apply, <- app_assoc. reflexivity.
  Qed.

  (* aliases and settings: each line's effect is a keyed overwrite - the last writer wins *)
  Lemma dict_get_set k k' v d : dict_get k (dict_set k' v d) = if str_eqb k' k then Some v else dict_get k d.
  Proof.
    induction d as [|[a b] d IH]; simpl.
    - destruct (str_eqb k' k); reflexivity.
    - destruct (str_eqb_spec a k') as [->|Hn]; simpl.
      + destruct (str_eqb k' k); reflexivity.
      + destruct (str_eqb_spec a k) as [->|Hn2].
        * destruct (str_eqb_spec k' k) as [->|_]; [congruence|reflexivity].
        * exact IH.
  Qed.

  Definition alias_step (k : str) (cur : option str) (l : str) : option str :=
    match eff l with Some (EAlias k' v) => if str_eqb k' k then Some v else cur | _ => cur end.
  Lemma run_alias k ls st :
    dict_get k (s_aliases (run ls st)) = fold_left (alias_step k) ls (dict_get k (s_aliases st)).
  Proof.
    revert st. induction ls as [|l ls IH]; intros st; [reflexivity|].
    rewrite run_cons, IH. simpl. f_equal.
    unfold alias_step. destruct (eff l) as [[j r|k' v|s]|]; simpl; try reflexivity.
    - destruct j; reflexivity.
    - apply dict_get_set.
    - destruct s; reflexivity.
  Qed.

  Definition default_step (cur : option str) (l : str) : option str :=
    match eff l with Some (ESet (SDefault v)) => Some v | _ => cur end.
  Definition log_step (cur : option str) (l : str) : option str :=
    match eff l with Some (ESet (SLog p)) => Some p | _ => cur end.
  Definition sets_log_full (l : str) : bool :=
    match eff l with Some (ESet SLogFull) => true | _ => false end.

  Lemma apply_opt_settings o st :
    s_default (apply_opt o st) = match o with Some (ESet (SDefault v)) => Some v | _ => s_default st end /\
    s_log (apply_opt o st) = match o with Some (ESet (SLog p)) => Some p | _ => s_log st end /\
    s_log_full (apply_opt o st) = s_log_full st || match o with Some (ESet SLogFull) => true | _ => false end.
  Proof.
    destruct o as [[[] r|k v|[]]|]; simpl; rewrite ?orb_false_r, ?orb_true_r; repeat split; reflexivity.
  Qed.

  Lemma run_default ls st : s_default (run ls st) = fold_left default_step ls (s_default st).
  Proof.
    revert st. induction ls as [|l ls IH]; intros st; [reflexivity|].
    rewrite run_cons, IH. rewrite (proj1 (apply_opt_settings _ _)). reflexivity.
  Qed.
  Lemma run_log ls st : s_log (run ls st) = fold_left log_step ls (s_log st).
  Proof.
    revert st. induction ls as [|l ls IH]; intros st; [reflexivity|].
    rewrite run_cons, IH. rewrite (proj1 (proj2 (apply_opt_settings _ _))). reflexivity.
  Qed.
  Lemma run_log_full ls st : s_log_full (run ls st) = s_log_full st || existsb sets_log_full ls.
  Proof.
    revert st. induction ls as [|l ls IH]; intros st; [simpl; rewrite orb_false_r; reflexivity|].
    rewrite run_cons, IH. rewrite (proj2 (proj2 (apply_opt_settings _ _))). rewrite <- orb_assoc. reflexivity.
  Qed.
  Lemma run_settings ls st :
    s_default (run ls st) = fold_left default_step ls (s_default st) /\
    s_log (run ls st) = fold_left log_step ls (s_log st) /\
    s_log_full (run ls st) = s_log_full st || existsb sets_log_full ls.
  Proof. exact (conj (run_default ls st) (conj (run_log ls st) (run_log_full ls st))). Qed.

  (* ---------------------------------------------------------------- families (C14) *)
  Section Family.
    Variable T : Type.
    Variable fam : effect -> bool.
    Variable V : state -> T.
    Variable Hother : forall e st, fam e = false -> V (apply_effect e st) = V st.
    Variable Hsame : forall e st st', fam e = true -> V st = V st' -> V (apply_effect e st) = V (apply_effect e st').

    Definition in_fam (l : str) : bool := match eff l with Some e => fam e | None => false end.

    Lemma run_filter ls st st' : V st = V st' -> V (run ls st) = V (run (filter in_fam ls) st').
    Proof.
      revert st st'. induction ls as [|l ls IH]; intros st st' H; simpl; [exact H|].
      change (fold_left _ ls ?s) with (run ls s). unfold in_fam at 1.
      destruct (eff l) as [e|] eqn:E; simpl.
      - destruct (fam e) eqn:F; simpl.
        + change (fold_left _ ?x ?s) with (run x s). rewrite E. simpl. apply IH. apply Hsame; assumption.
        + apply IH. rewrite Hother; assumption.
      - apply IH; exact H.
    Qed.

    Lemma run_family ls ls' st : filter in_fam ls = filter in_fam ls' -> V (run ls st) = V (run ls' st).
    Proof.
      intros H. rewrite (run_filter ls st st eq_refl), (run_filter ls' st st eq_refl), H. reflexivity.
    Qed.
  End Family.

  Definition st_mcp (st : state) := (s_mcp st, s_after_mcp st).
  Definition st_shell (st : state) := (s_rules st, s_redirect st, s_after st, s_aliases st).

  Lemma in_fam_line_is fam l : in_fam fam l = line_is home expu fam l.
  Proof. unfold in_fam, line_is, eff. destruct (step true l) as [[e|]|]; reflexivity. Qed.

  Lemma filter_ext_in_fam fam ls : filter (in_fam fam) ls = filter (line_is home expu fam) ls.
  Proof. apply filter_ext. intro l. apply in_fam_line_is. Qed.

  Lemma mcp_split ls ls' st :
    filter (line_is home expu mcp_effect) ls = filter (line_is home expu mcp_effect) ls' ->
    st_mcp (run ls st) = st_mcp (run ls' st).
  Proof.
    rewrite <- !filter_ext_in_fam. apply run_family.
    - intros e s F. destruct e as [[] r|k v|[]]; try discriminate; reflexivity.
    - intros e s s' F H. unfold st_mcp in *. injection H as H1 H2.
      destruct e as [[] r|k v|[]]; try discriminate; simpl; congruence.
  Qed.

  Lemma shell_split ls ls' st :
    filter (line_is home expu shell_effect) ls = filter (line_is home expu shell_effect) ls' ->
    st_shell (run ls st) = st_shell (run ls' st).
  Proof.
    rewrite <- !filter_ext_in_fam. apply run_family.
    - intros e s F. destruct e as [[] r|k v|[]]; try discriminate; reflexivity.
    - intros e s s' F H. unfold st_shell in *. injection H as H1 H2 H3 H4.
      destruct e as [[] r|k v|[]]; try discriminate; simpl; congruence.
  Qed.
End Total.
