(* C01: top-level lemmas (analyze over the parser's result). *)
From DippyV Require Import Base.Str Base.Verdict Base.Sx Base.Tree Gen.Tables Model.RawScan Model.Walker Model.Cover
  Proofs.VerdictP Proofs.WalkerP Proofs.CoverP.

Section C01.
  Variable simple : ctx -> list str -> verdict.
  Variable astr : ctx -> str -> verdict.
  Variable mredir : str -> str -> option verdict.
  Variable cdres : str -> str -> str.
  Variable injrisk : ctx -> list str -> bool.
  Variable rulematch : ctx -> list str -> bool.
  Notation ev := (ev simple astr mredir cdres injrisk rulematch).
  Notation walk := (walk simple astr mredir cdres injrisk rulematch).
  Notation analyze_nodes := (analyze_nodes simple astr mredir cdres injrisk rulematch).

  Lemma parse_failclosed c : analyze_nodes c None = Ask /\ analyze_nodes c (Some []) = Ask.
  Proof. split; reflexivity. Qed.

  Lemma toplevel_all c ns : analyze_nodes c (Some ns) = Allow ->
    forall t, In t ns -> exists c', snd c' = snd c /\ walk c' t = Allow.
  Proof.
    intros H t Ht. destruct ns as [|n0 ns']; [destruct Ht|].
    unfold Walker.analyze_nodes in H. rewrite (sequence_ctxs simple astr mredir cdres injrisk rulematch) in H.
    apply combine_allow in H. rewrite Forall_map, Forall_forall in H.
    destruct (seq_ctxs_all cdres c (n0 :: ns') t Ht) as [c' Hc'].
    exists c'. split; [exact (seq_ctxs_mode cdres c _ _ Hc')|exact (H (c', t) Hc')].
  Qed.

  (* whole-program statement: an approved program = parse succeeded, and every node reached from
     every top-level node is approved *)
  Lemma approved_program c nodes : analyze_nodes c nodes = Allow ->
    exists ns, nodes = Some ns /\ ns <> [] /\
      forall t, In t ns -> forall n d, In (RNode, d) (reach_fuel n RNode t) ->
        exists c', snd c' = snd c /\ walk c' d = Allow.
  Proof.
    intro H. destruct nodes as [ns|]; [|discriminate]. destruct ns as [|n0 ns']; [discriminate|].
    exists (n0 :: ns'). split; [reflexivity|]. split; [discriminate|].
    intros t Ht n d Hd. destruct (toplevel_all c _ H t Ht) as [c1 [Hm1 Hw1]].
    destruct (approved_all_nodes simple astr mredir cdres injrisk rulematch c1 t Hw1 n d Hd) as [c2 [Hm2 Hw2]].
    exists c2. split; [congruence|exact Hw2].
  Qed.

  (* a word with expansions whose text has a "$((" that is not closed by "))" (bash runs it as a
     command substitution, the parser reports arithmetic) is never approved, in any position *)
  Lemma unclosed_arith_asks c b k ss fs ks : let t := T k ss fs ks in
    nonempty (children "parts" t) = true -> unclosed_arith (attr_d "value" t) = true ->
    In Ask (r_wp (ev t) b c).
  Proof.
    intros t Hp Hu. subst t. rewrite wp_unfold. rewrite Hp, Hu. cbn [andb app]. left. reflexivity.
  Qed.

  Lemma unclosed_arith_cmd_asks c ss fs ks : let t := T $"arith-cmd" ss fs ks in
    unclosed_arith (attr_d "raw_content" t) = true -> walk c t <> Allow.
  Proof.
    intros t Hu. subst t. rewrite walk_arithcmd, Hu. intro H. apply combine_allow in H.
    rewrite Forall_forall in H. specialize (H Ask). assert (Hin : In Ask
      (flat_map (fun e => r_exp (ev e) c) (children "expression" (T $"arith-cmd" ss fs ks)) ++ [Ask] ++
       redirs_of simple astr mredir cdres injrisk rulematch c (T $"arith-cmd" ss fs ks))).
    { apply in_or_app. right. left. reflexivity. }
    specialize (H Hin). discriminate.
  Qed.
End C01.
