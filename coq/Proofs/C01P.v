(* C01: top-level lemmas (analyze over the parser's result). *)
From DippyV Require Import Base.Str Base.Verdict Base.Sx Base.Tree Gen.Tables Model.RawScan Model.Walker Model.Cover
  Proofs.VerdictP Proofs.WalkerP Proofs.CoverP.

Section C01.
  Variable simple : ctx -> list str -> verdict.
  Variable astr : ctx -> str -> verdict.
  Variable mredir : str -> str -> option verdict.
  Variable cdres : str -> str -> str.
  Variable injrisk : ctx -> list str -> bool.
  Variable rulematch : ctx -> list str -> bool.
  Notation ev := (ev simple astr mredir cdres injrisk rulematch).
  Notation walk := (walk simple astr mredir cdres injrisk rulematch).
  Notation analyze_nodes := (analyze_nodes simple astr mredir cdres injrisk rulematch).

  Lemma parse_failclosed c : analyze_nodes c None = Ask /\ analyze_nodes c (Some []) = Ask.
  Proof. split; reflexivity. Qed.

  Lemma toplevel_all c ns : analyze_nodes c (Some ns) = Allow ->
    forall t, In t ns -> exists c', snd c' = snd c /\ walk c' t = Allow.
  Proof.
    intros H t Ht. destruct ns as [|n0 ns']; [destruct Ht|].
    unfold Walker.analyze_nodes in H.
    rewrite (semis_pairs simple astr mredir cdres injrisk rulematch), (sequence_ctxs simple astr mredir cdres injrisk rulematch) in H.
    apply combine_allow in H. rewrite Forall_map, Forall_forall in H.
    assert (Ht' : In t (map fst (semis_t (n0 :: ns')))) by (unfold semis_t; rewrite map_map, map_id; exact Ht).
    destruct (seq_ctxs_all cdres (init_state c) _ t Ht') as [c' Hc'].
    exists c'. split; [exact (seq_ctxs_mode cdres (init_state c) _ _ Hc')|exact (H (c', t) Hc')].
  Qed.

  (* whole-program statement: an approved program = parse succeeded, and every node reached from
     every top-level node is approved *)
  Lemma approved_program c nodes : analyze_nodes c nodes = Allow ->
    exists ns, nodes = Some ns /\ ns <> [] /\
      forall t, In t ns -> forall n d, In (RNode, d) (reach_fuel n RNode t) ->
        exists c', snd c' = snd c /\ walk c' d = Allow.
  Proof.
    intro H. destruct nodes as [ns|]; [|discriminate]. destruct ns as [|n0 ns']; [discriminate|].
    exists (n0 :: ns'). split; [reflexivity|]. split; [discriminate|].
    intros t Ht n d Hd. destruct (toplevel_all c _ H t Ht) as [c1 [Hm1 Hw1]].
    destruct (approved_all_nodes simple astr mredir cdres injrisk rulematch c1 t Hw1 n d Hd) as [c2 [Hm2 Hw2]].
    exists c2. split; [congruence|exact Hw2].
  Qed.

  (* the two guards against parser blind spots: a word with expansions whose text has a "$((" not closed
     by "))" (bash runs a command substitution where the parser saw arithmetic), and a word whose text
     starts more substitutions than the parser reports below it, are never approved, in any position *)
  Lemma unclosed_arith_asks c b k ss fs ks : let t := T k ss fs ks in
    nonempty (children "parts" t) = true -> unclosed_arith (attr_d "value" t) = true ->
    In Ask (r_wp (ev t) b c).
  Proof.
    intros t Hp Hu. subst t. rewrite wp_unfold. unfold text_guards. rewrite Hp, Hu. cbn [andb app]. left. reflexivity.
  Qed.

  Lemma lost_substitution_asks c k ss fs ks : let t := T k ss fs ks in
    substitutions_lost (attr_d "value" t) t = true -> In Ask (r_wp (ev t) false c).
  Proof.
    intros t Hl. subst t. rewrite wp_unfold. unfold text_guards. rewrite Hl, orb_true_r. cbn [andb negb].
    apply in_or_app. left. apply in_or_app. right. left. reflexivity.
  Qed.

  (* a word that is evaluated again later (scan = true: [[ ]] operands, for words, here-strings) and holds, next to parsed
     expansions, a substitution that quoting keeps from running now, is never approved *)
  Lemma inert_opener_asks c k ss fs ks : let t := T k ss fs ks in
    nonempty (children "parts" t) = true -> has_inert_opener (attr_d "value" t) = true -> In Ask (r_wp (ev t) true c).
  Proof.
    intros t Hp Hi. subst t. rewrite wp_unfold, Hp, Hi. cbn [negb]. apply in_or_app. right. apply in_or_app. right. left. reflexivity.
  Qed.

  Lemma unclosed_arith_cmd_asks c ss fs ks : let t := T $"arith-cmd" ss fs ks in
    unclosed_arith (attr_d "raw_content" t) = true -> walk c t <> Allow.
  Proof.
    intros t Hu. subst t. rewrite walk_arithcmd. unfold text_guards. rewrite Hu. cbn [andb]. intro H. apply combine_allow in H.
    rewrite Forall_forall in H. specialize (H Ask). assert (Hin : forall A B C, In Ask (A ++ ([Ask] ++ B) ++ C)).
    { intros. apply in_or_app. right. apply in_or_app. left. left. reflexivity. }
    specialize (H (Hin _ _ _)). discriminate.
  Qed.
End C01.

(* ---- variables that decide what runs ---- *)
Section ExecVars.
  Variable simple : ctx -> list str -> verdict.
  Variable astr : ctx -> str -> verdict.
  Variable mredir : str -> str -> option verdict.
  Variable cdres : str -> str -> str.
  Variable injrisk : ctx -> list str -> bool.
  Variable rulematch : ctx -> list str -> bool.
  Notation walk := (walk simple astr mredir cdres injrisk rulematch).

  Lemma env_asks_ok nassign words : forall pos, ok (env_asks nassign pos words) ->
    forall i w, nth_error words i = Some w -> (pos + i < nassign)%nat -> sets_execution_var w = false.
  Proof.
    induction words as [|x words IH]; intros pos H i w Hi Hlt; [destruct i; discriminate|].
    cbn [env_asks] in H. apply ok_app in H as [H1 H2]. destruct i as [|i].
    - cbn in Hi. injection Hi as <-. assert (Hlt' : (pos < nassign)%nat) by lia. apply PeanoNat.Nat.ltb_lt in Hlt'. rename Hlt' into Hl0. clear Hlt. rename Hl0 into Hlt. rewrite Hlt in H1. cbn [andb] in H1.
      destruct (sets_execution_var x); [|reflexivity]. apply ok_cons in H1 as [H1 _]. discriminate.
    - cbn in Hi. apply (IH (S pos) H2 i w Hi). lia.
  Qed.

  (* an approved simple command has no word in its assignment prefix that sets a variable deciding what runs
     (PATH, LD_PRELOAD, BASH_ENV, IFS, PAGER, ... - except a PATH assigned system directories only) *)
  Lemma approved_sets_no_execution_var c ss fs ks : let t := T $"command" ss fs ks in
    walk c t = Allow ->
    forall i w, nth_error (cmd_words t) i = Some w ->
      (i < length (cmd_words t) - length (skip_assignments (cmd_words t)))%nat -> sets_execution_var w = false.
  Proof.
    intros t H i w Hi Hlt. subst t. rewrite walk_command in H. apply combine_allow in H.
    assert (Hok : ok (cmd_env (T $"command" ss fs ks))).
    { unfold ok. rewrite Forall_forall in *. intros v Hv. apply H. apply in_or_app. right. apply in_or_app. left. exact Hv. }
    unfold cmd_env in Hok. exact (env_asks_ok _ _ 0 Hok i w Hi Hlt).
  Qed.
End ExecVars.

(* ---- analyze(): the text before parsing ---- *)
Lemma analyze_text_failclosed simple astr mredir cdres injrisk rulematch parse c s :
  (analyze_prelude s = None \/ (exists t, analyze_prelude s = Some t /\ (parse t = None \/ parse t = Some []))) ->
  analyze_text simple astr mredir cdres injrisk rulematch parse c s = Ask.
Proof.
  unfold analyze_text. intros [H|[t [H [Hp|Hp]]]]; rewrite H; [reflexivity| |]; rewrite Hp; reflexivity.
Qed.

(* what the prelude hands to the parser has no white space other than blanks and newlines, and is not blank *)
Lemma analyze_prelude_text s t : analyze_prelude s = Some t ->
  forallb py_space t = false /\ existsb (fun ch => py_space ch && negb (bash_blank ch)) t = false.
Proof.
  unfold analyze_prelude. destruct (forallb py_space (strip_blanks s)) eqn:E1; [discriminate|].
  destruct (existsb (fun ch => py_space ch && negb (bash_blank ch)) (strip_blanks s)) eqn:E2; [discriminate|].
  intro H. injection H as <-. split; assumption.
Qed.
