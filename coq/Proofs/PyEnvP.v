(* Lemmas about the file-system part of the python-handler model (C17, environment dimension). *)
From Coq Require Import Arith Compare_dec.
From DippyV Require Import Base.Str Base.Sx Base.Tree Gen.Tables Model.PyArgs Model.PyEnv Proofs.PyArgsP Proofs.C17P.

Local Opaque FUEL.

(* ------------------------------------------------------------------ strings: split / join *)

Lemma split_aux_nosep c s : forall cur, ~ In c cur -> forall x, In x (split_ch_aux c s cur) -> ~ In c x.
Proof.
  induction s as [|y s IH]; intros cur Hc x Hx; cbn [split_ch_aux] in Hx.
  - destruct Hx as [<-|[]]. rewrite <- in_rev. exact Hc.
  - destruct (N.eqb_spec y c) as [->|Hn].
    + destruct Hx as [<-|Hx]; [rewrite <- in_rev; exact Hc|]. eapply IH; [|exact Hx]. intros [].
    + eapply IH; [|exact Hx]. intros [E|I]; [congruence|contradiction].
Qed.
Lemma split_nosep c s x : In x (split_ch c s) -> ~ In c x.
Proof. apply split_aux_nosep. intros []. Qed.

Lemma split_aux_app c x : ~ In c x -> forall s cur, split_ch_aux c (x ++ s) cur = split_ch_aux c s (rev x ++ cur).
Proof.
  induction x as [|y x IH]; intros Hn s cur; [reflexivity|].
  cbn [app split_ch_aux]. destruct (N.eqb_spec y c) as [->|Hy]; [exfalso; apply Hn; left; reflexivity|].
  rewrite IH; [|intros I; apply Hn; right; exact I]. cbn [rev]. rewrite <- app_assoc. reflexivity.
Qed.

(* a component: non-empty, no separator *)
Definition goodb (c : str) : bool := negb (is_empty c) && negb (mem_ch 47 c).
Definition all_good (p : comps) : Prop := forallb goodb p = true.
Definition nosep (l : comps) : Prop := forall x, In x l -> ~ In 47 x.

Lemma goodb_spec c : goodb c = true <-> c <> [] /\ ~ In 47 c.
Proof.
  unfold goodb. rewrite andb_true_iff, !negb_true_iff. split.
  - intros [E M]. split; [intros ->; discriminate|]. intros I. apply mem_ch_In in I. congruence.
  - intros [E M]. split; [destruct c; [contradiction|reflexivity]|].
    destruct (mem_ch 47 c) eqn:X; [|reflexivity]. apply mem_ch_In in X. contradiction.
Qed.

Lemma split_join_good q : all_good q -> q <> [] -> split_ch 47 (join [47] q) = q.
Proof.
  unfold split_ch. induction q as [|x q IH]; intros G NE; [contradiction NE; reflexivity|]. clear NE.
  unfold all_good in G. cbn [forallb] in G. apply andb_true_iff in G as [Gx Gq]. apply goodb_spec in Gx as [_ Nx].
  destruct q as [|y q'].
  - cbn [join]. rewrite <- (app_nil_r x) at 1. rewrite split_aux_app by exact Nx. cbn [split_ch_aux].
    rewrite app_nil_r, rev_involutive. reflexivity.
  - cbn [join]. rewrite split_aux_app by exact Nx. cbn [app split_ch_aux]. rewrite N.eqb_refl.
    rewrite app_nil_r, rev_involutive. f_equal. apply IH; [exact Gq|discriminate].
Qed.

Lemma filter_good q : all_good q -> filter (fun c => negb (is_empty c)) q = q.
Proof.
  induction q as [|x q IH]; intros G; [reflexivity|]. unfold all_good in G. cbn [forallb] in G.
  apply andb_true_iff in G as [Gx Gq]. cbn [filter]. unfold goodb in Gx. apply andb_true_iff in Gx as [E _]. rewrite E.
  f_equal. apply IH. exact Gq.
Qed.

(* str(path) -> components is the identity on component lists *)
Lemma path_comps_render q : all_good q -> path_comps (render q) = q.
Proof.
  intros G. unfold path_comps, render. cbn [app]. unfold split_ch. cbn [split_ch_aux N.eqb Pos.eqb rev filter is_empty negb].
  destruct q as [|x q'].
  - reflexivity.
  - change (split_ch_aux 47 (join [47] (x :: q')) []) with (split_ch 47 (join [47] (x :: q'))).
    rewrite split_join_good; [|exact G|discriminate]. apply filter_good. exact G.
Qed.

Lemma path_comps_nosep s : nosep (path_comps s).
Proof. intros x Hx. unfold path_comps in Hx. apply filter_In in Hx as [Hx _]. eapply split_nosep. exact Hx. Qed.

(* ------------------------------------------------------------------ the walk keeps its prefix symlink-free *)

Definition link_free (f : fsys) (p : comps) : Prop := forall n, is_link_node (lstat f (firstn n p)) = false.

Lemma link_free_nil f : link_free f [].
Proof. intros n. rewrite firstn_nil. reflexivity. Qed.

Lemma firstn_removelast {A} (l : list A) n : firstn n (removelast l) = firstn (Nat.min n (length l - 1)) l.
Proof.
  revert n. induction l as [|x l IH]; intros n; [cbn; rewrite !firstn_nil; reflexivity|].
  destruct l as [|y l'].
  - cbn [removelast length]. rewrite firstn_nil. replace (Nat.min n (1 - 1)) with 0%nat by lia. reflexivity.
  - change (removelast (x :: y :: l')) with (x :: removelast (y :: l')).
    destruct n as [|n]; [reflexivity|]. cbn [firstn]. rewrite IH. cbn [length].
    replace (Nat.min (S n) (S (S (length l')) - 1)) with (S (Nat.min n (S (length l') - 1))) by lia. reflexivity.
Qed.

Lemma link_free_removelast f p : link_free f p -> link_free f (removelast p).
Proof. intros H n. rewrite firstn_removelast. apply H. Qed.

Lemma link_free_snoc f p c : link_free f p -> is_link_node (lstat f (p ++ [c])) = false -> link_free f (p ++ [c]).
Proof.
  intros H L n. destruct (le_gt_dec n (length p)) as [Le|Gt].
  - rewrite firstn_app. replace (n - length p)%nat with 0%nat by lia. cbn [firstn]. rewrite app_nil_r. apply H.
  - rewrite firstn_all2; [exact L|]. rewrite app_length. cbn [length]. lia.
Qed.

Lemma link_free_self f p : link_free f p -> is_link_node (lstat f p) = false.
Proof. intros H. specialize (H (length p)). rewrite firstn_all in H. exact H. Qed.

Lemma walk_link_free strict f : forall fuel pre rest q,
  walk strict fuel f pre rest = Some q -> link_free f pre -> link_free f q.
Proof.
  induction fuel as [|fuel IH]; intros pre rest q H LF.
  - destruct rest; cbn [walk] in H; [|discriminate].
    destruct strict; [destruct (lstat f pre); [|discriminate]|]; injection H as <-; exact LF.
  - destruct rest as [|c rest']; cbn [walk] in H.
    + destruct strict; [destruct (lstat f pre); [|discriminate]|]; injection H as <-; exact LF.
    + destruct (strict && negb (is_dir_node (lstat f pre))); [discriminate|].
      destruct (is_empty c || str_eqb c dot); [eapply IH; eassumption|].
      destruct (str_eqb c dotdot); [eapply IH; [eassumption|apply link_free_removelast; exact LF]|].
      destruct (lstat f (pre ++ [c])) as [[sz a| |t|]|] eqn:EL.
      * eapply IH; [eassumption|]. apply link_free_snoc; [exact LF|rewrite EL; reflexivity].
      * eapply IH; [eassumption|]. apply link_free_snoc; [exact LF|rewrite EL; reflexivity].
      * eapply IH; [eassumption|]. destruct (is_abs t); [apply link_free_nil|exact LF].
      * eapply IH; [eassumption|]. apply link_free_snoc; [exact LF|rewrite EL; reflexivity].
      * destruct strict; [discriminate|]. eapply IH; [eassumption|]. apply link_free_snoc; [exact LF|rewrite EL; reflexivity].
Qed.

Lemma realpath_link_free f p q : realpath f p = Some q -> link_free f q.
Proof. unfold realpath. intros H. eapply (walk_link_free false f FUEL); [exact H|apply link_free_nil]. Qed.

(* os.stat never answers "symlink" *)
Lemma stat_not_link f p n : stat f p = Some n -> is_link_node (Some n) = false.
Proof.
  unfold stat. destruct (walk true FUEL f [] p) as [q|] eqn:W; [|discriminate]. intros H. rewrite <- H.
  apply link_free_self. eapply (walk_link_free true f FUEL); [exact W|apply link_free_nil].
Qed.

(* ------------------------------------------------------------------ the walk yields proper components *)

Lemma all_good_snoc p c : all_good p -> goodb c = true -> all_good (p ++ [c]).
Proof. unfold all_good. intros G C. rewrite forallb_app, G. cbn [forallb]. rewrite C. reflexivity. Qed.

Lemma all_good_removelast p : all_good p -> all_good (removelast p).
Proof.
  unfold all_good. induction p as [|x p IH]; intros G; [reflexivity|]. cbn [forallb] in G. apply andb_true_iff in G as [Gx Gp].
  destruct p as [|y p']; [reflexivity|]. change (removelast (x :: y :: p')) with (x :: removelast (y :: p')).
  cbn [forallb]. rewrite Gx. apply IH. exact Gp.
Qed.

Lemma nosep_app a b : nosep a -> nosep b -> nosep (a ++ b).
Proof. intros Ha Hb x Hx. apply in_app_or in Hx as [I|I]; [apply Ha|apply Hb]; exact I. Qed.

Lemma walk_good strict f : forall fuel pre rest q,
  walk strict fuel f pre rest = Some q -> all_good pre -> nosep rest -> all_good q.
Proof.
  induction fuel as [|fuel IH]; intros pre rest q H G NS.
  - destruct rest; cbn [walk] in H; [|discriminate].
    destruct strict; [destruct (lstat f pre); [|discriminate]|]; injection H as <-; exact G.
  - destruct rest as [|c rest']; cbn [walk] in H.
    + destruct strict; [destruct (lstat f pre); [|discriminate]|]; injection H as <-; exact G.
    + assert (NS' : nosep rest') by (intros x Hx; apply NS; right; exact Hx).
      assert (Nc : ~ In 47 c) by (apply NS; left; reflexivity).
      destruct (strict && negb (is_dir_node (lstat f pre))); [discriminate|].
      destruct (is_empty c || str_eqb c dot) eqn:ED; [eapply IH; eassumption|].
      destruct (str_eqb c dotdot); [eapply IH; [eassumption|apply all_good_removelast; exact G|exact NS']|].
      assert (Gc : goodb c = true).
      { apply goodb_spec. split; [|exact Nc]. intros ->. discriminate ED. }
      destruct (lstat f (pre ++ [c])) as [[sz a| |t|]|] eqn:EL.
      * eapply IH; [eassumption|apply all_good_snoc; assumption|exact NS'].
      * eapply IH; [eassumption|apply all_good_snoc; assumption|exact NS'].
      * eapply IH; [eassumption| |].
        -- destruct (is_abs t); [reflexivity|exact G].
        -- apply nosep_app; [|exact NS']. intros x Hx. eapply split_nosep. exact Hx.
      * eapply IH; [eassumption|apply all_good_snoc; assumption|exact NS'].
      * destruct strict; [discriminate|]. eapply IH; [eassumption|apply all_good_snoc; assumption|exact NS'].
Qed.

Lemma realpath_good f p q : realpath f p = Some q -> all_good q.
Proof. unfold realpath. intros H. eapply (walk_good false f FUEL); [exact H|reflexivity|apply path_comps_nosep]. Qed.

(* ------------------------------------------------------------------ on a resolved path os.stat is os.lstat *)

Definition plainb (c : str) : bool := negb (is_empty c) && negb (str_eqb c dot) && negb (str_eqb c dotdot).
Definition all_plain (p : comps) : Prop := forallb plainb p = true.

Lemma all_plain_snoc p c : all_plain p -> plainb c = true -> all_plain (p ++ [c]).
Proof. unfold all_plain. intros G C. rewrite forallb_app, G. cbn [forallb]. rewrite C. reflexivity. Qed.

Lemma all_plain_removelast p : all_plain p -> all_plain (removelast p).
Proof.
  unfold all_plain. induction p as [|x p IH]; intros G; [reflexivity|]. cbn [forallb] in G. apply andb_true_iff in G as [Gx Gp].
  destruct p as [|y p']; [reflexivity|]. change (removelast (x :: y :: p')) with (x :: removelast (y :: p')).
  cbn [forallb]. rewrite Gx. apply IH. exact Gp.
Qed.

Lemma walk_plain strict f : forall fuel pre rest q,
  walk strict fuel f pre rest = Some q -> all_plain pre -> all_plain q.
Proof.
  induction fuel as [|fuel IH]; intros pre rest q H G.
  - destruct rest; cbn [walk] in H; [|discriminate].
    destruct strict; [destruct (lstat f pre); [|discriminate]|]; injection H as <-; exact G.
  - destruct rest as [|c rest']; cbn [walk] in H.
    + destruct strict; [destruct (lstat f pre); [|discriminate]|]; injection H as <-; exact G.
    + destruct (strict && negb (is_dir_node (lstat f pre))); [discriminate|].
      destruct (is_empty c || str_eqb c dot) eqn:ED; [eapply IH; eassumption|].
      destruct (str_eqb c dotdot) eqn:EDD; [eapply IH; [eassumption|apply all_plain_removelast; exact G]|].
      assert (Pc : plainb c = true).
      { unfold plainb. apply orb_false_iff in ED as [E1 E2]. rewrite E1, E2, EDD. reflexivity. }
      destruct (lstat f (pre ++ [c])) as [[sz a| |t|]|] eqn:EL.
      * eapply IH; [eassumption|apply all_plain_snoc; assumption].
      * eapply IH; [eassumption|apply all_plain_snoc; assumption].
      * eapply IH; [eassumption|]. destruct (is_abs t); [reflexivity|exact G].
      * eapply IH; [eassumption|apply all_plain_snoc; assumption].
      * destruct strict; [discriminate|]. eapply IH; [eassumption|apply all_plain_snoc; assumption].
Qed.

Lemma realpath_plain f p q : realpath f p = Some q -> all_plain q.
Proof. unfold realpath. intros H. eapply (walk_plain false f FUEL); [exact H|reflexivity]. Qed.

(* the kernel's walk over a symlink-free path without `.`/`..` goes nowhere else *)
Lemma walk_strict_id f : forall fuel pre rest q,
  walk true fuel f pre rest = Some q -> link_free f (pre ++ rest) -> all_plain rest -> q = pre ++ rest.
Proof.
  induction fuel as [|fuel IH]; intros pre rest q H LF P.
  - destruct rest; cbn [walk] in H; [|discriminate]. destruct (lstat f pre); [|discriminate]. injection H as <-. rewrite app_nil_r. reflexivity.
  - destruct rest as [|c rest']; cbn [walk] in H.
    + destruct (lstat f pre); [|discriminate]. injection H as <-. rewrite app_nil_r. reflexivity.
    + unfold all_plain in P. cbn [forallb] in P. apply andb_true_iff in P as [Pc P']. unfold plainb in Pc.
      apply andb_true_iff in Pc as [Pc Pdd]. apply andb_true_iff in Pc as [Pe Pd]. apply negb_true_iff in Pe, Pd, Pdd.
      destruct (true && negb (is_dir_node (lstat f pre))); [discriminate|]. rewrite Pe, Pd, Pdd in H. cbn [orb] in H.
      assert (NL : is_link_node (lstat f (pre ++ [c])) = false).
      { specialize (LF (length pre + 1)%nat). rewrite firstn_app in LF. rewrite firstn_all2 in LF by lia.
        replace (length pre + 1 - length pre)%nat with 1%nat in LF by lia. cbn [firstn] in LF. exact LF. }
      replace (pre ++ c :: rest') with ((pre ++ [c]) ++ rest') in * by (rewrite <- app_assoc; reflexivity).
      destruct (lstat f (pre ++ [c])) as [[sz a| |t|]|] eqn:EL; try discriminate.
      * eapply IH; eassumption.
      * eapply IH; eassumption.
      * eapply IH; eassumption.
Qed.

Lemma stat_resolved f q n : link_free f q -> all_plain q -> stat f q = Some n -> lstat f q = Some n.
Proof.
  unfold stat. intros LF P. destruct (walk true FUEL f [] q) as [q'|] eqn:W; [|discriminate].
  apply (walk_strict_id f FUEL [] q q') in W; [|exact LF|exact P]. cbn [app] in W. subst q'. intros H. exact H.
Qed.

(* ------------------------------------------------------------------ approval, unfolded *)

Lemma analyze_path_inv f p : analyze_path f p = true ->
  exists sz t, stat f p = Some (NFile sz (Some t)) /\ suffix_ok (last p []) = true /\ (sz <= 100000)%N /\
               visit true false t = [] /\ (forall r, In r (roots t) -> shadowed f (removelast p) r = false) /\
               local_shadow f (removelast p) = false.
Proof.
  unfold analyze_path, p_is_file. destruct (stat f p) as [[sz a| | |]|]; try discriminate.
  destruct (suffix_ok (last p [])); [|discriminate]. destruct (N.leb_spec sz 100000) as [Le|]; [|discriminate]. cbn [andb].
  destruct a as [t|]; [|discriminate].
  destruct (source_viols (shadowed f (removelast p)) (local_shadow f (removelast p)) true t) eqn:SV; [|discriminate]. intros _.
  apply source_viols_nil in SV as [V [R L]]. exists sz, t. repeat split; assumption.
Qed.

(* local_shadow(base) is None, spelled out: no entry of the directory is importable under the name of a
   standard-library or safe-listed module *)
Lemma local_shadow_false f base q : local_shadow f base = false ->
  walk true FUEL f [] base = Some q -> lstat f q = Some NDir ->
  forall n, In n (dir_names f q) -> module_named n = true ->
    (forall e, In e PY_IMPORTABLE_ENDINGS -> suffixb e n = false) /\ (mem_ch 46 n = false -> p_is_dir f (q ++ [n]) = false).
Proof.
  unfold local_shadow. intros H W D n Hn M. rewrite W, D in H. cbn [is_dir_node andb] in H.
  assert (E : importable_entry f q n = false).
  { destruct (importable_entry f q n) eqn:E; [|reflexivity]. exfalso.
    assert (X : existsb (importable_entry f q) (dir_names f q) = true) by (apply existsb_exists; exists n; split; assumption).
    rewrite X in H. discriminate. }
  unfold importable_entry in E. rewrite M in E. cbn [andb] in E. apply orb_false_iff in E as [E1 E2]. split.
  - intros e He. destruct (suffixb e n) eqn:S; [|reflexivity]. exfalso.
    assert (X : existsb (fun e => suffixb e n) PY_IMPORTABLE_ENDINGS = true) by (apply existsb_exists; exists e; split; assumption).
    rewrite X in E1. discriminate.
  - intros Hd. rewrite Hd in E2. cbn [negb andb] in E2. exact E2.
Qed.

Lemma fs_resolve_inv f p r : fs_resolve f p = Some r -> exists q, realpath f p = Some q /\ r = render q.
Proof. unfold fs_resolve. destruct (realpath f p) as [q|]; [|discriminate]. intros H. injection H as <-. exists q. split; reflexivity. Qed.

(* An approved script command: CPython runs exactly tokens[i]; its real path q is symlink-free, a
   regular .py/.pyw file of at most 100000 bytes that parses and passes the visitor, and no root the
   script imports is shadowed in removelast q - which is CPython's sys.path[0] for that command. *)
Lemma env_sound_file f cc pc tokens i fl :
  classify_fs f cc pc tokens = PAllow -> py_cmdline tokens = RFile i fl ->
  fl_inspect fl = false /\ fl_skip1 fl = false /\
  exists tok q sz t,
    nth_error tokens i = Some tok /\ realpath f (pjoin (cwd_of cc pc) tok) = Some q /\ link_free f q /\ all_good q /\
    lstat f q = Some (NFile sz (Some t)) /\ suffix_ok (last q []) = true /\ (sz <= 100000)%N /\ visit true false t = [] /\
    py_syspath0 f (cwd_of cc pc) tokens = (if safe_path tokens i then SP_none else SP_dir (removelast q)) /\
    (forall r, In r (roots t) -> shadowed f (removelast q) r = false) /\
    local_shadow f (removelast q) = false.
Proof.
  intros HA HC. unfold classify_fs in HA. apply args_sound in HA. rewrite HC in HA. cbn [sound] in HA.
  destruct HA as [Hi [Hx [tok [p [HN [HR HAn]]]]]]. split; [exact Hi|]. split; [exact Hx|].
  apply fs_resolve_inv in HR as [q [HQ ->]]. pose proof (realpath_good _ _ _ HQ) as G.
  unfold fs_analyze in HAn. rewrite path_comps_render in HAn by exact G.
  apply analyze_path_inv in HAn as [sz [t [S [Sx [Le [V [R LS]]]]]]].
  pose proof (realpath_link_free _ _ _ HQ) as LF.
  exists tok, q, sz, t. repeat split; try assumption.
  - apply stat_resolved; [exact LF|eapply realpath_plain; exact HQ|exact S].
  - unfold py_syspath0. rewrite HC, HN, HQ. unfold p_is_dir. rewrite S. destruct (safe_path tokens i); reflexivity.
Qed.

Lemma env_sound_module f cc pc tokens i m fl :
  classify_fs f cc pc tokens = PAllow -> py_cmdline tokens = RModule i m fl ->
  m = $"calendar" /\ fl_inspect fl = false /\ shadowed f (path_comps (cwd_of cc pc)) $"calendar" = false /\
  local_shadow f (path_comps (cwd_of cc pc)) = false.
Proof.
  intros HA HC. unfold classify_fs in HA. apply args_sound in HA. rewrite HC in HA. cbn [sound] in HA.
  destruct HA as [Hm [Hi HS]]. unfold fs_shadow in HS. apply orb_false_iff in HS as [H1 H2]. repeat split; assumption.
Qed.

Lemma env_never_command_or_stdin f cc pc tokens :
  classify_fs f cc pc tokens = PAllow ->
  match py_cmdline tokens with RCommand _ _ _ | RStdin _ => False | _ => True end.
Proof.
  intros HA. unfold classify_fs in HA. apply args_sound in HA. destruct (py_cmdline tokens); cbn [sound] in HA; try exact I; exact HA.
Qed.

(* ------------------------------------------------------------------ the verdict reads the script word only through its real path *)

Lemma not_dash_ne s : is_dash s = false -> str_eqb s dash = false.
Proof. destruct s as [|c s]; [reflexivity|]. unfold is_dash, dash. cbn [prefixb str_eqb]. destruct (N.eqb 45 c) eqn:E; [discriminate|].
  intros _. rewrite N.eqb_sym in E. rewrite E. reflexivity. Qed.

Lemma classify_two f cc pc py s : is_dash s = false -> shell_rewrites s = false ->
  classify_fs f cc pc [py; s] =
  match realpath f (pjoin (cwd_of cc pc) s) with
  | None => PExn
  | Some q => if analyze_path f q then PAllow else PAsk
  end.
Proof.
  intros D SR. unfold classify_fs. rewrite classify_cons. unfold classify_body. cbn [scan]. rewrite D. cbn [negb orb].
  cbn [sc_seen sc_mode sc_idx sc_arg known has_info forallb existsb negb mem_str orb andb nth_error].
  rewrite (not_dash_ne _ D), SR. unfold fs_resolve. destruct (realpath f (pjoin (cwd_of cc pc) s)) as [q|] eqn:R; [|reflexivity].
  cbn [option_map]. unfold fs_analyze. rewrite path_comps_render by (eapply realpath_good; exact R). reflexivity.
Qed.

Lemma spelling_invariance f cc pc py1 py2 s1 s2 : is_dash s1 = false -> is_dash s2 = false ->
  shell_rewrites s1 = false -> shell_rewrites s2 = false ->
  realpath f (pjoin (cwd_of cc pc) s1) = realpath f (pjoin (cwd_of cc pc) s2) ->
  classify_fs f cc pc [py1; s1] = classify_fs f cc pc [py2; s2].
Proof. intros D1 D2 R1 R2 E. rewrite !classify_two by assumption. rewrite E. reflexivity. Qed.

(* ------------------------------------------------------------------ a concrete file system for the examples *)

(* import json / print(1) *)
Definition ex_script : tree :=
  T $"Module" [] []
    [($"body", T $"Import" [] [] [($"names", T $"alias" [($"name", $"json")] [] [])]);
     ($"body", T $"Expr" [] []
        [($"value", T $"Call" [] []
           [($"func", T $"Name" [($"id", $"print")] [] [($"ctx", T $"Load" [] [] [])]);
            ($"args", T $"Constant" [($"value", $"1")] [] [])])])].

(* /w/x.py -> ../lib/x.py ; with_json: /lib/json.py exists *)
Definition ex_fs (with_json : bool) : fsys :=
  [([$"w"], NDir); ([$"lib"], NDir); ([$"lib"; $"x.py"], NFile 30 (Some ex_script));
   ([$"w"; $"x.py"], NLink $"../lib/x.py"); ([$"w"; $"d"], NLink $"/lib"); ([$"w"; $"loop.py"], NLink $"loop.py")]
  ++ (if with_json then [([$"lib"; $"json.py"], NFile 5 None)] else []).

(* the variant that does NOT resolve the script path (joins cwd and token, analyses that) *)
Definition classify_unresolved (f : fsys) := classify (fun p => Some p) (fs_analyze f) (fs_shadow f).

Lemma link_dir_is_not_enough :
  exists f cwd tokens,
    classify_unresolved f (Some cwd) [] tokens = PAllow /\
    exists q t r, realpath f (pjoin cwd (nth 1 tokens [])) = Some q /\ stat f q = Some (NFile 30 (Some t)) /\
                  In r (roots t) /\ shadowed f (removelast q) r = true.
Proof.
  exists (ex_fs true), $"/w", [$"python3"; $"x.py"]. split; [vm_compute; reflexivity|].
  exists [$"lib"; $"x.py"], ex_script, $"json". vm_compute. repeat split; auto.
Qed.

(* ------------------------------------------------------------------ the analysis before 7bd370f, for the record *)

(* only the roots the script itself imports were tested, only as <root>.py / <root>/; -m calendar only for calendar.py / calendar/ *)
Definition analyze_path_legacy (f : fsys) (p : comps) : bool :=
  match p_is_file f p with
  | None => false
  | Some (sz, a) =>
      suffix_ok (last p []) && N.leb sz 100000 &&
      match a with
      | None => false
      | Some t => match source_viols (shadowed f (removelast p)) false true t with [] => true | _ => false end
      end
  end.
Definition classify_legacy (f : fsys) :=
  classify (fs_resolve f) (fun p => analyze_path_legacy f (path_comps p)) (fun cwd => shadowed f (path_comps cwd) $"calendar").

(* /w/x.py = import json, with one neighbour *)
Definition ex_fs_nb (name : str) : fsys :=
  [([$"w"], NDir); ([$"w"; $"x.py"], NFile 30 (Some ex_script)); ([$"w"; name], NFile 5 None)].

Lemma roots_only_is_not_enough :
  (* transitive: json loads re *)
  (classify_legacy (ex_fs_nb $"re.py") (Some $"/w") [] [$"python3"; $"x.py"] = PAllow /\
   local_shadow (ex_fs_nb $"re.py") [$"w"] = true /\ (forall r, In r (roots ex_script) -> shadowed (ex_fs_nb $"re.py") [$"w"] r = false)) /\
  (* another importable form of the imported module itself *)
  (classify_legacy (ex_fs_nb $"json.pyc") (Some $"/w") [] [$"python3"; $"x.py"] = PAllow /\
   local_shadow (ex_fs_nb $"json.pyc") [$"w"] = true) /\
  (classify_legacy (ex_fs_nb $"json.cpython-312-x86_64-linux-gnu.so") (Some $"/w") [] [$"python3"; $"x.py"] = PAllow /\
   local_shadow (ex_fs_nb $"json.cpython-312-x86_64-linux-gnu.so") [$"w"] = true) /\
  (* -m calendar loads datetime from the cwd *)
  (classify_legacy (ex_fs_nb $"datetime.py") (Some $"/w") [] [$"python3"; $"-m"; $"calendar"] = PAllow /\
   local_shadow (ex_fs_nb $"datetime.py") [$"w"] = true).
Proof.
  assert (R : forall r, In r (roots ex_script) -> shadowed (ex_fs_nb $"re.py") [$"w"] r = false).
  { intros r Hr. assert (E : roots ex_script = [$"json"]) by (vm_compute; reflexivity). rewrite E in Hr.
    destruct Hr as [<-|[]]. vm_compute. reflexivity. }
  refine (conj (conj _ (conj _ R)) (conj (conj _ _) (conj (conj _ _) (conj _ _)))); vm_compute; reflexivity.
Qed.
