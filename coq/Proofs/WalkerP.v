(* Composition laws of the walker model (used by C01, C03, C08). *)
From Coq Require Import Permutation.
From DippyV Require Import Base.Str Base.Verdict Base.Sx Base.Tree Gen.Tables Model.RawScan Model.Walker Model.Cover Proofs.VerdictP.

Section WalkerP.
  Variable simple : ctx -> list str -> verdict.
  Variable astr : ctx -> str -> verdict.
  Variable mredir : str -> str -> option verdict.
  Variable cdres : str -> str -> str.
  Variable injrisk : ctx -> list str -> bool.
  Variable rulematch : ctx -> list str -> bool.

  Notation ev := (ev simple astr mredir cdres injrisk rulematch).
  Notation walk := (walk simple astr mredir cdres injrisk rulematch).
  Notation build := (build simple astr mredir cdres injrisk rulematch).
  Notation sequence := (sequence cdres).
  Notation rawscan := (rawscan astr).

  Lemma existsb_map_pairs (f : tree -> bool) (l : list tree) :
    existsb (fun p : tree * res => f (fst p)) (map (fun t => (t, ev t)) l) = existsb f l.
  Proof. induction l as [|x l IH]; [reflexivity|]. cbn [map existsb fst]. rewrite IH. reflexivity. Qed.

  Definition kr_of (ks : list (str * tree)) : list (str * tree * res) :=
    map (fun p => (fst p, snd p, ev (snd p))) ks.

  Lemma ev_unfold k ss fs ks : ev (T k ss fs ks) = build k ss fs (kr_of ks).
  Proof. reflexivity. Qed.

  Lemma lbl_kr (k : string) ks :
    lbl k (kr_of ks) = map (fun t => (t, ev t)) (map snd (filter (fun p => str_eqb (fst p) (s2l k)) ks)).
  Proof.
    unfold lbl, kr_of. induction ks as [|[l t] ks IH]; [reflexivity|].
    cbn [map filter fst snd]. destruct (str_eqb l (s2l k)); cbn [map fst snd]; rewrite IH; reflexivity.
  Qed.

  Lemma lbl_children (k : string) kd ss fs ks :
    lbl k (kr_of ks) = map (fun t => (t, ev t)) (children k (T kd ss fs ks)).
  Proof. apply lbl_kr. Qed.

  (* the verdicts of the redirects of a node, as a function of the node *)
  Definition redirs_of (c : ctx) (t : tree) : list verdict :=
    flat_map (fun r => r_redir (ev r) c) (children "redirects" t).

  Lemma redirs_kr c kd ss fs ks : redirs (kr_of ks) c = redirs_of c (T kd ss fs ks).
  Proof.
    unfold redirs, redirs_of. rewrite (lbl_children "redirects" kd ss fs ks).
    rewrite flat_map_concat_map, map_map, <- flat_map_concat_map. reflexivity.
  Qed.

  Definition need (c : ctx) (o : option tree) : verdict :=
    match o with Some t => walk c t | None => Ask end.
  Definition optional (c : ctx) (o : option tree) : list verdict :=
    match o with Some t => [walk c t] | None => [] end.

  Lemma need_kr (k : string) c kd ss fs ks :
    need_node (one k (kr_of ks)) c = need c (child k (T kd ss fs ks)).
  Proof.
    unfold one, child. rewrite (lbl_children k kd ss fs ks).
    destruct (children k (T kd ss fs ks)); reflexivity.
  Qed.
  Lemma opt_kr (k : string) c kd ss fs ks :
    opt_node (one k (kr_of ks)) c = optional c (child k (T kd ss fs ks)).
  Proof.
    unfold one, child. rewrite (lbl_children k kd ss fs ks).
    destruct (children k (T kd ss fs ks)); reflexivity.
  Qed.

  Lemma moves_kr (k : string) kd ss fs ks :
    moves_of (one k (kr_of ks)) = match child k (T kd ss fs ks) with Some x => changes_directory x | None => false end.
  Proof.
    unfold one, child, moves_of. rewrite (lbl_children k kd ss fs ks).
    destruct (children k (T kd ss fs ks)); reflexivity.
  Qed.

  Lemma self_kr kd ss fs ks : T kd ss fs (map (fun p : str * tree * res => (fst (fst p), snd (fst p))) (kr_of ks)) = T kd ss fs ks.
  Proof.
    f_equal. unfold kr_of. rewrite map_map. cbn [fst snd]. induction ks as [|[l x] ks IH]; [reflexivity|].
    cbn [map fst snd]. f_equal. exact IH.
  Qed.

  Ltac kinds :=
    repeat match goal with
           | |- context [str_eqb (s2l ?a) (s2l ?b)] =>
               let v := eval vm_compute in (str_eqb (s2l a) (s2l b)) in
               change (str_eqb (s2l a) (s2l b)) with v
           end; cbn [orb andb negb].

  Ltac open_node := unfold walk; rewrite ev_unfold; unfold build; cbn [r_node]; kinds.

  (* ---- transparent constructors: verdict of the wrapped node, nothing added ---- *)
  Lemma walk_negation c ss fs ks :
    walk c (T $"negation" ss fs ks) = need c (child "pipeline" (T $"negation" ss fs ks)).
  Proof. open_node. apply need_kr. Qed.
  Lemma walk_time c ss fs ks :
    walk c (T $"time" ss fs ks) = need c (child "pipeline" (T $"time" ss fs ks)).
  Proof. open_node. apply need_kr. Qed.
  Lemma walk_function c ss fs ks :
    walk c (T $"function" ss fs ks) = need c (child "body" (T $"function" ss fs ks)).
  Proof. open_node. apply need_kr. Qed.
  Lemma walk_coproc c ss fs ks :
    walk c (T $"coproc" ss fs ks) = need c (child "command" (T $"coproc" ss fs ks)).
  Proof. open_node. apply need_kr. Qed.

  (* ---- grouping constructors: body plus the node's own redirects ---- *)
  Lemma walk_subshell c ss fs ks : let t := T $"subshell" ss fs ks in
    walk c t = combine (need c (child "body" t) :: redirs_of c t).
  Proof. intro t. subst t. open_node. rewrite (need_kr "body" c $"subshell" ss fs), (redirs_kr c $"subshell" ss fs). reflexivity. Qed.
  Lemma walk_brace c ss fs ks : let t := T $"brace-group" ss fs ks in
    walk c t = combine (need c (child "body" t) :: redirs_of c t).
  Proof. intro t. subst t. open_node. rewrite (need_kr "body" c $"brace-group" ss fs), (redirs_kr c $"brace-group" ss fs). reflexivity. Qed.

  Lemma walk_if c ss fs ks : let t := T $"if" ss fs ks in
    let cb := body_ctx c (match child "condition" t with Some x => changes_directory x | None => false end) in
    walk c t = combine (need c (child "condition" t) :: need cb (child "then_body" t) ::
                        optional cb (child "else_body" t) ++ redirs_of c t).
  Proof.
    intros t cb. subst t cb. open_node.
    rewrite (moves_kr "condition" $"if" ss fs).
    rewrite (need_kr "condition" c $"if" ss fs), (need_kr "then_body" _ $"if" ss fs),
            (opt_kr "else_body" _ $"if" ss fs), (redirs_kr c $"if" ss fs). reflexivity.
  Qed.
  Lemma walk_while c ss fs ks : let t := T $"while" ss fs ks in
    let cb := body_ctx c (changes_directory t) in
    walk c t = combine (need cb (child "condition" t) :: need cb (child "body" t) :: redirs_of c t).
  Proof.
    intros t cb. subst t cb. open_node. rewrite (self_kr $"while" ss fs ks).
    rewrite (need_kr "condition" _ $"while" ss fs), (need_kr "body" _ $"while" ss fs), (redirs_kr c $"while" ss fs). reflexivity.
  Qed.
  Lemma walk_until c ss fs ks : let t := T $"until" ss fs ks in
    let cb := body_ctx c (changes_directory t) in
    walk c t = combine (need cb (child "condition" t) :: need cb (child "body" t) :: redirs_of c t).
  Proof.
    intros t cb. subst t cb. open_node. rewrite (self_kr $"until" ss fs ks).
    rewrite (need_kr "condition" _ $"until" ss fs), (need_kr "body" _ $"until" ss fs), (redirs_kr c $"until" ss fs). reflexivity.
  Qed.

  (* ---- pipeline: all stages ---- *)
  Lemma walk_pipeline c ss fs ks : let t := T $"pipeline" ss fs ks in
    walk c t = combine (map (walk c) (children "commands" t)).
  Proof.
    intro t. subst t. open_node. rewrite (lbl_children "commands" $"pipeline" ss fs ks), map_map. reflexivity.
  Qed.

  (* ---- list: the parts that are not operators, in sequence (cd tracking) ---- *)

  Lemma filter_pairs (f : tree -> bool) (l : list tree) :
    filter (fun p : tree * res => f (fst p)) (map (fun t => (t, ev t)) l) = map (fun t => (t, ev t)) (filter f l).
  Proof. induction l as [|x l IH]; [reflexivity|]. cbn [map filter fst]. destruct (f x); cbn [map]; rewrite IH; reflexivity. Qed.

  (* the parts of a list with the operator written after each: the tree-only counterpart of [with_ops] *)
  Fixpoint ops_after_t (l : list tree) (cur : str) : str :=
    match l with o :: rest => if is_kind "operator" o then ops_after_t rest (attr_d "op" o) else cur | [] => cur end.
  Fixpoint tops (l : list tree) : list (tree * str) :=
    match l with
    | [] => []
    | t :: rest => if is_kind "operator" t then tops rest else (t, ops_after_t rest op_semi) :: tops rest
    end.
  Definition list_items (t : tree) : list (tree * str) := tops (children "parts" t).
  Definition with_ev (l : list (tree * str)) : list (tree * res * str) := map (fun p => (fst p, ev (fst p), snd p)) l.

  Lemma ops_after_pairs l cur : ops_after (map (fun d => (d, ev d)) l) cur = ops_after_t l cur.
  Proof. revert cur; induction l as [|o l IH]; intro cur; [reflexivity|]. cbn [map ops_after ops_after_t]. destruct (is_kind "operator" o); [apply IH|reflexivity]. Qed.

  Lemma with_ops_pairs l : with_ops (map (fun d => (d, ev d)) l) = with_ev (tops l).
  Proof.
    induction l as [|t l IH]; [reflexivity|]. cbn [map with_ops tops]. destruct (is_kind "operator" t); [exact IH|].
    unfold with_ev in *. cbn [map fst snd]. rewrite ops_after_pairs, IH. reflexivity.
  Qed.

  Lemma tops_parts l : map fst (tops l) = filter (fun p => negb (is_kind "operator" p)) l.
  Proof.
    induction l as [|t l IH]; [reflexivity|]. cbn [tops filter]. destruct (is_kind "operator" t); cbn [negb map fst]; [exact IH|].
    f_equal. exact IH.
  Qed.

  Lemma list_items_parts t : map fst (list_items t) = seq_parts t.
  Proof. apply tops_parts. Qed.

  Lemma walk_list c ss fs ks : let t := T $"list" ss fs ks in
    walk c t = combine (sequence (init_state c) (with_ev (list_items t))).
  Proof.
    intro t. subst t. open_node. rewrite (lbl_children "parts" $"list" ss fs ks), with_ops_pairs. reflexivity.
  Qed.

  (* the context each element of a sequence is analysed in *)
  Notation next_state := (next_state cdres).
  Notation next_ctx := (next_ctx cdres).
  Fixpoint seq_ctxs (st : seq_state) (l : list (tree * str)) : list (ctx * tree) :=
    match l with [] => [] | (t, op) :: r => (fst st, t) :: seq_ctxs (next_state st t op) r end.

  Lemma sequence_ctxs st l :
    sequence st (with_ev l) = map (fun p => walk (fst p) (snd p)) (seq_ctxs st l).
  Proof.
    revert st; induction l as [|[t op] l IH]; intro st; [reflexivity|].
    unfold with_ev in *. cbn [map Walker.sequence seq_ctxs fst snd]. f_equal. apply IH.
  Qed.

  Definition semis_t (l : list tree) : list (tree * str) := map (fun t => (t, op_semi)) l.
  Lemma semis_pairs l : semis (map (fun t => (t, ev t)) l) = with_ev (semis_t l).
  Proof. unfold semis, with_ev, semis_t. rewrite !map_map. reflexivity. Qed.

  Definition no_cd (t : tree) : Prop := extract_cd_target t = None /\ changes_directory t = false.

  Lemma next_state_no_cd c t op prev : (snd c = true \/ no_cd t) ->
    fst (next_state (c, (false, prev)) t op) = c /\ st_assumed (next_state (c, (false, prev)) t op) = false.
  Proof.
    intro H. unfold Walker.next_state, st_assumed, st_prev. cbn [fst snd]. destruct (snd c) eqn:E; [split; reflexivity|].
    destruct H as [H|[H1 H2]]; [discriminate|]. rewrite H1, H2. destruct (str_eqb op op_bg); cbn [fst snd andb]; split; reflexivity.
  Qed.

  Lemma seq_ctxs_no_cd c prev l : (snd c = true \/ Forall no_cd (map fst l)) -> seq_ctxs (c, (false, prev)) l = map (fun p => (c, fst p)) l.
  Proof.
    revert prev. induction l as [|[t op] l IH]; intros prev H; [reflexivity|].
    cbn [seq_ctxs map fst]. f_equal.
    assert (Ht : snd c = true \/ no_cd t) by (destruct H as [H|H]; [left; exact H|right; cbn [map fst] in H; inversion H; assumption]).
    destruct (next_state_no_cd c t op prev Ht) as [E1 E2].
    destruct (next_state (c, (false, prev)) t op) as [c' [a' p']] eqn:En. cbn [fst] in E1. unfold st_assumed in E2. cbn [fst snd] in E2. subst c' a'.
    apply IH. destruct H as [H|H]; [left; exact H|right; cbn [map fst] in H; inversion H; assumption].
  Qed.

  (* without a cd among the parts (or in remote mode) a list is the join of its parts *)
  Lemma walk_list_plain c ss fs ks : let t := T $"list" ss fs ks in
    (snd c = true \/ Forall no_cd (seq_parts t)) ->
    walk c t = combine (map (walk c) (seq_parts t)).
  Proof.
    intros t H. subst t. rewrite walk_list, sequence_ctxs. unfold init_state. rewrite seq_ctxs_no_cd by (rewrite list_items_parts; exact H).
    rewrite map_map. cbn [fst snd]. rewrite <- list_items_parts, map_map. reflexivity.
  Qed.

  (* ---- loops over words, case ---- *)
  Definition wpartsb (b : bool) (c : ctx) (l : list tree) : list verdict := flat_map (fun w => r_wp (ev w) b c) l.
  Definition wparts (c : ctx) (l : list tree) : list verdict := wpartsb false c l.

  Lemma wparts_kr (k : string) c kd ss fs ks :
    wparts_of k (kr_of ks) c = wparts c (children k (T kd ss fs ks)).
  Proof.
    unfold wparts_of, wparts, wpartsb. rewrite (lbl_children k kd ss fs ks).
    rewrite flat_map_concat_map, map_map, <- flat_map_concat_map. reflexivity.
  Qed.

  Lemma walk_for c ss fs ks : let t := T $"for" ss fs ks in
    let cb := body_ctx c (match child "body" t with Some x => changes_directory x | None => false end) in
    walk c t = combine (need cb (child "body" t) :: wpartsb true c (children "words" t) ++ redirs_of c t).
  Proof.
    intros t cb. subst t cb. open_node. rewrite (moves_kr "body" $"for" ss fs).
    rewrite (need_kr "body" _ $"for" ss fs), (redirs_kr c $"for" ss fs), (lbl_children "words" $"for" ss fs ks).
    unfold wpartsb. rewrite flat_map_concat_map, map_map, <- flat_map_concat_map. reflexivity.
  Qed.
  Lemma walk_select c ss fs ks : let t := T $"select" ss fs ks in
    let cb := body_ctx c (match child "body" t with Some x => changes_directory x | None => false end) in
    walk c t = combine (need cb (child "body" t) :: wpartsb true c (children "words" t) ++ redirs_of c t).
  Proof.
    intros t cb. subst t cb. open_node. rewrite (moves_kr "body" $"select" ss fs).
    rewrite (need_kr "body" _ $"select" ss fs), (redirs_kr c $"select" ss fs), (lbl_children "words" $"select" ss fs ks).
    unfold wpartsb. rewrite flat_map_concat_map, map_map, <- flat_map_concat_map. reflexivity.
  Qed.

  (* the items of a case in order, each in the directory the earlier fall-through items leave *)
  Fixpoint pats (c : ctx) (l : list tree) : list verdict :=
    match l with [] => [] | p :: rest => r_pat (ev p) c ++ pats (item_ctx c p) rest end.

  Lemma case_items_pairs c l : case_items c (map (fun t => (t, ev t)) l) = pats c l.
  Proof. revert c; induction l as [|p l IH]; intro c; [reflexivity|]. cbn [map case_items pats]. rewrite IH. reflexivity. Qed.

  (* without a fall-through item that changes directory the items are all judged where the case is *)
  Lemma pats_plain c l : (snd c = true \/ Forall (fun p => item_moves p = false) l) -> pats c l = flat_map (fun p => r_pat (ev p) c) l.
  Proof.
    induction l as [|p l IH]; intro H; [reflexivity|]. cbn [pats flat_map].
    assert (E : item_ctx c p = c).
    { unfold item_ctx. destruct H as [H|H]; [rewrite H; reflexivity|]. inversion H as [|? ? Hp _]; subst. rewrite Hp, andb_false_r. reflexivity. }
    rewrite E, IH; [reflexivity|]. destruct H as [H|H]; [left; exact H|right; inversion H; assumption].
  Qed.

  Lemma walk_case c ss fs ks : let t := T $"case" ss fs ks in
    walk c t = combine (wparts c (children "word" t) ++ pats c (children "patterns" t) ++ redirs_of c t).
  Proof.
    intro t. subst t. open_node.
    rewrite (wparts_kr "word" c $"case" ss fs), (redirs_kr c $"case" ss fs), (lbl_children "patterns" $"case" ss fs ks).
    rewrite case_items_pairs. reflexivity.
  Qed.

  (* one case arm: its pattern text is scanned, its body walked *)
  Lemma pat_arm c ss fs ks : let p := T $"pattern" ss fs ks in
    r_pat (ev p) c = rawscan c (attr_d "pattern" p) ++ optional c (child "body" p).
  Proof.
    intro p. subst p. rewrite ev_unfold. unfold build. cbn [r_pat].
    rewrite (opt_kr "body" c $"pattern" ss fs). reflexivity.
  Qed.


  Lemma walk_forarith c ss fs ks : let t := T $"for-arith" ss fs ks in
    let cb := body_ctx c (match child "body" t with Some x => changes_directory x | None => false end) in
    walk c t = combine (need cb (child "body" t) ::
                        rawscan c (attr_d "init" t) ++ rawscan c (attr_d "cond" t) ++ rawscan c (attr_d "incr" t) ++
                        redirs_of c t).
  Proof.
    intros t cb. subst t cb. open_node. rewrite (moves_kr "body" $"for-arith" ss fs).
    rewrite (need_kr "body" _ $"for-arith" ss fs), (redirs_kr c $"for-arith" ss fs). reflexivity.
  Qed.

  Lemma flat_map_pairs {B} (f : res -> list B) (l : list tree) :
    flat_map (fun p : tree * res => f (snd p)) (map (fun t => (t, ev t)) l) = flat_map (fun t => f (ev t)) l.
  Proof. rewrite flat_map_concat_map, map_map, <- flat_map_concat_map. reflexivity. Qed.

  Lemma walk_condexpr c ss fs ks : let t := T $"cond-expr" ss fs ks in
    walk c t = combine (flat_map (fun b => r_cond (ev b) c) (children "body" t) ++ redirs_of c t).
  Proof.
    intro t. subst t. open_node.
    rewrite (redirs_kr c $"cond-expr" ss fs), (lbl_children "body" $"cond-expr" ss fs ks).
    rewrite flat_map_concat_map, map_map, <- flat_map_concat_map. reflexivity.
  Qed.
  Lemma walk_arithcmd c ss fs ks : let t := T $"arith-cmd" ss fs ks in
    walk c t = combine (flat_map (fun e => r_exp (ev e) c) (children "expression" t) ++
                        text_guards true true (attr_d "raw_content" t)
                          (match child "expression" t with Some e => e | None => T [] [] [] [] end) ++ redirs_of c t).
  Proof.
    intro t. subst t. open_node.
    rewrite (redirs_kr c $"arith-cmd" ss fs), (lbl_children "expression" $"arith-cmd" ss fs ks).
    rewrite flat_map_concat_map, map_map, <- flat_map_concat_map.
    unfold one, child. rewrite (lbl_children "expression" $"arith-cmd" ss fs ks).
    destruct (children "expression" (T $"arith-cmd" ss fs ks)); reflexivity.
  Qed.


  (* ---- the other walker functions, as functions of the node ---- *)
  Lemma wp_unfold c b k ss fs ks : let t := T k ss fs ks in
    r_wp (ev t) b c =
    text_guards (nonempty (children "parts" t)) b (attr_d "value" t) t ++
    flat_map (fun p => r_exp (ev p) c) (children "parts" t) ++
    (if b then (if negb (nonempty (children "parts" t)) then rawscan c (attr_d "value" t)
                else if has_inert_opener (attr_d "value" t) then [Ask] else []) else []).
  Proof.
    intro t. subst t. rewrite ev_unfold. unfold build. cbn [r_wp].
    rewrite (lbl_children "parts" k ss fs ks), (self_kr k ss fs ks).
    rewrite flat_map_concat_map, map_map, <- flat_map_concat_map. cbn [snd].
    destruct (children "parts" (T k ss fs ks)); reflexivity.
  Qed.

  Lemma exp_unfold c k ss fs ks : let t := T k ss fs ks in
    r_exp (ev t) c =
    if mem_str k SUBST_KINDS then [need c (child "command" t)]
    else if str_eqb k $"word" then r_wp (ev t) false c
    else flat_map (fun p => rawscan c (snd p)) ss ++ flat_map (fun p => r_exp (ev (snd p)) c) ks.
  Proof.
    intro t. subst t. rewrite (ev_unfold k). unfold build. cbn [r_exp r_wp].
    destruct (mem_str k SUBST_KINDS); [rewrite (need_kr "command" c k ss fs); reflexivity|].
    destruct (str_eqb k $"word"); [reflexivity|].
    f_equal. unfold kr_of. rewrite flat_map_concat_map, map_map, <- flat_map_concat_map. reflexivity.
  Qed.

  Lemma cond_unfold c k ss fs ks : let t := T k ss fs ks in
    r_cond (ev t) c =
    if str_eqb k $"unary-test" then flat_map (fun w => r_wp (ev w) true c) (children "operand" t)
    else if str_eqb k $"binary-test" then
      flat_map (fun w => r_wp (ev w) true c) (children "left" t) ++ flat_map (fun w => r_wp (ev w) true c) (children "right" t)
    else if str_eqb k $"cond-and" || str_eqb k $"cond-or" then
      flat_map (fun w => r_cond (ev w) c) (children "left" t) ++ flat_map (fun w => r_cond (ev w) c) (children "right" t)
    else if str_eqb k $"cond-not" then flat_map (fun w => r_cond (ev w) c) (children "operand" t)
    else if str_eqb k $"cond-paren" then flat_map (fun w => r_cond (ev w) c) (children "inner" t)
    else [].
  Proof.
    intro t. subst t. rewrite ev_unfold. unfold build. cbn [r_cond].
    rewrite (lbl_children "operand" k ss fs ks), (lbl_children "left" k ss fs ks), (lbl_children "right" k ss fs ks),
            (lbl_children "inner" k ss fs ks).
    repeat (rewrite (flat_map_concat_map _ (map _ _)), map_map, <- flat_map_concat_map). reflexivity.
  Qed.

  Lemma redir_unfold c k ss fs ks : let t := T k ss fs ks in
    r_redir (ev t) c =
    if str_eqb k $"heredoc" then
      match flag "quoted" t with Some false => rawscan c (attr_d "content" t) | _ => [] end
    else
      match child "target" t with Some w => r_wp (ev w) (str_eqb (attr_d "op" t) HERESTRING_OP) c | None => [] end ++
      (if snd c then [] else
         match redirect_check (attr_d "op" t)
                 (match child "target" t with Some w => attr_d "value" w | None => [] end)
                 (match child "target" t with Some w => word_value w | None => [] end) with
         | None => []
         | Some file => [redirect_rule mredir (fst c) file]
         end).
  Proof.
    intro t. subst t. rewrite ev_unfold. unfold build. cbn [r_redir].
    destruct (str_eqb k $"heredoc"); [reflexivity|].
    unfold one, child. rewrite (lbl_children "target" k ss fs ks).
    destruct (children "target" (T k ss fs ks)); reflexivity.
  Qed.

  Lemma pat_unfold c k ss fs ks : let t := T k ss fs ks in
    r_pat (ev t) c = rawscan c (attr_d "pattern" t) ++ optional c (child "body" t).
  Proof.
    intro t. subst t. rewrite ev_unfold. unfold build. cbn [r_pat].
    rewrite (opt_kr "body" c k ss fs). reflexivity.
  Qed.

  (* ---- unknown node kinds are never approved ---- *)
  Lemma walk_unknown c k ss fs ks : mem_str k known_kinds = false -> walk c (T k ss fs ks) = Ask.
  Proof.
    intro H. unfold known_kinds in H. cbn [mem_str existsb] in H.
    repeat (apply orb_false_iff in H; destruct H as [? H]).
    unfold walk. rewrite ev_unfold. unfold build. cbn [r_node].
    repeat match goal with E : str_eqb k ?x = false |- _ => rewrite E; clear E end.
    reflexivity.
  Qed.

  (* ---- simple command ---- *)
  Definition cmd_words (t : tree) : list str := map word_value (children "words" t).
  Definition cmd_proper (c : ctx) (t : tree) : list verdict :=
    match cmd_words t with
    | [] => [Allow]
    | _ :: _ => if mem_str (match skip_assignments (cmd_words t) with b :: _ => b | [] => [] end) TEST_COMMANDS
                   && negb (rulematch c (skip_assignments (cmd_words t)))
            then [Allow] else [simple c (cmd_words t)]
    end.
  Definition cmd_inj (c : ctx) (t : tree) : list verdict :=
    let ws := cmd_words t in
    let tokens := skip_assignments ws in
    if existsb is_pure_cmdsub (skipn (S (length ws - length tokens)) (children "words" t))
    then (if injrisk c tokens then [Ask] else []) else [].

  (* quoted variable-name arguments of test / [ / read / printf -v: scanned as raw strings *)
  Definition cmd_names (c : ctx) (t : tree) : list verdict :=
    let ws := cmd_words t in
    let tokens := skip_assignments ws in
    name_scans astr c (match tokens with b :: _ => b | [] => [] end) ws (length ws - length tokens) 0 (children "words" t).

  (* an "ask" for every word of the assignment prefix that sets a variable deciding what runs (PATH, LD_PRELOAD, ...) *)
  Definition cmd_env (t : tree) : list verdict :=
    let ws := cmd_words t in env_asks (length ws - length (skip_assignments ws)) 0 ws.

  Lemma walk_command c ss fs ks : let t := T $"command" ss fs ks in
    walk c t = combine (wparts c (children "words" t) ++ cmd_env t ++ cmd_names c t ++ cmd_inj c t ++ redirs_of c t ++ cmd_proper c t).
  Proof.
    intro t. subst t. open_node.
    rewrite (redirs_kr c $"command" ss fs), (lbl_children "words" $"command" ss fs ks).
    unfold wparts, wpartsb, cmd_env, cmd_names, cmd_inj, cmd_proper, cmd_words.
    rewrite !map_map. cbn [fst snd]. rewrite map_id.
    rewrite skipn_map, existsb_map_pairs.
    rewrite (flat_map_concat_map _ (map _ _)), map_map, <- flat_map_concat_map. cbn [snd].
    reflexivity.
  Qed.
End WalkerP.
