(* json.dumps (ensure_ascii) of a dict of strings, read back by an RFC 8259 reader:
   the line denotes exactly the entry (as UTF-16 code units), is printable ASCII, and has its only
   newline at the end. *)
From DippyV Require Import Base.Str Model.Logging.

(* ---------------------------------------------------------------- hex digits *)
Definition digits16 : list N := [0;1;2;3;4;5;6;7;8;9;10;11;12;13;14;15].
Lemma lt16_in d : d < 16 -> In d digits16.
Proof.
  intro H. assert (E : d = N.of_nat (N.to_nat d)) by (symmetry; apply N2Nat.id).
  assert (L : (N.to_nat d < 16)%nat) by lia.
  rewrite E. change digits16 with (map N.of_nat (seq 0 16)). apply in_map. apply in_seq. lia.
Qed.
Lemma unhexd_hexd d : d < 16 -> unhexd (hexd d) = Some d.
Proof.
  intro H. apply lt16_in in H.
  assert (A : forallb (fun d => match unhexd (hexd d) with Some v => v =? d | None => false end) digits16 = true)
    by (vm_compute; reflexivity).
  rewrite forallb_forall in A. specialize (A d H). destruct (unhexd (hexd d)); [|discriminate].
  apply N.eqb_eq in A. subst; reflexivity.
Qed.
Lemma hexd_printable d : 32 <= hexd d /\ hexd d <= 126.
Proof.
  unfold hexd. destruct (nth_in_or_default (N.to_nat d) $"0123456789abcdef" 48) as [Hin | ->]; [|lia].
  assert (A : forallb (fun x => (32 <=? x) && (x <=? 126)) $"0123456789abcdef" = true) by (vm_compute; reflexivity).
  rewrite forallb_forall in A. specialize (A _ Hin). apply andb_true_iff in A. destruct A as [A B].
  apply N.leb_le in A. apply N.leb_le in B. split; assumption.
Qed.

Lemma hex4_split u : u < 65536 ->
  u / 4096 < 16 /\ (u / 256) mod 16 < 16 /\ (u / 16) mod 16 < 16 /\ u mod 16 < 16 /\
  ((u / 4096 * 16 + (u / 256) mod 16) * 16 + (u / 16) mod 16) * 16 + u mod 16 = u.
Proof.
  intro H.
  assert (A : u / 4096 < 16) by (apply N.div_lt_upper_bound; lia).
  assert (B : (u / 256) mod 16 < 16) by (apply N.mod_lt; lia).
  assert (C : (u / 16) mod 16 < 16) by (apply N.mod_lt; lia).
  assert (D : u mod 16 < 16) by (apply N.mod_lt; lia).
  repeat split; try assumption.
  pose proof (N.div_mod u 16 ltac:(lia)) as E1.
  pose proof (N.div_mod (u / 16) 16 ltac:(lia)) as E2.
  pose proof (N.div_mod (u / 256) 16 ltac:(lia)) as E3.
  rewrite (N.div_div u 16 16) in E2 by lia. change (16 * 16) with 256 in E2.
  rewrite (N.div_div u 256 16) in E3 by lia. change (256 * 16) with 4096 in E3.
  lia.
Qed.
Lemma unhex4_hex4 u : u < 65536 ->
  unhex4 (hexd (u / 4096)) (hexd ((u / 256) mod 16)) (hexd ((u / 16) mod 16)) (hexd (u mod 16)) = Some u.
Proof.
  intro H. destruct (hex4_split u H) as (A & B & C & D & E).
  unfold unhex4. rewrite (unhexd_hexd _ A), (unhexd_hexd _ B), (unhexd_hexd _ C), (unhexd_hexd _ D), E. reflexivity.
Qed.

(* ---------------------------------------------------------------- reading one escaped character *)
Lemma read_u a b c d r u : unhex4 a b c d = Some u ->
  read_body (92 :: 117 :: a :: b :: c :: d :: r) = consl [u] (read_body r).
Proof.
  intro Hh.
  change (read_body (92 :: 117 :: a :: b :: c :: d :: r))
    with (match unhex4 a b c d with Some u => consl [u] (read_body r) | None => None end).
  rewrite Hh. reflexivity.
Qed.
Lemma read_u_escape u r : u < 65536 -> read_body (u_escape u ++ r) = consl [u] (read_body r).
Proof. intro H. unfold u_escape, hex4. apply read_u. apply unhex4_hex4. exact H. Qed.

Lemma surr_lt c : 65536 <= c -> c <= 1114111 -> hi_surr c < 65536 /\ lo_surr c < 65536.
Proof.
  intros A B. unfold hi_surr, lo_surr. split.
  - assert ((c - 65536) / 1024 < 1024) by (apply N.div_lt_upper_bound; lia). lia.
  - assert ((c - 65536) mod 1024 < 1024) by (apply N.mod_lt; lia). lia.
Qed.
Lemma consl_consl a b x : consl a (consl b x) = consl (a ++ b) x.
Proof. destruct x as [[us r]|]; simpl; [rewrite app_assoc|]; reflexivity. Qed.

Lemma read_plain c r : c <> 34 -> c <> 92 -> 32 <= c -> read_body (c :: r) = consl (utf16c c) (read_body r).
Proof.
  intros A B D.
  change (read_body (c :: r)) with
    (if c =? 34 then Some ([], r) else if c =? 92 then
        match r with
        | [] => None
        | e :: r1 =>
            if e =? 117 then
              match r1 with
              | a :: b :: c2 :: d :: r2 =>
                  match unhex4 a b c2 d with
                  | Some u => consl [u] (read_body r2)
                  | None => None
                  end
              | _ => None
              end
            else
              match simple_escape e with
              | Some u => consl [u] (read_body r1)
              | None => None
              end
        end
      else if c <? 32 then None else consl (utf16c c) (read_body r)).
  destruct (N.eqb_spec c 34); [contradiction|]. destruct (N.eqb_spec c 92); [contradiction|].
  destruct (N.ltb_spec c 32); [lia|]. reflexivity.
Qed.

Lemma read_esc_char c r : c <= 1114111 -> read_body (esc_char c ++ r) = consl (utf16c c) (read_body r).
Proof.
  intro Hc. unfold esc_char.
  destruct (N.eqb_spec c 34) as [->|N34]; [reflexivity|].
  destruct (N.eqb_spec c 92) as [->|N92]; [reflexivity|].
  destruct (N.eqb_spec c 10) as [->|N10]; [reflexivity|].
  destruct (N.eqb_spec c 13) as [->|N13]; [reflexivity|].
  destruct (N.eqb_spec c 9) as [->|N9]; [reflexivity|].
  destruct (N.eqb_spec c 8) as [->|N8]; [reflexivity|].
  destruct (N.eqb_spec c 12) as [->|N12]; [reflexivity|].
  destruct ((32 <=? c) && (c <=? 126)) eqn:P.
  - apply andb_true_iff in P. destruct P as [P1 P2]. apply N.leb_le in P1. apply N.leb_le in P2.
    change ([c] ++ r) with (c :: r). apply read_plain; assumption.
  - destruct (N.ltb_spec c 65536) as [L|G].
    + rewrite read_u_escape by exact L. unfold utf16c. destruct (N.ltb_spec c 65536); [reflexivity|lia].
    + destruct (surr_lt c G Hc) as [Hh Hl]. rewrite <- app_assoc.
      rewrite read_u_escape by exact Hh. rewrite read_u_escape by exact Hl. rewrite consl_consl.
      unfold utf16c. destruct (N.ltb_spec c 65536); [lia|reflexivity].
Qed.

Definition unicode (s : str) : Prop := Forall (fun c => c <= 1114111) s.

Lemma read_esc_body s r : unicode s -> read_body (esc_body s ++ 34 :: r) = Some (utf16 s, r).
Proof.
  induction 1 as [|c s Hc Hs IH]; [reflexivity|].
  unfold esc_body, utf16 in *. cbn [flat_map]. rewrite <- app_assoc, read_esc_char by exact Hc.
  rewrite IH. reflexivity.
Qed.
Lemma read_jstr s r : unicode s -> read_str (jstr s ++ r) = Some (utf16 s, r).
Proof.
  intro H. replace (jstr s ++ r) with (34 :: esc_body s ++ 34 :: r)
    by (unfold jstr; rewrite <- app_comm_cons, <- app_assoc; reflexivity).
  cbn [read_str]. apply read_esc_body. exact H.
Qed.

(* ---------------------------------------------------------------- objects and lines *)
Definition upair (kv : str * str) : list N * list N := (utf16 (fst kv), utf16 (snd kv)).
Definition unicode_entry (e : list (str * str)) : Prop := Forall (fun kv => unicode (fst kv) /\ unicode (snd kv)) e.

Lemma jpair_app k v y : jpair (k, v) ++ y = jstr k ++ 58 :: 32 :: jstr v ++ y.
Proof. unfold jpair; cbn [fst snd]. repeat rewrite <- app_assoc. reflexivity. Qed.
Lemma read_pairs_S fuel s :
  read_pairs (S fuel) s =
  match read_str s with
  | Some (k, 58 :: 32 :: r) =>
      match read_str r with
      | Some (v, 125 :: r') => Some ([(k, v)], r')
      | Some (v, 44 :: 32 :: r') =>
          match read_pairs fuel r' with
          | Some (ps, r'') => Some ((k, v) :: ps, r'')
          | None => None
          end
      | _ => None
      end
  | _ => None
  end.
Proof. reflexivity. Qed.
Lemma read_pairs_last fuel k v r : unicode k -> unicode v ->
  read_pairs (S fuel) (jpair (k, v) ++ 125 :: r) = Some ([upair (k, v)], r).
Proof.
  intros Hk Hv. rewrite read_pairs_S, jpair_app, (read_jstr k _ Hk). cbv iota beta.
  rewrite (read_jstr v _ Hv). reflexivity.
Qed.
Lemma read_pairs_more fuel k v x : unicode k -> unicode v ->
  read_pairs (S fuel) (jpair (k, v) ++ 44 :: 32 :: x) =
  match read_pairs fuel x with Some (ps, r) => Some (upair (k, v) :: ps, r) | None => None end.
Proof.
  intros Hk Hv. rewrite read_pairs_S, jpair_app, (read_jstr k _ Hk). cbv iota beta.
  rewrite (read_jstr v _ Hv). reflexivity.
Qed.

Lemma read_pairs_jpairs e : unicode_entry e -> e <> [] -> forall fuel r, (length e <= fuel)%nat ->
  read_pairs fuel (jpairs e ++ 125 :: r) = Some (map upair e, r).
Proof.
  induction 1 as [|kv e [Hk Hv] He IH]; [congruence|]. intros _ fuel r Hf.
  destruct fuel as [|fuel]; [simpl in Hf; lia|]. destruct kv as [k v]. simpl in Hk, Hv.
  destruct e as [|kv2 e].
  - cbn [jpairs]. apply read_pairs_last; assumption.
  - change (jpairs ((k, v) :: kv2 :: e)) with (jpair (k, v) ++ [44; 32] ++ jpairs (kv2 :: e)).
    rewrite <- app_assoc. change (([44; 32] ++ jpairs (kv2 :: e)) ++ 125 :: r) with (44 :: 32 :: jpairs (kv2 :: e) ++ 125 :: r).
    rewrite read_pairs_more by assumption.
    rewrite IH; [reflexivity | discriminate | simpl in *; lia].
Qed.

Lemma jpairs_length e : (length e <= length (jpairs e))%nat.
Proof.
  induction e as [|kv e IH]; [simpl; lia|]. destruct e as [|kv2 e].
  - cbn [jpairs]. unfold jpair, jstr. simpl. lia.
  - change (jpairs (kv :: kv2 :: e)) with (jpair kv ++ [44; 32] ++ jpairs (kv2 :: e)).
    rewrite !app_length. simpl in *. lia.
Qed.

Lemma jline_shape e : jline e = 123 :: (jpairs e ++ 125 :: [10]).
Proof. unfold jline, jobj. rewrite <- app_comm_cons, <- app_assoc. reflexivity. Qed.
Lemma read_jline e : unicode_entry e -> e <> [] -> read_line (jline e) = Some (map upair e).
Proof.
  intros H Hn. rewrite jline_shape. unfold read_line.
  rewrite read_pairs_jpairs; [reflexivity | exact H | exact Hn |].
  cbn [length]. rewrite app_length. pose proof (jpairs_length e). lia.
Qed.

(* ---------------------------------------------------------------- printable ASCII, one newline *)
Definition printable (s : str) : Prop := Forall (fun x => 32 <= x /\ x <= 126) s.
Lemma printable_app a b : printable a -> printable b -> printable (a ++ b).
Proof. intros; apply Forall_app; split; assumption. Qed.
Lemma u_escape_printable u : printable (u_escape u).
Proof.
  unfold u_escape, hex4. repeat constructor; try lia; apply hexd_printable.
Qed.
Lemma esc_char_printable c : printable (esc_char c).
Proof.
  unfold esc_char.
  repeat match goal with |- printable (if ?b then _ else _) => destruct b eqn:? end;
    try (repeat constructor; lia).
  - apply andb_true_iff in Heqb6. destruct Heqb6 as [A B]. apply N.leb_le in A. apply N.leb_le in B.
    repeat constructor; assumption.
  - apply u_escape_printable.
  - apply printable_app; apply u_escape_printable.
Qed.
Lemma jstr_printable s : printable (jstr s).
Proof.
  unfold jstr. constructor; [lia|]. apply printable_app; [|repeat constructor; lia].
  unfold esc_body. induction s as [|c s IH]; [constructor|]. cbn [flat_map]. apply printable_app; [apply esc_char_printable | exact IH].
Qed.
Lemma jpairs_printable e : printable (jpairs e).
Proof.
  induction e as [|kv e IH]; [constructor|].
  assert (P : printable (jpair kv)).
  { unfold jpair. apply printable_app; [apply jstr_printable|]. apply printable_app; [repeat constructor; lia | apply jstr_printable]. }
  destruct e as [|kv2 e]; [exact P|].
  change (jpairs (kv :: kv2 :: e)) with (jpair kv ++ [44; 32] ++ jpairs (kv2 :: e)).
  apply printable_app; [exact P|]. apply printable_app; [repeat constructor; lia | exact IH].
Qed.
Lemma jline_complete e : complete_line (jline e).
Proof.
  exists (jobj e). split; [reflexivity|]. intro Hin.
  assert (P : printable (jobj e)).
  { unfold jobj. constructor; [lia|]. apply printable_app; [apply jpairs_printable | repeat constructor; lia]. }
  unfold printable in P. rewrite Forall_forall in P. specialize (P 10 Hin). lia.
Qed.

(* ASCII keys denote themselves *)
Lemma utf16_bmp s : Forall (fun c => c < 65536) s -> utf16 s = s.
Proof.
  induction 1 as [|c s Hc Hs IH]; [reflexivity|]. unfold utf16 in *. cbn [flat_map]. rewrite IH.
  unfold utf16c. destruct (N.ltb_spec c 65536); [reflexivity|lia].
Qed.
