(* The verdict lattice: (verdict, vmax, Allow) is a bounded join-semilattice and
   _combine is its iterated join, hence invariant under order, repetition and nesting. *)
From Coq Require Import List Bool Permutation.
From DippyV Require Import Base.Verdict.
Import ListNotations.

Lemma vmax_comm a b : vmax a b = vmax b a.        Proof. destruct a, b; reflexivity. Qed.
Lemma vmax_assoc a b c : vmax a (vmax b c) = vmax (vmax a b) c. Proof. destruct a, b, c; reflexivity. Qed.
Lemma vmax_idem a : vmax a a = a.                  Proof. destruct a; reflexivity. Qed.
Lemma vmax_allow_l a : vmax Allow a = a.           Proof. destruct a; reflexivity. Qed.
Lemma vmax_allow_r a : vmax a Allow = a.           Proof. destruct a; reflexivity. Qed.
Lemma vmax_deny_l a : vmax Deny a = Deny.          Proof. destruct a; reflexivity. Qed.
Lemma vmax_deny_r a : vmax a Deny = Deny.          Proof. destruct a; reflexivity. Qed.

Lemma vle_refl a : vle a a = true.                 Proof. destruct a; reflexivity. Qed.
Lemma vle_trans a b c : vle a b = true -> vle b c = true -> vle a c = true.
Proof. destruct a, b, c; simpl; congruence. Qed.
Lemma vle_antisym a b : vle a b = true -> vle b a = true -> a = b.
Proof. destruct a, b; simpl; congruence. Qed.
Lemma vle_vmax_l a b : vle a (vmax a b) = true.    Proof. destruct a, b; reflexivity. Qed.
Lemma vle_vmax_r a b : vle b (vmax a b) = true.    Proof. destruct a, b; reflexivity. Qed.
Lemma vmax_lub a b c : vle a c = true -> vle b c = true -> vle (vmax a b) c = true.
Proof. destruct a, b, c; simpl; congruence. Qed.
Lemma vle_allow a : vle a Allow = true -> a = Allow. Proof. destruct a; simpl; congruence. Qed.

(* _combine is the fold of vmax *)
Lemma combine_fold l : combine l = fold_right vmax Allow l.
Proof.
  induction l as [|a l IH]; [reflexivity|].
  simpl fold_right. rewrite <- IH. unfold combine. simpl.
  destruct a; simpl; destruct (existsb is_deny l); destruct (existsb is_ask l); reflexivity.
Qed.

Lemma combine_nil : combine [] = Allow. Proof. reflexivity. Qed.
Lemma combine_cons a l : combine (a :: l) = vmax a (combine l).
Proof. rewrite !combine_fold. reflexivity. Qed.
Lemma combine_one a : combine [a] = a.
Proof. rewrite combine_cons, combine_nil. apply vmax_allow_r. Qed.
Lemma combine_app l m : combine (l ++ m) = vmax (combine l) (combine m).
Proof.
  induction l as [|a l IH]; cbn [app].
  - rewrite combine_nil, vmax_allow_l. reflexivity.
  - rewrite !combine_cons, IH. apply vmax_assoc.
Qed.

Lemma combine_perm l m : Permutation l m -> combine l = combine m.
Proof.
  induction 1 as [|x l m _ IH|x y l|l m n _ IH1 _ IH2].
  - reflexivity.
  - rewrite !combine_cons, IH. reflexivity.
  - rewrite !combine_cons, !vmax_assoc, (vmax_comm y x). reflexivity.
  - congruence.
Qed.

Lemma combine_dup a l : combine (a :: a :: l) = combine (a :: l).
Proof. rewrite !combine_cons, vmax_assoc, vmax_idem. reflexivity. Qed.

(* flattening: combining combined groups is combining everything *)
Lemma combine_concat ls : combine (map combine ls) = combine (concat ls).
Proof.
  induction ls as [|l ls IH]; cbn [map concat]; [reflexivity|].
  rewrite combine_cons, combine_app, IH. reflexivity.
Qed.

Lemma combine_allow l : combine l = Allow <-> Forall (fun v => v = Allow) l.
Proof.
  induction l as [|a l IH]; [split; auto|].
  rewrite combine_cons. split.
  - intro H. destruct a, (combine l) eqn:E; simpl in H; try discriminate.
    constructor; auto. apply IH; reflexivity.
  - intro H. inversion H as [|? ? Ha Hl]; subst. apply IH in Hl. rewrite Hl. reflexivity.
Qed.

Lemma combine_deny l : combine l = Deny <-> Exists (fun v => v = Deny) l.
Proof.
  induction l as [|a l IH]; [split; [discriminate|intro H; inversion H]|].
  rewrite combine_cons. split.
  - intro H. destruct a; [right|right|left; reflexivity];
      apply IH; destruct (combine l); simpl in H; congruence.
  - intro H. inversion H as [? ? Ha|? ? Hl]; subst; [apply vmax_deny_l|].
    apply IH in Hl. rewrite Hl. apply vmax_deny_r.
Qed.

Lemma combine_ge l v : In v l -> vle v (combine l) = true.
Proof.
  induction l as [|a l IH]; [intros []|].
  rewrite combine_cons. intros [->|H].
  - apply vle_vmax_l.
  - eapply vle_trans; [apply IH, H|apply vle_vmax_r].
Qed.

(* the combined verdict is attained by some element (or is Allow for the empty list):
   composition adds no prompt that no part needs *)
Lemma combine_attained l : l <> [] -> In (combine l) l.
Proof.
  induction l as [|a l IH]; [congruence|]. intros _.
  rewrite combine_cons. destruct l as [|b l'].
  - rewrite combine_nil, vmax_allow_r. left; reflexivity.
  - assert (H : In (combine (b :: l')) (b :: l')) by (apply IH; congruence).
    destruct a, (combine (b :: l')) eqn:E; simpl; auto.
Qed.

Lemma combine_is_max l v :
  (forall x, In x l -> vle x v = true) -> (l = [] -> v = Allow) -> (l <> [] -> In v l) -> combine l = v.
Proof.
  intros Hub Hnil Hin. destruct l as [|a l]; [symmetry; apply Hnil; reflexivity|].
  apply vle_antisym.
  - assert (H := combine_attained (a :: l)). apply Hub, H. congruence.
  - apply combine_ge, Hin. congruence.
Qed.
