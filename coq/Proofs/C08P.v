(* C08: an allow rule is local to the simple command whose words it matches. *)
From DippyV Require Import Base.Str Base.Verdict Base.Sx Base.Tree Gen.Tables Model.RawScan Model.Walker Model.Cover
  Proofs.VerdictP Proofs.WalkerP Proofs.CoverP Proofs.C02P.

Section C08.
  (* the configuration without the rule ... *)
  Variable simple : ctx -> list str -> verdict.
  Variable rulematch : ctx -> list str -> bool.
  (* ... and with one more command rule, whose pattern matches exactly the token lists in P *)
  Variable simple' : ctx -> list str -> verdict.
  Variable rulematch' : ctx -> list str -> bool.
  Variable astr' : ctx -> str -> verdict.
  Variable P : list str -> bool.
  (* redirect rules are a separate list: unchanged by a command rule *)
  Variable mredir : str -> str -> option verdict.
  Variable cdres : str -> str -> str.
  Variable injrisk : ctx -> list str -> bool.

  (* a command whose words the new rule does not match is judged exactly as before *)
  Hypothesis unmatched_same : forall c ws, P (skip_assignments ws) = false ->
    simple' c ws = simple c ws /\ rulematch' c (skip_assignments ws) = rulematch c (skip_assignments ws).

  Notation walk' := (walk simple' astr' mredir cdres injrisk rulematch').
  Notation ev' := (ev simple' astr' mredir cdres injrisk rulematch').

  Lemma proper_transfer c d : P (skip_assignments (cmd_words d)) = false ->
    ok (cmd_proper simple' rulematch' c d) -> ok (cmd_proper simple rulematch c d).
  Proof.
    intros HP. unfold cmd_proper. destruct (cmd_words d) as [|w ws] eqn:Ew; [auto|].
    destruct (unmatched_same c (w :: ws) HP) as [Hs Hr]. rewrite Hs, Hr. auto.
  Qed.

  (* with the rule in place, an approved program still has, at every simple command reached at any
     depth: all its redirections granted, all substitutions in its words approved, and - when the
     rule does not match that command - the command itself approved by the configuration WITHOUT
     the rule.  The rule masks nothing but the command proper it matches. *)
  Theorem allow_rule_local c t : walk' c t = Allow ->
    forall n d, In (RNode, d) (reach_fuel n RNode t) -> is_kind "command" d = true ->
    exists c', snd c' = snd c /\
      ok (redirs_of simple' astr' mredir cdres injrisk rulematch' c' d) /\
      ok (wparts simple' astr' mredir cdres injrisk rulematch' c' (children "words" d)) /\
      ok (cmd_inj injrisk c' d) /\
      (P (skip_assignments (cmd_words d)) = false -> ok (cmd_proper simple rulematch c' d)).
  Proof.
    intros H n d Hin Hk.
    destruct (approved_all_nodes simple' astr' mredir cdres injrisk rulematch' c t H n d Hin) as [c' [Hm Hw]].
    exists c'. split; [exact Hm|].
    destruct d as [k ss fs ks]. unfold is_kind in Hk. cbn [kind_of] in Hk. apply str_eqb_eq in Hk. subst k.
    rewrite walk_command in Hw. apply ok_combine in Hw. rewrite !ok_app in Hw. destruct Hw as [H1 [_ [_ [H2 [H3 H4]]]]].
    repeat split; try assumption. intro HP. exact (proper_transfer c' _ HP H4).
  Qed.
End C08.
