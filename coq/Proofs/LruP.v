(* The handler cache refines its specification: after any sequence of _load_handler calls it holds
   exactly the most recently used distinct module names, most recent first, cut at maxsize. *)
From Coq Require Import Arith.
From DippyV Require Import Base.Str Base.Verdict Model.Cache Proofs.CacheP.

(* remove a name from a list of names / the distinct names of a list, first occurrences kept *)
Definition rm (m : str) (l : list str) : list str := filter (fun y => negb (str_eqb y m)) l.
Fixpoint dedup (l : list str) : list str :=
  match l with [] => [] | x :: r => x :: rm x (dedup r) end.
(* the specification: names in order of last use (most recent first), at most maxsize of them *)
Definition recent (calls : list str) : list str := firstn maxsize (dedup (rev calls)).

Lemma maxsize_pos : (1 <= maxsize)%nat.
Proof. vm_compute. lia. Qed.

Lemma rm_notin m l : ~ In m l -> rm m l = l.
Proof.
  induction l as [|x l IH]; intro H; [reflexivity|]. simpl.
  destruct (str_eqb_spec x m) as [->|Hn]; [exfalso; apply H; left; reflexivity|].
  simpl. rewrite IH; [reflexivity | intro E; apply H; right; exact E].
Qed.
Lemma in_rm m l x : In x (rm m l) <-> In x l /\ x <> m.
Proof.
  unfold rm. rewrite filter_In. split; intros [A B]; split; try exact A.
  - destruct (str_eqb_spec x m); [discriminate | assumption].
  - destruct (str_eqb_spec x m); [contradiction | reflexivity].
Qed.
Lemma rm_nodup m l : NoDup l -> NoDup (rm m l).
Proof.
  induction 1 as [|x l Hx Hl IH]; simpl; [constructor|]. destruct (str_eqb x m); simpl; [exact IH|].
  constructor; [|exact IH]. intro E. apply in_rm in E. apply Hx. apply E.
Qed.
Lemma dedup_nodup l : NoDup (dedup l).
Proof.
  induction l as [|x l IH]; simpl; constructor; [|apply rm_nodup; exact IH].
  intro E. apply in_rm in E. destruct E as [_ E]. apply E. reflexivity.
Qed.

(* a hit: moving m to the front of the first n+1 names = the first n+1 names of the re-deduplicated list *)
Lemma rm_firstn_hit m : forall D n, NoDup D -> In m (firstn (S n) D) ->
  rm m (firstn (S n) D) = firstn n (rm m D).
Proof.
  induction D as [|d D IH]; intros n Hnd Hin; [destruct Hin|].
  inversion Hnd as [|? ? Hd HD]; subst. cbn [firstn] in *. simpl rm.
  destruct (str_eqb_spec d m) as [->|Hne]; simpl.
  - rewrite (rm_notin m D Hd). apply rm_notin. intro E. apply Hd. eapply in_firstn. exact E.
  - destruct Hin as [E|Hin]; [contradiction|]. destruct n as [|n]; [destruct Hin|].
    cbn [firstn]. rewrite <- (IH n HD Hin). reflexivity.
Qed.
(* a miss: m is not among the first n+1 names, so removing it does not disturb the first n *)
Lemma rm_firstn_miss m : forall D n, ~ In m (firstn (S n) D) -> firstn n (rm m D) = firstn n D.
Proof.
  induction D as [|d D IH]; intros n Hnin; [reflexivity|]. cbn [firstn] in Hnin. simpl rm.
  destruct (str_eqb_spec d m) as [->|Hne]; [exfalso; apply Hnin; left; reflexivity|]. simpl.
  destruct n as [|n]; [reflexivity|]. cbn [firstn]. rewrite IH; [reflexivity|]. intro E. apply Hnin. right. exact E.
Qed.

Section R.
  Variable value : Type.
  Variable load : str -> value.
  Variable input : Type.
  Variable analysis : input -> prog value.
  Variable explicit : option hmode.
  Notation get := (get value load).
  Notation trace := (trace value load).
  Notation runp := (runp value load).
  Notation step := (step value load input analysis explicit).
  Notation init := (init value explicit).
  Notation after := (after value load input analysis explicit).
  Notation lru := (lru value).
  Definition keys (c : cache value) : list str := map fst c.

  Lemma keys_remove m c : keys (remove value m c) = rm m (keys c).
  Proof.
    unfold keys, remove, rm. induction c as [|[k v] c IH]; [reflexivity|]. simpl.
    destruct (str_eqb k m); simpl; [exact IH | rewrite IH; reflexivity].
  Qed.
  Lemma find_in m c : In m (keys c) -> exists v, find value m c = Some v.
  Proof.
    induction c as [|[k v] c IH]; simpl; [intros []|]. destruct (str_eqb_spec k m) as [->|Hn]; [eauto|].
    intros [E|E]; [contradiction | exact (IH E)].
  Qed.

  (* one call *)
  Lemma get_recent c m L : keys c = firstn maxsize (dedup L) ->
    keys (fst (fst (get c m))) = firstn maxsize (dedup (m :: L)).
  Proof.
    intro K. pose proof maxsize_pos as P. destruct maxsize as [|n] eqn:EM; [lia|].
    cbn [dedup firstn]. unfold Cache.get. destruct (find value m c) as [v|] eqn:F; cbn [fst].
    - apply (find_some value) in F. assert (Hin : In m (keys c)) by (apply (in_map fst) in F; exact F).
      unfold keys at 1. cbn [map fst]. fold (keys (remove value m c)). rewrite keys_remove, K.
      rewrite K in Hin. rewrite rm_firstn_hit; [reflexivity | apply dedup_nodup | exact Hin].
    - apply (find_none value) in F. fold (keys c) in F. rewrite EM. unfold keys. rewrite <- firstn_map. cbn [map fst firstn].
      fold (keys c). rewrite K in *. rewrite firstn_firstn. rewrite Nat.min_l by lia.
      rewrite rm_firstn_miss; [reflexivity | exact F].
  Qed.

  (* any sequence of calls, from any cache that is already "the recent names of L" *)
  Lemma trace_recent ms : forall c L, keys c = firstn maxsize (dedup L) ->
    keys (snd (trace c ms)) = firstn maxsize (dedup (rev ms ++ L)).
  Proof.
    induction ms as [|m ms IH]; intros c L K; [exact K|]. cbn [Cache.trace].
    pose proof (get_recent c m L K) as G. destruct (get c m) as [[c1 v] hit]; cbn [fst] in G.
    specialize (IH c1 (m :: L) G). destruct (trace c1 ms) as [hs c2]; cbn [snd] in *.
    rewrite IH. cbn [rev]. rewrite <- app_assoc. reflexivity.
  Qed.
  Lemma trace_from_empty ms : keys (snd (trace [] ms)) = recent ms.
  Proof. unfold recent. rewrite (trace_recent ms [] []); [rewrite app_nil_r; reflexivity | reflexivity]. Qed.

  (* the calls an analysis makes (its later requests may depend on the modules it got) *)
  Fixpoint calls_p (p : prog value) : list str :=
    match p with Done _ => [] | Get m k => m :: calls_p (k (load m)) end.
  Definition calls (q : query input) : list str :=
    match q with QAnalyze x | QMain _ x _ _ _ | QCheck x => calls_p (analysis x) | _ => [] end.

  Lemma runp_trace p : forall c, CInv value load c -> fst (runp c p) = snd (trace c (calls_p p)).
  Proof.
    induction p as [a | m k IH]; intros c Hc; [reflexivity|]. cbn [Cache.runp calls_p Cache.trace].
    destruct (get_inv value load c m Hc) as [A B]. destruct (get c m) as [[c1 v] hit]; cbn [fst snd] in A, B. subst v.
    rewrite (IH (load m) c1 A). destruct (trace c1 (calls_p (k (load m)))); reflexivity.
  Qed.
  Lemma analyze_trace x s : Inv value load s ->
    lru (fst (analyze value load input analysis x s)) = snd (trace (lru s) (calls_p (analysis x))).
  Proof.
    intro H. unfold Cache.analyze. rewrite <- (runp_trace (analysis x) (lru s) H).
    destruct (runp (lru s) (analysis x)); reflexivity.
  Qed.
  Lemma step_trace s q : Inv value load s -> lru (fst (step s q)) = snd (trace (lru s) (calls q)).
  Proof.
    intro H. destruct q as [x | det x log cf df | x | m | log fl | fl]; cbn [Cache.step calls].
    - pose proof (analyze_trace x s H) as A. destruct (analyze value load input analysis x s); exact A.
    - set (s1 := match explicit with Some _ => s | None => set_mode value det s end).
      assert (L1 : lru (configure value log cf s1) = lru s)
        by (rewrite (configure_lru value); unfold s1; destruct explicit; reflexivity).
      assert (H1 : Inv value load (configure value log cf s1)) by (unfold Inv; rewrite L1; exact H).
      pose proof (analyze_trace x _ H1) as A. rewrite L1 in A.
      destruct (analyze value load input analysis x (configure value log cf s1)) as [s3 a]; cbn [fst] in *.
      rewrite (log_decision_lru value). exact A.
    - pose proof (analyze_trace x s H) as A. destruct (analyze value load input analysis x s) as [s1 a]; cbn [fst] in *.
      rewrite (log_decision_lru value). exact A.
    - reflexivity.
    - cbn [fst]. apply (configure_lru value).
    - cbn [fst]. apply (log_decision_lru value).
  Qed.

  Lemma trace_app a : forall c b, snd (trace c (a ++ b)) = snd (trace (snd (trace c a)) b).
  Proof.
    induction a as [|m a IH]; intros c b; [reflexivity|]. cbn [List.app Cache.trace].
    destruct (get c m) as [[c1 v] hit]. specialize (IH c1 b).
    destruct (trace c1 (a ++ b)); destruct (trace c1 a); cbn [snd] in *. exact IH.
  Qed.

  Lemma after_trace h : forall s, Inv value load s ->
    lru (after h s) = snd (trace (lru s) (flat_map calls h)).
  Proof.
    induction h as [|q h IH]; intros s H; [reflexivity|]. cbn [Cache.after fold_left flat_map].
    change (fold_left (fun s q => fst (step s q)) h (fst (step s q))) with (after h (fst (step s q))).
    rewrite IH by (apply (step_inv value load input analysis explicit); exact H).
    rewrite (step_trace s q H), trace_app. reflexivity.
  Qed.

  (* C18_lru_spec *)
  Lemma lru_spec h : keys (lru (after h init)) = recent (flat_map calls h).
  Proof.
    rewrite after_trace by apply (inv_init value load explicit). apply trace_from_empty.
  Qed.
End R.
