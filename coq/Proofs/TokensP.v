(* Lemmas about Model/Tokens.v: what _strip_quotes removes, and _extract_tokens of one node = the words of the first
   simple command found by descending first-part / first-command. *)
From Coq Require Import List Bool NArith String Lia Arith.
From DippyV Require Import Base.Str Base.Sx Base.Tree Model.Tokens.
Import ListNotations.
Open Scope N_scope.

(* ------------------------------------------------------------------ _strip_quotes *)
Lemma last_app_one {A} (l : list A) (x d : A) : last (l ++ [x]) d = x.
Proof. apply last_last. Qed.
Lemma removelast_app_one {A} (l : list A) (x : A) : removelast (l ++ [x]) = l.
Proof. apply removelast_last. Qed.

(* a value wrapped in one pair of the same quote character loses exactly that pair *)
Lemma strip_quotes_quoted q s : q = dquote \/ q = squote -> strip_quotes (q :: s ++ [q]) = s.
Proof.
  intro Q. unfold strip_quotes. destruct (s ++ [q]) as [|b r] eqn:E; [destruct s; discriminate|].
  rewrite <- E, last_app_one, removelast_app_one.
  destruct Q as [-> | ->]; cbn; reflexivity.
Qed.

(* anything shorter than two characters, or not starting with a quote character, is left alone *)
Lemma strip_quotes_short v : (length v < 2)%nat -> strip_quotes v = v.
Proof. destruct v as [|a [|b r]]; cbn [length]; intro H; try reflexivity. lia. Qed.
Lemma strip_quotes_unquoted a r : a <> dquote -> a <> squote -> strip_quotes (a :: r) = a :: r.
Proof.
  intros D S. unfold strip_quotes. destruct r as [|b r]; [reflexivity|].
  apply N.eqb_neq in D, S. rewrite D, S. reflexivity.
Qed.
(* ... and so is a value whose last character is not the quote it starts with *)
Lemma strip_quotes_unbalanced a b r :
  last (b :: r) 0 <> a -> strip_quotes (a :: b :: r) = a :: b :: r.
Proof.
  intro N. unfold strip_quotes. set (z := last (b :: r) 0) in *.
  destruct (N.eqb_spec a dquote), (N.eqb_spec z dquote), (N.eqb_spec a squote), (N.eqb_spec z squote);
    cbn [andb orb]; try reflexivity; exfalso; congruence.
Qed.
(* the result is never longer, and at most two characters shorter *)
Lemma strip_quotes_length v : (length (strip_quotes v) = length v \/ length (strip_quotes v) + 2 = length v)%nat.
Proof.
  unfold strip_quotes. destruct v as [|a [|b r]]; [left; reflexivity | left; reflexivity |].
  destruct (((a =? dquote) && (last (b :: r) 0 =? dquote)) || ((a =? squote) && (last (b :: r) 0 =? squote))); [|left; reflexivity].
  right. assert (H : (b :: r) <> []) by discriminate. destruct (exists_last H) as (l & x & ->).
  rewrite removelast_app_one. cbn [length]. rewrite app_length. cbn [length]. lia.
Qed.

(* ------------------------------------------------------------------ _extract_tokens of one node *)
Definition subs (ks : list (str * tree)) : list (str * bool * list str) :=
  (fix go (l : list (str * tree)) : list (str * bool * list str) :=
     match l with
     | [] => []
     | (lbl, c) :: r => (lbl, is_kind "operator" c, node_tokens c) :: go r
     end) ks.

Lemma node_tokens_eq k ss fs ks :
  node_tokens (T k ss fs ks) =
    if str_eqb k $"word" then [word_value (T k ss fs ks)]
    else if str_eqb k $"command" then map word_value (children "words" (T k ss fs ks))
    else if str_eqb k $"pipeline" then first_labelled $"commands" (subs ks)
    else if str_eqb k $"list" then first_part (subs ks)
    else [].
Proof. reflexivity. Qed.

Lemma first_labelled_children lbl k ss fs ks :
  first_labelled (s2l lbl) (subs ks) = match children lbl (T k ss fs ks) with c :: _ => node_tokens c | [] => [] end.
Proof.
  unfold children. cbn [kids_of]. induction ks as [|[l c] r IH]; [reflexivity|].
  cbn [subs first_labelled filter fst]. fold (subs r). destruct (str_eqb l (s2l lbl)); [reflexivity | exact IH].
Qed.

Lemma first_part_children k ss fs ks :
  first_part (subs ks) =
    match filter (fun p => negb (is_kind "operator" p)) (children "parts" (T k ss fs ks)) with
    | p :: _ => node_tokens p
    | [] => []
    end.
Proof.
  unfold children. cbn [kids_of]. induction ks as [|[l c] r IH]; [reflexivity|].
  cbn [subs first_part filter fst]. fold (subs r).
  match goal with |- context [str_eqb l ?x] => destruct (str_eqb l x) eqn:E end; cbn [andb].
  - cbn [map filter snd]. destruct (is_kind "operator" c); cbn [negb]; [exact IH | reflexivity].
  - exact IH.
Qed.

Lemma depth_eq k ss fs ks :
  depth (T k ss fs ks) = S ((fix go (l : list (str * tree)) : nat :=
                               match l with [] => O | (_, c) :: r => Nat.max (depth c) (go r) end) ks).
Proof. reflexivity. Qed.

Lemma depth_kid l c k ss fs ks : In (l, c) ks -> (depth c < depth (T k ss fs ks))%nat.
Proof.
  rewrite depth_eq. induction ks as [|[l' c'] r IH]; [contradiction|].
  intros [E | H].
  - injection E as -> ->. lia.
  - specialize (IH H). lia.
Qed.

Lemma children_in lbl t c : In c (children lbl t) -> exists l, In (l, c) (kids_of t).
Proof.
  unfold children. intro H. apply in_map_iff in H as ([l x] & <- & H). apply filter_In in H as [H _]. exists l. exact H.
Qed.

Lemma kind_word k ss fs ks : is_kind "word" (T k ss fs ks) = str_eqb k $"word".          Proof. reflexivity. Qed.
Lemma kind_command k ss fs ks : is_kind "command" (T k ss fs ks) = str_eqb k $"command".  Proof. reflexivity. Qed.
Lemma kind_pipeline k ss fs ks : is_kind "pipeline" (T k ss fs ks) = str_eqb k $"pipeline". Proof. reflexivity. Qed.
Lemma kind_list k ss fs ks : is_kind "list" (T k ss fs ks) = str_eqb k $"list".            Proof. reflexivity. Qed.

(* with enough fuel the descent reaches the command whose words _extract_tokens returns *)
Lemma node_tokens_spec_fuel n : forall t, (depth t <= n)%nat ->
  node_tokens t = match first_simple_fuel n t with Some c => simple_words c | None => [] end.
Proof.
  induction n as [|n IH]; intros [k ss fs ks] D; [exfalso; rewrite depth_eq in D; inversion D|].
  rewrite node_tokens_eq. cbn [first_simple_fuel]. rewrite kind_word, kind_command, kind_pipeline, kind_list.
  destruct (str_eqb k $"word") eqn:W; cbn [orb].
  - unfold simple_words. rewrite kind_word, W. reflexivity.
  - destruct (str_eqb k $"command") eqn:C.
    + unfold simple_words. rewrite kind_word, W. reflexivity.
    + destruct (str_eqb k $"pipeline") eqn:P.
      * change ($"commands") with (s2l "commands"). rewrite (first_labelled_children "commands" k ss fs ks).
        destruct (children "commands" (T k ss fs ks)) as [|c r] eqn:E; [reflexivity|].
        apply IH. assert (H : In c (children "commands" (T k ss fs ks))) by (rewrite E; left; reflexivity).
        apply children_in in H as (l & H). cbn [kids_of] in H. apply (depth_kid _ _ k ss fs) in H. lia.
      * destruct (str_eqb k $"list") eqn:Li; [|reflexivity].
        rewrite (first_part_children k ss fs ks).
        destruct (filter (fun p => negb (is_kind "operator" p)) (children "parts" (T k ss fs ks))) as [|p r] eqn:E; [reflexivity|].
        apply IH. assert (H : In p (filter (fun p => negb (is_kind "operator" p)) (children "parts" (T k ss fs ks)))) by (rewrite E; left; reflexivity).
        apply filter_In in H as [H _]. apply children_in in H as (l & H). cbn [kids_of] in H. apply (depth_kid _ _ k ss fs) in H. lia.
Qed.

Lemma node_tokens_spec t :
  node_tokens t = match first_simple t with Some c => simple_words c | None => [] end.
Proof. apply node_tokens_spec_fuel. unfold first_simple. lia. Qed.

(* what the descent finds is a word or a command node *)
Lemma first_simple_kind n : forall t c, first_simple_fuel n t = Some c -> is_kind "word" c || is_kind "command" c = true.
Proof.
  induction n as [|n IH]; intros t c; [discriminate|]. cbn [first_simple_fuel].
  destruct (is_kind "word" t || is_kind "command" t) eqn:K; [intro H; injection H as <-; exact K|].
  destruct (is_kind "pipeline" t).
  - destruct (children "commands" t); [discriminate | apply IH].
  - destruct (is_kind "list" t); [|discriminate].
    destruct (filter _ _); [discriminate | apply IH].
Qed.

(* several top-level nodes: the loop extends the result for EACH of them (one per line of the command text) *)
Lemma extract_tokens_one t : extract_tokens [t] = node_tokens t.
Proof. unfold extract_tokens. cbn [flat_map]. apply app_nil_r. Qed.
Lemma extract_tokens_app a b : extract_tokens (a ++ b) = extract_tokens a ++ extract_tokens b.
Proof. unfold extract_tokens. apply flat_map_app. Qed.

Definition cmd (ws : list str) : tree :=
  T $"command" [] [] (map (fun w => ($"words", T $"word" [($"value", w)] [] [])) ws).

Lemma tokens_first_node_refuted :
  exists nodes, extract_tokens nodes <> match nodes with t :: _ => node_tokens t | [] => [] end.
Proof. exists [cmd [$"git"]; cmd [$"status"]]. vm_compute. discriminate. Qed.
