(* Lemmas about the handler models (Wrappers.v) and the tool specifications (WrapSpec.v). *)
From Coq Require Import Arith.
From DippyV Require Import Base.Str Base.Verdict Gen.Tables Model.BashQuote Model.Getopt Model.Wrappers Model.WrapSpec
  Proofs.VerdictP Proofs.BashQuoteP.

(* ================================================================== generic facts *)
Lemma list_len_ind {A} (P : list A -> Prop) :
  (forall l, (forall m, (length m < length l)%nat -> P m) -> P l) -> forall l, P l.
Proof.
  intros H l. assert (G : forall n m, (length m < n)%nat -> P m).
  { induction n as [|n IH]; intros m Hm; [lia|]. apply H. intros k Hk. apply IH. lia. }
  apply H. intros m Hm. apply (G (length l)). exact Hm.
Qed.

Lemma bash_quote_nonempty s : bash_quote s <> [].
Proof.
  unfold bash_quote. destruct s as [|c t]; [discriminate|].
  destruct (forallb quote_safe (c :: t)); discriminate.
Qed.

Lemma bash_join_nonempty ws : ws <> [] -> bash_join ws <> [].
Proof.
  destruct ws as [|w ws]; [congruence|]. intros _. unfold bash_join. cbn [map join].
  destruct (map bash_quote ws) eqn:E.
  - apply bash_quote_nonempty.
  - intro H. apply app_eq_nil in H as [H _]. exact (bash_quote_nonempty w H).
Qed.

Lemma join_sep_nonempty (sep : str) (l : list str) :
  l <> [] -> Forall (fun s => s <> []) l -> join sep l <> [].
Proof.
  destruct l as [|a l]; [congruence|]. intros _ H. inversion H as [|? ? Ha Hl]; subst.
  cbn [join]. destruct l; [exact Ha|]. intro E. apply app_eq_nil in E as [E _]. exact (Ha E).
Qed.

Definition no_sq (w : str) : bool := negb (existsb (N.eqb SQ) w).

Lemma reread_no_sq w : no_sq w = true -> reread w = w.
Proof.
  unfold no_sq. rewrite negb_true_iff. intro H. destruct w as [|c t]; [reflexivity|].
  apply reread_plain; [exact H|discriminate].
Qed.

Lemma map_reread_no_sq ws : forallb no_sq ws = true -> map reread ws = ws.
Proof.
  induction ws as [|w ws IH]; intro H; [reflexivity|].
  cbn [forallb] in H. apply andb_true_iff in H as [Hw Hs]. cbn [map]. rewrite reread_no_sq, IH; auto.
Qed.

(* ================================================================== the glue: a correct extraction cannot launder *)
Section Glue.
  (* the ladder on a word list, and the analysis of a command text *)
  Variable judge : bool -> list str -> verdict.
  Variable astr : bool -> str -> verdict.
  (* ORACLE HYPOTHESES (about the parser, the walker and the ladder; not proved here):
     the analysis of a re-quoted simple command is the ladder on the words the walker hands it, i.e.
     the words with only their outer quotes removed; a ;-joined text is judged as the join of its
     clauses (C03). *)
  Variable Hwords : forall r ws, ws <> [] -> astr r (bash_join ws) = judge r (map reread ws).
  Variable Hseq : forall r (l : list str), l <> [] -> astr r (join $"; " l) = combine (map (astr r) l).

  Lemma hverdict_words cmds r :
    cmds <> [] -> Forall (fun c => c <> []) cmds ->
    hverdict astr (HWords cmds r) = combine (map (fun c => judge r (map reread c)) cmds).
  Proof.
    intros Hne Hall. unfold hverdict. cbn [render cls_verdict].
    assert (Hj : join $"; " (map bash_join cmds) <> []).
    { apply join_sep_nonempty.
      - destruct cmds; [congruence|discriminate].
      - apply Forall_forall. intros s Hs. apply in_map_iff in Hs as [c [<- Hc]].
        apply bash_join_nonempty. exact (proj1 (Forall_forall _ _) Hall c Hc). }
    destruct (join $"; " (map bash_join cmds)) as [|x xs] eqn:E; [congruence|].
    rewrite <- E. rewrite Hseq by (destruct cmds; [congruence|discriminate]).
    rewrite map_map. f_equal. apply map_ext_in. intros c Hc.
    apply Hwords. exact (proj1 (Forall_forall _ _) Hall c Hc).
  Qed.

  (* every command the handler extracted is judged, and the result is at least as restrictive *)
  Lemma extracted_never_laundered cmds r c :
    Forall (fun c => c <> []) cmds -> In c cmds ->
    vle (judge r (map reread c)) (hverdict astr (HWords cmds r)) = true.
  Proof.
    intros Hall Hin. rewrite hverdict_words; [|destruct cmds; [destruct Hin|discriminate]|exact Hall].
    apply combine_ge. apply in_map_iff. exists c. split; [reflexivity|exact Hin].
  Qed.

  (* if what the handler extracted is what the tool executes, nothing is laundered - for inner
     commands without a single quote the ladder sees exactly the executed words *)
  Lemma no_launder_of_extract (h : hres) (inners : list (list str)) r :
    h = HWords inners r -> Forall (fun c => c <> []) inners ->
    forall c, In c inners -> forallb no_sq c = true -> vle (judge r c) (hverdict astr h) = true.
  Proof.
    intros -> Hall c Hin Hq. rewrite <- (map_reread_no_sq c Hq) at 1.
    apply extracted_never_laundered; assumption.
  Qed.

  (* exactness for a single inner command *)
  Lemma exact_of_extract (h : hres) (c : list str) r :
    h = HWords [c] r -> c <> [] -> forallb no_sq c = true -> hverdict astr h = judge r c.
  Proof.
    intros -> Hc Hq. rewrite hverdict_words; [|discriminate|constructor; [exact Hc|constructor]].
    cbn [map]. rewrite combine_one. rewrite map_reread_no_sq by exact Hq. reflexivity.
  Qed.

  (* an inner command given as a string on the command line (sh -c, env -S) is analysed as it is *)
  Lemma hverdict_string s : s <> [] -> hverdict astr (HString s) = astr false s.
  Proof. intro H. unfold hverdict. cbn [render cls_verdict]. destruct s; [congruence|reflexivity]. Qed.
End Glue.

(* ================================================================== suffix invariants: a handler never
   invents, reorders or drops words inside the inner command - it delegates a suffix of the command line *)
Definition suffix_of {A} (s l : list A) : Prop := exists p, l = p ++ s.
Lemma suffix_refl {A} (l : list A) : suffix_of l l.
Proof. exists []. reflexivity. Qed.
Lemma suffix_cons {A} (x : A) s l : suffix_of s l -> suffix_of s (x :: l).
Proof. intros [p ->]. exists (x :: p). reflexivity. Qed.
Lemma suffix_nil {A} (l : list A) : suffix_of [] l.
Proof. exists l. symmetry. apply app_nil_r. Qed.

Lemma xargs_skip_suffix l : suffix_of (xargs_skip l) l.
Proof.
  induction l as [l IH] using list_len_ind.
  destruct l as [|t r]; [apply suffix_refl|]. cbn [xargs_skip].
  destruct (is "--" t); [apply suffix_cons, suffix_refl|].
  destruct (negb (dash t)); [apply suffix_refl|].
  destruct (mem_str t XARGS_FLAGS_WITH_ARG).
  - destruct r as [|a r']; [apply suffix_nil|]. apply suffix_cons, suffix_cons, IH. cbn [length]. lia.
  - apply suffix_cons, IH. cbn [length]. lia.
Qed.

Lemma docker_inner_suffix l : suffix_of (docker_exec_inner l) l.
Proof.
  induction l as [l IH] using list_len_ind.
  destruct l as [|t r]; [apply suffix_refl|]. cbn [docker_exec_inner].
  destruct (is "--" t); [apply suffix_cons, suffix_refl|].
  destruct (mem_str t DOCKER_EXEC_FLAGS_WITH_ARG).
  - destruct r as [|a r']; [apply suffix_nil|]. apply suffix_cons, suffix_cons, IH. cbn [length]. lia.
  - destruct (dash t); [apply suffix_cons, IH; cbn [length]; lia | apply suffix_cons, suffix_refl].
Qed.

Lemma after_ddash_suffix l s : after_ddash l = Some s -> suffix_of s l.
Proof.
  revert s. induction l as [|t r IH]; intros s H; [discriminate|]. cbn [after_ddash] in H.
  destruct (is "--" t).
  - injection H as <-. apply suffix_cons, suffix_refl.
  - apply suffix_cons, IH, H.
Qed.

Lemma env_scan_words_suffix l c r : env_scan l = HWords [c] r -> suffix_of c l /\ r = false.
Proof.
  revert c r. induction l as [l IH] using list_len_ind.
  intros c r H. destruct l as [|t rest]; [discriminate|]. cbn [env_scan] in H.
  destruct (is "--" t).
  { destruct rest; [discriminate|]. injection H as <- <-. split; [apply suffix_cons, suffix_refl|reflexivity]. }
  destruct (mem_str t ENV_SPLIT_FLAGS && nonempty rest); [discriminate|].
  destruct (prefixb SPLIT_EQ t); [discriminate|].
  destruct (starts "-S" t && Nat.ltb 2 (length t)); [discriminate|].
  destruct (mem_str t ENV_FLAGS_WITH_ARG).
  { destruct rest as [|a rest']; [discriminate|].
    destruct (IH rest' ltac:(cbn [length]; lia) c r H) as [S R]. split; [apply suffix_cons, suffix_cons, S|exact R]. }
  destruct (dash t).
  { destruct (IH rest ltac:(cbn [length]; lia) c r H) as [S R]. split; [apply suffix_cons, S|exact R]. }
  destruct (has_eq t).
  { destruct (IH rest ltac:(cbn [length]; lia) c r H) as [S R]. split; [apply suffix_cons, S|exact R]. }
  injection H as <- <-. split; [apply suffix_refl|reflexivity].
Qed.

(* ================================================================== words *)
Lemma dash_false_cases w : dash w = false -> w = [] \/ exists c cs, w = c :: cs /\ c <> 45.
Proof.
  destruct w as [|c cs]; [auto|]. intro H. right. exists c, cs. split; [reflexivity|].
  unfold dash, starts in H. change (s2l "-") with [45] in H. cbn [prefixb] in H.
  rewrite andb_true_r in H. apply N.eqb_neq in H. congruence.
Qed.

Lemma word_kind_not45 c cs : c <> 45 -> word_kind (c :: cs) = WOperand.
Proof.
  intro H. destruct c as [|p]; [reflexivity|].
  do 7 (try (destruct p as [p|p|]; try reflexivity; try congruence)).
Qed.

Lemma word_kind_operand w : dash w = false -> word_kind w = WOperand.
Proof.
  intro H. destruct (dash_false_cases w H) as [->|(c & cs & -> & Hc)]; [reflexivity|].
  apply word_kind_not45, Hc.
Qed.

Lemma mem_str_false_of_eq (w : str) (T : list str) :
  has_eq w = true -> forallb (fun e => negb (has_eq e)) T = true -> mem_str w T = false.
Proof.
  intros Hw HT. destruct (mem_str w T) eqn:E; [|reflexivity].
  apply mem_str_In in E. pose proof (proj1 (forallb_forall _ _) HT w E) as H.
  cbv beta in H. rewrite Hw in H. discriminate.
Qed.

Lemma has_eq_app_l p v : has_eq p = true -> has_eq (p ++ v) = true.
Proof.
  unfold has_eq. rewrite !mem_ch_In. intro H. apply in_or_app. auto.
Qed.

Lemma dash_app p v : dash p = true -> dash (p ++ v) = true.
Proof.
  unfold dash, starts. change (s2l "-") with [45]. destruct p as [|c p]; [discriminate|].
  cbn [app prefixb]. rewrite !andb_true_r. auto.
Qed.

Lemma is_ddash_long w : (2 < length w)%nat -> is "--" w = false.
Proof.
  intro H. unfold is. destruct (str_eqb_spec w (s2l "--")) as [->|]; [|reflexivity].
  cbn in H. lia.
Qed.

Lemma prefixb_app p v : prefixb p (p ++ v) = true.
Proof. apply prefixb_spec. exists v. reflexivity. Qed.

Lemma mem_str_no_extension (p v : str) (T : list str) :
  forallb (fun e => negb (prefixb p e) || str_eqb e p) T = true -> v <> [] -> mem_str (p ++ v) T = false.
Proof.
  intros HT Hv. destruct (mem_str (p ++ v) T) eqn:E; [|reflexivity].
  apply mem_str_In in E. pose proof (proj1 (forallb_forall _ _) HT _ E) as H. cbv beta in H.
  rewrite prefixb_app in H. cbn [negb orb] in H. apply str_eqb_eq in H.
  rewrite <- (app_nil_r p) in H at 2. apply app_inv_head in H. congruence.
Qed.

(* ================================================================== docker exec (C13_extract) *)
(* the option spellings on which the handler and docker agree *)
Definition DK_BOOL_WORDS : list str :=
  map s2l ["-d"; "-i"; "-t"; "-it"; "-ti"; "-di"; "-id"; "-dt"; "-td"; "-dit"; "-itd"; "-tid";
           "--detach"; "--interactive"; "--tty"; "--privileged"].
Definition DK_VAL_FLAGS : list str := map s2l ["-e"; "--env"; "-w"; "--workdir"; "-u"; "--user"; "--env-file"].
Definition DK_LONG_EQ : list str := map s2l ["--env="; "--workdir="; "--user="; "--env-file="; "--detach-keys="].
Definition DK_SHORT_ATT : list str := map s2l ["-e"; "-w"; "-u"].

Inductive dk_opts : list str -> Prop :=
| dk_nil : dk_opts []
| dk_bool w r : In w DK_BOOL_WORDS -> dk_opts r -> dk_opts (w :: r)                     (* -i -it --tty ... *)
| dk_sep f v r : In f DK_VAL_FLAGS -> dk_opts r -> dk_opts (f :: v :: r)                 (* -e V, --env V: V is ANY word *)
| dk_eq p v r : In p DK_LONG_EQ -> dk_opts r -> dk_opts ((p ++ v) :: r)                  (* --env=V *)
| dk_att p v r : In p DK_SHORT_ATT -> v <> [] -> dk_opts r -> dk_opts ((p ++ v) :: r).   (* -eV *)

Lemma dk_bool_facts : forallb (fun w => negb (is "--" w) && negb (mem_str w DOCKER_EXEC_FLAGS_WITH_ARG) && dash w) DK_BOOL_WORDS = true.
Proof. vm_compute. reflexivity. Qed.
Lemma dk_val_facts : forallb (fun f => negb (is "--" f) && mem_str f DOCKER_EXEC_FLAGS_WITH_ARG) DK_VAL_FLAGS = true.
Proof. vm_compute. reflexivity. Qed.
Lemma dk_table_no_eq : forallb (fun e => negb (has_eq e)) DOCKER_EXEC_FLAGS_WITH_ARG = true.
Proof. vm_compute. reflexivity. Qed.
Lemma dk_eq_facts : forallb (fun p => dash p && has_eq p && Nat.ltb 2 (length p)) DK_LONG_EQ = true.
Proof. vm_compute. reflexivity. Qed.
Lemma dk_att_facts : forallb (fun p => dash p && Nat.eqb (length p) 2 &&
   forallb (fun e => negb (prefixb p e) || str_eqb e p) DOCKER_EXEC_FLAGS_WITH_ARG) DK_SHORT_ATT = true.
Proof. vm_compute. reflexivity. Qed.

Lemma dk_h_skip1 w r : dash w = true -> is "--" w = false -> mem_str w DOCKER_EXEC_FLAGS_WITH_ARG = false ->
  docker_exec_inner (w :: r) = docker_exec_inner r.
Proof. intros H1 H2 H3. cbn [docker_exec_inner]. rewrite H2, H3, H1. reflexivity. Qed.

Lemma dk_handler opts : dk_opts opts -> forall ctr cmd, dash ctr = false -> is "--" ctr = false ->
  mem_str ctr DOCKER_EXEC_FLAGS_WITH_ARG = false -> docker_exec_inner (opts ++ ctr :: cmd) = cmd.
Proof.
  induction 1 as [|w r Hw _ IH|f v r Hf _ IH|p v r Hp _ IH|p v r Hp Hv _ IH]; intros ctr cmd Hd Hdd Hm.
  - cbn [app docker_exec_inner]. rewrite Hdd, Hm, Hd. reflexivity.
  - pose proof (proj1 (forallb_forall _ _) dk_bool_facts w Hw) as F. cbv beta in F.
    rewrite !andb_true_iff, !negb_true_iff in F. destruct F as [[F1 F2] F3].
    cbn [app]. rewrite dk_h_skip1 by assumption. apply IH; assumption.
  - pose proof (proj1 (forallb_forall _ _) dk_val_facts f Hf) as F. cbv beta in F.
    rewrite andb_true_iff, negb_true_iff in F. destruct F as [F1 F2].
    cbn [app docker_exec_inner]. rewrite F1, F2. apply IH; assumption.
  - pose proof (proj1 (forallb_forall _ _) dk_eq_facts p Hp) as F. cbv beta in F.
    rewrite !andb_true_iff in F. destruct F as [[F1 F2] F3]. apply Nat.ltb_lt in F3.
    cbn [app]. rewrite dk_h_skip1.
    + apply IH; assumption.
    + apply dash_app, F1.
    + apply is_ddash_long. rewrite app_length. lia.
    + apply mem_str_false_of_eq; [apply has_eq_app_l, F2|exact dk_table_no_eq].
  - pose proof (proj1 (forallb_forall _ _) dk_att_facts p Hp) as F. cbv beta in F.
    rewrite !andb_true_iff in F. destruct F as [[F1 F2] F3]. apply Nat.eqb_eq in F2.
    cbn [app]. rewrite dk_h_skip1.
    + apply IH; assumption.
    + apply dash_app, F1.
    + apply is_ddash_long. rewrite app_length. destruct v; [congruence|cbn [length]; lia].
    + apply mem_str_no_extension; assumption.
Qed.

Lemma dk_spec opts : dk_opts opts -> forall ctr cmd, dash ctr = false ->
  pflag docker_exec_flags false (opts ++ ctr :: cmd) = POk (ctr :: cmd) None false.
Proof.
  induction 1 as [|w r Hw _ IH|f v r Hf _ IH|p v r Hp _ IH|p v r Hp Hv _ IH]; intros ctr cmd Hd.
  - cbn [app pflag]. rewrite (word_kind_operand ctr Hd). reflexivity.
  - cbn [app]. rewrite <- (IH ctr cmd Hd).
    repeat (destruct Hw as [<-|Hw]; [reflexivity|]). destruct Hw.
  - cbn [app]. rewrite <- (IH ctr cmd Hd).
    repeat (destruct Hf as [<-|Hf]; [reflexivity|]). destruct Hf.
  - cbn [app]. rewrite <- (IH ctr cmd Hd).
    repeat (destruct Hp as [<-|Hp]; [reflexivity|]). destruct Hp.
  - cbn [app]. rewrite <- (IH ctr cmd Hd). destruct v as [|c cs]; [congruence|].
    repeat (destruct Hp as [<-|Hp]; [reflexivity|]). destruct Hp.
Qed.

(* the handler extracts exactly the command docker sends to the container, for every inner command *)
Lemma docker_extract opts ctr cmd :
  dk_opts opts -> dash ctr = false -> cmd <> [] ->
  docker_exec_inner (opts ++ ctr :: cmd) = cmd /\ docker_exec_args (opts ++ ctr :: cmd) = Some [cmd].
Proof.
  intros Ho Hd Hc. split.
  - apply dk_handler; try assumption.
    + destruct (dash_false_cases ctr Hd) as [->|(c & cs & -> & Hn)]; [reflexivity|].
      unfold is. destruct (str_eqb_spec (c :: cs) (s2l "--")) as [E|]; [|reflexivity].
      injection E as E _. subst c. exfalso. apply Hn. reflexivity.
    + destruct (mem_str ctr DOCKER_EXEC_FLAGS_WITH_ARG) eqn:E; [|reflexivity].
      apply mem_str_In in E.
      assert (F : forallb dash DOCKER_EXEC_FLAGS_WITH_ARG = true) by (vm_compute; reflexivity).
      rewrite (proj1 (forallb_forall _ _) F ctr E) in Hd. discriminate.
  - unfold docker_exec_args. rewrite dk_spec by assumption. cbn [joinpos].
    destruct cmd as [|c cs]; [congruence|]. reflexivity.
Qed.

(* the whole handler / the whole docker command line, for  docker exec ...  and  podman exec ... *)
Lemma docker_h_exec base rest :
  In base [s2l "docker"; s2l "podman"] ->
  docker_h (base :: s2l "exec" :: rest) =
  Some (match docker_exec_inner rest with [] => HAsk | inner => HWords [inner] true end).
Proof. intros [<-|[<-|[]]]; reflexivity. Qed.

Lemma docker_spec_exec rest : docker_exec (s2l "exec" :: rest) = docker_exec_args rest.
Proof. reflexivity. Qed.

Lemma docker_extract_full base opts ctr cmd :
  In base [s2l "docker"; s2l "podman"] -> dk_opts opts -> dash ctr = false -> cmd <> [] ->
  modelled (base :: s2l "exec" :: opts ++ ctr :: cmd) = Some (HWords [cmd] true) /\
  wrapper_exec (base :: s2l "exec" :: opts ++ ctr :: cmd) = Some [cmd].
Proof.
  intros Hb Ho Hd Hc. destruct (docker_extract opts ctr cmd Ho Hd Hc) as [E1 E2]. split.
  - assert (M : modelled (base :: s2l "exec" :: opts ++ ctr :: cmd) = docker_h (base :: s2l "exec" :: opts ++ ctr :: cmd)).
    { destruct Hb as [<-|[<-|[]]]; reflexivity. }
    rewrite M, docker_h_exec by exact Hb. rewrite E1. destruct cmd; [congruence|reflexivity].
  - assert (W : wrapper_exec (base :: s2l "exec" :: opts ++ ctr :: cmd) = docker_exec (s2l "exec" :: opts ++ ctr :: cmd)).
    { destruct Hb as [<-|[<-|[]]]; reflexivity. }
    rewrite W, docker_spec_exec. exact E2.
Qed.

(* where the extraction is NOT what docker runs (each confirmed with the real docker client):
   -- before the container, a cluster ending in a value flag, a value flag missing from the table *)
Definition w (l : list string) : list str := map s2l l.
Lemma docker_extract_refuted :
  (modelled (w ["docker"; "exec"; "--"; "ls"; "rm"; "x"]) = Some (HWords [w ["ls"; "rm"; "x"]] true) /\
   wrapper_exec (w ["docker"; "exec"; "--"; "ls"; "rm"; "x"]) = Some [w ["rm"; "x"]]) /\
  (modelled (w ["docker"; "exec"; "-ie"; "A=1"; "ls"; "rm"; "x"]) = Some (HWords [w ["ls"; "rm"; "x"]] true) /\
   wrapper_exec (w ["docker"; "exec"; "-ie"; "A=1"; "ls"; "rm"; "x"]) = Some [w ["rm"; "x"]]) /\
  (modelled (w ["docker"; "exec"; "--detach-keys"; "a"; "cat"; "rm"; "x"]) = Some (HWords [w ["cat"; "rm"; "x"]] true) /\
   wrapper_exec (w ["docker"; "exec"; "--detach-keys"; "a"; "cat"; "rm"; "x"]) = Some [w ["rm"; "x"]]).
Proof. vm_compute. repeat split; reflexivity. Qed.

(* ================================================================== kubectl exec *)
(* words between exec and -- on which handler and kubectl agree: pod names, boolean flags, value
   flags with a separate value that is NOT the word -- , =-joined values *)
Definition KC_BOOL_WORDS : list str := map s2l ["-i"; "-t"; "-it"; "-ti"; "-q"; "--stdin"; "--tty"; "--quiet"].
Definition KC_VAL_FLAGS : list str := map s2l ["-c"; "--container"; "-n"; "--namespace"; "-f"; "--filename"; "--context"; "--cluster"; "--kubeconfig"; "--cache-dir"].
Definition KC_LONG_EQ : list str := map s2l ["--container="; "--namespace="; "--filename="; "--context="; "--kubeconfig="; "--pod-running-timeout="].
Inductive kc_mid : list str -> list str -> Prop :=     (* words, the positionals among them *)
| kc_nil : kc_mid [] []
| kc_pos p r ps : dash p = false -> kc_mid r ps -> kc_mid (p :: r) (p :: ps)
| kc_bool b r ps : In b KC_BOOL_WORDS -> kc_mid r ps -> kc_mid (b :: r) ps
| kc_sep f v r ps : In f KC_VAL_FLAGS -> is "--" v = false -> kc_mid r ps -> kc_mid (f :: v :: r) ps
| kc_eq p v r ps : In p KC_LONG_EQ -> kc_mid r ps -> kc_mid ((p ++ v) :: r) ps.

Lemma kc_handler mid ps : kc_mid mid ps -> forall cmd, after_ddash (mid ++ s2l "--" :: cmd) = Some cmd.
Proof.
  induction 1 as [|p r ps Hp _ IH|b r ps Hb _ IH|f v r ps Hf Hv _ IH|p v r ps Hp _ IH]; intro cmd.
  - reflexivity.
  - cbn [app after_ddash].
    assert (E : is "--" p = false).
    { destruct (dash_false_cases p Hp) as [->|(c & cs & -> & Hn)]; [reflexivity|].
      unfold is. destruct (str_eqb_spec (c :: cs) (s2l "--")) as [E|]; [|reflexivity].
      injection E as E _. subst c. exfalso. apply Hn. reflexivity. }
    rewrite E. apply IH.
  - cbn [app after_ddash].
    assert (F : forallb (fun b => negb (is "--" b)) KC_BOOL_WORDS = true) by (vm_compute; reflexivity).
    pose proof (proj1 (forallb_forall _ _) F b Hb) as E. cbv beta in E. apply negb_true_iff in E. rewrite E. apply IH.
  - cbn [app after_ddash].
    assert (F : forallb (fun b => negb (is "--" b)) KC_VAL_FLAGS = true) by (vm_compute; reflexivity).
    pose proof (proj1 (forallb_forall _ _) F f Hf) as E. cbv beta in E. apply negb_true_iff in E. rewrite E, Hv. apply IH.
  - cbn [app after_ddash].
    assert (F : forallb (fun p => Nat.ltb 2 (length p)) KC_LONG_EQ = true) by (vm_compute; reflexivity).
    pose proof (proj1 (forallb_forall _ _) F p Hp) as E. cbv beta in E. apply Nat.ltb_lt in E.
    rewrite is_ddash_long by (rewrite app_length; lia). apply IH.
Qed.

Lemma kc_spec mid ps : kc_mid mid ps -> forall cmd,
  pflag kubectl_flags true (mid ++ s2l "--" :: cmd) = POk ps (Some cmd) false.
Proof.
  induction 1 as [|p r ps Hp _ IH|b r ps Hb _ IH|f v r ps Hf Hv _ IH|p v r ps Hp _ IH]; intro cmd.
  - reflexivity.
  - cbn [app pflag]. rewrite (word_kind_operand p Hp). cbn iota. rewrite IH. reflexivity.
  - cbn [app]. rewrite <- (IH cmd).
    repeat (destruct Hb as [<-|Hb]; [reflexivity|]). destruct Hb.
  - cbn [app]. rewrite <- (IH cmd).
    repeat (destruct Hf as [<-|Hf]; [reflexivity|]). destruct Hf.
  - cbn [app]. rewrite <- (IH cmd).
    repeat (destruct Hp as [<-|Hp]; [reflexivity|]). destruct Hp.
Qed.

Lemma kubectl_extract base mid ps cmd :
  In base [s2l "kubectl"; s2l "k"] -> kc_mid mid ps -> cmd <> [] ->
  modelled (base :: s2l "exec" :: mid ++ s2l "--" :: cmd) = Some (HWords [cmd] true) /\
  kubectl_exec (s2l "exec" :: mid ++ s2l "--" :: cmd) = Some [cmd].
Proof.
  intros Hb Hm Hc. split.
  - assert (M : modelled (base :: s2l "exec" :: mid ++ s2l "--" :: cmd) =
                Some (match after_ddash (mid ++ s2l "--" :: cmd) with Some (c :: cs) => HWords [c :: cs] true | _ => HAsk end)).
    { destruct Hb as [<-|[<-|[]]]; reflexivity. }
    rewrite M, (kc_handler mid ps Hm). destruct cmd; [congruence|reflexivity].
  - unfold kubectl_exec. cbn [pflag]. change (word_kind (s2l "exec")) with WOperand. cbn iota.
    rewrite (kc_spec mid ps Hm). cbn [pcons]. change (str_eqb (s2l "exec") (S "exec")) with true. cbn iota.
    destruct cmd; [congruence|reflexivity].
Qed.

(* a value flag may swallow the word -- : the handler then cuts at the wrong place *)
Lemma kubectl_extract_refuted :
  modelled (w ["kubectl"; "exec"; "--cache-dir"; "--"; "ls"; "--"; "rm"; "x"]) = Some (HWords [w ["ls"; "--"; "rm"; "x"]] true) /\
  wrapper_exec (w ["kubectl"; "exec"; "--cache-dir"; "--"; "ls"; "--"; "rm"; "x"]) = Some [w ["rm"; "x"]].
Proof. vm_compute. split; reflexivity. Qed.

(* ================================================================== sh / bash -c *)
Lemma after_c_skip pre r : Forall (fun x => is_c_flag x = false) pre -> after_c (pre ++ r) = after_c r.
Proof.
  induction pre as [|a pre IH]; intro H; [reflexivity|]. inversion H as [|? ? Ha Hp]; subst.
  cbn [app after_c]. rewrite Ha. apply IH, Hp.
Qed.

(* whatever non--c words come first: the word after the first c-flag is the analysed string *)
Lemma shell_c_extract base pre cflag s rest :
  is_c_flag base = false -> Forall (fun x => is_c_flag x = false) pre -> is_c_flag cflag = true -> s <> [] ->
  shell_h (base :: pre ++ cflag :: s :: rest) = HString s.
Proof.
  intros Hb Hp Hc Hs. unfold shell_h.
  assert (E : after_c (base :: pre ++ cflag :: s :: rest) = Some (s :: rest)).
  { cbn [after_c]. rewrite Hb. rewrite after_c_skip by exact Hp. cbn [after_c]. rewrite Hc. reflexivity. }
  destruct (pre ++ cflag :: s :: rest) as [|x xs] eqn:L.
  - destruct pre; discriminate.
  - rewrite E. destruct s; [congruence|reflexivity].
Qed.

Definition optlike (s : str) : bool := match s with c :: _ => N.eqb c 45 || N.eqb c 43 | [] => false end.

Lemma sh_short_operand cl s rest wc ws :
  optlike s = false -> sh_short cl (s :: rest) wc ws O = bash_finish wc ws (s :: rest).
Proof.
  intro H. cbn [sh_short]. destruct s as [|c [|d cs]].
  - reflexivity.
  - cbn [optlike] in H. apply orb_false_iff in H as [H1 H2]. cbn [str_eqb]. rewrite H1. reflexivity.
  - cbn [optlike] in H. cbn [str_eqb]. rewrite H. apply orb_false_iff in H as [H1 H2]. rewrite H1. reflexivity.
Qed.

(* bash -c S ... and sh -c S ... run the string S (S not shaped like a further option) *)
Lemma shell_c_spec s rest :
  optlike s = false ->
  bash_exec (s2l "-c" :: s :: rest) = Some (SString s) /\ dash_exec (s2l "-c" :: s :: rest) = Some (SString s).
Proof.
  intro H. split.
  - unfold bash_exec. cbn [bash_long]. change (bash_long_name (s2l "-c")) with (Some (s2l "c", false)).
    cbv iota beta.
    change (mem_str (s2l "c") BASH_LONG_NOARG) with false. change (mem_str (s2l "c") BASH_LONG_ARG) with false.
    change (mem_str (s2l "c") [S "help"; S "version"]) with false. cbv iota.
    change (sh_short bash_cluster (s2l "-c" :: s :: rest) false false O) with (sh_short bash_cluster (s :: rest) true false O).
    rewrite sh_short_operand by exact H. reflexivity.
  - unfold dash_exec.
    change (sh_short dash_cluster (s2l "-c" :: s :: rest) false false O) with (sh_short dash_cluster (s :: rest) true false O).
    rewrite sh_short_operand by exact H. reflexivity.
Qed.

(* where the handler is wrong about what the shell runs (each confirmed with real bash/dash) *)
Lemma shell_extract_refuted :
  (modelled (w ["bash"; "script.sh"; "-c"; "ls"]) = Some (HString (s2l "ls")) /\
   shell_exec (w ["bash"; "script.sh"; "-c"; "ls"]) = Some (SFile (s2l "script.sh"))) /\
  (modelled (w ["sh"; "script.sh"; "-c"; "ls"]) = Some (HString (s2l "ls")) /\
   shell_exec (w ["sh"; "script.sh"; "-c"; "ls"]) = Some (SFile (s2l "script.sh"))) /\
  (modelled (w ["bash"; "-rcfile"; "ls"; "-c"; "rm x"]) = Some (HString (s2l "ls")) /\
   shell_exec (w ["bash"; "-rcfile"; "ls"; "-c"; "rm x"]) = Some (SString (s2l "rm x"))).
Proof. vm_compute. repeat split; reflexivity. Qed.

(* ================================================================== find *)
Definition find_word_ok (x : str) : bool :=
  negb (mem_str x FIND_TERMINATORS) && negb (mem_str x FIND_OK_FLAGS) && negb (is "-delete" x)
  && negb (str_eqb x (S ";")) && negb (str_eqb x (S "+")).
Definition plain_path (p : str) : bool := negb (dash p) && negb (mem_str p (map s2l ["("; ")"; "!"; ","])).

Lemma find_clause_h c : forall acc t rest,
  forallb find_word_ok c = true -> mem_str t FIND_TERMINATORS = true -> rev acc ++ c <> [] ->
  find_clauses (c ++ t :: rest) (Some acc) =
  match find_clauses rest None with Some cs => Some ((rev acc ++ c) :: cs) | None => None end.
Proof.
  induction c as [|x c IH]; intros acc t rest Hc Ht Hne.
  - cbn [app find_clauses]. rewrite Ht. rewrite app_nil_r in *. destruct acc as [|a acc].
    + cbn in Hne. congruence.
    + reflexivity.
  - cbn [forallb] in Hc. apply andb_true_iff in Hc as [Hx Hc]. unfold find_word_ok in Hx.
    rewrite !andb_true_iff, !negb_true_iff in Hx. destruct Hx as [[[[X1 X2] X3] X4] X5].
    cbn [app find_clauses]. rewrite X1. rewrite IH; try assumption.
    + cbn [rev]. rewrite <- app_assoc. reflexivity.
    + cbn [rev]. rewrite <- app_assoc. cbn [app]. destruct (rev acc); discriminate.
Qed.

Lemma dash_false_mem p T : dash p = false -> forallb dash T = true -> mem_str p T = false.
Proof.
  intros Hp HT. destruct (mem_str p T) eqn:E; [|reflexivity]. apply mem_str_In in E.
  rewrite (proj1 (forallb_forall _ _) HT p E) in Hp. discriminate.
Qed.

Lemma find_paths_h paths : forall l, forallb plain_path paths = true ->
  find_clauses (paths ++ l) None = find_clauses l None.
Proof.
  induction paths as [|p ps IH]; intros l H; [reflexivity|].
  cbn [forallb] in H. apply andb_true_iff in H as [Hp Hs]. unfold plain_path in Hp.
  apply andb_true_iff in Hp as [Hd _]. apply negb_true_iff in Hd.
  cbn [app find_clauses]. rewrite (dash_false_mem p FIND_EXEC_FLAGS Hd) by (vm_compute; reflexivity).
  apply IH; assumption.
Qed.

Lemma find_blocked_app a b : find_blocked (a ++ b) = find_blocked a || find_blocked b.
Proof. unfold find_blocked. apply existsb_app. Qed.

Lemma find_extract_h paths c :
  forallb plain_path paths = true -> forallb find_word_ok c = true -> c <> [] ->
  find_h (s2l "find" :: paths ++ s2l "-exec" :: c ++ [s2l ";"]) = HWords [c] false.
Proof.
  intros Hp Hc Hne. unfold find_h.
  assert (B : find_blocked (s2l "find" :: paths ++ s2l "-exec" :: c ++ [s2l ";"]) = false).
  { change (s2l "find" :: paths ++ s2l "-exec" :: c ++ [s2l ";"]) with ([s2l "find"] ++ paths ++ [s2l "-exec"] ++ c ++ [s2l ";"]).
    rewrite !find_blocked_app.
    replace (find_blocked [s2l "find"]) with false by (vm_compute; reflexivity).
    replace (find_blocked [s2l "-exec"]) with false by (vm_compute; reflexivity).
    replace (find_blocked [s2l ";"]) with false by (vm_compute; reflexivity).
    assert (P : find_blocked paths = false).
    { unfold find_blocked. apply not_true_is_false. intro E. apply existsb_exists in E as [x [Hx E]].
      pose proof (proj1 (forallb_forall _ _) Hp x Hx) as Q. unfold plain_path in Q.
      apply andb_true_iff in Q as [Q _]. apply negb_true_iff in Q.
      rewrite (dash_false_mem x FIND_OK_FLAGS Q) in E by (vm_compute; reflexivity).
      cbn [orb] in E. unfold is in E. apply str_eqb_eq in E. subst x. discriminate. }
    assert (C : find_blocked c = false).
    { unfold find_blocked. apply not_true_is_false. intro E. apply existsb_exists in E as [x [Hx E]].
      pose proof (proj1 (forallb_forall _ _) Hc x Hx) as Q. unfold find_word_ok in Q.
      rewrite !andb_true_iff, !negb_true_iff in Q. destruct Q as [[[[_ Q2] Q3] _] _].
      rewrite Q2, Q3 in E. discriminate. }
    rewrite P, C. reflexivity. }
  rewrite B.
  assert (E : find_clauses (s2l "find" :: paths ++ s2l "-exec" :: c ++ [s2l ";"]) None = Some [c]).
  { cbn [find_clauses]. replace (mem_str (s2l "find") FIND_EXEC_FLAGS) with false by (vm_compute; reflexivity).
    rewrite find_paths_h by exact Hp. cbn [find_clauses].
    replace (mem_str (s2l "-exec") FIND_EXEC_FLAGS) with true by (vm_compute; reflexivity).
    rewrite (find_clause_h c [] (s2l ";") []); try assumption.
    - reflexivity.
    - vm_compute. reflexivity. }
  rewrite E. reflexivity.
Qed.

(* specification side *)
Lemma plain_path_lead p :
  plain_path p = true ->
  mem_str p (map s2l ["-H"; "-L"; "-P"]) = false /\ str_eqb p (S "-D") = false /\
  prefixb (S "-O") p = false /\ looks_like_expr p = false.
Proof.
  unfold plain_path. rewrite andb_true_iff, !negb_true_iff. intros [Hd Hm].
  destruct (dash_false_cases p Hd) as [->|(c & cs & -> & Hn)].
  - repeat split; reflexivity.
  - apply N.eqb_neq in Hn. repeat split.
    + apply dash_false_mem; [exact Hd|vm_compute; reflexivity].
    + change (S "-D") with [45; 68]. cbn [str_eqb]. rewrite Hn. reflexivity.
    + change (S "-O") with [45; 79]. cbn [prefixb]. rewrite N.eqb_sym, Hn. reflexivity.
    + unfold looks_like_expr. cbn [dashb]. rewrite Hn, Hm. reflexivity.
Qed.

Lemma find_spec_clause c : forall acc b,
  forallb find_word_ok c = true -> rev acc ++ c <> [] ->
  find_run (c ++ [S ";"]) (FClause acc b) = Some [rev acc ++ c].
Proof.
  induction c as [|x c IH]; intros acc b Hc Hne.
  - cbn [app find_run]. change (str_eqb (S ";") (S ";")) with true. cbn [orb]. rewrite app_nil_r in *.
    destruct acc; [cbn in Hne; congruence|reflexivity].
  - cbn [forallb] in Hc. apply andb_true_iff in Hc as [Hx Hc]. unfold find_word_ok in Hx.
    rewrite !andb_true_iff, !negb_true_iff in Hx. destruct Hx as [[[[X1 X2] X3] X4] X5].
    cbn [app find_run]. rewrite X4, X5. cbn [orb andb]. rewrite IH; try assumption.
    + cbn [rev]. rewrite <- app_assoc. reflexivity.
    + cbn [rev]. rewrite <- app_assoc. cbn [app]. destruct (rev acc); discriminate.
Qed.

Lemma find_spec_paths paths l :
  forallb plain_path paths = true -> paths <> [] ->
  find_run (paths ++ l) FLead = find_run l FPaths.
Proof.
  intros H Hne. destruct paths as [|p ps]; [congruence|]. clear Hne.
  cbn [forallb] in H. apply andb_true_iff in H as [Hp Hs].
  destruct (plain_path_lead p Hp) as (A & B & C & D).
  cbn [app find_run]. rewrite A, B, C, D. cbn iota.
  clear Hp A B C D. induction ps as [|q ps IH]; [reflexivity|].
  cbn [forallb] in Hs. apply andb_true_iff in Hs as [Hq Hs].
  destruct (plain_path_lead q Hq) as (_ & _ & _ & D). cbn [app find_run]. rewrite D. apply IH, Hs.
Qed.

Lemma find_extract_spec paths c :
  forallb plain_path paths = true -> forallb find_word_ok c = true -> c <> [] ->
  find_exec (paths ++ s2l "-exec" :: c ++ [s2l ";"]) = Some [c].
Proof.
  intros Hp Hc Hne. unfold find_exec. destruct paths as [|p ps].
  - cbn [app]. change (find_run (s2l "-exec" :: c ++ [s2l ";"]) FLead) with (find_run (c ++ [S ";"]) (FClause [] false)).
    apply (find_spec_clause c [] false); assumption.
  - rewrite find_spec_paths by (assumption || discriminate).
    change (find_run (s2l "-exec" :: c ++ [s2l ";"]) FPaths) with (find_run (c ++ [S ";"]) (FClause [] false)).
    apply (find_spec_clause c [] false); assumption.
Qed.

(* a lone + is an ordinary argument for find unless it follows {} ; the handler ends the clause there *)
Lemma find_extract_refuted :
  modelled (w ["find"; "."; "-exec"; "env"; "-u"; "+"; "rm"; "x"; ";"]) = Some (HWords [w ["env"; "-u"]] false) /\
  wrapper_exec (w ["find"; "."; "-exec"; "env"; "-u"; "+"; "rm"; "x"; ";"]) = Some [w ["env"; "-u"; "+"; "rm"; "x"]].
Proof. vm_compute. split; reflexivity. Qed.

(* ================================================================== env *)
Lemma dash_false_prefix p a : dash a = false -> prefixb (45 :: p) a = false.
Proof.
  intro H. destruct (dash_false_cases a H) as [->|(c & cs & -> & Hn)]; [reflexivity|].
  cbn [prefixb]. apply N.eqb_neq in Hn. rewrite N.eqb_sym, Hn. reflexivity.
Qed.

Lemma dash_false_not_ddash a : dash a = false -> is "--" a = false.
Proof.
  intro H. destruct (dash_false_cases a H) as [->|(c & cs & -> & Hn)]; [reflexivity|].
  unfold is. destruct (str_eqb_spec (c :: cs) (s2l "--")) as [E|]; [|reflexivity].
  injection E as E _. subst c. exfalso. apply Hn. reflexivity.
Qed.

Lemma dash_false_not_dashword a : dash a = false -> str_eqb a [45] = false.
Proof.
  intro H. destruct (dash_false_cases a H) as [->|(c & cs & -> & Hn)]; [reflexivity|].
  cbn [str_eqb]. apply N.eqb_neq in Hn. rewrite Hn. reflexivity.
Qed.

(* one step of the handler's scan over a word that does not start with a dash *)
Lemma env_scan_nodash a r : dash a = false ->
  env_scan (a :: r) = if has_eq a then env_scan r else HWords [a :: r] false.
Proof.
  intro H. cbn [env_scan]. rewrite (dash_false_not_ddash a H).
  rewrite (dash_false_mem a ENV_SPLIT_FLAGS H) by (vm_compute; reflexivity). cbn [andb].
  change SPLIT_EQ with (45 :: skipn 1 SPLIT_EQ). rewrite (dash_false_prefix _ a H).
  unfold starts. change (s2l "-S") with [45; 83]. rewrite (dash_false_prefix _ a H). cbn [andb].
  rewrite (dash_false_mem a ENV_FLAGS_WITH_ARG H) by (vm_compute; reflexivity). rewrite H. reflexivity.
Qed.

Definition assign_word (a : str) : bool := has_eq a && negb (dash a).

Lemma env_scan_assigns assigns : forall l, forallb assign_word assigns = true ->
  env_scan (assigns ++ l) = env_scan l.
Proof.
  induction assigns as [|a r IH]; intros l H; [reflexivity|].
  cbn [forallb] in H. apply andb_true_iff in H as [Ha Hr]. unfold assign_word in Ha.
  apply andb_true_iff in Ha as [He Hd]. apply negb_true_iff in Hd.
  cbn [app]. rewrite env_scan_nodash by exact Hd. rewrite He. apply IH, Hr.
Qed.

Lemma drop_assign_app assigns : forall l, forallb assign_word assigns = true ->
  drop_assign (assigns ++ l) = drop_assign l.
Proof.
  induction assigns as [|a r IH]; intros l H; [reflexivity|].
  cbn [forallb] in H. apply andb_true_iff in H as [Ha Hr]. unfold assign_word, has_eq in Ha.
  apply andb_true_iff in Ha as [He _]. cbn [app drop_assign]. rewrite He. apply IH, Hr.
Qed.

(* env [NAME=VALUE]... COMMAND ARG... : handler and env agree, for every command *)
Lemma env_extract assigns c0 cs :
  forallb assign_word assigns = true -> dash c0 = false -> has_eq c0 = false ->
  env_h (s2l "env" :: assigns ++ c0 :: cs) = HWords [c0 :: cs] false /\
  env_exec (assigns ++ c0 :: cs) = Some [c0 :: cs].
Proof.
  intros Ha Hd He. split.
  - unfold env_h. cbn [tl']. rewrite env_scan_assigns by exact Ha. rewrite env_scan_nodash by exact Hd.
    rewrite He. reflexivity.
  - unfold env_exec. cbn [env_exec_f].
    assert (G : getopt_x (fun _ => false) env_is_S env_spec (assigns ++ c0 :: cs) = GOk [] (assigns ++ c0 :: cs)).
    { destruct assigns as [|a r].
      - cbn [app getopt_x]. rewrite (word_kind_operand c0 Hd). reflexivity.
      - cbn [forallb] in Ha. apply andb_true_iff in Ha as [Ha _]. unfold assign_word in Ha.
        apply andb_true_iff in Ha as [_ Ha]. apply negb_true_iff in Ha.
        cbn [app getopt_x]. rewrite (word_kind_operand a Ha). reflexivity. }
    rewrite G. change (help_or_version []) with false. change (env_opts_ok []) with true. cbv iota. cbn [negb].
    assert (F : (match assigns ++ c0 :: cs with w0 :: r => if str_eqb w0 [45] then r else assigns ++ c0 :: cs | [] => [] end)
                = assigns ++ c0 :: cs).
    { destruct assigns as [|a r].
      - cbn [app]. rewrite (dash_false_not_dashword c0 Hd). reflexivity.
      - cbn [forallb] in Ha. apply andb_true_iff in Ha as [Ha _]. unfold assign_word in Ha.
        apply andb_true_iff in Ha as [_ Ha]. apply negb_true_iff in Ha.
        cbn [app]. rewrite (dash_false_not_dashword a Ha). reflexivity. }
    rewrite F. rewrite drop_assign_app by exact Ha. cbn [drop_assign]. unfold has_eq in He. rewrite He.
    reflexivity.
Qed.

(* clusters ending in a value flag and abbreviated long options are read differently by env *)
Lemma env_extract_refuted :
  (modelled (w ["env"; "-iu"; "ls"; "rm"; "x"]) = Some (HWords [w ["ls"; "rm"; "x"]] false) /\
   wrapper_exec (w ["env"; "-iu"; "ls"; "rm"; "x"]) = Some [w ["rm"; "x"]]) /\
  (modelled (w ["env"; "--uns"; "ls"; "rm"; "x"]) = Some (HWords [w ["ls"; "rm"; "x"]] false) /\
   wrapper_exec (w ["env"; "--uns"; "ls"; "rm"; "x"]) = Some [w ["rm"; "x"]]).
Proof. vm_compute. repeat split; reflexivity. Qed.

(* ================================================================== xargs *)
Lemma xargs_extract c0 cs :
  dash c0 = false -> xargs_unsafe (c0 :: cs) = false ->
  xargs_h (s2l "xargs" :: c0 :: cs) = HWords [c0 :: cs] false /\ xargs_exec (c0 :: cs) = Some [c0 :: cs].
Proof.
  intros Hd Hu. split.
  - unfold xargs_h. rewrite Hu. cbn [xargs_skip]. rewrite (dash_false_not_ddash c0 Hd), Hd. reflexivity.
  - unfold xargs_exec, getopt_plus. cbn [getopt_x]. rewrite (word_kind_operand c0 Hd). reflexivity.
Qed.

Lemma xargs_extract_ddash c :
  c <> [] ->
  xargs_h (s2l "xargs" :: s2l "--" :: c) = HWords [c] false /\ xargs_exec (s2l "--" :: c) = Some [c].
Proof.
  intro H. destruct c as [|c0 cs]; [congruence|]. split; reflexivity.
Qed.

Lemma xargs_extract_refuted :
  (modelled (w ["xargs"; "-0I"; "ls"; "rm"; "x"]) = Some (HWords [w ["ls"; "rm"; "x"]] false) /\
   wrapper_exec (w ["xargs"; "-0I"; "ls"; "rm"; "x"]) = Some [w ["rm"; "x"]]) /\
  (modelled (w ["xargs"; "--process-slot"; "ls"; "rm"; "x"]) = Some (HWords [w ["ls"; "rm"; "x"]] false) /\
   wrapper_exec (w ["xargs"; "--process-slot"; "ls"; "rm"; "x"]) = Some [w ["rm"; "x"]]) /\
  (* GNU -e takes only an attached argument: pinned by the test suite of /repo *)
  (modelled (w ["xargs"; "-e"; "STOP"; "head"]) = Some (HWords [w ["head"]] false) /\
   wrapper_exec (w ["xargs"; "-e"; "STOP"; "head"]) = Some [w ["STOP"; "head"]]).
Proof. vm_compute. repeat split; reflexivity. Qed.

(* ================================================================== fd *)
Lemma fd_extract_refuted :
  modelled (w ["fd"; "-x"; "ls"; ";"; "-x"; "rm"]) = Some (HWords [w ["ls"; ";"; "-x"; "rm"]] false) /\
  wrapper_exec (w ["fd"; "-x"; "ls"; ";"; "-x"; "rm"]) = Some [w ["ls"]; w ["rm"]].
Proof. vm_compute. split; reflexivity. Qed.

(* ================================================================== env: option spellings *)
Definition ENV_BOOL_WORDS : list str :=
  map s2l ["-i"; "-v"; "-iv"; "-vi"; "-ivv"; "--ignore-environment"; "--debug"; "--list-signal-handling";
           "--block-signal"; "--default-signal"; "--ignore-signal"; "--ignore-env"; "--deb"; "--list"].
Definition ENV_SEP_FLAGS : list str := map s2l ["-u"; "--unset"; "-C"; "--chdir"].
Definition ENV_UNSET_EQ : list str := map s2l ["--unset="; "--uns="].
Definition ENV_CHDIR_EQ : list str := map s2l ["--chdir="; "--ch="].
Definition name_ok (n : str) : bool := nonempty n && negb (mem_ch 61 n).

(* env_opts ws unset : ws is a sequence of option words, unset collects the names given to -u/--unset *)
Inductive env_opts : list str -> Prop :=
| eo_nil : env_opts []
| eo_bool b r : In b ENV_BOOL_WORDS -> env_opts r -> env_opts (b :: r)
| eo_unset f v r : In f [s2l "-u"; s2l "--unset"] -> name_ok v = true -> env_opts r -> env_opts (f :: v :: r)
| eo_chdir f v r : In f [s2l "-C"; s2l "--chdir"] -> env_opts r -> env_opts (f :: v :: r)
| eo_unset_eq p v r : In p ENV_UNSET_EQ -> name_ok v = true -> env_opts r -> env_opts ((p ++ v) :: r)
| eo_chdir_eq p v r : In p ENV_CHDIR_EQ -> env_opts r -> env_opts ((p ++ v) :: r)
| eo_unset_att v r : name_ok v = true -> env_opts r -> env_opts ((s2l "-u" ++ v) :: r)
| eo_chdir_att v r : v <> [] -> env_opts r -> env_opts ((s2l "-C" ++ v) :: r).

(* ---- handler side *)
Lemma env_scan_skip1 t r :
  is "--" t = false -> mem_str t ENV_SPLIT_FLAGS = false -> prefixb SPLIT_EQ t = false ->
  starts "-S" t = false -> mem_str t ENV_FLAGS_WITH_ARG = false -> dash t = true ->
  env_scan (t :: r) = env_scan r.
Proof. intros A B C D E F. cbn [env_scan]. rewrite A, B, C, D, E, F. reflexivity. Qed.

Lemma env_bool_facts : forallb (fun t => negb (is "--" t) && negb (mem_str t ENV_SPLIT_FLAGS) && negb (prefixb SPLIT_EQ t)
  && negb (starts "-S" t) && negb (mem_str t ENV_FLAGS_WITH_ARG) && dash t) ENV_BOOL_WORDS = true.
Proof. vm_compute. reflexivity. Qed.
Lemma env_sep_facts : forallb (fun t => negb (is "--" t) && negb (mem_str t ENV_SPLIT_FLAGS) && negb (prefixb SPLIT_EQ t)
  && negb (starts "-S" t && Nat.ltb 2 (length t)) && mem_str t ENV_FLAGS_WITH_ARG) ENV_SEP_FLAGS = true.
Proof. vm_compute. reflexivity. Qed.
Lemma env_table_no_eq : forallb (fun e => negb (has_eq e)) ENV_FLAGS_WITH_ARG = true /\ forallb (fun e => negb (has_eq e)) ENV_SPLIT_FLAGS = true.
Proof. split; vm_compute; reflexivity. Qed.
Lemma env_att_facts : forallb (fun p => forallb (fun e => negb (prefixb p e) || str_eqb e p) ENV_FLAGS_WITH_ARG
                                       && forallb (fun e => negb (prefixb p e) || str_eqb e p) ENV_SPLIT_FLAGS) [s2l "-u"; s2l "-C"] = true.
Proof. vm_compute. reflexivity. Qed.

Lemma env_scan_eq_word p v r :
  In p (ENV_UNSET_EQ ++ ENV_CHDIR_EQ) -> env_scan ((p ++ v) :: r) = env_scan r.
Proof.
  intro Hp. apply env_scan_skip1.
  - apply is_ddash_long. rewrite app_length.
    assert (F : forallb (fun p => Nat.ltb 2 (length p)) (ENV_UNSET_EQ ++ ENV_CHDIR_EQ) = true) by (vm_compute; reflexivity).
    pose proof (proj1 (forallb_forall _ _) F p Hp) as E. cbv beta in E. apply Nat.ltb_lt in E. lia.
  - apply mem_str_false_of_eq; [|exact (proj2 env_table_no_eq)]. apply has_eq_app_l.
    assert (F : forallb has_eq (ENV_UNSET_EQ ++ ENV_CHDIR_EQ) = true) by (vm_compute; reflexivity).
    exact (proj1 (forallb_forall _ _) F p Hp).
  - repeat (destruct Hp as [<-|Hp]; [reflexivity|]). destruct Hp.
  - repeat (destruct Hp as [<-|Hp]; [reflexivity|]). destruct Hp.
  - apply mem_str_false_of_eq; [|exact (proj1 env_table_no_eq)]. apply has_eq_app_l.
    assert (F : forallb has_eq (ENV_UNSET_EQ ++ ENV_CHDIR_EQ) = true) by (vm_compute; reflexivity).
    exact (proj1 (forallb_forall _ _) F p Hp).
  - apply dash_app. repeat (destruct Hp as [<-|Hp]; [reflexivity|]). destruct Hp.
Qed.

Lemma env_scan_att_word p v r :
  In p [s2l "-u"; s2l "-C"] -> v <> [] -> env_scan ((p ++ v) :: r) = env_scan r.
Proof.
  intros Hp Hv.
  pose proof (proj1 (forallb_forall _ _) env_att_facts p Hp) as F. cbv beta in F. apply andb_true_iff in F as [F1 F2].
  apply env_scan_skip1.
  - apply is_ddash_long. rewrite app_length. destruct v; [congruence|].
    destruct Hp as [<-|[<-|[]]]; cbn; lia.
  - apply mem_str_no_extension; assumption.
  - destruct Hp as [<-|[<-|[]]]; reflexivity.
  - destruct Hp as [<-|[<-|[]]]; reflexivity.
  - apply mem_str_no_extension; assumption.
  - apply dash_app. destruct Hp as [<-|[<-|[]]]; reflexivity.
Qed.

Lemma env_opts_handler opts : env_opts opts -> forall l, env_scan (opts ++ l) = env_scan l.
Proof.
  induction 1 as [|b r Hb _ IH|f v r Hf Hv _ IH|f v r Hf _ IH|p v r Hp Hv _ IH|p v r Hp _ IH|v r Hv _ IH|v r Hv _ IH]; intro l.
  - reflexivity.
  - pose proof (proj1 (forallb_forall _ _) env_bool_facts b Hb) as F. cbv beta in F.
    rewrite !andb_true_iff, !negb_true_iff in F. destruct F as [[[[[F1 F2] F3] F4] F5] F6].
    cbn [app]. rewrite env_scan_skip1 by assumption. apply IH.
  - assert (Hf' : In f ENV_SEP_FLAGS) by (destruct Hf as [<-|[<-|[]]]; cbn; tauto).
    pose proof (proj1 (forallb_forall _ _) env_sep_facts f Hf') as F. cbv beta in F.
    rewrite !andb_true_iff, !negb_true_iff in F. destruct F as [[[[F1 F2] F3] F4] F5].
    cbn [app env_scan]. rewrite F1, F2, F3, F4, F5. cbn [andb]. apply IH.
  - assert (Hf' : In f ENV_SEP_FLAGS) by (destruct Hf as [<-|[<-|[]]]; cbn; tauto).
    pose proof (proj1 (forallb_forall _ _) env_sep_facts f Hf') as F. cbv beta in F.
    rewrite !andb_true_iff, !negb_true_iff in F. destruct F as [[[[F1 F2] F3] F4] F5].
    cbn [app env_scan]. rewrite F1, F2, F3, F4, F5. cbn [andb]. apply IH.
  - cbn [app]. rewrite env_scan_eq_word by (apply in_or_app; auto). apply IH.
  - cbn [app]. rewrite env_scan_eq_word by (apply in_or_app; auto). apply IH.
  - cbn [app]. rewrite env_scan_att_word; [apply IH|cbn; tauto|].
    unfold name_ok in Hv. destruct v; [discriminate|discriminate].
  - cbn [app]. rewrite env_scan_att_word; [apply IH|cbn; tauto|exact Hv].
Qed.

(* ---- specification side *)
Definition okO (o : list gopt) : Prop :=
  help_or_version o = false /\ env_opts_ok o = true /\ has_short (c1 "0") o = false /\ has_long (S "null") o = false.

Lemma okO_nil : okO [].
Proof. repeat split. Qed.

Lemma okO_app a b : okO a -> okO b -> okO (a ++ b).
Proof.
  unfold okO, help_or_version, env_opts_ok, has_long, has_short, short_args, long_args.
  intros (A1 & A2 & A3 & A4) (B1 & B2 & B3 & B4).
  rewrite !existsb_app, !flat_map_app in *.
  apply orb_false_iff in A1 as [A1 A1']. apply orb_false_iff in B1 as [B1 B1'].
  apply andb_true_iff in A2 as [A2 A2']. apply andb_true_iff in B2 as [B2 B2'].
  rewrite !forallb_app in *. apply andb_true_iff in A2 as [A2a A2b]. apply andb_true_iff in B2 as [B2a B2b].
  apply andb_true_iff in A2' as [A2c A2d]. apply andb_true_iff in A2d as [A2d A2e].
  apply andb_true_iff in B2' as [B2c B2d]. apply andb_true_iff in B2d as [B2d B2e].
  rewrite A1, A1', B1, B1', A3, A4, B3, B4, A2a, A2b, B2a, B2b, A2c, A2d, A2e, B2c, B2d, B2e. repeat split.
Qed.

Notation gx := (getopt_x (fun _ => false) env_is_S env_spec).

Lemma gcons_assoc a b k : gcons a (gcons b k) = gcons (a ++ b) k.
Proof. destruct k; cbn [gcons]; rewrite ?app_assoc; reflexivity. Qed.

Lemma okO_unset_s v : name_ok v = true -> okO [GS (c1 "u") (Some v)].
Proof. intro H. unfold okO, name_ok in *. repeat split. unfold env_opts_ok. cbn. rewrite H. reflexivity. Qed.
Lemma okO_unset_l v : name_ok v = true -> okO [GL (S "unset") (Some v)].
Proof. intro H. unfold okO, name_ok in *. repeat split. unfold env_opts_ok. cbn. rewrite H. reflexivity. Qed.
Lemma okO_chdir_s v : okO [GS (c1 "C") (Some v)].
Proof. repeat split. Qed.
Lemma okO_chdir_l v : okO [GL (S "chdir") (Some v)].
Proof. repeat split. Qed.

Lemma env_opts_spec opts : env_opts opts -> forall l, exists o, okO o /\ gx (opts ++ l) = gcons o (gx l).
Proof.
  induction 1 as [|b r Hb _ IH|f v r Hf Hv _ IH|f v r Hf _ IH|p v r Hp Hv _ IH|p v r Hp _ IH|v r Hv _ IH|v r Hv _ IH]; intro l.
  - exists []. split; [exact okO_nil|]. cbn [app]. destruct (gx l); reflexivity.
  - destruct (IH l) as (o & Ho & E). cbn [app].
    assert (X : exists o1, okO o1 /\ forall rest, gx (b :: rest) = gcons o1 (gx rest)).
    { repeat (destruct Hb as [<-|Hb]; [eexists; split; [|intro rest; reflexivity]; repeat split|]). destruct Hb. }
    destruct X as (o1 & Ho1 & E1). exists (o1 ++ o). split; [apply okO_app; assumption|].
    rewrite E1, E, gcons_assoc. reflexivity.
  - destruct (IH l) as (o & Ho & E). cbn [app]. destruct Hf as [<-|[<-|[]]].
    + exists ([GS (c1 "u") (Some v)] ++ o). split; [apply okO_app; [apply okO_unset_s, Hv|exact Ho]|].
      rewrite <- gcons_assoc, <- E. reflexivity.
    + exists ([GL (S "unset") (Some v)] ++ o). split; [apply okO_app; [apply okO_unset_l, Hv|exact Ho]|].
      rewrite <- gcons_assoc, <- E. reflexivity.
  - destruct (IH l) as (o & Ho & E). cbn [app]. destruct Hf as [<-|[<-|[]]].
    + exists ([GS (c1 "C") (Some v)] ++ o). split; [apply okO_app; [apply okO_chdir_s|exact Ho]|].
      rewrite <- gcons_assoc, <- E. reflexivity.
    + exists ([GL (S "chdir") (Some v)] ++ o). split; [apply okO_app; [apply okO_chdir_l|exact Ho]|].
      rewrite <- gcons_assoc, <- E. reflexivity.
  - destruct (IH l) as (o & Ho & E). cbn [app].
    exists ([GL (S "unset") (Some v)] ++ o). split; [apply okO_app; [apply okO_unset_l, Hv|exact Ho]|].
    rewrite <- gcons_assoc, <- E. repeat (destruct Hp as [<-|Hp]; [reflexivity|]). destruct Hp.
  - destruct (IH l) as (o & Ho & E). cbn [app].
    exists ([GL (S "chdir") (Some v)] ++ o). split; [apply okO_app; [apply okO_chdir_l|exact Ho]|].
    rewrite <- gcons_assoc, <- E. repeat (destruct Hp as [<-|Hp]; [reflexivity|]). destruct Hp.
  - destruct (IH l) as (o & Ho & E). cbn [app].
    exists ([GS (c1 "u") (Some v)] ++ o). split; [apply okO_app; [apply okO_unset_s, Hv|exact Ho]|].
    rewrite <- gcons_assoc, <- E. destruct v; [discriminate|reflexivity].
  - destruct (IH l) as (o & Ho & E). cbn [app].
    exists ([GS (c1 "C") (Some v)] ++ o). split; [apply okO_app; [apply okO_chdir_s|exact Ho]|].
    rewrite <- gcons_assoc, <- E. destruct v; [congruence|reflexivity].
Qed.

(* env OPTION... [NAME=VALUE]... COMMAND ARG... for all option spellings of env_opts *)
Lemma env_extract_opts opts assigns c0 cs :
  env_opts opts -> forallb assign_word assigns = true -> dash c0 = false -> has_eq c0 = false ->
  env_h (s2l "env" :: opts ++ assigns ++ c0 :: cs) = HWords [c0 :: cs] false /\
  env_exec (opts ++ assigns ++ c0 :: cs) = Some [c0 :: cs].
Proof.
  intros Ho Ha Hd He. split.
  - unfold env_h. cbn [tl']. rewrite (env_opts_handler opts Ho).
    exact (proj1 (env_extract assigns c0 cs Ha Hd He)).
  - destruct (env_opts_spec opts Ho (assigns ++ c0 :: cs)) as (o & (O1 & O2 & O3 & O4) & E).
    unfold env_exec. cbn [env_exec_f]. rewrite E.
    assert (G : gx (assigns ++ c0 :: cs) = GOk [] (assigns ++ c0 :: cs)).
    { destruct assigns as [|a r].
      - cbn [app getopt_x]. rewrite (word_kind_operand c0 Hd). reflexivity.
      - cbn [forallb] in Ha. apply andb_true_iff in Ha as [Ha _]. unfold assign_word in Ha.
        apply andb_true_iff in Ha as [_ Ha]. apply negb_true_iff in Ha.
        cbn [app getopt_x]. rewrite (word_kind_operand a Ha). reflexivity. }
    rewrite G. cbn [gcons]. rewrite app_nil_r, O1, O2. cbn [negb].
    assert (F : (match assigns ++ c0 :: cs with w0 :: r => if str_eqb w0 [45] then r else assigns ++ c0 :: cs | [] => [] end)
                = assigns ++ c0 :: cs).
    { destruct assigns as [|a r].
      - cbn [app]. rewrite (dash_false_not_dashword c0 Hd). reflexivity.
      - cbn [forallb] in Ha. apply andb_true_iff in Ha as [Ha _]. unfold assign_word in Ha.
        apply andb_true_iff in Ha as [_ Ha]. apply negb_true_iff in Ha.
        cbn [app]. rewrite (dash_false_not_dashword a Ha). reflexivity. }
    rewrite F. rewrite drop_assign_app by exact Ha. cbn [drop_assign]. unfold has_eq in He. rewrite He.
    rewrite O3, O4. reflexivity.
Qed.
