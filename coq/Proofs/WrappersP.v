(* Lemmas about the handler models (Wrappers.v) and the tool specifications (WrapSpec.v). *)
From Coq Require Import Arith.
From DippyV Require Import Base.Str Base.Verdict Gen.Tables Model.BashQuote Model.Getopt Model.Wrappers Model.WrapSpec
  Proofs.VerdictP Proofs.BashQuoteP.

(* ================================================================== generic facts *)
Lemma list_len_ind {A} (P : list A -> Prop) :
  (forall l, (forall m, (length m < length l)%nat -> P m) -> P l) -> forall l, P l.
Proof.
  intros H l. assert (G : forall n m, (length m < n)%nat -> P m).
  { induction n as [|n IH]; intros m Hm; [lia|]. apply H. intros k Hk. apply IH. lia. }
  apply H. intros m Hm. apply (G (length l)). exact Hm.
Qed.

Lemma bash_quote_nonempty s : bash_quote s <> [].
Proof.
  unfold bash_quote. destruct s as [|c t]; [discriminate|].
  destruct (forallb quote_safe (c :: t)); discriminate.
Qed.

Lemma bash_join_nonempty ws : ws <> [] -> bash_join ws <> [].
Proof.
  destruct ws as [|w ws]; [congruence|]. intros _. unfold bash_join. cbn [map join].
  destruct (map bash_quote ws) eqn:E.
  - apply bash_quote_nonempty.
  - intro H. apply app_eq_nil in H as [H _]. exact (bash_quote_nonempty w H).
Qed.

Lemma join_sep_nonempty (sep : str) (l : list str) :
  l <> [] -> Forall (fun s => s <> []) l -> join sep l <> [].
Proof.
  destruct l as [|a l]; [congruence|]. intros _ H. inversion H as [|? ? Ha Hl]; subst.
  cbn [join]. destruct l; [exact Ha|]. intro E. apply app_eq_nil in E as [E _]. exact (Ha E).
Qed.

Lemma map_reread_clean ws : forallb clean ws = true -> map reread ws = ws.
Proof.
  induction ws as [|w ws IH]; intro H; [reflexivity|].
  cbn [forallb] in H. apply andb_true_iff in H as [Hw Hs]. cbn [map]. rewrite reread_clean, IH; auto.
Qed.

(* ================================================================== the glue: a correct extraction cannot launder *)
Section Glue.
  (* the ladder on a word list, and the analysis of a command text *)
  Variable judge : bool -> list str -> verdict.
  Variable astr : bool -> str -> verdict.
  (* ORACLE HYPOTHESES (about the parser, the walker and the ladder; not proved here):
     the analysis of a re-quoted simple command is the ladder on the words the walker hands it, i.e.
     the words with only their outer quotes removed; a ;-joined text is judged as the join of its
     clauses (C03). *)
  Variable Hwords : forall r ws, ws <> [] -> astr r (bash_join ws) = judge r (map reread ws).
  Variable Hseq : forall r (l : list str), l <> [] -> astr r (join $"; " l) = combine (map (astr r) l).

  Lemma hverdict_words cmds r :
    cmds <> [] -> Forall (fun c => c <> []) cmds ->
    hverdict astr (HWords cmds r) = combine (map (fun c => judge r (map reread c)) cmds).
  Proof.
    intros Hne Hall. unfold hverdict. cbn [render cls_verdict].
    assert (Hj : join $"; " (map bash_join cmds) <> []).
    { apply join_sep_nonempty.
      - destruct cmds; [congruence|discriminate].
      - apply Forall_forall. intros s Hs. apply in_map_iff in Hs as [c [<- Hc]].
        apply bash_join_nonempty. exact (proj1 (Forall_forall _ _) Hall c Hc). }
    destruct (join $"; " (map bash_join cmds)) as [|x xs] eqn:E; [congruence|].
    rewrite <- E. rewrite Hseq by (destruct cmds; [congruence|discriminate]).
    rewrite map_map. f_equal. apply map_ext_in. intros c Hc.
    apply Hwords. exact (proj1 (Forall_forall _ _) Hall c Hc).
  Qed.

  (* every command the handler extracted is judged, and the result is at least as restrictive *)
  Lemma extracted_never_laundered cmds r c :
    Forall (fun c => c <> []) cmds -> In c cmds ->
    vle (judge r (map reread c)) (hverdict astr (HWords cmds r)) = true.
  Proof.
    intros Hall Hin. rewrite hverdict_words; [|destruct cmds; [destruct Hin|discriminate]|exact Hall].
    apply combine_ge. apply in_map_iff. exists c. split; [reflexivity|exact Hin].
  Qed.

  (* if what the handler extracted is what the tool executes, nothing is laundered - for inner
     commands whose words are clean (no dollar sign right before a quote) the ladder sees exactly the executed words *)
  Lemma no_launder_of_extract (h : hres) (inners : list (list str)) r :
    h = HWords inners r -> Forall (fun c => c <> []) inners ->
    forall c, In c inners -> forallb clean c = true -> vle (judge r c) (hverdict astr h) = true.
  Proof.
    intros -> Hall c Hin Hq. rewrite <- (map_reread_clean c Hq) at 1.
    apply extracted_never_laundered; assumption.
  Qed.

  (* exactness for a single inner command *)
  Lemma exact_of_extract (h : hres) (c : list str) r :
    h = HWords [c] r -> c <> [] -> forallb clean c = true -> hverdict astr h = judge r c.
  Proof.
    intros -> Hc Hq. rewrite hverdict_words; [|discriminate|constructor; [exact Hc|constructor]].
    cbn [map]. rewrite combine_one. rewrite map_reread_clean by exact Hq. reflexivity.
  Qed.

  (* an inner command given as a string on the command line (sh -c, env -S) is analysed as it is *)
  Lemma hverdict_string s : s <> [] -> hverdict astr (HString s) = astr false s.
  Proof. intro H. unfold hverdict. cbn [render cls_verdict]. destruct s; [congruence|reflexivity]. Qed.
End Glue.


(* ================================================================== words *)
Lemma dash_false_cases w : dash w = false -> w = [] \/ exists c cs, w = c :: cs /\ c <> 45.
Proof.
  destruct w as [|c cs]; [auto|]. intro H. right. exists c, cs. split; [reflexivity|].
  unfold dash, starts in H. change (s2l "-") with [45] in H. cbn [prefixb] in H.
  rewrite andb_true_r in H. apply N.eqb_neq in H. congruence.
Qed.

Lemma word_kind_not45 c cs : c <> 45 -> word_kind (c :: cs) = WOperand.
Proof.
  intro H. destruct c as [|p]; [reflexivity|].
  do 7 (try (destruct p as [p|p|]; try reflexivity; try congruence)).
Qed.

Lemma word_kind_operand w : dash w = false -> word_kind w = WOperand.
Proof.
  intro H. destruct (dash_false_cases w H) as [->|(c & cs & -> & Hc)]; [reflexivity|].
  apply word_kind_not45, Hc.
Qed.

Lemma mem_str_false_of_eq (w : str) (T : list str) :
  has_eq w = true -> forallb (fun e => negb (has_eq e)) T = true -> mem_str w T = false.
Proof.
  intros Hw HT. destruct (mem_str w T) eqn:E; [|reflexivity].
  apply mem_str_In in E. pose proof (proj1 (forallb_forall _ _) HT w E) as H.
  cbv beta in H. rewrite Hw in H. discriminate.
Qed.

Lemma has_eq_app_l p v : has_eq p = true -> has_eq (p ++ v) = true.
Proof.
  unfold has_eq. rewrite !mem_ch_In. intro H. apply in_or_app. auto.
Qed.

Lemma dash_app p v : dash p = true -> dash (p ++ v) = true.
Proof.
  unfold dash, starts. change (s2l "-") with [45]. destruct p as [|c p]; [discriminate|].
  cbn [app prefixb]. rewrite !andb_true_r. auto.
Qed.

Lemma is_ddash_long w : (2 < length w)%nat -> is "--" w = false.
Proof.
  intro H. unfold is. destruct (str_eqb_spec w (s2l "--")) as [->|]; [|reflexivity].
  cbn in H. lia.
Qed.

Lemma prefixb_app p v : prefixb p (p ++ v) = true.
Proof. apply prefixb_spec. exists v. reflexivity. Qed.

Lemma mem_str_no_extension (p v : str) (T : list str) :
  forallb (fun e => negb (prefixb p e) || str_eqb e p) T = true -> v <> [] -> mem_str (p ++ v) T = false.
Proof.
  intros HT Hv. destruct (mem_str (p ++ v) T) eqn:E; [|reflexivity].
  apply mem_str_In in E. pose proof (proj1 (forallb_forall _ _) HT _ E) as H. cbv beta in H.
  rewrite prefixb_app in H. cbn [negb orb] in H. apply str_eqb_eq in H.
  rewrite <- (app_nil_r p) in H at 2. apply app_inv_head in H. congruence.
Qed.


(* ================================================================== the shape of a word, inverted *)
Lemma word_kind_short b r : b <> 45 -> word_kind (45 :: b :: r) = WShort (b :: r).
Proof.
  intro H. destruct b as [|p]; [reflexivity|].
  do 7 (try (destruct p as [p|p|]; try reflexivity; try congruence)).
Qed.

Lemma word_kind_inv w :
  match word_kind w with
  | WDDash => w = [45; 45]
  | WLong b => w = 45 :: 45 :: b /\ b <> []
  | WShort cs => w = 45 :: cs /\ exists c r, cs = c :: r /\ c <> 45
  | WOperand => dash w = false \/ w = [45]
  end.
Proof.
  destruct w as [|a [|b r]].
  - left. reflexivity.
  - destruct (N.eqb_spec a 45) as [->|Hn]; [right; reflexivity|].
    rewrite word_kind_not45 by exact Hn. left. unfold dash, starts. change (s2l "-") with [45].
    cbn [prefixb]. apply N.eqb_neq in Hn. rewrite N.eqb_sym, Hn. reflexivity.
  - destruct (N.eqb_spec a 45) as [->|Hn].
    + destruct (N.eqb_spec b 45) as [->|Hb].
      * destruct r as [|c r]; [reflexivity|]. split; [reflexivity|discriminate].
      * rewrite word_kind_short by exact Hb. split; [reflexivity|]. exists b, r. auto.
    + rewrite word_kind_not45 by exact Hn. left. unfold dash, starts. change (s2l "-") with [45].
      cbn [prefixb]. apply N.eqb_neq in Hn. rewrite N.eqb_sym, Hn. reflexivity.
Qed.

Lemma split_eq_none body n : split_eq body = (n, None) -> body = n /\ mem_ch 61 body = false.
Proof.
  revert n. induction body as [|c r IH]; intros n H.
  - injection H as <-. auto.
  - cbn [split_eq] in H. destruct (N.eqb c EQ) eqn:E; [discriminate|].
    destruct (split_eq r) as [n' v'] eqn:S. injection H as <- ->.
    destruct (IH n' eq_refl) as [-> M]. split; [reflexivity|].
    unfold mem_ch in *. cbn [existsb]. unfold EQ in E. rewrite N.eqb_sym, E, M. reflexivity.
Qed.

Lemma split_eq_some body n v : split_eq body = (n, Some v) -> mem_ch 61 body = true.
Proof.
  revert n. induction body as [|c r IH]; intros n H; [discriminate|].
  cbn [split_eq] in H. unfold mem_ch. cbn [existsb]. destruct (N.eqb c EQ) eqn:E.
  - unfold EQ in E. rewrite N.eqb_sym, E. reflexivity.
  - destruct (split_eq r) as [n' v'] eqn:S. injection H as <- ->.
    unfold mem_ch in IH. rewrite (IH n' eq_refl). apply orb_true_r.
Qed.

(* ================================================================== docker exec: the handler agrees with
   docker on EVERY argument list docker accepts (C13_extract, general form) *)
Lemma dk_short_table c : mem_str [c] DOCKER_EXEC_SHORT_WITH_ARG = mem_ch c (p_val_s docker_exec_flags).
Proof.
  unfold mem_str, mem_ch. cbn. rewrite !andb_true_r. rewrite (N.eqb_sym c 101), (N.eqb_sym c 117), (N.eqb_sym c 119).
  reflexivity.
Qed.

Lemma dk_cluster_agree cs :
  match pcluster docker_exec_flags cs with
  | PCDone => docker_cluster cs = false
  | PCNeed => docker_cluster cs = true
  | _ => True
  end.
Proof.
  induction cs as [|c r IH]; [reflexivity|].
  cbn [pcluster docker_cluster]. rewrite dk_short_table.
  destruct (N.eqb c 104); [exact I|].
  destruct (mem_ch c (p_val_s docker_exec_flags)).
  - destruct r; reflexivity.
  - destruct (mem_ch c (p_bool_s docker_exec_flags)); [|exact I].
    destruct (match r with d :: _ => N.eqb d 61 | [] => false end); [exact I|exact IH].
Qed.

Lemma dk_val_long_in_table : forallb (fun n => mem_str (45 :: 45 :: n) DOCKER_EXEC_FLAGS_WITH_ARG) (p_val_l docker_exec_flags) = true.
Proof. vm_compute. reflexivity. Qed.
Lemma dk_bool_long_not_in_table : forallb (fun n => negb (mem_str (45 :: 45 :: n) DOCKER_EXEC_FLAGS_WITH_ARG)) (p_bool_l docker_exec_flags) = true.
Proof. vm_compute. reflexivity. Qed.
Lemma dk_table_no_eq : forallb (fun e => negb (has_eq e)) DOCKER_EXEC_FLAGS_WITH_ARG = true.
Proof. vm_compute. reflexivity. Qed.
(* the one-dash entries of the table are exactly the words whose cluster needs the next word *)
Lemma dk_table_short : forallb (fun e => match e with
                                         | 45 :: 45 :: _ => true
                                         | 45 :: cs => match pcluster docker_exec_flags cs with PCNeed => true | _ => false end
                                         | _ => false end) DOCKER_EXEC_FLAGS_WITH_ARG = true.
Proof. vm_compute. reflexivity. Qed.

Lemma dash_false_mem p T : dash p = false -> forallb dash T = true -> mem_str p T = false.
Proof.
  intros Hp HT. destruct (mem_str p T) eqn:E; [|reflexivity]. apply mem_str_In in E.
  rewrite (proj1 (forallb_forall _ _) HT p E) in Hp. discriminate.
Qed.

Lemma dash_false_not_ddash_early a : dash a = false -> is "--" a = false.
Proof.
  intro H. destruct (dash_false_cases a H) as [->|(c & cs & -> & Hn)]; [reflexivity|].
  unfold is. destruct (str_eqb_spec (c :: cs) (s2l "--")) as [E|]; [|reflexivity].
  injection E as E _. subst c. exfalso. apply Hn. reflexivity.
Qed.

Lemma is_ddash_false_long b : b <> [] -> is "--" (45 :: 45 :: b) = false.
Proof. intro H. destruct b; [congruence|reflexivity]. Qed.

Lemma starts_dd b : starts "--" (45 :: 45 :: b) = true.
Proof. reflexivity. Qed.

Theorem docker_opts_general : forall args p a,
  pflag docker_exec_flags false args = POk p a false -> docker_exec_opts args = joinpos p a.
Proof.
  induction args as [args IH] using list_len_ind. intros p a H.
  destruct args as [|x r]; [cbn in H; injection H as <- <-; reflexivity|].
  cbn [pflag] in H. pose proof (word_kind_inv x) as K. destruct (word_kind x) as [|body|cs|] eqn:WK.
  - (* -- *) subst x. injection H as <- <-. reflexivity.
  - (* --name[=value] *) destruct K as [-> Hb]. destruct (split_eq body) as [n v] eqn:SE.
    cbn [docker_exec_opts]. rewrite (is_ddash_false_long body Hb).
    destruct (str_eqb n (S "help")).
    { destruct (pflag docker_exec_flags false r); cbn [phelp] in H; discriminate. }
    destruct (mem_str n (p_val_l docker_exec_flags)) eqn:Mv.
    + destruct v as [v|].
      * rewrite mem_str_false_of_eq; [|unfold has_eq; cbn [mem_ch existsb]; apply (split_eq_some _ _ _) in SE; unfold mem_ch in *; cbn [existsb]; rewrite SE; apply orb_true_r|exact dk_table_no_eq].
        rewrite starts_dd. apply IH; [cbn [length]; lia|exact H].
      * destruct (split_eq_none _ _ SE) as [-> _].
        apply mem_str_In in Mv. pose proof (proj1 (forallb_forall _ _) dk_val_long_in_table n Mv) as T. cbv beta in T.
        rewrite T. destruct r as [|y r']; [discriminate|]. apply IH; [cbn [length]; lia|exact H].
    + destruct (mem_str n (p_bool_l docker_exec_flags)) eqn:Mb; [|discriminate].
      destruct v as [v|]; [discriminate|]. destruct (split_eq_none _ _ SE) as [-> _].
      apply mem_str_In in Mb. pose proof (proj1 (forallb_forall _ _) dk_bool_long_not_in_table n Mb) as T. cbv beta in T.
      apply negb_true_iff in T. rewrite T, starts_dd. apply IH; [cbn [length]; lia|exact H].
  - (* -abc *) destruct K as [-> (c & cs' & -> & Hc)].
    cbn [docker_exec_opts].
    assert (D1 : is "--" (45 :: c :: cs') = false).
    { unfold is. destruct (str_eqb_spec (45 :: c :: cs') (s2l "--")) as [E|]; [|reflexivity]. injection E as E _. congruence. }
    assert (D2 : starts "--" (45 :: c :: cs') = false).
    { unfold starts. change (s2l "--") with [45; 45]. cbn [prefixb]. apply N.eqb_neq in Hc. rewrite (N.eqb_sym 45 c), Hc. reflexivity. }
    rewrite D1. pose proof (dk_cluster_agree (c :: cs')) as A.
    destruct (mem_str (45 :: c :: cs') DOCKER_EXEC_FLAGS_WITH_ARG) eqn:M.
    + apply mem_str_In in M. pose proof (proj1 (forallb_forall _ _) dk_table_short _ M) as T. cbv beta in T.
      assert (T' : match pcluster docker_exec_flags (c :: cs') with PCNeed => true | _ => false end = true).
      { revert T. clear -Hc. destruct c as [|q]; [auto|]. do 7 (try (destruct q as [q|q|]; auto; try congruence)). }
      destruct (pcluster docker_exec_flags (c :: cs')); try discriminate.
      destruct r as [|y r']; [discriminate|]. apply IH; [cbn [length]; lia|exact H].
    + rewrite D2. change (dash (45 :: c :: cs')) with true. cbn [length Nat.ltb Nat.leb andb tl'].
      destruct (pcluster docker_exec_flags (c :: cs')) eqn:PC.
      * discriminate.
      * rewrite A. apply IH; [cbn [length]; lia|exact H].
      * rewrite A. destruct r as [|y r']; [discriminate|]. apply IH; [cbn [length]; lia|exact H].
      * destruct (pflag docker_exec_flags false r); cbn [phelp] in H; discriminate.
  - (* operand: the container *) injection H as <- <-. cbn [joinpos docker_exec_opts].
    destruct K as [Hd| ->]; [|reflexivity].
    rewrite (dash_false_not_ddash_early x Hd).
    rewrite (dash_false_mem x DOCKER_EXEC_FLAGS_WITH_ARG Hd) by (vm_compute; reflexivity).
    unfold starts. change (s2l "--") with [45; 45].
    destruct (dash_false_cases x Hd) as [->|(c & cs & -> & Hn)]; [reflexivity|].
    cbn [prefixb]. apply N.eqb_neq in Hn. rewrite (N.eqb_sym 45 c), Hn. cbn [andb]. rewrite Hd. reflexivity.
Qed.

Lemma docker_h_exec base rest :
  In base [s2l "docker"; s2l "podman"] ->
  docker_h (base :: s2l "exec" :: rest) =
  Some (match docker_exec_inner rest with [] => HAsk | inner => HWords [inner] true end).
Proof. intros [<-|[<-|[]]]; reflexivity. Qed.

(* C13_extract for docker/podman exec, every argument list: whatever docker would send to the
   container is exactly what the handler delegates, as a remote command *)
Theorem docker_extract_general base args cmd :
  In base [s2l "docker"; s2l "podman"] -> docker_exec_args args = Some [cmd] ->
  modelled (base :: s2l "exec" :: args) = Some (HWords [cmd] true).
Proof.
  intros Hb H. unfold docker_exec_args in H.
  destruct (pflag docker_exec_flags false args) as [|p a h] eqn:P; [discriminate|].
  destruct h; [discriminate|].
  assert (M : modelled (base :: s2l "exec" :: args) = docker_h (base :: s2l "exec" :: args)).
  { destruct Hb as [<-|[<-|[]]]; reflexivity. }
  rewrite M, docker_h_exec by exact Hb. unfold docker_exec_inner.
  rewrite (docker_opts_general args p a P).
  destruct (joinpos p a) as [|ctr [|c cs]]; try discriminate. injection H as <-. reflexivity.
Qed.

Definition w (l : list string) : list str := map s2l l.

(* the spellings that were mis-read before commit a411fbf are now read as docker reads them *)
Lemma docker_formerly_refuted :
  modelled (w ["docker"; "exec"; "--"; "ls"; "rm"; "x"]) = Some (HWords [w ["rm"; "x"]] true) /\
  modelled (w ["docker"; "exec"; "-ie"; "A=1"; "ls"; "rm"; "x"]) = Some (HWords [w ["rm"; "x"]] true) /\
  modelled (w ["docker"; "exec"; "--detach-keys"; "a"; "cat"; "rm"; "x"]) = Some (HWords [w ["rm"; "x"]] true).
Proof. vm_compute. repeat split; reflexivity. Qed.

(* Legacy: the extraction before a411fbf (kept to recognise a revert) *)
Fixpoint legacy_docker_exec_inner (l : list str) : list str :=
  match l with
  | [] => []
  | t :: r =>
      if is "--" t then r
      else if mem_str t (filter (fun e => negb (is "--detach-keys" e)) DOCKER_EXEC_FLAGS_WITH_ARG)
      then match r with [] => [] | _ :: r' => legacy_docker_exec_inner r' end
      else if dash t then legacy_docker_exec_inner r
      else r
  end.
Lemma legacy_docker_refuted :
  legacy_docker_exec_inner (w ["--"; "ls"; "rm"; "x"]) = w ["ls"; "rm"; "x"] /\
  docker_exec_args (w ["--"; "ls"; "rm"; "x"]) = Some [w ["rm"; "x"]].
Proof. vm_compute. split; reflexivity. Qed.

(* ================================================================== kubectl exec *)
(* words between exec and -- : pod names, boolean flags, value flags with ANY separate value
   (also the word -- : the defect repaired by 7f14a42), =-joined and attached values *)
Definition KC_BOOL_WORDS : list str := map s2l ["-i"; "-t"; "-it"; "-ti"; "-q"; "-itq"; "--stdin"; "--tty"; "--quiet"].
Definition KC_VAL_FLAGS : list str := map s2l ["-c"; "--container"; "-n"; "--namespace"; "-f"; "--filename"; "--context"; "--cluster"; "--kubeconfig"; "--cache-dir"].
Definition KC_LONG_EQ : list str := map s2l ["--container="; "--namespace="; "--filename="; "--context="; "--kubeconfig="; "--pod-running-timeout="].
Definition KC_SHORT_ATT : list str := map s2l ["-c"; "-n"; "-f"].
Inductive kc_mid : list str -> list str -> Prop :=     (* words, the positionals among them *)
| kc_nil : kc_mid [] []
| kc_pos p r ps : dash p = false -> kc_mid r ps -> kc_mid (p :: r) (p :: ps)
| kc_bool b r ps : In b KC_BOOL_WORDS -> kc_mid r ps -> kc_mid (b :: r) ps
| kc_sep f v r ps : In f KC_VAL_FLAGS -> kc_mid r ps -> kc_mid (f :: v :: r) ps
| kc_eq p v r ps : In p KC_LONG_EQ -> kc_mid r ps -> kc_mid ((p ++ v) :: r) ps
| kc_att p v r ps : In p KC_SHORT_ATT -> v <> [] -> kc_mid r ps -> kc_mid ((p ++ v) :: r) ps.

Lemma has_eq_app_l' p v : has_eq p = true -> has_eq (p ++ v) = true.
Proof. unfold has_eq. rewrite !mem_ch_In. intro H. apply in_or_app. auto. Qed.

Lemma kc_handler mid ps : kc_mid mid ps -> forall cmd, after_ddash (mid ++ s2l "--" :: cmd) = Some cmd.
Proof.
  induction 1 as [|p r ps Hp _ IH|b r ps Hb _ IH|f v r ps Hf _ IH|p v r ps Hp _ IH|p v r ps Hp Hv _ IH]; intro cmd.
  - reflexivity.
  - cbn [app after_ddash]. rewrite (dash_false_not_ddash_early p Hp), Hp. apply IH.
  - cbn [app]. rewrite <- (IH cmd). repeat (destruct Hb as [<-|Hb]; [reflexivity|]). destruct Hb.
  - cbn [app]. rewrite <- (IH cmd). repeat (destruct Hf as [<-|Hf]; [reflexivity|]). destruct Hf.
  - cbn [app after_ddash].
    assert (F : forallb (fun p => Nat.ltb 2 (length p) && has_eq p) KC_LONG_EQ = true) by (vm_compute; reflexivity).
    pose proof (proj1 (forallb_forall _ _) F p Hp) as E. cbv beta in E. apply andb_true_iff in E as [E1 E2]. apply Nat.ltb_lt in E1.
    assert (D : is "--" (p ++ v) = false).
    { unfold is. destruct (str_eqb_spec (p ++ v) (s2l "--")) as [E|]; [|reflexivity].
      apply (f_equal (@length N)) in E. rewrite app_length in E. cbn in E. lia. }
    rewrite D, (has_eq_app_l' p v E2). rewrite andb_false_r. apply IH.
  - cbn [app]. rewrite <- (IH cmd). destruct v as [|c cs]; [congruence|].
    destruct (has_eq (c :: cs)) eqn:Hq.
    + assert (Q : forall p', In p' KC_SHORT_ATT -> after_ddash ((p' ++ c :: cs) :: r ++ s2l "--" :: cmd) = after_ddash (r ++ s2l "--" :: cmd)).
      { intros p' Hp'. cbn [after_ddash].
        assert (D : is "--" (p' ++ c :: cs) = false).
        { repeat (destruct Hp' as [<-|Hp']; [reflexivity|]). destruct Hp'. }
        rewrite D. assert (Hh : has_eq (p' ++ c :: cs) = true).
        { unfold has_eq in *. rewrite mem_ch_In in *. apply in_or_app. auto. }
        rewrite Hh. rewrite andb_false_r. reflexivity. }
      apply Q, Hp.
    + assert (Q : forall p', In p' KC_SHORT_ATT -> after_ddash ((p' ++ c :: cs) :: r ++ s2l "--" :: cmd) = after_ddash (r ++ s2l "--" :: cmd)).
      { intros p' Hp'.
        assert (Hh : forall a b, has_eq (a :: b :: c :: cs) = N.eqb 61 a || N.eqb 61 b || has_eq (c :: cs)).
        { intros a b. unfold has_eq, mem_ch. cbn [existsb]. rewrite !orb_assoc. reflexivity. }
        repeat (destruct Hp' as [<-|Hp']; [cbn [s2l ch app after_ddash]; rewrite Hh, Hq; reflexivity|]). destruct Hp'. }
      apply Q, Hp.
Qed.

Lemma kc_spec mid ps : kc_mid mid ps -> forall cmd,
  pflag kubectl_flags true (mid ++ s2l "--" :: cmd) = POk ps (Some cmd) false.
Proof.
  induction 1 as [|p r ps Hp _ IH|b r ps Hb _ IH|f v r ps Hf _ IH|p v r ps Hp _ IH|p v r ps Hp Hv _ IH]; intro cmd.
  - reflexivity.
  - cbn [app pflag]. rewrite (word_kind_operand p Hp). cbn iota. rewrite IH. reflexivity.
  - cbn [app]. rewrite <- (IH cmd). repeat (destruct Hb as [<-|Hb]; [reflexivity|]). destruct Hb.
  - cbn [app]. rewrite <- (IH cmd). repeat (destruct Hf as [<-|Hf]; [reflexivity|]). destruct Hf.
  - cbn [app]. rewrite <- (IH cmd). repeat (destruct Hp as [<-|Hp]; [reflexivity|]). destruct Hp.
  - cbn [app]. rewrite <- (IH cmd). destruct v as [|c cs]; [congruence|].
    repeat (destruct Hp as [<-|Hp]; [reflexivity|]). destruct Hp.
Qed.

Theorem kubectl_extract base mid ps cmd :
  In base [s2l "kubectl"; s2l "k"] -> kc_mid mid ps -> cmd <> [] ->
  modelled (base :: s2l "exec" :: mid ++ s2l "--" :: cmd) = Some (HWords [cmd] true) /\
  kubectl_exec (s2l "exec" :: mid ++ s2l "--" :: cmd) = Some [cmd].
Proof.
  intros Hb Hm Hc. split.
  - assert (M : modelled (base :: s2l "exec" :: mid ++ s2l "--" :: cmd) =
                Some (match after_ddash (mid ++ s2l "--" :: cmd) with Some (c :: cs) => HWords [c :: cs] true | _ => HAsk end)).
    { destruct Hb as [<-|[<-|[]]]; reflexivity. }
    rewrite M, (kc_handler mid ps Hm). destruct cmd; [congruence|reflexivity].
  - unfold kubectl_exec. cbn [pflag]. change (word_kind (s2l "exec")) with WOperand. cbn iota.
    rewrite (kc_spec mid ps Hm). cbn [pcons]. change (str_eqb (s2l "exec") (S "exec")) with true. cbn iota.
    destruct cmd; [congruence|reflexivity].
Qed.

Lemma kubectl_formerly_refuted :
  modelled (w ["kubectl"; "exec"; "--cache-dir"; "--"; "ls"; "--"; "rm"; "x"]) = Some (HWords [w ["rm"; "x"]] true) /\
  wrapper_exec (w ["kubectl"; "exec"; "--cache-dir"; "--"; "ls"; "--"; "rm"; "x"]) = Some [w ["rm"; "x"]].
Proof. vm_compute. split; reflexivity. Qed.

(* Legacy (before 7f14a42): the first word -- wherever it stands *)
Fixpoint legacy_after_ddash (l : list str) : option (list str) :=
  match l with [] => None | t :: r => if is "--" t then Some r else legacy_after_ddash r end.
Lemma legacy_kubectl_refuted :
  legacy_after_ddash (w ["--cache-dir"; "--"; "ls"; "--"; "rm"; "x"]) = Some (w ["ls"; "--"; "rm"; "x"]) /\
  kubectl_exec (w ["exec"; "--cache-dir"; "--"; "ls"; "--"; "rm"; "x"]) = Some [w ["rm"; "x"]].
Proof. vm_compute. split; reflexivity. Qed.

(* ================================================================== sh / bash: the handler agrees with the
   shell on EVERY invocation the specification understands *)
Definition cluster_ok (cl : str -> option (bool * bool * nat)) : Prop :=
  forall cs hc hs n, cl cs = Some (hc, hs, n) ->
    hc = mem_ch 99 cs /\ n = (count_ch 111 cs + count_ch 79 cs)%nat /\ mem_ch 45 cs = false.

Lemma count_ch_cons c x r : count_ch c (x :: r) = ((if N.eqb c x then 1 else 0) + count_ch c r)%nat.
Proof. unfold count_ch. cbn [filter]. destruct (N.eqb c x); reflexivity. Qed.

Lemma bash_cluster_ok : cluster_ok bash_cluster.
Proof.
  intro cs. induction cs as [|c r IH]; intros hc hs n H.
  - injection H as <- <- <-. repeat split.
  - cbn [bash_cluster] in H. destruct (bash_cluster r) as [[[hc' hs'] n']|]; [|discriminate].
    destruct (IH hc' hs' n' eq_refl) as (E1 & E2 & E3).
    rewrite !count_ch_cons. unfold mem_ch in E3 |- *. cbn [existsb]. rewrite E3.
    revert H.
    destruct (N.eqb_spec c 99) as [->|N1]; [intro H; injection H as <- <- <-; subst; repeat split; cbn; lia|].
    destruct (N.eqb_spec c 115) as [->|N2]; [intro H; injection H as <- <- <-; subst; repeat split; cbn; lia|].
    destruct (N.eqb_spec c 111) as [->|N3]; [intro H; injection H as <- <- <-; subst; repeat split; cbn; lia|].
    destruct (N.eqb_spec c 79) as [->|N4]; [intro H; injection H as <- <- <-; subst; repeat split; cbn; lia|].
    cbn [orb]. destruct (mem_ch c BASH_SHORT_FLAGS) eqn:F; [|discriminate]. intro H. injection H as <- <- <-. subst.
    assert (c <> 45) by (intro; subst c; vm_compute in F; discriminate).
    rewrite (proj2 (N.eqb_neq 99 c)), (proj2 (N.eqb_neq 45 c)), (proj2 (N.eqb_neq 111 c)), (proj2 (N.eqb_neq 79 c)) by congruence.
    repeat split.
Qed.

Lemma dash_cluster_ok : cluster_ok dash_cluster.
Proof.
  intro cs. induction cs as [|c r IH]; intros hc hs n H.
  - injection H as <- <- <-. repeat split.
  - cbn [dash_cluster] in H. destruct (dash_cluster r) as [[[hc' hs'] n']|]; [|discriminate].
    destruct (IH hc' hs' n' eq_refl) as (E1 & E2 & E3).
    rewrite !count_ch_cons. unfold mem_ch in E3 |- *. cbn [existsb]. rewrite E3.
    revert H.
    destruct (N.eqb_spec c 99) as [->|N1]; [intro H; injection H as <- <- <-; subst; repeat split; cbn; lia|].
    destruct (N.eqb_spec c 115) as [->|N2]; [intro H; injection H as <- <- <-; subst; repeat split; cbn; lia|].
    destruct (N.eqb_spec c 111) as [->|N3]; [intro H; injection H as <- <- <-; subst; repeat split; cbn; lia|].
    destruct (mem_ch c DASH_SHORT_FLAGS) eqn:F; [|discriminate]. intro H. injection H as <- <- <-. subst.
    assert (c <> 45) by (intro; subst c; vm_compute in F; discriminate).
    assert (c <> 79) by (intro; subst c; vm_compute in F; discriminate).
    rewrite (proj2 (N.eqb_neq 99 c)), (proj2 (N.eqb_neq 45 c)), (proj2 (N.eqb_neq 111 c)), (proj2 (N.eqb_neq 79 c)) by congruence.
    repeat split.
Qed.

Lemma bash_finish_string wc ws ops s : bash_finish wc ws ops = Some (SString s) -> wc = true /\ exists rest, ops = s :: rest.
Proof.
  unfold bash_finish. destruct wc.
  - destruct ops as [|x r]; [discriminate|]. intro H. injection H as <-. eauto.
  - destruct ws; [discriminate|]. destruct ops; discriminate.
Qed.

Lemma short_sim cl : cluster_ok cl -> forall l wc ws owed s,
  sh_short cl l wc ws owed = Some (SString s) -> exists rest, shell_short l wc owed = (true, s :: rest).
Proof.
  intros Hcl l. induction l as [|x r IH]; intros wc ws owed s H.
  - cbn [sh_short] in H. destruct owed; [|discriminate].
    apply bash_finish_string in H as [_ [rest E]]. discriminate.
  - cbn [sh_short shell_short] in *. destruct owed as [|k].
    + change (is "-" x) with (str_eqb x [45]). change (is "--" x) with (str_eqb x [45; 45]).
      destruct (str_eqb x [45] || str_eqb x [45; 45]).
      * apply bash_finish_string in H as [-> [rest ->]]. eauto.
      * destruct x as [|sign [|c cs]].
        -- apply bash_finish_string in H as [-> [rest E]]. injection E as <- <-. eauto.
        -- apply bash_finish_string in H as [-> [rest E]]. injection E as <- <-. eauto.
        -- destruct (N.eqb sign 45 || N.eqb sign 43) eqn:Sg.
           ++ destruct (cl (c :: cs)) as [[[hc hs] n]|] eqn:C; [|discriminate].
              destruct (Hcl _ _ _ _ C) as (E1 & E2 & E3). subst hc n.
              assert (Z : (count_ch 111 (sign :: c :: cs) + count_ch 79 (sign :: c :: cs) = count_ch 111 (c :: cs) + count_ch 79 (c :: cs))%nat).
              { rewrite (count_ch_cons 111 sign), (count_ch_cons 79 sign).
                apply orb_true_iff in Sg. destruct Sg as [Sg|Sg]; apply N.eqb_eq in Sg; subst sign; reflexivity. }
              rewrite Z. eapply IH. exact H.
           ++ apply bash_finish_string in H as [-> [rest E]]. injection E as <- <-. eauto.
    + destruct (optname_ok x); [|discriminate]. eapply IH. exact H.
Qed.

(* bash's long options: the handler's tables are the specification's *)
Lemma shell_tables :
  forallb (fun n => mem_str n SHELL_LONG_NO_ARG && negb (mem_str n SHELL_LONG_WITH_ARG) && negb (dash n)) BASH_LONG_NOARG = true /\
  forallb (fun n => mem_str n SHELL_LONG_WITH_ARG && negb (dash n)) BASH_LONG_ARG = true /\
  forallb (fun n => mem_str n BASH_LONG_NOARG) SHELL_LONG_NO_ARG = true /\
  forallb (fun n => mem_str n BASH_LONG_ARG) SHELL_LONG_WITH_ARG = true.
Proof. vm_compute. repeat split; reflexivity. Qed.

Lemma bash_long_name_inv x n two :
  bash_long_name x = Some (n, two) ->
  (two = true /\ x = 45 :: 45 :: n /\ n <> []) \/ (two = false /\ x = 45 :: n /\ n <> [] /\ (dash n = false \/ n = [45])).
Proof.
  intro H. pose proof (word_kind_inv x) as K. destruct x as [|a [|b r]]; try discriminate.
  - (* one character *) destruct a as [|p]; [discriminate|]. revert H. do 7 (try (destruct p as [p|p|]; try discriminate)).
  - destruct (word_kind (a :: b :: r)) as [|body|cs|] eqn:WK.
    + injection K as -> -> ->. injection H as <- <-. right. repeat split; try discriminate. right. reflexivity.
    + destruct K as [E Hb]. injection E as -> -> <-. destruct r as [|c r']; [congruence|]. injection H as <- <-.
      left. repeat split. discriminate.
    + destruct K as [E (c & r' & E2 & Hc)]. injection E as -> <-. injection E2 as <- <-.
      assert (H' : bash_long_name (45 :: b :: r) = Some (b :: r, false)).
      { clear -Hc. destruct b as [|q]; [reflexivity|]. do 7 (try (destruct q as [q|q|]; try reflexivity; try congruence)). }
      rewrite H' in H. injection H as <- <-. right. repeat split; try discriminate. left.
      unfold dash, starts. change (s2l "-") with [45]. cbn [prefixb]. apply N.eqb_neq in Hc. rewrite (N.eqb_sym 45 b), Hc. reflexivity.
    + exfalso. destruct K as [Hd|E]; [|discriminate].
      assert (a <> 45).
      { intro; subst a. discriminate. }
      clear -H H0. destruct a as [|q]; [discriminate|]. revert H. do 7 (try (destruct q as [q|q|]; try discriminate; try congruence)).
Qed.

Lemma lstrip_nodash n : dash n = false -> lstrip [45] n = n.
Proof.
  intro H. destruct (dash_false_cases n H) as [->|(c & cs & -> & Hn)]; [reflexivity|].
  cbn [lstrip mem_ch existsb]. apply N.eqb_neq in Hn. rewrite Hn. reflexivity.
Qed.

Lemma long_sim : forall l s, bash_long l = Some (SString s) ->
  exists l', shell_long l = Some l' /\ sh_short bash_cluster l' false false O = Some (SString s).
Proof.
  induction l as [l IH] using list_len_ind. intros s H. destruct l as [|x r]; [discriminate|].
  destruct shell_tables as (T1 & T2 & T3 & T4).
  cbn [bash_long] in H. cbn [shell_long].
  destruct (bash_long_name x) as [[n two]|] eqn:BN.
  - destruct (bash_long_name_inv x n two BN) as [(-> & -> & Hn)|(-> & -> & Hn & Hd)].
    + (* --name *)
      change (dash (45 :: 45 :: n)) with true. change (is "-" (45 :: 45 :: n)) with false.
      rewrite (is_ddash_false_long n Hn). cbn [negb andb].
      destruct (mem_str n BASH_LONG_NOARG) eqn:M1.
      * apply mem_str_In in M1. pose proof (proj1 (forallb_forall _ _) T1 n M1) as F. cbv beta in F.
        rewrite !andb_true_iff, !negb_true_iff in F. destruct F as [[F1 F2] F3].
        change (lstrip [45] (45 :: 45 :: n)) with (lstrip [45] n). rewrite (lstrip_nodash n F3), F2, F1.
        apply IH; [cbn [length]; lia|exact H].
      * destruct (mem_str n BASH_LONG_ARG) eqn:M2.
        -- apply mem_str_In in M2. pose proof (proj1 (forallb_forall _ _) T2 n M2) as F. cbv beta in F.
           rewrite !andb_true_iff, !negb_true_iff in F. destruct F as [F1 F3].
           change (lstrip [45] (45 :: 45 :: n)) with (lstrip [45] n). rewrite (lstrip_nodash n F3), F1.
           destruct r as [|y r']; [discriminate|]. apply IH; [cbn [length]; lia|exact H].
        -- destruct (mem_str n [S "help"; S "version"]); discriminate.
    + (* -name or the word -- *)
      destruct Hd as [Hd| ->].
      * change (dash (45 :: n)) with true.
        assert (X1 : is "-" (45 :: n) = false) by (destruct n; [congruence|reflexivity]).
        assert (X2 : is "--" (45 :: n) = false).
        { unfold is. destruct (str_eqb_spec (45 :: n) (s2l "--")) as [E|]; [|reflexivity]. injection E as ->. discriminate. }
        rewrite X1, X2. cbn [negb andb].
        change (lstrip [45] (45 :: n)) with (lstrip [45] n). rewrite (lstrip_nodash n Hd).
        destruct (mem_str n BASH_LONG_NOARG) eqn:M1.
        -- apply mem_str_In in M1. pose proof (proj1 (forallb_forall _ _) T1 n M1) as F. cbv beta in F.
           rewrite !andb_true_iff, !negb_true_iff in F. destruct F as [[F1 F2] F3]. rewrite F2, F1.
           apply IH; [cbn [length]; lia|exact H].
        -- destruct (mem_str n BASH_LONG_ARG) eqn:M2.
           ++ apply mem_str_In in M2. pose proof (proj1 (forallb_forall _ _) T2 n M2) as F. cbv beta in F.
              rewrite !andb_true_iff, !negb_true_iff in F. destruct F as [F1 F3]. rewrite F1.
              destruct r as [|y r']; [discriminate|]. apply IH; [cbn [length]; lia|exact H].
           ++ destruct (mem_str n [S "help"; S "version"]); [discriminate|].
              assert (N1 : mem_str n SHELL_LONG_WITH_ARG = false).
              { destruct (mem_str n SHELL_LONG_WITH_ARG) eqn:E; [|reflexivity]. apply mem_str_In in E.
                rewrite (proj1 (forallb_forall _ _) T4 n E) in M2. discriminate. }
              assert (N2 : mem_str n SHELL_LONG_NO_ARG = false).
              { destruct (mem_str n SHELL_LONG_NO_ARG) eqn:E; [|reflexivity]. apply mem_str_In in E.
                rewrite (proj1 (forallb_forall _ _) T3 n E) in M1. discriminate. }
              rewrite N1, N2.
              assert (X3 : starts "--" (45 :: n) = false).
              { unfold starts. change (s2l "--") with [45; 45]. destruct (dash_false_cases n Hd) as [->|(c & cs & -> & Hc)]; [reflexivity|].
                cbn [prefixb]. apply N.eqb_neq in Hc. rewrite (N.eqb_sym 45 c), Hc. reflexivity. }
              rewrite X3. eexists. split; [reflexivity|exact H].
      * (* the word -- *) eexists. split; [reflexivity|exact H].
  - (* not dash-shaped *)
    assert (Y : dash x && negb (is "-" x) && negb (is "--" x) = false).
    { pose proof (word_kind_inv x) as K. destruct (word_kind x) eqn:WK.
      - subst x. reflexivity.
      - destruct K as [-> Hb]. destruct body; [congruence|discriminate].
      - destruct K as [-> (c & r' & -> & Hc)].
        exfalso. clear -BN Hc. destruct c as [|q]; [discriminate|]. revert BN. do 7 (try (destruct q as [q|q|]; try discriminate; try congruence)).
      - destruct K as [Hd| ->]; [rewrite Hd; reflexivity|reflexivity]. }
    rewrite Y. eexists. split; [reflexivity|exact H].
Qed.

Lemma long_sim_gen : forall l act, act <> SNothing -> bash_long l = Some act ->
  exists l', shell_long l = Some l' /\ sh_short bash_cluster l' false false O = Some act.
Proof.
  induction l as [l IH] using list_len_ind. intros act Hact H. destruct l as [|x r]; [exists []; split; [reflexivity|exact H]|].
  destruct shell_tables as (T1 & T2 & T3 & T4).
  cbn [bash_long] in H. cbn [shell_long].
  destruct (bash_long_name x) as [[n two]|] eqn:BN.
  - destruct (bash_long_name_inv x n two BN) as [(-> & -> & Hn)|(-> & -> & Hn & Hd)].
    + (* --name *)
      change (dash (45 :: 45 :: n)) with true. change (is "-" (45 :: 45 :: n)) with false.
      rewrite (is_ddash_false_long n Hn). cbn [negb andb].
      destruct (mem_str n BASH_LONG_NOARG) eqn:M1.
      * apply mem_str_In in M1. pose proof (proj1 (forallb_forall _ _) T1 n M1) as F. cbv beta in F.
        rewrite !andb_true_iff, !negb_true_iff in F. destruct F as [[F1 F2] F3].
        change (lstrip [45] (45 :: 45 :: n)) with (lstrip [45] n). rewrite (lstrip_nodash n F3), F2, F1.
        apply IH; [cbn [length]; lia|exact Hact|exact H].
      * destruct (mem_str n BASH_LONG_ARG) eqn:M2.
        -- apply mem_str_In in M2. pose proof (proj1 (forallb_forall _ _) T2 n M2) as F. cbv beta in F.
           rewrite !andb_true_iff, !negb_true_iff in F. destruct F as [F1 F3].
           change (lstrip [45] (45 :: 45 :: n)) with (lstrip [45] n). rewrite (lstrip_nodash n F3), F1.
           destruct r as [|y r']; [discriminate|]. apply IH; [cbn [length]; lia|exact Hact|exact H].
        -- destruct (mem_str n [S "help"; S "version"]); [injection H as <-; congruence|discriminate].
    + (* -name or the word -- *)
      destruct Hd as [Hd| ->].
      * change (dash (45 :: n)) with true.
        assert (X1 : is "-" (45 :: n) = false) by (destruct n; [congruence|reflexivity]).
        assert (X2 : is "--" (45 :: n) = false).
        { unfold is. destruct (str_eqb_spec (45 :: n) (s2l "--")) as [E|]; [|reflexivity]. injection E as ->. discriminate. }
        rewrite X1, X2. cbn [negb andb].
        change (lstrip [45] (45 :: n)) with (lstrip [45] n). rewrite (lstrip_nodash n Hd).
        destruct (mem_str n BASH_LONG_NOARG) eqn:M1.
        -- apply mem_str_In in M1. pose proof (proj1 (forallb_forall _ _) T1 n M1) as F. cbv beta in F.
           rewrite !andb_true_iff, !negb_true_iff in F. destruct F as [[F1 F2] F3]. rewrite F2, F1.
           apply IH; [cbn [length]; lia|exact Hact|exact H].
        -- destruct (mem_str n BASH_LONG_ARG) eqn:M2.
           ++ apply mem_str_In in M2. pose proof (proj1 (forallb_forall _ _) T2 n M2) as F. cbv beta in F.
              rewrite !andb_true_iff, !negb_true_iff in F. destruct F as [F1 F3]. rewrite F1.
              destruct r as [|y r']; [discriminate|]. apply IH; [cbn [length]; lia|exact Hact|exact H].
           ++ destruct (mem_str n [S "help"; S "version"]); [injection H as <-; congruence|].
              assert (N1 : mem_str n SHELL_LONG_WITH_ARG = false).
              { destruct (mem_str n SHELL_LONG_WITH_ARG) eqn:E; [|reflexivity]. apply mem_str_In in E.
                rewrite (proj1 (forallb_forall _ _) T4 n E) in M2. discriminate. }
              assert (N2 : mem_str n SHELL_LONG_NO_ARG = false).
              { destruct (mem_str n SHELL_LONG_NO_ARG) eqn:E; [|reflexivity]. apply mem_str_In in E.
                rewrite (proj1 (forallb_forall _ _) T3 n E) in M1. discriminate. }
              rewrite N1, N2.
              assert (X3 : starts "--" (45 :: n) = false).
              { unfold starts. change (s2l "--") with [45; 45]. destruct (dash_false_cases n Hd) as [->|(c & cs & -> & Hc)]; [reflexivity|].
                cbn [prefixb]. apply N.eqb_neq in Hc. rewrite (N.eqb_sym 45 c), Hc. reflexivity. }
              rewrite X3. eexists. split; [reflexivity|exact H].
      * (* the word -- *) eexists. split; [reflexivity|exact H].
  - (* not dash-shaped *)
    assert (Y : dash x && negb (is "-" x) && negb (is "--" x) = false).
    { pose proof (word_kind_inv x) as K. destruct (word_kind x) eqn:WK.
      - subst x. reflexivity.
      - destruct K as [-> Hb]. destruct body; [congruence|discriminate].
      - destruct K as [-> (c & r' & -> & Hc)].
        exfalso. clear -BN Hc. destruct c as [|q]; [discriminate|]. revert BN. do 7 (try (destruct q as [q|q|]; try discriminate; try congruence)).
      - destruct K as [Hd| ->]; [rewrite Hd; reflexivity|reflexivity]. }
    rewrite Y. eexists. split; [reflexivity|exact H].
Qed.


Lemma short_sim_ask cl : cluster_ok cl -> forall l wc ws owed act,
  sh_short cl l wc ws owed = Some act -> (forall s, act <> SString s) -> fst (shell_short l wc owed) = false.
Proof.
  intros Hcl l. induction l as [|x r IH]; intros wc ws owed act H Hn.
  - cbn [sh_short shell_short] in *. destruct owed; [|discriminate]. unfold bash_finish in H.
    destruct wc; [discriminate|reflexivity].
  - assert (Fin : forall ops, bash_finish wc ws ops = Some act -> wc = false).
    { intros ops E. unfold bash_finish in E. destruct wc; [|reflexivity]. destruct ops; [discriminate|]. injection E as <-. exfalso. eapply Hn. reflexivity. }
    cbn [sh_short shell_short] in *. destruct owed as [|k].
    + change (is "-" x) with (str_eqb x [45]). change (is "--" x) with (str_eqb x [45; 45]).
      destruct (str_eqb x [45] || str_eqb x [45; 45]); [exact (Fin _ H)|].
      destruct x as [|sign [|c cs]]; try exact (Fin _ H).
      destruct (N.eqb sign 45 || N.eqb sign 43) eqn:Sg; [|exact (Fin _ H)].
      destruct (cl (c :: cs)) as [[[hc hs] n]|] eqn:C; [|discriminate].
      destruct (Hcl _ _ _ _ C) as (E1 & E2 & E3). subst hc n.
      assert (Z : (count_ch 111 (sign :: c :: cs) + count_ch 79 (sign :: c :: cs) = count_ch 111 (c :: cs) + count_ch 79 (c :: cs))%nat).
      { rewrite (count_ch_cons 111 sign), (count_ch_cons 79 sign).
        apply orb_true_iff in Sg. destruct Sg as [Sg|Sg]; apply N.eqb_eq in Sg; subst sign; reflexivity. }
      rewrite Z. eapply IH; eassumption.
    + destruct (optname_ok x); [|discriminate]. eapply IH; eassumption.
Qed.
(* bash FILE ..., bash (no -c), bash -s: the handler never delegates anything - it asks *)
Theorem bash_script_asks args act :
  bash_exec args = Some act -> (forall s, act <> SString s) -> act <> SNothing ->
  shell_h (s2l "bash" :: args) = HAsk.
Proof.
  intros H Hs Hn. unfold bash_exec in H. destruct (long_sim_gen args act Hn H) as (l' & L & Sh).
  pose proof (short_sim_ask bash_cluster bash_cluster_ok l' false false O act Sh Hs) as E.
  unfold shell_h. destruct args as [|a r]; [reflexivity|].
  assert (Sp : (match a :: r with [t] => is "--help" t || is "--version" t | _ => false end) = false).
  { destruct r; [|reflexivity]. destruct (is "--help" a) eqn:E1.
    - unfold is in E1. apply str_eqb_eq in E1. subst a. cbn in H. injection H as <-. congruence.
    - destruct (is "--version" a) eqn:E2; [|reflexivity]. unfold is in E2. apply str_eqb_eq in E2. subst a.
      cbn in H. injection H as <-. congruence. }
  rewrite Sp, L. destruct (shell_short l' false O) as [b rest]. cbn [fst] in E. subst b. reflexivity.
Qed.

(* bash: whenever bash would run a command string, that string is what the handler delegates;
   (in particular: an operand before -c, or no -c at all, never yields a delegation of some later word) *)
Theorem bash_extract_general args s :
  bash_exec args = Some (SString s) ->
  shell_h (s2l "bash" :: args) = match s with [] => HAsk | _ => HString s end.
Proof.
  intro H. unfold bash_exec in H. destruct (long_sim args s H) as (l' & L & Sh).
  destruct (short_sim bash_cluster bash_cluster_ok l' false false O s Sh) as [rest E].
  unfold shell_h. destruct args as [|a r]; [discriminate|].
  assert (Sp : (match a :: r with [t] => is "--help" t || is "--version" t | _ => false end) = false).
  { destruct r; [|reflexivity]. destruct (is "--help" a) eqn:E1.
    - unfold is in E1. apply str_eqb_eq in E1. subst a. discriminate.
    - destruct (is "--version" a) eqn:E2; [|reflexivity]. unfold is in E2. apply str_eqb_eq in E2. subst a. discriminate. }
  rewrite Sp, L, E. destruct s; reflexivity.
Qed.

(* sh (dash): it has no long options, and no word the handler would take for one is accepted by dash *)
Lemma dash_rejects_long_names :
  forallb (fun n => is_none (dash_cluster n)) (SHELL_LONG_WITH_ARG ++ SHELL_LONG_NO_ARG) = true.
Proof. vm_compute. reflexivity. Qed.

Lemma dash_long_noop l act : sh_short dash_cluster l false false O = Some act -> shell_long l = Some l.
Proof.
  intro H. destruct l as [|x r]; [reflexivity|]. cbn [shell_long].
  destruct (dash x && negb (is "-" x) && negb (is "--" x)) eqn:C; [|reflexivity].
  rewrite !andb_true_iff, !negb_true_iff in C. destruct C as [[C1 C2] C3].
  destruct x as [|a t]; [discriminate|].
  assert (a = 45). { unfold dash, starts in C1. change (s2l "-") with [45] in C1. cbn [prefixb] in C1. rewrite andb_true_r in C1. apply N.eqb_eq in C1. congruence. }
  subst a. destruct t as [|c cs]; [discriminate|].
  cbn [sh_short] in H. change (str_eqb (45 :: c :: cs) [45]) with false in H.
  change (str_eqb (45 :: c :: cs) [45; 45]) with (is "--" (45 :: c :: cs)) in H. rewrite C3 in H. cbn [orb] in H.
  change (N.eqb 45 45 || N.eqb 45 43) with true in H. cbv iota in H.
  destruct (dash_cluster (c :: cs)) as [[[hc hs] n]|] eqn:DC; [|discriminate].
  destruct (dash_cluster_ok _ _ _ _ DC) as (_ & _ & E3).
  assert (Hc : N.eqb 45 c = false). { unfold mem_ch in E3. cbn [existsb] in E3. apply orb_false_iff in E3 as [E3 _]. exact E3. }
  assert (L : lstrip [45] (45 :: c :: cs) = c :: cs).
  { cbn [lstrip mem_ch existsb]. rewrite (N.eqb_sym c 45), Hc. cbn [orb]. reflexivity. }
  rewrite L.
  assert (NT : mem_str (c :: cs) (SHELL_LONG_WITH_ARG ++ SHELL_LONG_NO_ARG) = false).
  { destruct (mem_str (c :: cs) (SHELL_LONG_WITH_ARG ++ SHELL_LONG_NO_ARG)) eqn:E; [|reflexivity].
    apply mem_str_In in E. pose proof (proj1 (forallb_forall _ _) dash_rejects_long_names _ E) as F. cbv beta in F.
    rewrite DC in F. discriminate. }
  unfold mem_str in NT. rewrite existsb_app in NT. apply orb_false_iff in NT as [N1 N2].
  unfold mem_str. rewrite N1, N2.
  unfold starts. change (s2l "--") with [45; 45]. cbn [prefixb]. rewrite Hc. reflexivity.
Qed.

Theorem dash_extract_general base args s :
  In base [s2l "sh"; s2l "dash"] -> dash_exec args = Some (SString s) ->
  shell_h (base :: args) = match s with [] => HAsk | _ => HString s end.
Proof.
  intros Hb H. unfold dash_exec in H.
  pose proof (dash_long_noop args _ H) as L.
  destruct (short_sim dash_cluster dash_cluster_ok args false false O s H) as [rest E].
  unfold shell_h. destruct args as [|a r]; [discriminate|].
  assert (Sp : (match a :: r with [t] => is "--help" t || is "--version" t | _ => false end) = false).
  { destruct r; [|reflexivity]. destruct (is "--help" a) eqn:E1.
    - unfold is in E1. apply str_eqb_eq in E1. subst a. discriminate.
    - destruct (is "--version" a) eqn:E2; [|reflexivity]. unfold is in E2. apply str_eqb_eq in E2. subst a. discriminate. }
  rewrite Sp, L, E. destruct s; reflexivity.
Qed.

Theorem dash_script_asks base args act :
  In base [s2l "sh"; s2l "dash"] -> dash_exec args = Some act -> (forall s, act <> SString s) ->
  shell_h (base :: args) = HAsk.
Proof.
  intros Hb H Hs. unfold dash_exec in H.
  pose proof (dash_long_noop args _ H) as L.
  pose proof (short_sim_ask dash_cluster dash_cluster_ok args false false O act H Hs) as E.
  unfold shell_h. destruct args as [|a r]; [reflexivity|].
  assert (Sp : (match a :: r with [t] => is "--help" t || is "--version" t | _ => false end) = false).
  { destruct r; [|reflexivity]. destruct (is "--help" a) eqn:E1.
    - unfold is in E1. apply str_eqb_eq in E1. subst a. discriminate.
    - destruct (is "--version" a) eqn:E2; [|reflexivity]. unfold is in E2. apply str_eqb_eq in E2. subst a. discriminate. }
  rewrite Sp, L. destruct (shell_short (a :: r) false O) as [b rest]. cbn [fst] in E. subst b. reflexivity.
Qed.

Lemma shell_formerly_refuted :
  modelled (w ["bash"; "script.sh"; "-c"; "ls"]) = Some HAsk /\
  modelled (w ["sh"; "script.sh"; "-c"; "ls"]) = Some HAsk /\
  modelled (w ["bash"; "-rcfile"; "ls"; "-c"; "rm x"]) = Some (HString (s2l "rm x")) /\
  modelled (w ["bash"; "-c"; "-e"; "zap"]) = Some (HString (s2l "zap")) /\
  modelled (w ["bash"; "script.sh"; "--help"]) = Some HAsk.
Proof. vm_compute. repeat split; reflexivity. Qed.

(* Legacy (before 53c5c7c): the word after the first word containing c *)
Definition legacy_is_c_flag (t : str) : bool := dash t && negb (starts "--" t) && mem_ch 99 t.
Fixpoint legacy_after_c (l : list str) : option (list str) :=
  match l with [] => None | t :: r => if legacy_is_c_flag t then Some r else legacy_after_c r end.
Lemma legacy_shell_refuted :
  legacy_after_c (w ["bash"; "script.sh"; "-c"; "ls"]) = Some (w ["ls"]) /\
  shell_exec (w ["bash"; "script.sh"; "-c"; "ls"]) = Some (SFile (s2l "script.sh")).
Proof. vm_compute. split; reflexivity. Qed.

(* ================================================================== find *)
Definition find_word_ok (x : str) : bool :=
  negb (mem_str x FIND_TERMINATORS) && negb (mem_str x FIND_OK_FLAGS) && negb (is "-delete" x)
  && negb (str_eqb x (S ";")).
(* no + right after {} inside the command (there it would end the clause); prev: the previous word was {} *)
Fixpoint no_plus_after_braces (prev : bool) (c : list str) : bool :=
  match c with
  | [] => true
  | x :: r => negb (is "+" x && prev) && no_plus_after_braces (is "{}" x) r
  end.
Definition acc_b (acc : list str) : bool := match acc with l :: _ => is "{}" l | [] => false end.
Definition plain_path (p : str) : bool := negb (dash p) && negb (mem_str p (map s2l ["("; ")"; "!"; ","])).

Lemma find_clause_h c : forall acc t rest,
  forallb find_word_ok c = true -> no_plus_after_braces (acc_b acc) c = true ->
  mem_str t FIND_TERMINATORS = true -> rev acc ++ c <> [] ->
  find_clauses (c ++ t :: rest) (Some acc) =
  match find_clauses rest None with Some cs => Some ((rev acc ++ c) :: cs) | None => None end.
Proof.
  induction c as [|x c IH]; intros acc t rest Hc Hp Ht Hne.
  - cbn [app find_clauses]. unfold find_ends. rewrite Ht. cbn [orb]. rewrite app_nil_r in *. destruct acc as [|a acc].
    + cbn in Hne. congruence.
    + reflexivity.
  - cbn [forallb] in Hc. apply andb_true_iff in Hc as [Hx Hc]. unfold find_word_ok in Hx.
    rewrite !andb_true_iff, !negb_true_iff in Hx. destruct Hx as [[[X1 X2] X3] X4].
    cbn [no_plus_after_braces] in Hp. apply andb_true_iff in Hp as [P1 P2]. apply negb_true_iff in P1.
    cbn [app find_clauses]. unfold find_ends. rewrite X1.
    replace (match acc with | [] => false | last :: _ => is "{}" last end) with (acc_b acc) by (destruct acc; reflexivity).
    rewrite P1. cbn [orb]. rewrite IH; try assumption.
    + cbn [rev]. rewrite <- app_assoc. reflexivity.
    + cbn [rev]. rewrite <- app_assoc. cbn [app]. destruct (rev acc); discriminate.
Qed.

Lemma find_paths_h paths : forall l, forallb plain_path paths = true ->
  find_clauses (paths ++ l) None = find_clauses l None.
Proof.
  induction paths as [|p ps IH]; intros l H; [reflexivity|].
  cbn [forallb] in H. apply andb_true_iff in H as [Hp Hs]. unfold plain_path in Hp.
  apply andb_true_iff in Hp as [Hd _]. apply negb_true_iff in Hd.
  cbn [app find_clauses]. rewrite (dash_false_mem p FIND_EXEC_FLAGS Hd) by (vm_compute; reflexivity).
  apply IH; assumption.
Qed.

Lemma find_blocked_app a b : find_blocked (a ++ b) = find_blocked a || find_blocked b.
Proof. unfold find_blocked. apply existsb_app. Qed.

Lemma find_extract_h paths c :
  forallb plain_path paths = true -> forallb find_word_ok c = true -> no_plus_after_braces false c = true -> c <> [] ->
  find_h (s2l "find" :: paths ++ s2l "-exec" :: c ++ [s2l ";"]) = HWords [c] false.
Proof.
  intros Hp Hc Hq Hne. unfold find_h.
  assert (B : find_blocked (s2l "find" :: paths ++ s2l "-exec" :: c ++ [s2l ";"]) = false).
  { change (s2l "find" :: paths ++ s2l "-exec" :: c ++ [s2l ";"]) with ([s2l "find"] ++ paths ++ [s2l "-exec"] ++ c ++ [s2l ";"]).
    rewrite !find_blocked_app.
    replace (find_blocked [s2l "find"]) with false by (vm_compute; reflexivity).
    replace (find_blocked [s2l "-exec"]) with false by (vm_compute; reflexivity).
    replace (find_blocked [s2l ";"]) with false by (vm_compute; reflexivity).
    assert (P : find_blocked paths = false).
    { unfold find_blocked. apply not_true_is_false. intro E. apply existsb_exists in E as [x [Hx E]].
      pose proof (proj1 (forallb_forall _ _) Hp x Hx) as Q. unfold plain_path in Q.
      apply andb_true_iff in Q as [Q _]. apply negb_true_iff in Q.
      rewrite (dash_false_mem x FIND_OK_FLAGS Q) in E by (vm_compute; reflexivity).
      cbn [orb] in E. unfold is in E. apply str_eqb_eq in E. subst x. discriminate. }
    assert (C : find_blocked c = false).
    { unfold find_blocked. apply not_true_is_false. intro E. apply existsb_exists in E as [x [Hx E]].
      pose proof (proj1 (forallb_forall _ _) Hc x Hx) as Q. unfold find_word_ok in Q.
      rewrite !andb_true_iff, !negb_true_iff in Q. destruct Q as [[[_ Q2] Q3] _].
      rewrite Q2, Q3 in E. discriminate. }
    rewrite P, C. reflexivity. }
  rewrite B.
  assert (E : find_clauses (s2l "find" :: paths ++ s2l "-exec" :: c ++ [s2l ";"]) None = Some [c]).
  { cbn [find_clauses]. replace (mem_str (s2l "find") FIND_EXEC_FLAGS) with false by (vm_compute; reflexivity).
    rewrite find_paths_h by exact Hp. cbn [find_clauses].
    replace (mem_str (s2l "-exec") FIND_EXEC_FLAGS) with true by (vm_compute; reflexivity).
    rewrite (find_clause_h c [] (s2l ";") []); try assumption.
    - reflexivity.
    - vm_compute. reflexivity. }
  rewrite E. reflexivity.
Qed.

(* specification side *)
Lemma plain_path_lead p :
  plain_path p = true ->
  mem_str p (map s2l ["-H"; "-L"; "-P"]) = false /\ str_eqb p (S "-D") = false /\
  prefixb (S "-O") p = false /\ looks_like_expr p = false.
Proof.
  unfold plain_path. rewrite andb_true_iff, !negb_true_iff. intros [Hd Hm].
  destruct (dash_false_cases p Hd) as [->|(c & cs & -> & Hn)].
  - repeat split; reflexivity.
  - apply N.eqb_neq in Hn. repeat split.
    + apply dash_false_mem; [exact Hd|vm_compute; reflexivity].
    + change (S "-D") with [45; 68]. cbn [str_eqb]. rewrite Hn. reflexivity.
    + change (S "-O") with [45; 79]. cbn [prefixb]. rewrite N.eqb_sym, Hn. reflexivity.
    + unfold looks_like_expr. cbn [dashb]. rewrite Hn, Hm. reflexivity.
Qed.

Lemma find_spec_clause c : forall acc b,
  forallb find_word_ok c = true -> no_plus_after_braces b c = true -> rev acc ++ c <> [] ->
  find_run (c ++ [S ";"]) (FClause acc b) = Some [rev acc ++ c].
Proof.
  induction c as [|x c IH]; intros acc b Hc Hp Hne.
  - cbn [app find_run]. change (str_eqb (S ";") (S ";")) with true. cbn [orb]. rewrite app_nil_r in *.
    destruct acc; [cbn in Hne; congruence|reflexivity].
  - cbn [forallb] in Hc. apply andb_true_iff in Hc as [Hx Hc]. unfold find_word_ok in Hx.
    rewrite !andb_true_iff, !negb_true_iff in Hx. destruct Hx as [[[X1 X2] X3] X4].
    cbn [no_plus_after_braces] in Hp. apply andb_true_iff in Hp as [P1 P2]. apply negb_true_iff in P1.
    cbn [app find_run]. rewrite X4. change (str_eqb x (S "+")) with (is "+" x). rewrite P1. cbn [orb].
    change (str_eqb x (S "{}")) with (is "{}" x). rewrite IH; try assumption.
    + cbn [rev]. rewrite <- app_assoc. reflexivity.
    + cbn [rev]. rewrite <- app_assoc. cbn [app]. destruct (rev acc); discriminate.
Qed.

Lemma find_spec_paths paths l :
  forallb plain_path paths = true -> paths <> [] ->
  find_run (paths ++ l) FLead = find_run l FPaths.
Proof.
  intros H Hne. destruct paths as [|p ps]; [congruence|]. clear Hne.
  cbn [forallb] in H. apply andb_true_iff in H as [Hp Hs].
  destruct (plain_path_lead p Hp) as (A & B & C & D).
  cbn [app find_run]. rewrite A, B, C, D. cbn iota.
  clear Hp A B C D. induction ps as [|q ps IH]; [reflexivity|].
  cbn [forallb] in Hs. apply andb_true_iff in Hs as [Hq Hs].
  destruct (plain_path_lead q Hq) as (_ & _ & _ & D). cbn [app find_run]. rewrite D. apply IH, Hs.
Qed.

Lemma find_extract_spec paths c :
  forallb plain_path paths = true -> forallb find_word_ok c = true -> no_plus_after_braces false c = true -> c <> [] ->
  find_exec (paths ++ s2l "-exec" :: c ++ [s2l ";"]) = Some [c].
Proof.
  intros Hp Hc Hq Hne. unfold find_exec. destruct paths as [|p ps].
  - cbn [app]. change (find_run (s2l "-exec" :: c ++ [s2l ";"]) FLead) with (find_run (c ++ [S ";"]) (FClause [] false)).
    apply (find_spec_clause c [] false); assumption.
  - rewrite find_spec_paths by (assumption || discriminate).
    change (find_run (s2l "-exec" :: c ++ [s2l ";"]) FPaths) with (find_run (c ++ [S ";"]) (FClause [] false)).
    apply (find_spec_clause c [] false); assumption.
Qed.


(* the spelling that was mis-read before b4cdef6: a lone + that does not follow {} *)
Lemma find_formerly_refuted :
  modelled (w ["find"; "."; "-exec"; "env"; "-u"; "+"; "rm"; "x"; ";"]) = Some (HWords [w ["env"; "-u"; "+"; "rm"; "x"]] false) /\
  wrapper_exec (w ["find"; "."; "-exec"; "env"; "-u"; "+"; "rm"; "x"; ";"]) = Some [w ["env"; "-u"; "+"; "rm"; "x"]].
Proof. vm_compute. split; reflexivity. Qed.

(* ================================================================== env *)
Lemma dash_false_not_dashword a : dash a = false -> str_eqb a [45] = false.
Proof.
  intro H. destruct (dash_false_cases a H) as [->|(c & cs & -> & Hn)]; [reflexivity|].
  cbn [str_eqb]. apply N.eqb_neq in Hn. rewrite Hn. reflexivity.
Qed.

Lemma dash_false_starts p a : dash a = false -> prefixb (45 :: p) a = false.
Proof.
  intro H. destruct (dash_false_cases a H) as [->|(c & cs & -> & Hn)]; [reflexivity|].
  cbn [prefixb]. apply N.eqb_neq in Hn. rewrite N.eqb_sym, Hn. reflexivity.
Qed.

(* one step of the handler's scan over a word that does not start with a dash *)
Lemma env_scan_nodash k a r : dash a = false ->
  env_scan k (a :: r) = if has_eq a then env_scan (if sets_exec a then k ++ [a] else k) r else HWords [k ++ a :: r] false.
Proof.
  intro H. cbn [env_scan]. rewrite (dash_false_not_ddash_early a H).
  unfold starts. change (s2l "--") with [45; 45]. rewrite (dash_false_starts _ a H). rewrite H. cbn [andb].
  change (is "-" a) with (str_eqb a [45]). rewrite (dash_false_not_dashword a H). reflexivity.
Qed.

Definition assign_word (a : str) : bool := has_eq a && negb (dash a).

(* the assignments env keeps in front of the command: those that set a variable deciding what runs, in order *)
Definition env_kept (assigns : list str) : list str := filter sets_exec assigns.

Lemma env_scan_assigns assigns : forall k l, forallb assign_word assigns = true ->
  env_scan k (assigns ++ l) = env_scan (k ++ env_kept assigns) l.
Proof.
  induction assigns as [|a r IH]; intros k l H; [cbn [app env_kept filter]; rewrite app_nil_r; reflexivity|].
  cbn [forallb] in H. apply andb_true_iff in H as [Ha Hr]. unfold assign_word in Ha.
  apply andb_true_iff in Ha as [He Hd]. apply negb_true_iff in Hd.
  cbn [app]. rewrite env_scan_nodash by exact Hd. rewrite He. rewrite IH by exact Hr.
  unfold env_kept. cbn [filter]. destruct (sets_exec a); [rewrite <- app_assoc|]; reflexivity.
Qed.

Lemma drop_assign_app assigns : forall l, forallb assign_word assigns = true ->
  drop_assign (assigns ++ l) = drop_assign l.
Proof.
  induction assigns as [|a r IH]; intros l H; [reflexivity|].
  cbn [forallb] in H. apply andb_true_iff in H as [Ha Hr]. unfold assign_word, has_eq in Ha.
  apply andb_true_iff in Ha as [He _]. cbn [app drop_assign]. rewrite He. apply IH, Hr.
Qed.

Notation gx := (getopt_x (fun _ => false) env_is_S env_spec).

Lemma gx_operands assigns c0 cs :
  forallb assign_word assigns = true -> dash c0 = false -> gx (assigns ++ c0 :: cs) = GOk [] (assigns ++ c0 :: cs).
Proof.
  intros Ha Hd. destruct assigns as [|a r].
  - cbn [app getopt_x]. rewrite (word_kind_operand c0 Hd). reflexivity.
  - cbn [forallb] in Ha. apply andb_true_iff in Ha as [Ha _]. unfold assign_word in Ha.
    apply andb_true_iff in Ha as [_ Ha]. apply negb_true_iff in Ha.
    cbn [app getopt_x]. rewrite (word_kind_operand a Ha). reflexivity.
Qed.

Lemma env_tail_spec o assigns c0 cs :
  help_or_version o = false -> env_opts_ok o = true -> has_short (c1 "0") o = false -> has_long (S "null") o = false ->
  forallb assign_word assigns = true -> dash c0 = false -> has_eq c0 = false ->
  (if help_or_version o then Some []
   else if negb (env_opts_ok o) then None
   else let ops := match assigns ++ c0 :: cs with w0 :: r => if str_eqb w0 [45] then r else assigns ++ c0 :: cs | [] => [] end in
        match drop_assign ops with
        | [] => Some []
        | cmd => if has_short (c1 "0") o || has_long (S "null") o then None else Some [cmd]
        end) = Some [c0 :: cs].
Proof.
  intros O1 O2 O3 O4 Ha Hd He. rewrite O1, O2. cbn [negb].
  assert (F : (match assigns ++ c0 :: cs with w0 :: r => if str_eqb w0 [45] then r else assigns ++ c0 :: cs | [] => [] end)
              = assigns ++ c0 :: cs).
  { destruct assigns as [|a r].
    - cbn [app]. rewrite (dash_false_not_dashword c0 Hd). reflexivity.
    - cbn [forallb] in Ha. apply andb_true_iff in Ha as [Ha _]. unfold assign_word in Ha.
      apply andb_true_iff in Ha as [_ Ha]. apply negb_true_iff in Ha.
      cbn [app]. rewrite (dash_false_not_dashword a Ha). reflexivity. }
  cbv zeta. rewrite F. rewrite drop_assign_app by exact Ha. cbn [drop_assign]. unfold has_eq in He. rewrite He.
  rewrite O3, O4. reflexivity.
Qed.

(* env [NAME=VALUE]... COMMAND ARG... : env executes COMMAND ARG...; the handler delegates it behind the kept
   assignments (an assignment prefix: it cannot hide the command, and `PATH=dir cmd` is asked by the walker) *)
Lemma env_extract assigns c0 cs :
  forallb assign_word assigns = true -> dash c0 = false -> has_eq c0 = false ->
  env_h (s2l "env" :: assigns ++ c0 :: cs) = HWords [env_kept assigns ++ c0 :: cs] false /\
  env_exec (assigns ++ c0 :: cs) = Some [c0 :: cs].
Proof.
  intros Ha Hd He. split.
  - unfold env_h. cbn [tl']. rewrite env_scan_assigns by exact Ha. rewrite env_scan_nodash by exact Hd.
    rewrite He. reflexivity.
  - unfold env_exec. cbn [env_exec_f]. rewrite (gx_operands assigns c0 cs Ha Hd).
    apply (env_tail_spec [] assigns c0 cs); auto.
Qed.

(* no assignment sets such a variable: exactly the executed command is delegated, as before *)
Lemma env_kept_none assigns : forallb (fun a => negb (sets_exec a)) assigns = true -> env_kept assigns = [].
Proof.
  induction assigns as [|a r IH]; [reflexivity|]. cbn [forallb env_kept filter]. intro H.
  apply andb_true_iff in H as [Ha Hr]. apply negb_true_iff in Ha. rewrite Ha. exact (IH Hr).
Qed.

(* what is kept are assignment words of the list, in order, each setting an execution variable *)
Lemma env_kept_spec assigns : forallb sets_exec (env_kept assigns) = true /\ (forall a, In a (env_kept assigns) -> In a assigns).
Proof.
  split.
  - apply forallb_forall. intros a Ha. apply filter_In in Ha. exact (proj2 Ha).
  - intros a Ha. apply filter_In in Ha. exact (proj1 Ha).
Qed.

Lemma env_formerly_refuted :
  (modelled (w ["env"; "-iu"; "ls"; "rm"; "x"]) = Some (HWords [w ["rm"; "x"]] false) /\
   wrapper_exec (w ["env"; "-iu"; "ls"; "rm"; "x"]) = Some [w ["rm"; "x"]]) /\
  (modelled (w ["env"; "--uns"; "ls"; "rm"; "x"]) = Some (HWords [w ["rm"; "x"]] false) /\
   wrapper_exec (w ["env"; "--uns"; "ls"; "rm"; "x"]) = Some [w ["rm"; "x"]]) /\
  modelled (w ["env"; "--split=rm x"]) = Some (HString (s2l "rm x")).
Proof. vm_compute. repeat split; reflexivity. Qed.

(* Legacy (before 23c5075): a dash word that is not in the table is one word *)
Fixpoint legacy_env_scan (l : list str) : list str :=
  match l with
  | [] => []
  | t :: r => if mem_str t (map s2l ["-u"; "--unset"; "-C"; "--chdir"]) then match r with [] => [] | _ :: r' => legacy_env_scan r' end
              else if dash t || has_eq t then legacy_env_scan r else l
  end.
Lemma legacy_env_refuted :
  legacy_env_scan (w ["-iu"; "ls"; "rm"; "x"]) = w ["ls"; "rm"; "x"] /\ env_exec (w ["-iu"; "ls"; "rm"; "x"]) = Some [w ["rm"; "x"]].
Proof. vm_compute. split; reflexivity. Qed.

(* ================================================================== env -S with a comment
   repair of `env -S '#' rm x` (approved as an empty command line; env ends the STRING at the comment and runs rm x):
   a -S/--split-string value that holds a "#" is asked about, whatever words follow *)
Lemma env_S_comment kept value rest : mem_ch 35 value = true ->
  env_scan kept (s2l "-S" :: value :: rest) = HAsk /\ env_scan kept (s2l "--split-string" :: value :: rest) = HAsk /\
  env_scan kept (s2l "-iS" :: value :: rest) = HAsk /\ env_scan kept (s2l "--split" :: value :: rest) = HAsk.
Proof.
  intro H. repeat split; cbn [env_scan]; cbv -[env_S env_scan]; unfold env_S; rewrite H; reflexivity.
Qed.
Lemma env_S_plain kept value rest : mem_ch 35 value = false ->
  env_scan kept (s2l "-S" :: value :: rest) = HString (join [32] (value :: rest)).
Proof.
  intro H. cbn [env_scan]; cbv -[env_S env_scan]; unfold env_S; rewrite H; reflexivity.
Qed.
Lemma env_S_comment_witness :
  modelled (w ["env"; "-S"; "#"; "rm"; "x"]) = Some HAsk /\ modelled (w ["env"; "-S#"; "rm"; "x"]) = Some HAsk /\
  modelled (w ["env"; "-S"; "ls #"; "rm"; "x"]) = Some HAsk /\ modelled (w ["env"; "-S"; "ls -la"; "x"]) = Some (HString (s2l "ls -la x")).
Proof. vm_compute. repeat split; reflexivity. Qed.

(* ================================================================== xargs *)
(* without a replace option the handler judges the command with one more, unknown, argument *)
Lemma xargs_extract c0 cs :
  dash c0 = false -> xargs_unsafe (c0 :: cs) = false ->
  xargs_h (s2l "xargs" :: c0 :: cs) = HWords [(c0 :: cs) ++ [PLACEHOLDER]] false /\ xargs_exec (c0 :: cs) = Some [c0 :: cs].
Proof.
  intros Hd Hu. split.
  - unfold xargs_h. rewrite Hu. cbn [xargs_skip]. rewrite (dash_false_not_ddash_early c0 Hd), Hd. cbn [negb].
    rewrite Nat.sub_diag. reflexivity.
  - unfold xargs_exec, getopt_plus. cbn [getopt_x]. rewrite (word_kind_operand c0 Hd). reflexivity.
Qed.

Lemma xargs_extract_ddash c :
  c <> [] ->
  xargs_h (s2l "xargs" :: s2l "--" :: c) = HWords [c ++ [PLACEHOLDER]] false /\ xargs_exec (s2l "--" :: c) = Some [c].
Proof.
  intro H. destruct c as [|c0 cs]; [congruence|]. split; [|reflexivity].
  unfold xargs_h. change (xargs_unsafe (s2l "--" :: c0 :: cs)) with false. cbv iota.
  change (xargs_skip (s2l "--" :: c0 :: cs)) with (c0 :: cs). cbv iota.
  replace (length (s2l "--" :: c0 :: cs) - length (c0 :: cs))%nat with 1%nat by (cbn [length]; lia).
  reflexivity.
Qed.

Lemma xargs_formerly_refuted :
  (modelled (w ["xargs"; "-0I"; "ls"; "rm"; "x"]) = Some (HWords [w ["rm"; "x"]] false) /\
   wrapper_exec (w ["xargs"; "-0I"; "ls"; "rm"; "x"]) = Some [w ["rm"; "x"]]) /\
  (modelled (w ["xargs"; "--process-slot"; "ls"; "rm"; "x"]) = Some (HWords [w ["rm"; "x"; "{}"]] false) /\
   wrapper_exec (w ["xargs"; "--process-slot"; "ls"; "rm"; "x"]) = Some [w ["rm"; "x"]]) /\
  (* a bare launcher: the appended argument makes the handler judge  env {}  - an unknown command - not  env *)
  modelled (w ["xargs"; "env"]) = Some (HWords [w ["env"; "{}"]] false).
Proof. vm_compute. repeat split; reflexivity. Qed.

(* still refuted - pinned by tests/cli/test_xargs.py: GNU -e takes only an attached argument *)
Lemma xargs_e_refuted :
  modelled (w ["xargs"; "-e"; "STOP"; "head"]) = Some (HWords [w ["head"; "{}"]] false) /\
  wrapper_exec (w ["xargs"; "-e"; "STOP"; "head"]) = Some [w ["STOP"; "head"]].
Proof. vm_compute. split; reflexivity. Qed.

(* ================================================================== fd *)
(* two exec clauses; and since the repair of C04-fd-appended-path every clause is judged with the path fd appends *)
Lemma fd_formerly_refuted :
  (modelled (w ["fd"; "-x"; "ls"; ";"; "-x"; "rm"]) = Some (HWords [w ["ls"; "{}"]; w ["rm"; "{}"]] false) /\
   wrapper_exec (w ["fd"; "-x"; "ls"; ";"; "-x"; "rm"]) = Some [w ["ls"; "{}"]; w ["rm"; "{}"]]) /\
  (* a bare launcher: the appended path makes the handler judge  env {}  - an unknown command - not  env *)
  (modelled (w ["fd"; "-x"; "env"]) = Some (HWords [w ["env"; "{}"]] false) /\
   wrapper_exec (w ["fd"; "-x"; "env"]) = Some [w ["env"; "{}"]]) /\
  (* a placeholder inside a word: nothing is appended *)
  (modelled (w ["fd"; "-X"; "mv"; "{}"; "{.}.bak"]) = Some (HWords [w ["mv"; "{}"; "{.}.bak"]] false) /\
   wrapper_exec (w ["fd"; "-X"; "mv"; "{}"; "{.}.bak"]) = Some [w ["mv"; "{}"; "{.}.bak"]]).
Proof. vm_compute. repeat split; reflexivity. Qed.

(* the handler's placeholder table (generated from cli/fd.py) is the one of fd --help *)
Lemma fd_placeholders_tie : FD_PLACEHOLDERS = FD_PLACEHOLDERS_SPEC.
Proof. reflexivity. Qed.
Lemma fd_with_path_spec c : fd_with_path c = fd_path c.
Proof. unfold fd_with_path, fd_has_placeholder, fd_path. rewrite fd_placeholders_tie. reflexivity. Qed.
Lemma fd_with_path_appends c : fd_has_placeholder c = false -> fd_with_path c = c ++ [PLACEHOLDER].
Proof. intro H. unfold fd_with_path. rewrite H. reflexivity. Qed.
Lemma fd_with_path_keeps c : exists t, fd_with_path c = c ++ t.
Proof. unfold fd_with_path. destruct (fd_has_placeholder c); [exists []; symmetry; apply app_nil_r | eexists; reflexivity]. Qed.

Definition no_semi (c : list str) : bool := forallb (fun t => negb (is_semi t)) c.
Lemma fd_cut_nosemi c : no_semi c = true -> fd_cut c = (c, None).
Proof.
  induction c as [|t r IH]; [reflexivity|]. unfold no_semi. cbn [forallb]. intro H.
  apply andb_prop in H. destruct H as [Ht Hr]. cbn [fd_cut].
  destruct (is_semi t); [discriminate|]. rewrite (IH Hr). reflexivity.
Qed.
Lemma fd_until_semi_nosemi c : no_semi c = true -> fd_until_semi c = (c, []).
Proof.
  induction c as [|t r IH]; [reflexivity|]. unfold no_semi. cbn [forallb]. intro H.
  apply andb_prop in H. destruct H as [Ht Hr]. cbn [fd_until_semi].
  assert (E : str_eqb t (WrapSpec.S ";") = false).
  { unfold is_semi, is in Ht. apply negb_true_iff in Ht. apply orb_false_iff in Ht. exact (proj1 Ht). }
  rewrite E, (IH Hr). reflexivity.
Qed.
(* fd [-x | --exec | -X | --exec-batch] COMMAND ARG...  for every command with no lone ; or \; among its words: the handler
   delegates exactly the command fd runs, the appended path included *)
Lemma fd_extract flag c0 cs :
  In flag (map s2l ["-x"; "--exec"; "-X"; "--exec-batch"]) -> no_semi (c0 :: cs) = true ->
  fd_h (s2l "fd" :: flag :: c0 :: cs) = HWords [fd_with_path (c0 :: cs)] false /\
  fd_exec (flag :: c0 :: cs) = Some [fd_path (c0 :: cs)].
Proof.
  intros Hf Hs.
  assert (Hm : mem_str flag FD_EXEC_FLAGS = true).
  { cbn [In map] in Hf. destruct Hf as [<-|[<-|[<-|[<-|[]]]]]; reflexivity. }
  split.
  - unfold fd_h. cbn [length fd_scan_f]. rewrite Hm. rewrite (fd_cut_nosemi _ Hs). reflexivity.
  - unfold fd_exec. cbn [length].
    cbn [In map] in Hf. destruct Hf as [<-|[<-|[<-|[<-|[]]]]];
      (cbn [fd_run]; match goal with |- context [word_kind ?x] => let k := eval vm_compute in (word_kind x) in change (word_kind x) with k end;
       cbv iota beta;
       try (match goal with |- context [split_eq ?x] => let k := eval vm_compute in (split_eq x) in change (split_eq x) with k end);
       try (match goal with |- context [fd_cluster ?x] => let k := eval vm_compute in (fd_cluster x) in change (fd_cluster x) with k end);
       cbv iota beta;
       repeat match goal with |- context [str_eqb ?a ?b] => let k := eval vm_compute in (str_eqb a b) in change (str_eqb a b) with k end;
       cbv iota beta; cbn [orb app];
       rewrite (fd_until_semi_nosemi _ Hs); reflexivity).
Qed.

(* ================================================================== suffix invariants: the inner command a handler
   delegates is a suffix of the command line - never invented, reordered or re-assembled *)
Definition suffix_of {A} (s l : list A) : Prop := exists p, l = p ++ s.
Lemma suffix_refl {A} (l : list A) : suffix_of l l.
Proof. exists []. reflexivity. Qed.
Lemma suffix_cons {A} (x : A) s l : suffix_of s l -> suffix_of s (x :: l).
Proof. intros [p ->]. exists (x :: p). reflexivity. Qed.
Lemma suffix_nil {A} (l : list A) : suffix_of [] l.
Proof. exists l. symmetry. apply app_nil_r. Qed.
Lemma suffix_tl {A} (s l : list A) : suffix_of s l -> suffix_of (tl' s) l.
Proof. intros [p ->]. destruct s as [|x s]; [apply suffix_nil|]. exists (p ++ [x]). rewrite <- app_assoc. reflexivity. Qed.

Lemma docker_opts_suffix l : suffix_of (docker_exec_opts l) l.
Proof.
  induction l as [l IH] using list_len_ind.
  destruct l as [|t r]; [apply suffix_refl|]. cbn [docker_exec_opts].
  destruct (is "--" t); [apply suffix_cons, suffix_refl|].
  destruct (mem_str t DOCKER_EXEC_FLAGS_WITH_ARG).
  { destruct r as [|a r']; [apply suffix_nil|]. apply suffix_cons, suffix_cons, IH. cbn [length]. lia. }
  destruct (starts "--" t); [apply suffix_cons, IH; cbn [length]; lia|].
  destruct (dash t && Nat.ltb 1 (length t)); [|apply suffix_refl].
  destruct (docker_cluster (tl' t)).
  - destruct r as [|a r']; [apply suffix_nil|]. apply suffix_cons, suffix_cons, IH. cbn [length]. lia.
  - apply suffix_cons, IH. cbn [length]. lia.
Qed.
Lemma docker_inner_suffix l : suffix_of (docker_exec_inner l) l.
Proof. apply suffix_tl, docker_opts_suffix. Qed.

Lemma after_ddash_suffix l : forall s, after_ddash l = Some s -> suffix_of s l.
Proof.
  induction l as [l IH] using list_len_ind. intros s H.
  destruct l as [|t r]; [discriminate|]. cbn [after_ddash] in H.
  destruct (is "--" t). { injection H as <-. apply suffix_cons, suffix_refl. }
  destruct (dash t && negb (has_eq t) && negb (mem_str t KUBECTL_EXEC_BOOL_FLAGS)).
  - destruct (negb (starts "--" t) && negb (Nat.eqb (kc_bool_run (tl' t) 1) (length t - 1))).
    { apply suffix_cons, IH; [cbn [length]; lia|exact H]. }
    destruct r as [|a r']; [discriminate|]. apply suffix_cons, suffix_cons, IH; [cbn [length]; lia|exact H].
  - apply suffix_cons, IH; [cbn [length]; lia|exact H].
Qed.

Lemma xargs_skip_suffix l : suffix_of (xargs_skip l) l.
Proof.
  induction l as [l IH] using list_len_ind.
  destruct l as [|t r]; [apply suffix_refl|]. cbn [xargs_skip].
  destruct (is "--" t); [apply suffix_cons, suffix_refl|].
  destruct (negb (dash t)); [apply suffix_refl|].
  assert (S2 : suffix_of (match r with [] => [] | _ :: r' => xargs_skip r' end) (t :: r)).
  { destruct r as [|a r']; [apply suffix_nil|]. apply suffix_cons, suffix_cons, IH. cbn [length]. lia. }
  assert (S1 : suffix_of (xargs_skip r) (t :: r)) by (apply suffix_cons, IH; cbn [length]; lia).
  destruct (mem_str t XARGS_FLAGS_WITH_ARG); [exact S2|].
  destruct (starts "--" t).
  - destruct (partition_eq (skipn 2 t)) as [name v].
    destruct ((match long_names XARGS_LONG_OPTIONS name with [nm] => mem_str nm XARGS_LONG_WITH_ARG | _ => false end) && is_none v); assumption.
  - destruct (xargs_cluster (tl' t)); assumption.
Qed.
