(* Lemmas about the handler models (Wrappers.v) and the tool specifications (WrapSpec.v). *)
From Coq Require Import Arith.
From DippyV Require Import Base.Str Base.Verdict Gen.Tables Model.BashQuote Model.Getopt Model.Wrappers Model.WrapSpec
  Proofs.VerdictP Proofs.BashQuoteP.

(* ================================================================== generic facts *)
Lemma list_len_ind {A} (P : list A -> Prop) :
  (forall l, (forall m, (length m < length l)%nat -> P m) -> P l) -> forall l, P l.
Proof.
  intros H l. assert (G : forall n m, (length m < n)%nat -> P m).
  { induction n as [|n IH]; intros m Hm; [lia|]. apply H. intros k Hk. apply IH. lia. }
  apply H. intros m Hm. apply (G (length l)). exact Hm.
Qed.

Lemma bash_quote_nonempty s : bash_quote s <> [].
Proof.
  unfold bash_quote. destruct s as [|c t]; [discriminate|].
  destruct (forallb quote_safe (c :: t)); discriminate.
Qed.

Lemma bash_join_nonempty ws : ws <> [] -> bash_join ws <> [].
Proof.
  destruct ws as [|w ws]; [congruence|]. intros _. unfold bash_join. cbn [map join].
  destruct (map bash_quote ws) eqn:E.
  - apply bash_quote_nonempty.
  - intro H. apply app_eq_nil in H as [H _]. exact (bash_quote_nonempty w H).
Qed.

Lemma join_sep_nonempty (sep : str) (l : list str) :
  l <> [] -> Forall (fun s => s <> []) l -> join sep l <> [].
Proof.
  destruct l as [|a l]; [congruence|]. intros _ H. inversion H as [|? ? Ha Hl]; subst.
  cbn [join]. destruct l; [exact Ha|]. intro E. apply app_eq_nil in E as [E _]. exact (Ha E).
Qed.

Lemma map_reread_clean ws : forallb clean ws = true -> map reread ws = ws.
Proof.
  induction ws as [|w ws IH]; intro H; [reflexivity|].
  cbn [forallb] in H. apply andb_true_iff in H as [Hw Hs]. cbn [map]. rewrite reread_clean, IH; auto.
Qed.

(* ================================================================== the glue: a correct extraction cannot launder *)
Section Glue.
  (* the ladder on a word list, and the analysis of a command text *)
  Variable judge : bool -> list str -> verdict.
  Variable astr : bool -> str -> verdict.
  (* ORACLE HYPOTHESES (about the parser, the walker and the ladder; not proved here):
     the analysis of a re-quoted simple command is the ladder on the words the walker hands it, i.e.
     the words with only their outer quotes removed; a ;-joined text is judged as the join of its
     clauses (C03). *)
  Variable Hwords : forall r ws, ws <> [] -> astr r (bash_join ws) = judge r (map reread ws).
  Variable Hseq : forall r (l : list str), l <> [] -> astr r (join $"; " l) = combine (map (astr r) l).

  Lemma hverdict_words cmds r :
    cmds <> [] -> Forall (fun c => c <> []) cmds ->
    hverdict astr (HWords cmds r) = combine (map (fun c => judge r (map reread c)) cmds).
  Proof.
    intros Hne Hall. unfold hverdict. cbn [render cls_verdict].
    assert (Hj : join $"; " (map bash_join cmds) <> []).
    { apply join_sep_nonempty.
      - destruct cmds; [congruence|discriminate].
      - apply Forall_forall. intros s Hs. apply in_map_iff in Hs as [c [<- Hc]].
        apply bash_join_nonempty. exact (proj1 (Forall_forall _ _) Hall c Hc). }
    destruct (join $"; " (map bash_join cmds)) as [|x xs] eqn:E; [congruence|].
    rewrite <- E. rewrite Hseq by (destruct cmds; [congruence|discriminate]).
    rewrite map_map. f_equal. apply map_ext_in. intros c Hc.
    apply Hwords. exact (proj1 (Forall_forall _ _) Hall c Hc).
  Qed.

  (* every command the handler extracted is judged, and the result is at least as restrictive *)
  Lemma extracted_never_laundered cmds r c :
    Forall (fun c => c <> []) cmds -> In c cmds ->
    vle (judge r (map reread c)) (hverdict astr (HWords cmds r)) = true.
  Proof.
    intros Hall Hin. rewrite hverdict_words; [|destruct cmds; [destruct Hin|discriminate]|exact Hall].
    apply combine_ge. apply in_map_iff. exists c. split; [reflexivity|exact Hin].
  Qed.

  (* if what the handler extracted is what the tool executes, nothing is laundered - for inner
     commands whose words are clean (no dollar sign right before a quote) the ladder sees exactly the executed words *)
  Lemma no_launder_of_extract (h : hres) (inners : list (list str)) r :
    h = HWords inners r -> Forall (fun c => c <> []) inners ->
    forall c, In c inners -> forallb clean c = true -> vle (judge r c) (hverdict astr h) = true.
  Proof.
    intros -> Hall c Hin Hq. rewrite <- (map_reread_clean c Hq) at 1.
    apply extracted_never_laundered; assumption.
  Qed.

  (* exactness for a single inner command *)
  Lemma exact_of_extract (h : hres) (c : list str) r :
    h = HWords [c] r -> c <> [] -> forallb clean c = true -> hverdict astr h = judge r c.
  Proof.
    intros -> Hc Hq. rewrite hverdict_words; [|discriminate|constructor; [exact Hc|constructor]].
    cbn [map]. rewrite combine_one. rewrite map_reread_clean by exact Hq. reflexivity.
  Qed.

  (* an inner command given as a string on the command line (sh -c, env -S) is analysed as it is *)
  Lemma hverdict_string s : s <> [] -> hverdict astr (HString s) = astr false s.
  Proof. intro H. unfold hverdict. cbn [render cls_verdict]. destruct s; [congruence|reflexivity]. Qed.
End Glue.


(* ================================================================== words *)
Lemma dash_false_cases w : dash w = false -> w = [] \/ exists c cs, w = c :: cs /\ c <> 45.
Proof.
  destruct w as [|c cs]; [auto|]. intro H. right. exists c, cs. split; [reflexivity|].
  unfold dash, starts in H. change (s2l "-") with [45] in H. cbn [prefixb] in H.
  rewrite andb_true_r in H. apply N.eqb_neq in H. congruence.
Qed.

Lemma word_kind_not45 c cs : c <> 45 -> word_kind (c :: cs) = WOperand.
Proof.
  intro H. destruct c as [|p]; [reflexivity|].
  do 7 (try (destruct p as [p|p|]; try reflexivity; try congruence)).
Qed.

Lemma word_kind_operand w : dash w = false -> word_kind w = WOperand.
Proof.
  intro H. destruct (dash_false_cases w H) as [->|(c & cs & -> & Hc)]; [reflexivity|].
  apply word_kind_not45, Hc.
Qed.

Lemma mem_str_false_of_eq (w : str) (T : list str) :
  has_eq w = true -> forallb (fun e => negb (has_eq e)) T = true -> mem_str w T = false.
Proof.
  intros Hw HT. destruct (mem_str w T) eqn:E; [|reflexivity].
  apply mem_str_In in E. pose proof (proj1 (forallb_forall _ _) HT w E) as H.
  cbv beta in H. rewrite Hw in H. discriminate.
Qed.

Lemma has_eq_app_l p v : has_eq p = true -> has_eq (p ++ v) = true.
Proof.
  unfold has_eq. rewrite !mem_ch_In. intro H. apply in_or_app. auto.
Qed.

Lemma dash_app p v : dash p = true -> dash (p ++ v) = true.
Proof.
  unfold dash, starts. change (s2l "-") with [45]. destruct p as [|c p]; [discriminate|].
  cbn [app prefixb]. rewrite !andb_true_r. auto.
Qed.

Lemma is_ddash_long w : (2 < length w)%nat -> is "--" w = false.
Proof.
  intro H. unfold is. destruct (str_eqb_spec w (s2l "--")) as [->|]; [|reflexivity].
  cbn in H. lia.
Qed.

Lemma prefixb_app p v : prefixb p (p ++ v) = true.
Proof. apply prefixb_spec. exists v. reflexivity. Qed.

Lemma mem_str_no_extension (p v : str) (T : list str) :
  forallb (fun e => negb (prefixb p e) || str_eqb e p) T = true -> v <> [] -> mem_str (p ++ v) T = false.
Proof.
  intros HT Hv. destruct (mem_str (p ++ v) T) eqn:E; [|reflexivity].
  apply mem_str_In in E. pose proof (proj1 (forallb_forall _ _) HT _ E) as H. cbv beta in H.
  rewrite prefixb_app in H. cbn [negb orb] in H. apply str_eqb_eq in H.
  rewrite <- (app_nil_r p) in H at 2. apply app_inv_head in H. congruence.
Qed.

