(* Round-trip lemmas of the config-text model: unescape/escape, the backwards scan of
   _extract_message over written messages, write_rule followed by one loop iteration. *)
From DippyV Require Import Base.Str Gen.Tables Model.ConfigText Proofs.ConfigTextP.

Local Arguments is_space : simpl never.

(* ---------------------------------------------------------------- unescape . escape = id *)
Lemma unescape_esc c s : unescape (esc_ch c ++ s) = c :: unescape s.
Proof.
  unfold esc_ch. destruct (N.eqb_spec c BS) as [->|Hb]; [reflexivity|].
  destruct (N.eqb_spec c DQ) as [->|Hq]; [reflexivity|].
  simpl. apply N.eqb_neq in Hb. rewrite Hb. reflexivity.
Qed.

Lemma unescape_escape m : unescape (escape m) = m.
Proof.
  induction m as [|c m IH]; [reflexivity|].
  unfold escape in *. simpl. rewrite unescape_esc, IH. reflexivity.
Qed.

(* ---------------------------------------------------------------- strip on strings with clean edges *)
Definition last_ns (s : str) : bool := match rev s with c :: _ => negb (is_space c) | [] => false end.
Definition first_ns (s : str) : bool := match s with c :: _ => negb (is_space c) | [] => false end.

Lemma edges_ok_split p : edges_ok p = first_ns p && last_ns p.
Proof. reflexivity. Qed.

Lemma lstrip_first_ns s : first_ns s = true -> lstrip_ws s = s.
Proof. destruct s as [|c s]; [discriminate|]. simpl. intros H. apply negb_true_iff in H. rewrite H. reflexivity. Qed.

Lemma rstrip_last_ns s : last_ns s = true -> rstrip_ws s = s.
Proof.
  unfold last_ns, rstrip_ws. destruct (rev s) as [|c r] eqn:E; [discriminate|].
  intros H. apply negb_true_iff in H. simpl. rewrite H. rewrite <- E. apply rev_involutive.
Qed.

Lemma strip_edges s : first_ns s = true -> last_ns s = true -> strip_ws s = s.
Proof. intros H1 H2. unfold strip_ws. rewrite (lstrip_first_ns s H1). apply rstrip_last_ns; exact H2. Qed.

Lemma last_ns_nonempty s : last_ns s = true -> s <> [].
Proof. intros H ->. discriminate. Qed.

Lemma last_ns_app a b : last_ns b = true -> last_ns (a ++ b) = true.
Proof.
  unfold last_ns. rewrite rev_app_distr. destruct (rev b); [discriminate|]. simpl. auto.
Qed.

Lemma first_ns_app a b : first_ns a = true -> first_ns (a ++ b) = true.
Proof. destruct a; [discriminate|]. simpl. auto. Qed.

Lemma rstrip_app_sp s : last_ns s = true -> rstrip_ws (s ++ [SP]) = s.
Proof.
  intros H. unfold rstrip_ws. rewrite rev_app_distr. simpl.
  apply (rstrip_last_ns s H).
Qed.

(* ---------------------------------------------------------------- split(None, 1) on  d SP body *)
Lemma span_ns_app d r : no_space d = true -> span_ns (d ++ SP :: r) = (d, SP :: r).
Proof.
  induction d as [|c d IH]; simpl.
  - rewrite ?sp_SP. reflexivity.
  - intros H. apply andb_true_iff in H as [H1 H2]. apply negb_true_iff in H1. rewrite H1.
    rewrite (IH H2). reflexivity.
Qed.

Lemma split1_written d b :
  d <> [] -> no_space d = true -> first_ns b = true -> split1 (d ++ SP :: b) = [d; b].
Proof.
  intros Hd Hns Hb. unfold split1.
  destruct d as [|c d]; [congruence|]. simpl in Hns. apply andb_true_iff in Hns as [H1 H2].
  apply negb_true_iff in H1 as H1'.
  change ((c :: d) ++ SP :: b) with (c :: (d ++ SP :: b)).
  rewrite (lstrip_id c _ H1').
  change (c :: d ++ SP :: b) with ((c :: d) ++ SP :: b).
  rewrite span_ns_app by (simpl; rewrite H1, H2; reflexivity).
  simpl lstrip_ws at 1. rewrite ?sp_SP. rewrite (lstrip_first_ns b Hb).
  destruct b; [discriminate|reflexivity].
Qed.

(* ---------------------------------------------------------------- the backwards scan *)
(* reversed escape blocks *)
Definition rblock (c : N) : str := if N.eqb c BS then [BS; BS] else if N.eqb c DQ then [DQ; BS] else [c].
Definition resc (m : str) : str := flat_map rblock m.

Lemma rev_esc_ch c : rev (esc_ch c) = rblock c.
Proof. unfold esc_ch, rblock. destruct (N.eqb c BS); [reflexivity|]. destruct (N.eqb c DQ); reflexivity. Qed.

Lemma rev_escape m : rev (escape m) = resc (rev m).
Proof.
  induction m as [|c m IH]; [reflexivity|].
  unfold escape, resc in *. simpl. rewrite rev_app_distr, IH, rev_esc_ch, flat_map_app. simpl.
  rewrite app_nil_r. reflexivity.
Qed.

Lemma count_bs_resc m t : Nat.odd (count_bs (resc m ++ DQ :: t)) = false.
Proof.
  induction m as [|c m IH]; [reflexivity|].
  unfold resc in *. simpl. unfold rblock at 1.
  destruct (N.eqb_spec c BS) as [->|Hb].
  - simpl app. simpl count_bs. exact IH.
  - apply N.eqb_neq in Hb. destruct (N.eqb_spec c DQ) as [->|Hq]; simpl; [reflexivity|].
    rewrite Hb. reflexivity.
Qed.

Lemma find_open_resc m t acc :
  find_open (resc m ++ DQ :: SP :: t) acc = Some (SP :: t, escape (rev m) ++ acc).
Proof.
  revert acc. induction m as [|c m IH]; intros acc.
  - simpl. rewrite ?sp_SP. reflexivity.
  - unfold resc in *. simpl flat_map. unfold rblock at 1.
    replace (escape (rev (c :: m)) ++ acc) with (escape (rev m) ++ esc_ch c ++ acc)
      by (unfold escape; simpl; rewrite flat_map_app; simpl; rewrite app_nil_r, app_assoc; reflexivity).
    unfold esc_ch.
    destruct (N.eqb_spec c BS) as [->|Hb].
    + simpl. apply IH.
    + apply N.eqb_neq in Hb. destruct (N.eqb_spec c DQ) as [->|Hq].
      * simpl. rewrite ?sp_BS. simpl. apply IH.
      * apply N.eqb_neq in Hq. simpl. rewrite Hq. simpl. apply IH.
Qed.

Lemma rev_written pre m :
  rev (pre ++ [SP; DQ] ++ escape m ++ [DQ]) = DQ :: resc (rev m) ++ DQ :: SP :: rev pre.
Proof.
  rewrite !rev_app_distr. simpl. rewrite rev_escape. rewrite <- app_assoc. reflexivity.
Qed.

Lemma extract_written pre m :
  last_ns pre = true -> extract_message (pre ++ [SP; DQ] ++ escape m ++ [DQ]) = Ok (pre, Some m).
Proof.
  intros Hpre. unfold extract_message.
  assert (Hl : last_ns (pre ++ [SP; DQ] ++ escape m ++ [DQ]) = true).
  { rewrite !app_assoc. apply last_ns_app. reflexivity. }
  rewrite (rstrip_last_ns _ Hl), rev_written. rewrite N.eqb_refl.
  rewrite count_bs_resc, find_open_resc.
  change (rev (SP :: rev pre)) with (rev (rev pre) ++ [SP]). rewrite rev_involutive.
  rewrite (rstrip_app_sp pre Hpre), app_nil_r, rev_involutive, unescape_escape.
  destruct pre; [discriminate|reflexivity].
Qed.

Lemma extract_no_quote s : last_ns s = true -> last_ch s <> Some DQ -> extract_message s = Ok (s, None).
Proof.
  intros Hl Hq. unfold extract_message. rewrite (rstrip_last_ns s Hl).
  unfold last_ch in Hq. destruct (rev s) as [|c r]; [reflexivity|].
  destruct (N.eqb_spec c DQ) as [->|_]; [congruence|reflexivity].
Qed.

Lemma extract_anchor p : extract_message (p ++ [SP; BAR]) = Ok (p ++ [SP; BAR], None).
Proof.
  apply extract_no_quote.
  - apply last_ns_app. reflexivity.
  - unfold last_ch. rewrite rev_app_distr. simpl. discriminate.
Qed.

(* ---------------------------------------------------------------- the anchor *)
Lemma anchor_written p : last_ns p = true -> strip_exact_anchor (p ++ [SP; BAR]) = (p, true).
Proof.
  intros H. unfold strip_exact_anchor. rewrite rev_app_distr. simpl.
  change (rev (rev p) ++ [SP]) with (rev (rev p) ++ [SP]). rewrite rev_involutive, (rstrip_app_sp p H). reflexivity.
Qed.

Lemma anchor_absent p : ends_with_bar p = false -> strip_exact_anchor p = (p, false).
Proof.
  unfold ends_with_bar, strip_exact_anchor. destruct (rev p) as [|c r]; [reflexivity|]. intros ->. reflexivity.
Qed.

(* ---------------------------------------------------------------- directive names *)
Lemma rule_dirs_names sp : In sp rule_dirs ->
  d_name sp <> [] /\ no_space (d_name sp) = true /\ first_ns (d_name sp) = true /\
  lower (d_name sp) = d_name sp /\ find_dir (d_name sp) rule_dirs = Some sp /\
  prefixb [HASH] (d_name sp) = false.
Proof.
  intros H. repeat (destruct H as [<-|H]; [vm_compute; repeat split; discriminate|]). destruct H.
Qed.

(* the same, reached through the name only (wf_value) *)
Lemma rule_dirs_by_name sp :
  existsb (fun x => str_eqb (d_name x) (d_name sp)) rule_dirs = true ->
  exists sp', In sp' rule_dirs /\ d_name sp' = d_name sp.
Proof.
  intros H. apply existsb_exists in H as [x [Hin He]]. apply str_eqb_eq in He. eauto.
Qed.

Section Round.
  Variable home : option str.
  Variable expu : str -> eu_result.
  Notation step := (step home expu).
  Notation wf_rule := (wf_rule home).

  Definition anc (ex : bool) : str := if ex then [SP; BAR] else [].
  Definition msgpart (m : option str) : str := match m with Some m => [SP; DQ] ++ escape m ++ [DQ] | None => [] end.

  Lemma write_rule_shape sp p ex m : write_rule sp p ex m = d_name sp ++ SP :: (p ++ anc ex ++ msgpart m).
  Proof. reflexivity. Qed.

  Lemma body_edges p ex m : edges_ok p = true ->
    first_ns (p ++ anc ex ++ msgpart m) = true /\ last_ns (p ++ anc ex ++ msgpart m) = true.
  Proof.
    rewrite edges_ok_split. intros H. apply andb_true_iff in H as [H1 H2]. split.
    - apply first_ns_app; exact H1.
    - destruct m as [m|].
      + unfold msgpart. rewrite !app_assoc. apply last_ns_app. reflexivity.
      + unfold msgpart. rewrite app_nil_r. destruct ex; simpl.
        * apply last_ns_app. reflexivity.
        * rewrite app_nil_r. exact H2.
  Qed.

  Lemma last_ns_pre p ex : last_ns p = true -> last_ns (p ++ anc ex) = true.
  Proof. intros H. destruct ex; simpl; [apply last_ns_app; reflexivity|rewrite app_nil_r; exact H]. Qed.

  (* do_rule on a written body gives the rule back *)
  Lemma do_rule_written sp p ex m :
    wf_rule sp p ex m = true -> do_rule home sp (p ++ anc ex ++ msgpart m) = Ok (rule_effect sp p ex m).
  Proof.
    unfold ConfigText.wf_rule. intros H.
    apply andb_true_iff in H as [H Hnm]. apply andb_true_iff in H as [H Hbar].
    apply andb_true_iff in H as [H Hmsg]. apply andb_true_iff in H as [H Hex].
    apply andb_true_iff in H as [Hedges Htilde].
    destruct (body_edges p ex m Hedges) as [Hf Hl].
    rewrite edges_ok_split in Hedges. apply andb_true_iff in Hedges as [Hpf Hpl].
    unfold do_rule.
    assert (Hne : nonempty (p ++ anc ex ++ msgpart m) = true).
    { destruct p; [discriminate|reflexivity]. }
    rewrite Hne.
    (* message stage *)
    match goal with |- bind ?x _ = _ => assert (E1 : x = Ok (p ++ anc ex, m)) end.
    { destruct m as [m|].
      - rewrite Hmsg. unfold msgpart. rewrite app_assoc. apply extract_written. apply last_ns_pre; exact Hpl.
      - unfold msgpart. rewrite !app_nil_r. destruct (d_msg sp); [|reflexivity].
        destruct ex; simpl anc.
        + apply extract_anchor.
        + rewrite app_nil_r. simpl in Hnm. unfold no_message in Hnm.
          destruct (extract_message p) as [[p' [|]]|]; try discriminate.
          apply str_eqb_eq in Hnm. subst p'. reflexivity. }
    rewrite E1. simpl bind. simpl fst. simpl snd.
    (* anchor stage *)
    match goal with |- context [if d_anchor sp then ?a else ?b] => assert (E2 : (if d_anchor sp then a else b) = (p, ex)) end.
    { destruct (d_anchor sp).
      - destruct ex; simpl anc.
        + apply anchor_written; exact Hpl.
        + rewrite app_nil_r. simpl in Hbar. apply negb_true_iff in Hbar. apply anchor_absent; exact Hbar.
      - destruct ex; [discriminate|]. simpl. rewrite app_nil_r. reflexivity. }
    rewrite E2. simpl fst. simpl snd.
    (* tilde stage *)
    match goal with |- bind ?x _ = _ => assert (E3 : x = Ok p) end.
    { destruct (d_tilde sp); [|reflexivity]. unfold tilde_fixed in Htilde.
      destruct (expand_tildes home p) as [p'|]; [|discriminate]. apply str_eqb_eq in Htilde. subst; reflexivity. }
    rewrite E3. reflexivity.
  Qed.

  (* one loop iteration on a written rule line *)
  Lemma step_written g sp p ex m :
    In sp rule_dirs -> wf_rule sp p ex m = true ->
    step g (write_rule sp p ex m) = Ok (Some (rule_effect sp p ex m)).
  Proof.
    intros Hin Hwf.
    destruct (rule_dirs_names sp Hin) as [Hne [Hns [Hfn [Hlow [Hfind Hhash]]]]].
    assert (Hedges : edges_ok p = true).
    { pose proof Hwf as Hw. unfold ConfigText.wf_rule in Hw. do 5 (apply andb_true_iff in Hw as [Hw _]). exact Hw. }
    destruct (body_edges p ex m Hedges) as [Hf Hl].
    unfold ConfigText.step, pre_line. rewrite write_rule_shape.
    set (b := p ++ anc ex ++ msgpart m) in *.
    assert (Hstrip : strip_ws (d_name sp ++ SP :: b) = d_name sp ++ SP :: b).
    { apply strip_edges.
      - apply first_ns_app; exact Hfn.
      - apply (last_ns_app (d_name sp ++ [SP]) b) in Hl. rewrite <- app_assoc in Hl. exact Hl. }
    rewrite Hstrip.
    assert (Hnonempty : nonempty (d_name sp ++ SP :: b) = true).
    { destruct (d_name sp); [congruence|reflexivity]. }
    rewrite Hnonempty. cbn [negb orb].
    assert (Hh : prefixb [HASH] (d_name sp ++ SP :: b) = false).
    { destruct (d_name sp) as [|c r]; [congruence|]. simpl in Hhash |- *. rewrite andb_true_r in Hhash |- *. exact Hhash. }
    rewrite Hh.
    rewrite (split1_written _ _ Hne Hns Hf), Hlow, (strip_edges b Hf Hl).
    unfold body. rewrite Hfind. unfold b. rewrite (do_rule_written sp p ex m Hwf). reflexivity.
  Qed.
End Round.

(* ---------------------------------------------------------------- whole files: split("\n") . join("\n") *)
Lemma no_nl_cons x a : no_nl (x :: a) = true -> N.eqb x NL = false /\ no_nl a = true.
Proof.
  unfold no_nl, mem_ch. cbn [existsb]. intros H. apply negb_true_iff in H. apply orb_false_elim in H as [H1 H2].
  rewrite N.eqb_sym in H1. rewrite H2. auto.
Qed.
Lemma no_nl_app a b : no_nl (a ++ b) = no_nl a && no_nl b.
Proof. unfold no_nl, mem_ch. rewrite existsb_app, negb_orb. reflexivity. Qed.
Lemma no_nl_escape m : no_nl m = true -> no_nl (escape m) = true.
Proof.
  induction m as [|c m IH]; [reflexivity|]. intros H. apply no_nl_cons in H as [H1 H2].
  unfold escape in *. simpl. rewrite no_nl_app, (IH H2), andb_true_r.
  unfold esc_ch. destruct (N.eqb c BS); [reflexivity|]. destruct (N.eqb c DQ); [reflexivity|].
  unfold no_nl, mem_ch. cbn [existsb]. rewrite N.eqb_sym, H1. reflexivity.
Qed.

Lemma split_ch_aux_app a rest cur :
  no_nl a = true -> split_ch_aux NL (a ++ rest) cur = split_ch_aux NL rest (rev a ++ cur).
Proof.
  revert cur. induction a as [|x a IH]; intros cur H; [reflexivity|].
  apply no_nl_cons in H as [H1 H2]. simpl. rewrite H1, (IH _ H2), <- app_assoc. reflexivity.
Qed.

Lemma split_join ls : ls <> [] -> Forall (fun l => no_nl l = true) ls -> split_ch NL (join [NL] ls) = ls.
Proof.
  induction ls as [|x ls IH]; [congruence|]. intros _ H. inversion H as [|? ? Hx Hls]; subst.
  unfold split_ch in *. destruct ls as [|y ls].
  - simpl. rewrite <- (app_nil_r x) at 1. rewrite (split_ch_aux_app x [] [] Hx). simpl.
    rewrite app_nil_r, rev_involutive. reflexivity.
  - change (join [NL] (x :: y :: ls)) with (x ++ [NL] ++ join [NL] (y :: ls)).
    rewrite (split_ch_aux_app x _ [] Hx). simpl app. simpl split_ch_aux at 1. 
    rewrite app_nil_r, rev_involutive. f_equal. apply IH; [discriminate|exact Hls].
Qed.

Lemma find_dir_In d l sp : find_dir d l = Some sp -> In sp l /\ d_name sp = d.
Proof.
  induction l as [|x l IH]; simpl; [discriminate|].
  destruct (str_eqb_spec d (d_name x)) as [->|_].
  - intros H; injection H as <-. auto.
  - intros H. destruct (IH H). auto.
Qed.

Section RoundText.
  Variable home : option str.
  Variable expu : str -> eu_result.

  Lemma write_value_rule v sp : spec_of v = Some sp -> write_value v = write_rule sp (v_pat v) (v_exact v) (v_msg v).
  Proof. intros H. apply find_dir_In in H as [_ H]. unfold write_value, write_rule. rewrite H. reflexivity. Qed.

  Lemma step_value g v : wf_value home v = true -> step home expu g (write_value v) = Ok (value_effect v).
  Proof.
    unfold wf_value, value_effect. destruct (spec_of v) as [sp|] eqn:E; [|discriminate]. intros Hwf.
    rewrite (write_value_rule v sp E). apply find_dir_In in E as [Hin _].
    apply step_written; assumption.
  Qed.

  Lemma write_value_no_nl v : wf_value home v = true -> one_line v = true -> no_nl (write_value v) = true.
  Proof.
    unfold wf_value, one_line. destruct (spec_of v) as [sp|] eqn:E; [|discriminate]. intros _ H.
    apply andb_true_iff in H as [Hp Hm].
    apply find_dir_In in E as [Hin Hname]. unfold write_value. rewrite <- Hname.
    assert (Hd : no_nl (d_name sp) = true).
    { clear -Hin. repeat (destruct Hin as [<-|Hin]; [vm_compute; reflexivity|]). destruct Hin. }
    assert (Ha : no_nl (if v_exact v then [SP; BAR] else []) = true) by (destruct (v_exact v); reflexivity).
    assert (Hmm : no_nl (match v_msg v with Some m => [SP; DQ] ++ escape m ++ [DQ] | None => [] end) = true).
    { destruct (v_msg v) as [m|]; [|reflexivity]. rewrite !no_nl_app, (no_nl_escape m Hm). reflexivity. }
    rewrite !no_nl_app. repeat (apply andb_true_iff; split); first [exact Hp|exact Hd|exact Ha|exact Hmm|reflexivity].
  Qed.

  Lemma run_values vs st :
    Forall (fun v => wf_value home v = true) vs ->
    run home expu (map write_value vs) st = fold_left (fun st v => apply_opt (value_effect v) st) vs st.
  Proof.
    revert st. induction vs as [|v vs IH]; intros st H; [reflexivity|].
    inversion H as [|? ? Hv Hvs]; subst. simpl map. rewrite run_cons. unfold eff.
    rewrite (step_value true v Hv). simpl. apply IH; exact Hvs.
  Qed.

  Lemma roundtrip_text h vs :
    home = Some h -> vs <> [] ->
    Forall (fun v => wf_value home v = true) vs -> Forall (fun v => one_line v = true) vs ->
    parse_config home expu (write_config vs)
    = Ok (config_of (fold_left (fun st v => apply_opt (value_effect v) st) vs init)).
  Proof.
    intros Hh Hne Hwf Hone. rewrite (parse_config_total home expu h _ Hh). unfold lines_of, write_config.
    rewrite split_join.
    - rewrite (run_values vs init Hwf). reflexivity.
    - destruct vs; [congruence|discriminate].
    - apply Forall_forall. intros l Hl. apply in_map_iff in Hl as [v [<- Hv]].
      rewrite Forall_forall in Hwf, Hone. apply write_value_no_nl; auto.
  Qed.

  (* ---------------------------------------------------------------- alias lines *)
  Lemma split_all_aux_app t rest cur :
    no_space t = true -> split_all_aux (t ++ rest) cur = split_all_aux rest (rev t ++ cur).
  Proof.
    revert cur. induction t as [|c t IH]; intros cur H; [reflexivity|].
    simpl in H. apply andb_true_iff in H as [H1 H2]. apply negb_true_iff in H1.
    simpl. rewrite H1, (IH _ H2), <- app_assoc. reflexivity.
  Qed.

  Definition word (t : str) : bool := nonempty t && no_space t.

  Lemma split_all_join ts : Forall (fun t => word t = true) ts -> split_all (join [SP] ts) = ts.
  Proof.
    unfold split_all. induction ts as [|t ts IH]; [reflexivity|]. intros H.
    inversion H as [|? ? Ht Hts]; subst. apply andb_true_iff in Ht as [Hne Hns].
    destruct ts as [|u ts].
    - simpl. rewrite <- (app_nil_r t) at 1. rewrite (split_all_aux_app t [] [] Hns). simpl.
      rewrite app_nil_r. destruct t as [|c t]; [discriminate|].
      destruct (rev (c :: t)) eqn:E; [apply (f_equal (@length N)) in E; rewrite rev_length in E; discriminate|].
      rewrite <- E, rev_involutive. reflexivity.
    - change (join [SP] (t :: u :: ts)) with (t ++ [SP] ++ join [SP] (u :: ts)).
      rewrite (split_all_aux_app t _ [] Hns). simpl app. simpl split_all_aux at 1. rewrite app_nil_r.
      destruct t as [|c t]; [discriminate|].
      destruct (rev (c :: t)) eqn:E; [apply (f_equal (@length N)) in E; rewrite rev_length in E; discriminate|].
      rewrite <- E, rev_involutive. f_equal. apply IH; exact Hts.
  Qed.

  (* explicit form of the tilde condition: words joined by single blanks, none of them ~ or ~/x *)
  Lemma mapM_id ts : Forall (fun t => is_home_kind t = false) ts -> mapM (expand_home_only home) ts = Ok ts.
  Proof.
    induction ts as [|t ts IH]; [reflexivity|]. intros H. inversion H as [|? ? Ht Hts]; subst.
    simpl. unfold expand_home_only at 1. unfold is_home_kind in Ht.
    destruct (classify_token t); try discriminate; simpl; rewrite (IH Hts); reflexivity.
  Qed.

  Lemma tilde_fixed_words ts :
    Forall (fun t => word t = true) ts -> Forall (fun t => is_home_kind t = false) ts ->
    tilde_fixed home (join [SP] ts) = true.
  Proof.
    intros Hw Hk. unfold tilde_fixed, expand_tildes. rewrite (split_all_join ts Hw), (mapM_id ts Hk). simpl.
    apply str_eqb_refl.
  Qed.

  Lemma no_message_plain p : last_ns p = true -> last_ch p <> Some DQ -> no_message p = true.
  Proof. intros H1 H2. unfold no_message. rewrite (extract_no_quote p H1 H2). apply str_eqb_refl. Qed.

  Lemma step_alias g src tgt :
    wf_alias home src tgt = true -> step home expu g (write_alias src tgt) = Ok (Some (EAlias src tgt)).
  Proof.
    unfold wf_alias. intros H. apply andb_true_iff in H as [H Hexp]. apply andb_true_iff in H as [H Hnt].
    apply andb_true_iff in H as [H Hns]. apply andb_true_iff in H as [Hsrc Htgt].
    assert (Hws : word src = true) by (unfold word; rewrite Hsrc, Hns; reflexivity).
    assert (Hwt : word tgt = true) by (unfold word; rewrite Htgt, Hnt; reflexivity).
    assert (Hf : first_ns (src ++ SP :: tgt) = true).
    { destruct src as [|c s]; [discriminate|]. simpl in Hns. apply andb_true_iff in Hns as [Hc _]. exact Hc. }
    assert (Hl : last_ns (src ++ SP :: tgt) = true).
    { change (src ++ SP :: tgt) with (src ++ [SP] ++ tgt). rewrite app_assoc. apply last_ns_app.
      unfold last_ns. destruct (rev tgt) as [|c r] eqn:E.
      - apply (f_equal (@length N)) in E. rewrite rev_length in E. destruct tgt; discriminate.
      - assert (Hin : In c tgt) by (apply in_rev; rewrite E; left; reflexivity).
        unfold no_space in Hnt. rewrite forallb_forall in Hnt. apply Hnt; exact Hin. }
    unfold step, pre_line, write_alias.
    change ($"alias" ++ [SP] ++ src ++ [SP] ++ tgt) with ($"alias" ++ SP :: (src ++ SP :: tgt)).
    set (b := src ++ SP :: tgt) in *.
    assert (Hstrip : strip_ws ($"alias" ++ SP :: b) = $"alias" ++ SP :: b).
    { apply strip_edges; [reflexivity|].
      apply (last_ns_app ($"alias" ++ [SP]) b) in Hl. rewrite <- app_assoc in Hl. exact Hl. }
    rewrite Hstrip. change (nonempty ($"alias" ++ SP :: b)) with true. cbn [negb orb].
    change (prefixb [HASH] ($"alias" ++ SP :: b)) with false.
    rewrite (split1_written $"alias" b); [|discriminate|reflexivity|exact Hf].
    change (lower $"alias") with $"alias". rewrite (strip_edges b Hf Hl).
    change (body home expu g $"alias" b) with (do_alias home b).
    unfold do_alias, b. change (src ++ SP :: tgt) with (join [SP] [src; tgt]).
    rewrite split_all_join by (repeat constructor; assumption).
    unfold expand_tildes. change (split_all src) with (split_all (join [SP] [src])).
    rewrite split_all_join by (repeat constructor; assumption).
    simpl mapM. destruct (expand_home_only home src) as [s'|]; [|discriminate].
    apply str_eqb_eq in Hexp. subst s'. reflexivity.
  Qed.
End RoundText.

(* ---------------------------------------------------------------- loading stage *)
Section Load.
  Variable home : option str.
  Variable expu : str -> eu_result.

  Lemma load_layers_unusable rs acc :
    existsb unusable rs = true -> load_layers home expu rs acc = ConfigError \/ load_layers home expu rs acc = Propagated.
  Proof.
    revert acc. induction rs as [|r rs IH]; intros acc H; [discriminate|].
    simpl in H. simpl load_layers.
    destruct r; simpl in *; auto.
    - destruct (parse_config home expu t); simpl; auto.
  Qed.

  Lemma config_stage_unusable rs :
    existsb unusable rs = true -> config_stage home expu rs = AnswerAsk \/ config_stage home expu rs = AnswerDefer.
  Proof.
    intros H. unfold config_stage. destruct (load_layers_unusable rs [] H) as [-> | ->]; auto.
  Qed.

  (* the other direction: the analysis runs only if every present layer was read, decoded and parsed *)
  Lemma load_layers_loaded rs acc cs :
    load_layers home expu rs acc = Loaded cs -> existsb unusable rs = false.
  Proof.
    revert acc. induction rs as [|r rs IH]; intros acc; [reflexivity|].
    simpl. destruct r; simpl; try discriminate; eauto.
    destruct (parse_config home expu t); simpl; [eauto|discriminate].
  Qed.
End Load.

(* ---------------------------------------------------------------- what is false *)
(* before the repairs: an unexpandable log path ended the loop, and a message containing a line
   separator other than \n did not survive *)
Definition eu_nosuchuser (v : str) : eu_result := if prefixb $"~nosuchuser" v then EURuntime else EUOk v.

Lemma legacy_total_refuted :
  legacy_parse_config (Some $"/h") eu_nosuchuser ($"deny rm" ++ [NL] ++ $"set log ~nosuchuser/x") = Exn RuntimeError.
Proof. vm_compute. reflexivity. Qed.
Lemma head_total_witness :
  exists c, parse_config (Some $"/h") eu_nosuchuser ($"deny rm" ++ [NL] ++ $"set log ~nosuchuser/x") = Ok c
            /\ List.length (c_rules c) = 1%nat.
Proof. eexists. split; vm_compute; reflexivity. Qed.

Definition v_ls : rule_value := mkrv $"deny" $"rm" false (Some [97; 8232; 98]).   (* message a U+2028 b *)
Lemma legacy_roundtrip_refuted :
  wf_value (Some $"/h") v_ls = true /\ one_line v_ls = true /\
  exists c, legacy_parse_config (Some $"/h") eu_nosuchuser (write_config [v_ls]) = Ok c
            /\ c_rules c = [mkrule $"deny" ($"rm " ++ [DQ; 97]) None false].
Proof. split; [vm_compute; reflexivity|]. split; [vm_compute; reflexivity|]. eexists. split; vm_compute; reflexivity. Qed.

(* without a determinable home directory the loop is left by RuntimeError (Path.home() in
   _expand_home_only is outside the reach of `except ValueError`) *)
Lemma total_needs_home : parse_config None eu_nosuchuser $"allow ~/bin/x" = Exn RuntimeError.
Proof. vm_compute. reflexivity. Qed.

(* ---------------------------------------------------------------- concatenating texts (used by the layer model, C10) *)
Lemma split_ch_aux_sep c a b cur :
  split_ch_aux c (a ++ c :: b) cur = split_ch_aux c a cur ++ split_ch_aux c b [].
Proof.
  revert cur. induction a as [|x a IH]; intros cur; simpl.
  - rewrite N.eqb_refl. reflexivity.
  - destruct (N.eqb x c); [rewrite IH; reflexivity|apply IH].
Qed.

Lemma lines_of_app a b : lines_of (a ++ [NL] ++ b) = lines_of a ++ lines_of b.
Proof. unfold lines_of, split_ch. apply split_ch_aux_sep. Qed.

Lemma parse_config_app home expu h a b :
  home = Some h ->
  parse_config home expu (a ++ [NL] ++ b)
  = Ok (config_of (run home expu (lines_of b) (run home expu (lines_of a) init))).
Proof.
  intros Hh. rewrite (parse_config_total home expu h _ Hh), lines_of_app, run_app. reflexivity.
Qed.
