(* Round-trip lemmas of the config-text model: unescape/escape, the backwards scan of
   _extract_message over written messages, write_rule followed by one loop iteration. *)
From DippyV Require Import Base.Str Gen.Tables Model.ConfigText Proofs.ConfigTextP.

Local Arguments is_space : simpl never.

(* ---------------------------------------------------------------- unescape . escape = id *)
Lemma unescape_esc c s : unescape (esc_ch c ++ s) = c :: unescape s.
Proof.
  unfold esc_ch. destruct (N.eqb_spec c BS) as [->|Hb]; [reflexivity|].
  destruct (N.eqb_spec c DQ) as [->|Hq]; [reflexivity|].
  simpl. apply N.eqb_neq in Hb. rewrite Hb. reflexivity.
Qed.

Lemma unescape_escape m : unescape (escape m) = m.
Proof.
  induction m as [|c m IH]; [reflexivity|].
  unfold escape in *. simpl. rewrite unescape_esc, IH. reflexivity.
Qed.

(* ---------------------------------------------------------------- strip on strings with clean edges *)
Definition last_ns (s : str) : bool := match rev s with c :: _ => negb (is_space c) | [] => false end.
Definition first_ns (s : str) : bool := match s with c :: _ => negb (is_space c) | [] => false end.

Lemma edges_ok_split p : edges_ok p = first_ns p && last_ns p.
Proof. reflexivity. Qed.

Lemma lstrip_first_ns s : first_ns s = true -> lstrip_ws s = s.
Proof. destruct s as [|c s]; [discriminate|]. simpl. intros H. apply negb_true_iff in H. rewrite H. reflexivity. Qed.

Lemma rstrip_last_ns s : last_ns s = true -> rstrip_ws s = s.
Proof.
  unfold last_ns, rstrip_ws. destruct (rev s) as [|c r] eqn:E; [discriminate|].
  intros H. apply negb_true_iff in H. simpl. rewrite H. rewrite <- E. apply rev_involutive.
Qed.

Lemma strip_edges s : first_ns s = true -> last_ns s = true -> strip_ws s = s.
Proof. intros H1 H2. unfold strip_ws. rewrite (lstrip_first_ns s H1). apply rstrip_last_ns; exact H2. Qed.

Lemma last_ns_nonempty s : last_ns s = true -> s <> [].
Proof. intros H ->. discriminate. Qed.

Lemma last_ns_app a b : last_ns b = true -> last_ns (a ++ b) = true.
Proof.
  unfold last_ns. rewrite rev_app_distr. destruct (rev b); [discriminate|]. simpl. auto.
Qed.

Lemma first_ns_app a b : first_ns a = true -> first_ns (a ++ b) = true.
Proof. destruct a; [discriminate|]. simpl. auto. Qed.

Lemma rstrip_app_sp s : last_ns s = true -> rstrip_ws (s ++ [SP]) = s.
Proof.
  intros H. unfold rstrip_ws. rewrite rev_app_distr. simpl.
  apply (rstrip_last_ns s H).
Qed.

(* ---------------------------------------------------------------- split(None, 1) on  d SP body *)
Lemma span_ns_app d r : no_space d = true -> span_ns (d ++ SP :: r) = (d, SP :: r).
Proof.
  induction d as [|c d IH]; simpl.
  - rewrite ?sp_SP. reflexivity.
  - intros H. apply andb_true_iff in H as [H1 H2]. apply negb_true_iff in H1. rewrite H1.
    rewrite (IH H2). reflexivity.
Qed.

Lemma split1_written d b :
  d <> [] -> no_space d = true -> first_ns b = true -> split1 (d ++ SP :: b) = [d; b].
Proof.
  intros Hd Hns Hb. unfold split1.
  destruct d as [|c d]; [congruence|]. simpl in Hns. apply andb_true_iff in Hns as [H1 H2].
  apply negb_true_iff in H1 as H1'.
  change ((c :: d) ++ SP :: b) with (c :: (d ++ SP :: b)).
  rewrite (lstrip_id c _ H1').
  change (c :: d ++ SP :: b) with ((c :: d) ++ SP :: b).
  rewrite span_ns_app by (simpl; rewrite H1, H2; reflexivity).
  simpl lstrip_ws at 1. rewrite ?sp_SP. rewrite (lstrip_first_ns b Hb).
  destruct b; [discriminate|reflexivity].
Qed.

(* ---------------------------------------------------------------- the backwards scan *)
(* reversed escape blocks *)
Definition rblock (c : N) : str := if N.eqb c BS then [BS; BS] else if N.eqb c DQ then [DQ; BS] else [c].
Definition resc (m : str) : str := flat_map rblock m.

Lemma rev_esc_ch c : rev (esc_ch c) = rblock c.
Proof. unfold esc_ch, rblock. destruct (N.eqb c BS); [reflexivity|]. destruct (N.eqb c DQ); reflexivity. Qed.

Lemma rev_escape m : rev (escape m) = resc (rev m).
Proof.
  induction m as [|c m IH]; [reflexivity|].
  unfold escape, resc in *. simpl. rewrite rev_app_distr, IH, rev_esc_ch, flat_map_app. simpl.
  rewrite app_nil_r. reflexivity.
Qed.

Lemma count_bs_resc m t : Nat.odd (count_bs (resc m ++ DQ :: t)) = false.
Proof.
  induction m as [|c m IH]; [reflexivity|].
  unfold resc in *. simpl. unfold rblock at 1.
  destruct (N.eqb_spec c BS) as [->|Hb].
  - simpl app. simpl count_bs. exact IH.
  - apply N.eqb_neq in Hb. destruct (N.eqb_spec c DQ) as [->|Hq]; simpl; [reflexivity|].
    rewrite Hb. reflexivity.
Qed.

Lemma find_open_resc m t acc :
  find_open (resc m ++ DQ :: SP :: t) acc = Some (SP :: t, escape (rev m) ++ acc).
Proof.
  revert acc. induction m as [|c m IH]; intros acc.
  - simpl. rewrite ?sp_SP. reflexivity.
  - unfold resc in *. simpl flat_map. unfold rblock at 1.
    replace (escape (rev (c :: m)) ++ acc) with (escape (rev m) ++ esc_ch c ++ acc)
      by (unfold escape; simpl; rewrite flat_map_app; simpl; rewrite app_nil_r, app_assoc; reflexivity).
    unfold esc_ch.
    destruct (N.eqb_spec c BS) as [->|Hb].
    + simpl. apply IH.
    + apply N.eqb_neq in Hb. destruct (N.eqb_spec c DQ) as [->|Hq].
      * simpl. rewrite ?sp_BS. simpl. apply IH.
      * apply N.eqb_neq in Hq. simpl. rewrite Hq. simpl. apply IH.
Qed.

Lemma rev_written pre m :
  rev (pre ++ [SP; DQ] ++ escape m ++ [DQ]) = DQ :: resc (rev m) ++ DQ :: SP :: rev pre.
Proof.
  rewrite !rev_app_distr. simpl. rewrite rev_escape. rewrite <- app_assoc. reflexivity.
Qed.

Lemma extract_written pre m :
  last_ns pre = true -> extract_message (pre ++ [SP; DQ] ++ escape m ++ [DQ]) = Ok (pre, Some m).
Proof.
  intros Hpre. unfold extract_message.
  assert (Hl : last_ns (pre ++ [SP; DQ] ++ escape m ++ [DQ]) = true).
  { rewrite !app_assoc. apply last_ns_app. reflexivity. }
  rewrite (rstrip_last_ns _ Hl), rev_written. rewrite N.eqb_refl.
  rewrite count_bs_resc, find_open_resc.
  change (rev (SP :: rev pre)) with (rev (rev pre) ++ [SP]). rewrite rev_involutive.
  rewrite (rstrip_app_sp pre Hpre), app_nil_r, rev_involutive, unescape_escape.
  destruct pre; [discriminate|reflexivity].
Qed.

Lemma extract_no_quote s : last_ns s = true -> last_ch s <> Some DQ -> extract_message s = Ok (s, None).
Proof.
  intros Hl Hq. unfold extract_message. rewrite (rstrip_last_ns s Hl).
  unfold last_ch in Hq. destruct (rev s) as [|c r]; [reflexivity|].
  destruct (N.eqb_spec c DQ) as [->|_]; [congruence|reflexivity].
Qed.

Lemma extract_anchor p : extract_message (p ++ [SP; BAR]) = Ok (p ++ [SP; BAR], None).
Proof.
  apply extract_no_quote.
  - apply last_ns_app. reflexivity.
  - unfold last_ch. rewrite rev_app_distr. simpl. discriminate.
Qed.

(* ---------------------------------------------------------------- the anchor *)
Lemma anchor_written p : last_ns p = true -> strip_exact_anchor (p ++ [SP; BAR]) = (p, true).
Proof.
  intros H. unfold strip_exact_anchor. rewrite rev_app_distr. simpl.
  change (rev (rev p) ++ [SP]) with (rev (rev p) ++ [SP]). rewrite rev_involutive, (rstrip_app_sp p H). reflexivity.
Qed.

Lemma anchor_absent p : ends_with_bar p = false -> strip_exact_anchor p = (p, false).
Proof.
  unfold ends_with_bar, strip_exact_anchor. destruct (rev p) as [|c r]; [reflexivity|]. intros ->. reflexivity.
Qed.

(* ---------------------------------------------------------------- directive names *)
Lemma rule_dirs_names sp : In sp rule_dirs ->
  d_name sp <> [] /\ no_space (d_name sp) = true /\ first_ns (d_name sp) = true /\
  lower (d_name sp) = d_name sp /\ find_dir (d_name sp) rule_dirs = Some sp /\
  prefixb [HASH] (d_name sp) = false.
Proof.
  intros H. repeat (destruct H as [<-|H]; [vm_compute; repeat split; discriminate|]). destruct H.
Qed.

(* the same, reached through the name only (wf_value) *)
Lemma rule_dirs_by_name sp :
  existsb (fun x => str_eqb (d_name x) (d_name sp)) rule_dirs = true ->
  exists sp', In sp' rule_dirs /\ d_name sp' = d_name sp.
Proof.
  intros H. apply existsb_exists in H as [x [Hin He]]. apply str_eqb_eq in He. eauto.
Qed.

Section Round.
  Variable home : option str.
  Variable expu : str -> eu_result.
  Notation step := (step home expu).
  Notation wf_rule := (wf_rule home).

  Definition anc (ex : bool) : str := if ex then [SP; BAR] else [].
  Definition msgpart (m : option str) : str := match m with Some m => [SP; DQ] ++ escape m ++ [DQ] | None => [] end.

  Lemma write_rule_shape sp p ex m : write_rule sp p ex m = d_name sp ++ SP :: (p ++ anc ex ++ msgpart m).
  Proof. reflexivity. Qed.

  Lemma body_edges p ex m : edges_ok p = true ->
    first_ns (p ++ anc ex ++ msgpart m) = true /\ last_ns (p ++ anc ex ++ msgpart m) = true.
  Proof.
    rewrite edges_ok_split. intros H. apply andb_true_iff in H as [H1 H2]. split.
    - apply first_ns_app; exact H1.
    - destruct m as [m|].
      + unfold msgpart. rewrite !app_assoc. apply last_ns_app. reflexivity.
      + unfold msgpart. rewrite app_nil_r. destruct ex; simpl.
        * apply last_ns_app. reflexivity.
        * rewrite app_nil_r. exact H2.
  Qed.

  Lemma last_ns_pre p ex : last_ns p = true -> last_ns (p ++ anc ex) = true.
  Proof. intros H. destruct ex; simpl; [apply last_ns_app; reflexivity|rewrite app_nil_r; exact H]. Qed.

  (* do_rule on a written body gives the rule back *)
  Lemma do_rule_written sp p ex m :
    wf_rule sp p ex m = true -> do_rule home sp (p ++ anc ex ++ msgpart m) = Ok (rule_effect sp p ex m).
  Proof.
    unfold ConfigText.wf_rule. intros H.
    apply andb_true_iff in H as [H Hnm]. apply andb_true_iff in H as [H Hbar].
    apply andb_true_iff in H as [H Hmsg]. apply andb_true_iff in H as [H Hex].
    apply andb_true_iff in H as [Hedges Htilde].
    destruct (body_edges p ex m Hedges) as [Hf Hl].
    rewrite edges_ok_split in Hedges. apply andb_true_iff in Hedges as [Hpf Hpl].
    unfold do_rule.
    assert (Hne : nonempty (p ++ anc ex ++ msgpart m) = true).
    { destruct p; [discriminate|reflexivity]. }
    rewrite Hne.
    (* message stage *)
    match goal with |- bind ?x _ = _ => assert (E1 : x = Ok (p ++ anc ex, m)) end.
    { destruct m as [m|].
      - rewrite Hmsg. unfold msgpart. rewrite app_assoc. apply extract_written. apply last_ns_pre; exact Hpl.
      - unfold msgpart. rewrite !app_nil_r. destruct (d_msg sp); [|reflexivity].
        destruct ex; simpl anc.
        + apply extract_anchor.
        + rewrite app_nil_r. simpl in Hnm. unfold no_message in Hnm.
          destruct (extract_message p) as [[p' [|]]|]; try discriminate.
          apply str_eqb_eq in Hnm. subst p'. reflexivity. }
    rewrite E1. simpl bind. simpl fst. simpl snd.
    (* anchor stage *)
    match goal with |- context [if d_anchor sp then ?a else ?b] => assert (E2 : (if d_anchor sp then a else b) = (p, ex)) end.
    { destruct (d_anchor sp).
      - destruct ex; simpl anc.
        + apply anchor_written; exact Hpl.
        + rewrite app_nil_r. simpl in Hbar. apply negb_true_iff in Hbar. apply anchor_absent; exact Hbar.
      - destruct ex; [discriminate|]. simpl. rewrite app_nil_r. reflexivity. }
    rewrite E2. simpl fst. simpl snd.
    (* tilde stage *)
    match goal with |- bind ?x _ = _ => assert (E3 : x = Ok p) end.
    { destruct (d_tilde sp); [|reflexivity]. unfold tilde_fixed in Htilde.
      destruct (expand_tildes home p) as [p'|]; [|discriminate]. apply str_eqb_eq in Htilde. subst; reflexivity. }
    rewrite E3. reflexivity.
  Qed.

  (* one loop iteration on a written rule line *)
  Lemma step_written g sp p ex m :
    In sp rule_dirs -> wf_rule sp p ex m = true ->
    step g (write_rule sp p ex m) = Ok (Some (rule_effect sp p ex m)).
  Proof.
    intros Hin Hwf.
    destruct (rule_dirs_names sp Hin) as [Hne [Hns [Hfn [Hlow [Hfind Hhash]]]]].
    assert (Hedges : edges_ok p = true).
    { pose proof Hwf as Hw. unfold ConfigText.wf_rule in Hw. do 5 (apply andb_true_iff in Hw as [Hw _]). exact Hw. }
    destruct (body_edges p ex m Hedges) as [Hf Hl].
    unfold ConfigText.step, pre_line. rewrite write_rule_shape.
    set (b := p ++ anc ex ++ msgpart m) in *.
    assert (Hstrip : strip_ws (d_name sp ++ SP :: b) = d_name sp ++ SP :: b).
    { apply strip_edges.
      - apply first_ns_app; exact Hfn.
      - apply (last_ns_app (d_name sp ++ [SP]) b) in Hl. rewrite <- app_assoc in Hl. exact Hl. }
    rewrite Hstrip.
    assert (Hnonempty : nonempty (d_name sp ++ SP :: b) = true).
    { destruct (d_name sp); [congruence|reflexivity]. }
    rewrite Hnonempty. cbn [negb orb].
    assert (Hh : prefixb [HASH] (d_name sp ++ SP :: b) = false).
    { destruct (d_name sp) as [|c r]; [congruence|]. simpl in Hhash |- *. rewrite andb_true_r in Hhash |- *. exact Hhash. }
    rewrite Hh.
    rewrite (split1_written _ _ Hne Hns Hf), Hlow, (strip_edges b Hf Hl).
    unfold body. rewrite Hfind. unfold b. rewrite (do_rule_written sp p ex m Hwf). reflexivity.
  Qed.
End Round.
