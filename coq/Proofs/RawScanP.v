(* The raw-string scanner agrees with a declarative grammar of $( ... ) and backtick spans. *)
From Coq Require Import Arith PeanoNat.
From DippyV Require Import Base.Str Model.RawScan.
Local Open Scope nat_scope.

(* --- declarative grammar --- *)
Definition plainc (c : N) : Prop := c <> LP /\ c <> RP.
Inductive B : str -> Prop :=
| B_nil : B []
| B_chr c s : plainc c -> B s -> (c = DOL -> forall s', s <> LP :: s') -> B (c :: s)
| B_sub b s : B b -> B s -> B (DOL :: LP :: b ++ RP :: s).
Inductive Top : str -> list str -> Prop :=
| T_nil : Top [] []
| T_chr c s l : plainc c -> c <> BT -> (c = DOL -> forall s', s <> LP :: s') -> Top s l -> Top (c :: s) l
| T_sub b s l : B b -> Top s l -> Top (DOL :: LP :: b ++ RP :: s) (b :: l)
| T_bt b s l : ~ In BT b -> Top s l -> Top (BT :: b ++ BT :: s) (b :: l).

Lemma find_close_B b : B b -> forall d acc rest,
  find_close (S d) (b ++ RP :: rest) acc =
  match d with 0%nat => Some (acc ++ b, rest) | S d' => find_close (S d') rest (acc ++ b ++ [RP]) end.
Proof.
  induction 1 as [|c s [Hl Hr] Hs IH Hd | b s Hb IHb Hs IHs]; intros d acc rest.
  - simpl. rewrite app_nil_r. destruct d; reflexivity.
  - simpl app. cbn [find_close].
    destruct (N.eqb c DOL) eqn:Ed.
    + apply N.eqb_eq in Ed. specialize (Hd Ed).
      destruct s as [|c2 s2].
      * simpl app. replace (N.eqb RP LP) with false by reflexivity.
        specialize (IH d (acc ++ [c]) rest). simpl app in IH. rewrite IH.
        destruct d; rewrite <- ?app_assoc; reflexivity.
      * cbn [app]. destruct (N.eqb c2 LP) eqn:E2.
        { apply N.eqb_eq in E2. subst. exfalso. eapply Hd; reflexivity. }
        cbn iota. rewrite ?E2.
        specialize (IH d (acc ++ [c]) rest). cbn [app] in IH. rewrite IH.
        destruct d; rewrite <- ?app_assoc; reflexivity.
    + destruct (N.eqb c RP) eqn:Er. { apply N.eqb_eq in Er. contradiction. }
      rewrite IH. destruct d; rewrite <- ?app_assoc; reflexivity.
  - cbn [app find_close]. replace (N.eqb DOL DOL) with true by reflexivity.
    replace (N.eqb LP LP) with true by reflexivity.
    rewrite <- app_assoc. cbn [app]. rewrite (IHb (S d)). rewrite IHs.
    destruct d; repeat (rewrite <- app_assoc; cbn [app]); reflexivity.
Qed.

Lemma find_bt_spec b : ~ In BT b -> forall acc rest, find_bt (b ++ BT :: rest) acc = Some (acc ++ b, rest).
Proof.
  induction b as [|c b IH]; intros Hn acc rest; simpl.
  - rewrite app_nil_r. reflexivity.
  - destruct (N.eqb c BT) eqn:E. { apply N.eqb_eq in E. subst. exfalso. apply Hn. left; reflexivity. }
    rewrite IH. rewrite <- app_assoc. reflexivity. intro H. apply Hn. right; exact H.
Qed.

Theorem scan_agrees_with_grammar s l : Top s l -> forall fuel, length s <= fuel -> scan fuel s = l.
Proof.
  induction 1 as [| c s l [Hl Hr] Hb Hd Ht IH | b s l Hb Ht IH | b s l Hn Ht IH]; intros fuel Hf.
  - destruct fuel; reflexivity.
  - destruct fuel as [|fuel]; [simpl in Hf; lia|]. cbn [scan]. simpl in Hf.
    destruct (N.eqb c DOL) eqn:Ed.
    + apply N.eqb_eq in Ed. specialize (Hd Ed). destruct s as [|c2 s2].
      * inversion Ht; reflexivity.
      * destruct (N.eqb c2 LP) eqn:E2. { apply N.eqb_eq in E2. subst. exfalso. eapply Hd; reflexivity. }
        apply IH. simpl in *. lia.
    + destruct (N.eqb c BT) eqn:Eb. { apply N.eqb_eq in Eb. contradiction. }
      apply IH. lia.
  - destruct fuel as [|fuel]; [simpl in Hf; lia|]. cbn [scan].
    replace (N.eqb DOL DOL) with true by reflexivity. replace (N.eqb LP LP) with true by reflexivity.
    rewrite (find_close_B b Hb 0 [] s). cbn [app]. f_equal. apply IH.
    simpl in Hf. rewrite app_length in Hf. simpl in Hf. lia.
  - destruct fuel as [|fuel]; [simpl in Hf; lia|]. cbn [scan].
    replace (N.eqb BT DOL) with false by reflexivity. replace (N.eqb BT BT) with true by reflexivity.
    rewrite find_bt_spec by assumption. cbn [app]. f_equal. apply IH.
    simpl in Hf. rewrite app_length in Hf. simpl in Hf. lia.
Qed.

(* ------------------------------------------------------------------------------------------
   Every string accepted by _is_plain_raw is in the domain of the grammar: the scanner is exact
   on everything it does not answer "ask" for. *)

Lemma plain_loop_nil d t : plain_loop d t [] = Nat.eqb d 0 && Nat.even t.
Proof. reflexivity. Qed.

Lemma plain_loop_dol_lp d t s : plain_loop d t (DOL :: LP :: s) = plain_loop (S d) t s.
Proof. reflexivity. Qed.

Lemma plain_loop_other d t c s :
  c <> LP -> c <> RP -> c <> BT -> (c = DOL -> forall s', s <> LP :: s') ->
  plain_loop d t (c :: s) = plain_loop d t s.
Proof.
  intros Hl Hr Hb Hd. cbn [plain_loop].
  destruct (N.eqb_spec c DOL) as [->|Hnd].
  - destruct s as [|c2 s2]; [reflexivity|].
    destruct (N.eqb_spec c2 LP) as [->|_]; [exfalso; eapply Hd; reflexivity|reflexivity].
  - destruct (N.eqb_spec c LP); [contradiction|].
    destruct (N.eqb_spec c RP); [contradiction|].
    destruct (N.eqb_spec c BT); [contradiction|reflexivity].
Qed.

(* case analysis on the first step of the loop *)
Inductive step_case (c : N) (s : str) : Prop :=
| SC_sub s2 : c = DOL -> s = LP :: s2 -> step_case c s
| SC_lp : c = LP -> step_case c s
| SC_rp : c = RP -> step_case c s
| SC_bt : c = BT -> step_case c s
| SC_other : c <> LP -> c <> RP -> c <> BT -> (c = DOL -> forall s', s <> LP :: s') -> step_case c s.

Lemma step_cases c s : step_case c s.
Proof.
  destruct (N.eqb_spec c DOL) as [->|Hnd].
  - destruct s as [|c2 s2].
    + apply SC_other; try discriminate; intros _ s' H; discriminate.
    + destruct (N.eqb_spec c2 LP) as [->|Hn].
      * eapply SC_sub; reflexivity.
      * apply SC_other; try discriminate; intros _ s' H; injection H as H _; contradiction.
  - destruct (N.eqb_spec c LP) as [->|?]; [apply SC_lp; reflexivity|].
    destruct (N.eqb_spec c RP) as [->|?]; [apply SC_rp; reflexivity|].
    destruct (N.eqb_spec c BT) as [->|?]; [apply SC_bt; reflexivity|].
    apply SC_other; auto; intro; contradiction.
Qed.

(* inside an open $( : the loop reaches the matching ")" over a balanced, backtick-free body *)
Lemma plain_close n : forall s d t, length s <= n -> plain_loop (S d) t s = true ->
  exists b rest, s = b ++ RP :: rest /\ B b /\ plain_loop d t rest = true.
Proof.
  induction n as [|n IH]; intros s d t Hn H.
  - destruct s; [discriminate|simpl in Hn; lia].
  - destruct s as [|c s1]; [discriminate|]. simpl in Hn.
    destruct (step_cases c s1) as [s2 -> ->| -> | -> | -> | Hl Hr Hb Hd].
    + rewrite plain_loop_dol_lp in H. simpl in Hn.
      destruct (IH s2 (S d) t ltac:(lia) H) as [b1 [r1 [-> [Hb1 H1]]]].
      rewrite app_length in Hn. simpl in Hn.
      destruct (IH r1 d t ltac:(lia) H1) as [b2 [rest [-> [Hb2 H2]]]].
      exists (DOL :: LP :: b1 ++ RP :: b2), rest. split; [|split; [apply B_sub; assumption|exact H2]].
      cbn [app]. rewrite <- app_assoc. reflexivity.
    + discriminate.
    + cbn [plain_loop] in H. change (N.eqb RP DOL) with false in H. change (N.eqb RP LP) with false in H.
      change (N.eqb RP RP) with true in H. cbn iota in H.
      exists [], s1. split; [reflexivity|]. split; [constructor|exact H].
    + discriminate.
    + rewrite plain_loop_other in H by assumption.
      destruct (IH s1 d t ltac:(lia) H) as [b [rest [-> [Hbb H2]]]].
      exists (c :: b), rest. split; [reflexivity|]. split; [|exact H2].
      apply B_chr; [split; assumption|exact Hbb|].
      intros E s' Hs. destruct b as [|x b']; [discriminate Hs|].
      injection Hs as -> _. cbn [app] in Hd. eapply (Hd E). reflexivity.
Qed.

Fixpoint count_bt (s : str) : nat :=
  match s with [] => 0 | c :: r => (if N.eqb c BT then 1 else 0) + count_bt r end.

Lemma plain_parity n : forall s d t, length s <= n -> plain_loop d t s = true -> Nat.even (t + count_bt s) = true.
Proof.
  induction n as [|n IH]; intros s d t Hn H.
  - destruct s; [|simpl in Hn; lia]. rewrite plain_loop_nil in H. apply andb_true_iff in H as [_ H].
    simpl. rewrite Nat.add_0_r. exact H.
  - destruct s as [|c s1].
    { rewrite plain_loop_nil in H. apply andb_true_iff in H as [_ H]. simpl. rewrite Nat.add_0_r. exact H. }
    simpl in Hn.
    destruct (step_cases c s1) as [s2 -> ->| -> | -> | -> | Hl Hr Hb Hd].
    + rewrite plain_loop_dol_lp in H. simpl in Hn. cbn [count_bt]. change (N.eqb DOL BT) with false.
      change (N.eqb LP BT) with false. cbn [Nat.add]. apply (IH s2 (S d) t); [lia|exact H].
    + discriminate.
    + cbn [plain_loop] in H. change (N.eqb RP DOL) with false in H. change (N.eqb RP LP) with false in H.
      change (N.eqb RP RP) with true in H. cbn iota in H. destruct d; [discriminate|].
      cbn [count_bt]. change (N.eqb RP BT) with false. cbn [Nat.add]. apply (IH s1 d t); [lia|exact H].
    + cbn [plain_loop] in H. change (N.eqb BT DOL) with false in H. change (N.eqb BT LP) with false in H.
      change (N.eqb BT RP) with false in H. change (N.eqb BT BT) with true in H. cbn iota in H.
      destruct d; [|discriminate].
      cbn [count_bt]. change (N.eqb BT BT) with true. cbn iota.
      replace (t + (1 + count_bt s1)) with (S t + count_bt s1) by lia. apply (IH s1 0 (S t)); [lia|exact H].
    + rewrite plain_loop_other in H by assumption. cbn [count_bt].
      destruct (N.eqb_spec c BT); [contradiction|]. cbn [Nat.add]. apply (IH s1 d t); [lia|exact H].
Qed.

Lemma count_bt_zero s : count_bt s = 0 -> ~ In BT s.
Proof.
  induction s as [|c s IH]; [intros _ []|]. cbn [count_bt].
  destruct (N.eqb_spec c BT) as [->|Hn]; [discriminate|]. cbn [Nat.add]. intros H [E|Hin]; [congruence|].
  exact (IH H Hin).
Qed.

(* after an opening backtick: the next backtick is reached at depth 0 *)
Lemma plain_to_bt n : forall s d t, length s <= n -> plain_loop d t s = true -> count_bt s <> 0 ->
  exists b rest, s = b ++ BT :: rest /\ ~ In BT b /\ plain_loop 0 (S t) rest = true.
Proof.
  induction n as [|n IH]; intros s d t Hn H Hc.
  - destruct s; [exfalso; apply Hc; reflexivity|simpl in Hn; lia].
  - destruct s as [|c s1]; [exfalso; apply Hc; reflexivity|]. simpl in Hn.
    destruct (step_cases c s1) as [s2 -> ->| -> | -> | -> | Hl Hr Hb Hd].
    + rewrite plain_loop_dol_lp in H. simpl in Hn.
      cbn [count_bt] in Hc. change (N.eqb DOL BT) with false in Hc. change (N.eqb LP BT) with false in Hc.
      cbn [Nat.add] in Hc.
      destruct (IH s2 (S d) t ltac:(lia) H Hc) as [b [rest [-> [Hnb H2]]]].
      exists (DOL :: LP :: b), rest. split; [reflexivity|]. split; [|exact H2].
      intros [E|[E|Hin]]; [discriminate|discriminate|exact (Hnb Hin)].
    + discriminate.
    + cbn [plain_loop] in H. change (N.eqb RP DOL) with false in H. change (N.eqb RP LP) with false in H.
      change (N.eqb RP RP) with true in H. cbn iota in H. destruct d; [discriminate|].
      cbn [count_bt] in Hc. change (N.eqb RP BT) with false in Hc. cbn [Nat.add] in Hc.
      destruct (IH s1 d t ltac:(lia) H Hc) as [b [rest [-> [Hnb H2]]]].
      exists (RP :: b), rest. split; [reflexivity|]. split; [|exact H2].
      intros [E|Hin]; [discriminate|exact (Hnb Hin)].
    + cbn [plain_loop] in H. change (N.eqb BT DOL) with false in H. change (N.eqb BT LP) with false in H.
      change (N.eqb BT RP) with false in H. change (N.eqb BT BT) with true in H. cbn iota in H.
      destruct d; [|discriminate].
      exists [], s1. split; [reflexivity|]. split; [intros []|exact H].
    + rewrite plain_loop_other in H by assumption.
      cbn [count_bt] in Hc. destruct (N.eqb_spec c BT); [contradiction|]. cbn [Nat.add] in Hc.
      destruct (IH s1 d t ltac:(lia) H Hc) as [b [rest [-> [Hnb H2]]]].
      exists (c :: b), rest. split; [reflexivity|]. split; [|exact H2].
      intros [E|Hin]; [congruence|exact (Hnb Hin)].
Qed.

Lemma plain_in_grammar n : forall s t, length s <= n -> Nat.even t = true -> plain_loop 0 t s = true ->
  exists l, Top s l.
Proof.
  induction n as [|n IH]; intros s t Hn Ht H.
  - destruct s; [exists []; constructor|simpl in Hn; lia].
  - destruct s as [|c s1]; [exists []; constructor|]. simpl in Hn.
    destruct (step_cases c s1) as [s2 -> ->| -> | -> | -> | Hl Hr Hb Hd].
    + rewrite plain_loop_dol_lp in H. simpl in Hn.
      destruct (plain_close (length s2) s2 0 t (le_n _) H) as [b [rest [-> [Hbb H2]]]].
      rewrite app_length in Hn. simpl in Hn.
      destruct (IH rest t ltac:(lia) Ht H2) as [l Hl].
      exists (b :: l). apply T_sub; assumption.
    + discriminate.
    + discriminate.
    + cbn [plain_loop] in H. change (N.eqb BT DOL) with false in H. change (N.eqb BT LP) with false in H.
      change (N.eqb BT RP) with false in H. change (N.eqb BT BT) with true in H. cbn iota in H.
      assert (Hc : count_bt s1 <> 0).
      { intro E. pose proof (plain_parity (length s1) s1 0 (S t) (le_n _) H) as Hp.
        rewrite E, Nat.add_0_r, Nat.even_succ, <- Nat.negb_even, Ht in Hp. discriminate. }
      destruct (plain_to_bt (length s1) s1 0 (S t) (le_n _) H Hc) as [b [rest [-> [Hnb H2]]]].
      rewrite app_length in Hn. simpl in Hn.
      assert (Ht2 : Nat.even (S (S t)) = true) by (rewrite Nat.even_succ_succ; exact Ht).
      destruct (IH rest (S (S t)) ltac:(lia) Ht2 H2) as [l Hl].
      exists (b :: l). apply T_bt; assumption.
    + rewrite plain_loop_other in H by assumption.
      destruct (IH s1 t ltac:(lia) Ht H) as [l HT]. exists l. apply T_chr; [split; assumption|assumption|assumption|exact HT].
Qed.

(* _is_plain_raw s  =>  the grammar derives s, and the scanner returns exactly the derived spans *)
Theorem plain_raw_exact s : plain_raw s = true -> exists l, Top s l /\ scan (S (length s)) s = l.
Proof.
  unfold plain_raw. intro H. apply andb_true_iff in H as [_ H].
  destruct (plain_in_grammar (length s) s 0 (le_n _) eq_refl H) as [l Hl].
  exists l. split; [exact Hl|]. apply scan_agrees_with_grammar; [exact Hl|lia].
Qed.

(* the grammar is functional: at most one list of spans per string *)
Lemma Top_functional s l1 l2 : Top s l1 -> Top s l2 -> l1 = l2.
Proof.
  intros H1 H2.
  rewrite <- (scan_agrees_with_grammar s l1 H1 (S (length s))) by lia.
  rewrite <- (scan_agrees_with_grammar s l2 H2 (S (length s))) by lia. reflexivity.
Qed.

(* no "$(", no backtick: the scanner extracts nothing (and the grammar derives the empty list) *)
Lemma no_opener_scan n : forall s, has_opener s = false -> scan n s = [].
Proof.
  induction n as [|n IH]; intros s H; [reflexivity|].
  destruct s as [|c s1]; [reflexivity|].
  cbn [has_opener] in H. apply orb_false_iff in H as [H H3]. apply orb_false_iff in H as [H1 H2].
  cbn [scan]. destruct (N.eqb c DOL) eqn:Ed.
  - destruct s1 as [|c2 s2]; [reflexivity|]. cbn [orb] in H2. cbn [andb] in H2. rewrite H2. apply IH, H3.
  - change BT with 96%N in *. rewrite H1. apply IH, H3.
Qed.

(* the three outcomes of _analyze_string_cmdsubs are exhaustive and characterised *)
Lemma scan_raw_cases s :
  (has_opener s = false /\ scan_raw s = RNone) \/
  (has_opener s = true /\ plain_raw s = false /\ scan_raw s = RComplex) \/
  (has_opener s = true /\ plain_raw s = true /\ exists l, Top s l /\ scan_raw s = RSubs l).
Proof.
  unfold scan_raw. destruct (has_opener s) eqn:Eo; cbn [negb].
  - right. destruct (plain_raw s) eqn:Ep; cbn [negb].
    + right. destruct (plain_raw_exact s Ep) as [l [HT Hs]]. repeat split; auto. exists l. split; [exact HT|]. rewrite Hs. reflexivity.
    + left. auto.
  - left. auto.
Qed.
