(* C09: path rules follow the file, not its spelling (on a symlink-free filesystem). *)
From Coq Require Import PeanoNat.
From DippyV Require Import Base.Str Base.Verdict Model.Fnmatch Model.Glob2 Model.Paths Model.Rules
  Proofs.FnmatchP Proofs.RulesP Proofs.PathsP Proofs.Glob2P.

(* ---- strings without a star ---- *)
Lemma nostar_prefix p : mem_ch c_star p = false -> prefixb star2 p = false.
Proof.
  destruct p as [|x p]; [reflexivity|]. rewrite mem_ch_cons. intro H. apply orb_false_iff in H.
  destruct H as [H _]. unfold star2. cbn [prefixb]. rewrite H. reflexivity.
Qed.

Lemma nostar_infix p : mem_ch c_star p = false -> infixb star2 p = false.
Proof.
  induction p as [|x p IH]; intro H; [reflexivity|].
  cbn [infixb]. rewrite (nostar_prefix _ H). rewrite mem_ch_cons in H. apply orb_false_iff in H.
  destruct H as [_ H]. rewrite (IH H). reflexivity.
Qed.

Section Idx.
  Variable resolve1 : str -> str.
  Variable resolve2 : str -> str -> str.
  Variable home : str.

  Lemma nostar_index p : mem_ch c_star p = false -> index_of star2 p = None.
  Proof.
    induction p as [|x p IH]; intro H; [reflexivity|].
    cbn [index_of]. rewrite (nostar_prefix _ H). rewrite mem_ch_cons in H. apply orb_false_iff in H.
    destruct H as [_ H]. rewrite (IH H). reflexivity.
  Qed.

  Lemma index_at a b : mem_ch c_star a = false -> index_of star2 (a ++ star2 ++ b) = Some (length a).
  Proof.
    induction a as [|x a IH]; intro H.
    - reflexivity.
    - cbn [app index_of]. rewrite mem_ch_cons in H. apply orb_false_iff in H. destruct H as [Hx H].
      assert (P : prefixb star2 (x :: a ++ star2 ++ b) = false) by (unfold star2; cbn [prefixb]; rewrite Hx; reflexivity).
      rewrite P, (IH H). reflexivity.
  Qed.
End Idx.

Lemma lstrip_idem cs s : lstrip cs (lstrip cs s) = lstrip cs s.
Proof.
  induction s as [|x s IH]; [reflexivity|]. cbn [lstrip]. destruct (mem_ch x cs) eqn:E; [exact IH|].
  cbn [lstrip]. rewrite E. reflexivity.
Qed.
Lemma rstrip_idem cs s : rstrip cs (rstrip cs s) = rstrip cs s.
Proof. unfold rstrip. rewrite rev_involutive, lstrip_idem. reflexivity. Qed.
Lemma rstrip_snoc D : rstrip [c_slash] (D ++ [c_slash]) = rstrip [c_slash] D.
Proof. unfold rstrip. rewrite rev_app_distr. reflexivity. Qed.

Lemma pathlike_rstrip p : nonempty (rstrip [c_slash] p) = true -> pathlike (rstrip [c_slash] p) = pathlike p.
Proof.
  intro H. unfold pathlike, strip_target. rewrite rstrip_idem, H. cbn [negb]. rewrite !andb_false_r. reflexivity.
Qed.

Section C09.
  Variable resolve1 : str -> str.
  Variable resolve2 : str -> str -> str.
  Variable home : str.
  Variable lex : lexical resolve1 resolve2.

  Notation npath := (normalize_path resolve1 resolve2 home).
  Notation ntoken := (normalize_token resolve1 resolve2 home).
  Notation m_redirect := (match_redirect resolve1 resolve2 home).
  Notation m_words := (match_words resolve1 resolve2 home).
  Notation rr_matches := (redirect_rule_matches resolve1 resolve2 home).
  Notation nrp := (normalize_redirect_pattern resolve1 resolve2 home).

  (* match_redirect reads the target only through _normalize_path *)
  Lemma redirect_target_only rr cwd p q : npath cwd p = npath cwd q -> m_redirect rr cwd p = m_redirect rr cwd q.
  Proof.
    intro H. unfold match_redirect. apply last_match_ext. intros r _.
    unfold redirect_rule_matches, redirect_rule_result. rewrite H. reflexivity.
  Qed.

  Lemma npath_respell cwd p q :
    prefixb [c_slash] cwd = true -> prefixb [c_slash] home = true ->
    pathlike p = true -> pathlike q = true -> respell home cwd p q -> npath cwd p = npath cwd q.
  Proof.
    intros Hc Hh Hp Hq R. rewrite !(normalize_path_nf _ _ _ lex) by assumption.
    apply respell_nf; assumption.
  Qed.

  (* C09_verdict for redirect targets *)
  Lemma redirect_respell rr cwd p q :
    prefixb [c_slash] cwd = true -> prefixb [c_slash] home = true ->
    pathlike p = true -> pathlike q = true -> respell home cwd p q ->
    m_redirect rr cwd p = m_redirect rr cwd q.
  Proof. intros. apply redirect_target_only. apply npath_respell; assumption. Qed.

  (* ---- command words ---- *)
  Definition same_word (cwd : str) (a b : str) : Prop :=
    a = b \/ (wordpath a = true /\ wordpath b = true /\ respell home cwd a b).

  Lemma ntoken_same cwd a b :
    prefixb [c_slash] cwd = true -> prefixb [c_slash] home = true ->
    same_word cwd a b -> ntoken cwd a = ntoken cwd b.
  Proof.
    intros Hc Hh [->|[Ha [Hb R]]]; [reflexivity|].
    rewrite !(normalize_token_nf _ _ _ lex) by assumption. apply respell_nf; assumption.
  Qed.

  Lemma alias_same al cwd a b : ntoken cwd a = ntoken cwd b ->
    ntoken cwd (resolve_alias resolve1 resolve2 home al cwd a) = ntoken cwd (resolve_alias resolve1 resolve2 home al cwd b).
  Proof.
    intro H. induction al as [|[src tgt] al IH]; cbn [resolve_alias]; [exact H|].
    rewrite H. destruct (str_eqb (ntoken cwd b) (ntoken cwd src)); [reflexivity|exact IH].
  Qed.

  Lemma cmd_string_same al cwd ws ws' :
    prefixb [c_slash] cwd = true -> prefixb [c_slash] home = true ->
    Forall2 (same_word cwd) ws ws' ->
    cmd_string resolve1 resolve2 home al cwd false ws = cmd_string resolve1 resolve2 home al cwd false ws'.
  Proof.
    intros Hc Hh F. unfold cmd_string, normalize_words. f_equal.
    destruct F as [|a b r r' Hab F]; [reflexivity|].
    cbn [resolved_words map]. f_equal.
    - apply alias_same. apply ntoken_same; assumption.
    - induction F as [|x y l l' Hxy F IH]; [reflexivity|]. cbn [map]. f_equal; [|exact IH].
      apply ntoken_same; assumption.
  Qed.

  (* C09_verdict for path-shaped command arguments *)
  Lemma words_respell al rules cwd ws ws' :
    prefixb [c_slash] cwd = true -> prefixb [c_slash] home = true ->
    Forall2 (same_word cwd) ws ws' ->
    m_words al rules cwd false ws = m_words al rules cwd false ws'.
  Proof. intros Hc Hh F. unfold match_words. rewrite (cmd_string_same al cwd ws ws' Hc Hh F). reflexivity. Qed.

  (* ---- a literal rule fires on every spelling of its own path, when the expanded path is glob-free ---- *)
  Lemma literal_fires cwd r q :
    pathlike (r_pat r) = true -> pathlike q = true ->
    no_glob (r_pat r) = true -> no_glob (nf home cwd (r_pat r)) = true ->
    nf home cwd q = nf home cwd (r_pat r) ->
    rr_matches cwd q r = true.
  Proof.
    intros Hp Hq Hg Hgn E. unfold redirect_rule_matches, redirect_rule_result, normalize_redirect_pattern.
    rewrite nostar_index by (apply no_glob_no_star; exact Hg).
    rewrite !(normalize_path_nf _ _ _ lex) by assumption. rewrite E.
    unfold glob_match. rewrite nostar_infix by (apply no_glob_no_star; exact Hgn). cbn [negb].
    rewrite fnmatch_lit by exact Hgn. rewrite str_eqb_refl. reflexivity.
  Qed.

  (* ---- confinement: a rule D/** only matches targets whose normal form lies under nf D ---- *)
  Lemma nrp_dir cwd D : nonempty (rstrip [c_slash] D) = true -> pathlike D = true -> no_glob D = true ->
    nrp cwd (D ++ slash_star2) = nf home cwd D ++ slash_star2.
  Proof.
    intros Hn0 Hp Hg. unfold normalize_redirect_pattern.
    replace (D ++ slash_star2) with ((D ++ [c_slash]) ++ star2 ++ []) by (rewrite <- app_assoc; reflexivity).
    assert (Hs : mem_ch c_star (D ++ [c_slash]) = false).
    { rewrite mem_ch_app, (no_glob_no_star _ Hg). reflexivity. }
    rewrite index_at by exact Hs.
    rewrite firstn_app, Nat.sub_diag, firstn_all. cbn [firstn]. rewrite app_nil_r.
    rewrite skipn_app, Nat.sub_diag, skipn_all. cbn [skipn app].
    rewrite rstrip_snoc.
    assert (Hne : rstrip [c_slash] D <> []).
    { destruct (rstrip [c_slash] D); [discriminate|discriminate]. }
    destruct (rstrip [c_slash] D) as [|x t] eqn:E; [congruence|]. rewrite <- E.
    rewrite (normalize_path_nf _ _ _ lex) by (rewrite pathlike_rstrip; [exact Hp|rewrite E; reflexivity]).
    destruct (rstrip_split D) as [l [E1 E2]]. rewrite E1 at 2.
    rewrite nf_strip by (auto; rewrite E; discriminate). reflexivity.
  Qed.

  Lemma confine cwd D r t :
    r_pat r = D ++ slash_star2 -> nonempty (rstrip [c_slash] D) = true -> pathlike D = true -> no_glob D = true ->
    no_glob (nf home cwd D) = true -> pathlike t = true ->
    rr_matches cwd t r = true ->
    exists rest, nf home cwd t = nf home cwd D ++ c_slash :: rest.
  Proof.
    intros Hr Hn0 Hp Hg Hgn Ht. unfold redirect_rule_matches, redirect_rule_result.
    rewrite Hr, nrp_dir by assumption. rewrite (normalize_path_nf _ _ _ lex) by assumption.
    intro H. apply glob_match_dir; [exact Hgn|].
    destruct (glob_match (nf home cwd t) (nf home cwd D ++ slash_star2)) as [[|]|]; try discriminate. reflexivity.
  Qed.
End C09.

(* segments: lying under D means D's segments are a prefix *)
Lemma under_segments D rest : splitc c_slash (D ++ c_slash :: rest) = splitc c_slash D ++ splitc c_slash rest.
Proof. apply splitc_app. Qed.

(* ---- the concrete refutations (lexical oracles) ---- *)
Definition lex1 : str -> str := norm.
Definition lex2 (cwd t : str) : str := norm (pjoin cwd t).
Lemma lex_lexical : lexical lex1 lex2.
Proof. split; reflexivity. Qed.

Definition cwd_glob : str := $"/w/proj[1]".
Definition rule_out : rule := mkRule Allow $"out" None false [].
Definition rule_danger : rule := mkRule Deny $"./danger" None false [].

(* a literal relative rule stops firing in a directory whose name contains a glob character *)
Lemma glob_cwd_redirect :
  match_redirect lex1 lex2 $"/home/u" [rule_out] cwd_glob $"out" = None /\
  match_redirect lex1 lex2 $"/home/u" [rule_out] $"/w/proj1" $"out" = Some rule_out.
Proof. split; vm_compute; reflexivity. Qed.

Lemma glob_cwd_words :
  match_words lex1 lex2 $"/home/u" [] [rule_danger] cwd_glob false [$"./danger"; $"x"] = None /\
  match_words lex1 lex2 $"/home/u" [] [rule_danger] $"/w/proj1" false [$"./danger"; $"x"] = Some rule_danger.
Proof. split; vm_compute; reflexivity. Qed.

(* since 67c5613 a redirect target containing "://" is resolved like any other file name: the
   spelling /t/u://../../etc/passwd of /etc/passwd is no longer granted by /t/** ... *)
Definition rule_t : rule := mkRule Allow $"/t/**" None false [].
Lemma url_target_resolved :
  match_redirect lex1 lex2 $"/home/u" [rule_t] $"/w" $"/t/u://../../etc/passwd" = None /\
  match_redirect lex1 lex2 $"/home/u" [rule_t] $"/w" $"/t/u:/../../etc/passwd" = None /\
  match_redirect lex1 lex2 $"/home/u" [rule_t] $"/w" $"/t/u://x" = Some rule_t /\
  pathlike $"/t/u://../../etc/passwd" = true.
Proof. repeat split; vm_compute; reflexivity. Qed.
(* ... and "/" is the root, like "/." *)
Definition rule_dot : rule := mkRule Allow $"." None false [].
Lemma root_target_is_root :
  match_redirect lex1 lex2 $"/home/u" [rule_dot] $"/w" $"/" = None /\
  match_redirect lex1 lex2 $"/home/u" [rule_dot] $"/w" $"/." = None /\
  normalize_path lex1 lex2 $"/home/u" $"/w" $"//" = $"/" /\ pathlike $"/" = true /\ pathlike [] = true.
Proof. repeat split; vm_compute; reflexivity. Qed.

(* Legacy: the behaviour before the repair, kept so that its reappearance is recognised *)
Lemma legacy_url_target :
  legacy_normalize_path lex1 lex2 $"/home/u" $"/w" $"/t/u://../../etc/passwd" = $"/t/u://../../etc/passwd" /\
  nf $"/home/u" $"/w" $"/t/u://../../etc/passwd" = $"/etc/passwd" /\
  glob_match $"/t/u://../../etc/passwd" $"/t/**" = G2 true.
Proof. repeat split; vm_compute; reflexivity. Qed.
Lemma legacy_root_target :
  legacy_normalize_path lex1 lex2 $"/home/u" $"/w" $"/" = $"/w" /\
  legacy_normalize_path lex1 lex2 $"/home/u" $"/w" $"/." = $"/".
Proof. split; vm_compute; reflexivity. Qed.
