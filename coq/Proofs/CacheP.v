(* The process state machine of Model/Cache.v: cached values are the loaded values, the cache
   never exceeds its bound, and no answer depends on the state. *)
From Coq Require Import Arith.
From DippyV Require Import Base.Str Base.Verdict Model.Cache.

Section P.
  Variable value : Type.
  Variable load : str -> value.
  Variable input : Type.
  Variable analysis : input -> prog value.
  Variable explicit : option hmode.

  Notation cache := (cache value).
  Notation get := (get value load).
  Notation runp := (runp value load).
  Notation pure := (pure value load).
  Notation step := (step value load input analysis explicit).
  Notation init := (init value explicit).
  Notation after := (after value load input analysis explicit).
  Notation state := (state value).
  Notation lru := (lru value).
  Notation mode := (mode value).
  Notation logcfg := (logcfg value).
  Notation logdis := (logdis value).

  (* cached value = load value; keys are distinct; at most maxsize entries *)
  Definition CInv (c : cache) : Prop :=
    (forall m v, In (m, v) c -> v = load m) /\ NoDup (map fst c) /\ (length c <= maxsize)%nat.
  Definition Inv (s : state) : Prop := CInv (lru s).

  Lemma find_some m c v : find value m c = Some v -> In (m, v) c.
  Proof.
    induction c as [|[k w] c IH]; simpl; [discriminate|].
    destruct (str_eqb_spec k m) as [->|Hn]; intro H; [injection H as ->; left; reflexivity | right; apply IH; exact H].
  Qed.
  Lemma find_none m c : find value m c = None -> ~ In m (map fst c).
  Proof.
    induction c as [|[k w] c IH]; simpl; [intros _ []|].
    destruct (str_eqb_spec k m) as [->|Hn]; [discriminate|]. intros H [E|E]; [contradiction | exact (IH H E)].
  Qed.
  Lemma in_remove m c kv : In kv (remove value m c) -> In kv c /\ fst kv <> m.
  Proof.
    unfold remove. rewrite filter_In. intros [A B]. split; [exact A|].
    destruct (str_eqb_spec (fst kv) m); [discriminate | assumption].
  Qed.
  Lemma remove_keys m c : forall k, In k (map fst (remove value m c)) -> In k (map fst c) /\ k <> m.
  Proof.
    intros k H. apply in_map_iff in H. destruct H as [kv [<- H]]. apply in_remove in H. destruct H as [A B].
    split; [apply in_map; exact A | exact B].
  Qed.
  Lemma remove_nodup m c : NoDup (map fst c) -> NoDup (map fst (remove value m c)).
  Proof.
    induction c as [|[k w] c IH]; simpl; [intros; constructor|]. intro H. inversion H as [|? ? Hk Hc]; subst.
    destruct (str_eqb k m); simpl; [apply IH; exact Hc|]. constructor; [|apply IH; exact Hc].
    intro E. apply remove_keys in E. destruct E as [E _]. contradiction.
  Qed.
  Lemma remove_length m c : (length (remove value m c) <= length c)%nat.
  Proof. unfold remove. induction c as [|kv c IH]; simpl; [lia|]. destruct (negb (str_eqb (fst kv) m)); simpl; lia. Qed.
  Lemma remove_length_lt m c v : In (m, v) c -> (length (remove value m c) < length c)%nat.
  Proof.
    induction c as [|[k w] c IH]; simpl; [intros []|]. intros [E|E].
    - injection E as -> ->. rewrite str_eqb_refl. simpl. pose proof (remove_length m c). unfold remove in *. lia.
    - specialize (IH E). unfold remove in *. destruct (negb (str_eqb k m)); simpl; lia.
  Qed.
  Lemma in_firstn {A} n (l : list A) x : In x (firstn n l) -> In x l.
  Proof.
    revert n. induction l as [|a l IH]; intros [|n]; simpl; try tauto. intros [E|E]; [left; exact E | right; eapply IH; exact E].
  Qed.
  Lemma nodup_firstn {A} n (l : list A) : NoDup l -> NoDup (firstn n l).
  Proof.
    revert n. induction l as [|a l IH]; intros [|n] H; simpl; try constructor.
    - inversion H; subst. intro E. apply in_firstn in E. contradiction.
    - inversion H; subst. apply IH. assumption.
  Qed.

  Lemma get_inv c m : CInv c ->
    CInv (fst (fst (get c m))) /\ snd (fst (get c m)) = load m.
  Proof.
    intros (I1 & I2 & I3). unfold Cache.get. destruct (find value m c) as [v|] eqn:F; cbn [fst snd].
    - apply find_some in F. pose proof (I1 m v F) as Hv. split; [|exact Hv]. repeat split.
      + intros m' v' [E|E]; [injection E as <- <-; exact Hv|]. apply in_remove in E. apply I1. apply E.
      + simpl. constructor; [|apply remove_nodup; exact I2]. intro E. apply remove_keys in E. destruct E as [_ E]. apply E. reflexivity.
      + simpl. pose proof (remove_length_lt m c v F). lia.
    - split; [|reflexivity]. repeat split.
      + intros m' v' E. apply in_firstn in E. destruct E as [E|E]; [injection E as <- <-; reflexivity | apply I1; exact E].
      + rewrite <- firstn_map. apply nodup_firstn. simpl. constructor; [apply find_none; exact F | exact I2].
      + apply firstn_le_length.
  Qed.

  (* running an analysis against any good cache = running it with freshly loaded modules *)
  Lemma runp_inv p : forall c, CInv c -> CInv (fst (runp c p)) /\ snd (runp c p) = pure p.
  Proof.
    induction p as [a | m k IH]; intros c Hc; cbn [Cache.runp Cache.pure]; [split; [exact Hc | reflexivity]|].
    destruct (get_inv c m Hc) as [A B]. destruct (get c m) as [[c1 v] hit]; cbn [fst snd] in A, B. subst v.
    apply IH. exact A.
  Qed.

  Lemma inv_init : Inv init.
  Proof. unfold Inv, CInv; simpl. repeat split; [intros ? ? [] | constructor | apply Nat.le_0_l]. Qed.

  Lemma analyze_inv x s : Inv s ->
    Inv (fst (analyze value load input analysis x s)) /\ snd (analyze value load input analysis x s) = pure (analysis x).
  Proof.
    intro H. unfold Cache.analyze. destruct (runp_inv (analysis x) (lru s) H) as [A B].
    destruct (runp (lru s) (analysis x)) as [c a]; simpl in *. split; assumption.
  Qed.
  Lemma configure_lru log fl s : lru (configure value log fl s) = lru s.
  Proof. unfold Cache.configure. destruct log; [destruct fl|]; reflexivity. Qed.
  Lemma log_decision_lru fl s : lru (log_decision value fl s) = lru s.
  Proof. unfold Cache.log_decision. destruct (logcfg s); [destruct (logdis s); [|destruct fl]|]; reflexivity. Qed.
  Lemma log_decision_mode fl s : mode (log_decision value fl s) = mode s.
  Proof. unfold Cache.log_decision. destruct (logcfg s); [destruct (logdis s); [|destruct fl]|]; reflexivity. Qed.
  Lemma configure_mode log fl s : mode (configure value log fl s) = mode s.
  Proof. unfold Cache.configure. destruct log; [destruct fl|]; reflexivity. Qed.
  Lemma analyze_mode x s : mode (fst (analyze value load input analysis x s)) = mode s.
  Proof. unfold Cache.analyze. destruct (runp (lru s) (analysis x)); reflexivity. Qed.

  (* what each query answers, read off the code with no state in it *)
  Definition spec_verdict (q : query input) : option (verdict * str) :=
    match q with
    | QAnalyze x | QMain _ x _ _ _ | QCheck x => Some (pure (analysis x))
    | _ => None
    end.

  (* C18_inv (preservation) together with the answer *)
  Lemma step_inv s q : Inv s -> Inv (fst (step s q)) /\ verdict_of (snd (step s q)) = spec_verdict q.
  Proof.
    intro H. destruct q as [x | det x log cf df | x | m | log fl | fl]; cbn [Cache.step spec_verdict].
    - destruct (analyze_inv x s H) as [A B]. destruct (analyze value load input analysis x s) as [s1 a]; simpl in *.
      split; [exact A | rewrite B; reflexivity].
    - set (s1 := match explicit with Some _ => s | None => set_mode value det s end).
      assert (H1 : Inv (configure value log cf s1)).
      { unfold Inv. rewrite configure_lru. unfold s1. destruct explicit; exact H. }
      destruct (analyze_inv x _ H1) as [A B].
      destruct (analyze value load input analysis x (configure value log cf s1)) as [s3 a]; simpl in *.
      split; [unfold Inv; rewrite log_decision_lru; exact A | rewrite B; reflexivity].
    - destruct (analyze_inv x s H) as [A B]. destruct (analyze value load input analysis x s) as [s1 a]; simpl in *.
      split; [unfold Inv; rewrite log_decision_lru; exact A | rewrite B; reflexivity].
    - split; [exact H | reflexivity].
    - cbn [fst snd]. split; [unfold Inv; rewrite configure_lru; exact H | reflexivity].
    - cbn [fst snd]. split; [unfold Inv; rewrite log_decision_lru; exact H | reflexivity].
  Qed.

  Lemma inv_after h : forall s, Inv s -> Inv (after h s).
  Proof. induction h as [|q h IH]; intros s H; [exact H|]. simpl. apply IH. apply step_inv. exact H. Qed.

  (* C18_pure *)
  Lemma pure_verdict s s' q : Inv s -> Inv s' -> verdict_of (snd (step s q)) = verdict_of (snd (step s' q)).
  Proof. intros H H'. destruct (step_inv s q H) as [_ ->]. destruct (step_inv s' q H') as [_ ->]. reflexivity. Qed.

  (* with the mode auto-detected (no flag), the whole answer of everything main() or analyze() can be
     asked is independent of the state; only a direct check_command call reads MODE *)
  Definition is_check (q : query input) : bool := match q with QCheck _ => true | _ => false end.
  Lemma pure_answer s s' q : explicit = None -> is_check q = false -> Inv s -> Inv s' -> snd (step s q) = snd (step s' q).
  Proof.
    intros E NC H H'. pose proof (pure_verdict s s' q H H') as V.
    destruct q as [x | det x log cf df | x | m | log fl | fl]; try discriminate; try reflexivity.
    - cbn [Cache.step] in *. destruct (analyze value load input analysis x s) as [s1 a].
      destruct (analyze value load input analysis x s') as [s1' a']. simpl in *. congruence.
    - cbn [Cache.step] in *. rewrite E in *.
      pose proof (analyze_mode x (configure value log cf (set_mode value det s))) as M.
      pose proof (analyze_mode x (configure value log cf (set_mode value det s'))) as M'.
      destruct (analyze value load input analysis x (configure value log cf (set_mode value det s))) as [s3 a].
      destruct (analyze value load input analysis x (configure value log cf (set_mode value det s'))) as [s3' a'].
      simpl in *. rewrite !log_decision_mode, M, M', !configure_mode. simpl. congruence.
  Qed.

  (* C18_hist *)
  Lemma hist h q : verdict_of (snd (step (after h init) q)) = verdict_of (snd (step init q)).
  Proof. apply pure_verdict; [apply inv_after|]; apply inv_init. Qed.
  Lemma hist_answer h q : explicit = None -> is_check q = false -> snd (step (after h init) q) = snd (step init q).
  Proof. intros E NC. apply pure_answer; try assumption; [apply inv_after|]; apply inv_init. Qed.
  (* the answer is the cache-free analysis *)
  Lemma hist_spec h q : verdict_of (snd (step (after h init) q)) = spec_verdict q.
  Proof. apply step_inv. apply inv_after. apply inv_init. Qed.
  (* repetition: asking again gives the same *)
  Lemma again h q : verdict_of (snd (step (fst (step (after h init) q)) q)) = verdict_of (snd (step (after h init) q)).
  Proof. apply pure_verdict; [apply step_inv|]; apply inv_after; apply inv_init. Qed.

  (* C18_lru *)
  Lemma lru_bound h : (length (lru (after h init)) <= maxsize)%nat /\ NoDup (map fst (lru (after h init))).
  Proof. destruct (inv_after h init inv_init) as (_ & A & B). split; assumption. Qed.
  (* ---- what a call leaves behind (Cache.residue; measured on the real process by the residue oracle) *)
  Notation residue := (residue value load input analysis explicit).
  Notation changed := (changed value).
  Definition same (c : comp) (s s' : state) : Prop :=
    match c with
    | CLru => map fst (lru s) = map fst (lru s')
    | CMode => mode s = mode s'
    | CLogCfg => logcfg s = logcfg s'
    | CLogDis => logdis s = logdis s'
    end.
  Lemma strs_eqb_iff a : forall b, strs_eqb a b = true <-> a = b.
  Proof.
    induction a as [|x a IH]; intros [|y b]; cbn [strs_eqb]; split; try discriminate; try reflexivity.
    - rewrite Bool.andb_true_iff. intros [A B]. apply IH in B. destruct (str_eqb_spec x y); [subst; reflexivity | discriminate].
    - intro E. injection E as -> ->. rewrite str_eqb_refl. apply IH. reflexivity.
  Qed.
  Lemma hmode_eqb_iff a b : hmode_eqb a b = true <-> a = b.
  Proof. destruct a, b; cbn; split; intro H; try discriminate; reflexivity. Qed.
  Lemma logcfg_eqb_iff a b : logcfg_eqb a b = true <-> a = b.
  Proof.
    destruct a as [[p f]|], b as [[p' f']|]; cbn [logcfg_eqb]; split; intro H; try discriminate; try reflexivity.
    - apply Bool.andb_true_iff in H. destruct H as [A B]. apply Bool.eqb_prop in B. destruct (str_eqb_spec p p'); [subst; reflexivity | discriminate].
    - injection H as -> ->. rewrite str_eqb_refl, Bool.eqb_reflx. reflexivity.
  Qed.
  (* the comparison is exact: a component is listed iff it differs *)
  Lemma changed_spec c s s' : In c (changed s s') <-> ~ same c s s'.
  Proof.
    unfold Cache.changed.
    pose proof (strs_eqb_iff (map fst (lru s)) (map fst (lru s'))) as E1. pose proof (hmode_eqb_iff (mode s) (mode s')) as E2.
    pose proof (logcfg_eqb_iff (logcfg s) (logcfg s')) as E3.
    assert (E4 : Bool.eqb (logdis s) (logdis s') = true <-> logdis s = logdis s') by (split; [apply Bool.eqb_prop | intros ->; apply Bool.eqb_reflx]).
    destruct (strs_eqb (map fst (lru s)) (map fst (lru s'))), (hmode_eqb (mode s) (mode s')),
      (logcfg_eqb (logcfg s) (logcfg s')), (Bool.eqb (logdis s) (logdis s'));
      destruct c; cbn [app In same]; intuition (try discriminate; try congruence).
  Qed.
  Lemma changed_nil s s' : changed s s' = [] <-> (forall c, same c s s').
  Proof.
    split.
    - intros E c. destruct (changed_spec c s s') as [_ B].
      assert (D : {same c s s'} + {~ same c s s'}).
      { destruct c; cbn [same].
        - destruct (strs_eqb (map fst (lru s)) (map fst (lru s'))) eqn:Q; [left; apply strs_eqb_iff; exact Q | right; intro X; apply strs_eqb_iff in X; congruence].
        - destruct (hmode_eqb (mode s) (mode s')) eqn:Q; [left; apply hmode_eqb_iff; exact Q | right; intro X; apply hmode_eqb_iff in X; congruence].
        - destruct (logcfg_eqb (logcfg s) (logcfg s')) eqn:Q; [left; apply logcfg_eqb_iff; exact Q | right; intro X; apply logcfg_eqb_iff in X; congruence].
        - destruct (logdis s), (logdis s'); [left | right | right | left]; try reflexivity; discriminate. }
      destruct D as [Y|N]; [exact Y|]. apply B in N. rewrite E in N. destruct N.
    - intro H. destruct (changed s s') as [|c l] eqn:E; [reflexivity|].
      assert (In c (changed s s')) as I by (rewrite E; left; reflexivity). apply changed_spec in I. destruct (I (H c)).
  Qed.

  Lemma analyze_logcfg x s : logcfg (fst (analyze value load input analysis x s)) = logcfg s.
  Proof. unfold Cache.analyze. destruct (runp (lru s) (analysis x)); reflexivity. Qed.
  Lemma analyze_logdis x s : logdis (fst (analyze value load input analysis x s)) = logdis s.
  Proof. unfold Cache.analyze. destruct (runp (lru s) (analysis x)); reflexivity. Qed.
  Lemma log_decision_logcfg fl s : logcfg (log_decision value fl s) = logcfg s.
  Proof. unfold Cache.log_decision. destruct (logcfg s) eqn:E; [destruct (logdis s); [|destruct fl]|]; cbn; congruence. Qed.
  Lemma log_decision_false s : log_decision value false s = s.
  Proof. unfold Cache.log_decision. destruct (logcfg s); [destruct (logdis s)|]; reflexivity. Qed.

  (* an analysis leaves nothing behind but the handler cache *)
  Lemma analyze_residue s x c : In c (residue s (QAnalyze x)) -> c = CLru.
  Proof.
    unfold Cache.residue. intro H. apply changed_spec in H. cbn [Cache.step] in H.
    pose proof (analyze_mode x s) as M. pose proof (analyze_logcfg x s) as L. pose proof (analyze_logdis x s) as D.
    destruct (analyze value load input analysis x s) as [s1 a]; cbn [fst] in *.
    destruct c; cbn [same] in H; [reflexivity | | |]; exfalso; apply H; congruence.
  Qed.
  (* so does a direct check_command call on a working (or absent) sink *)
  Lemma check_residue s x c : In c (residue s (QCheck x)) -> c = CLru.
  Proof.
    unfold Cache.residue. intro H. apply changed_spec in H. cbn [Cache.step] in H.
    pose proof (analyze_mode x s) as M. pose proof (analyze_logcfg x s) as L. pose proof (analyze_logdis x s) as D.
    destruct (analyze value load input analysis x s) as [s1 a]; cbn [fst] in *. rewrite log_decision_false in H.
    destruct c; cbn [same] in H; [reflexivity | | |]; exfalso; apply H; congruence.
  Qed.
  (* the other calls never touch the handler cache; each touches only its own variables *)
  Lemma setmode_residue s m c : In c (residue s (QSetMode m)) -> c = CMode.
  Proof.
    unfold Cache.residue. intro H. apply changed_spec in H. cbn [Cache.step fst] in H.
    destruct c; cbn [same] in H; [| reflexivity | |]; exfalso; apply H; reflexivity.
  Qed.
  Lemma configure_residue s log fl c : In c (residue s (QConfigure log fl)) -> c = CLogCfg \/ c = CLogDis.
  Proof.
    unfold Cache.residue. intro H. apply changed_spec in H. cbn [Cache.step fst] in H.
    destruct c; cbn [same] in H; [| | left; reflexivity | right; reflexivity]; exfalso; apply H;
      [rewrite configure_lru | rewrite configure_mode]; reflexivity.
  Qed.
  Lemma log_decision_residue s fl c : In c (residue s (QLogDecision fl)) -> c = CLogDis.
  Proof.
    unfold Cache.residue. intro H. apply changed_spec in H. cbn [Cache.step fst] in H.
    destruct c; cbn [same] in H; [| | | reflexivity]; exfalso; apply H;
      [rewrite log_decision_lru | rewrite log_decision_mode | rewrite log_decision_logcfg]; reflexivity.
  Qed.
  (* main(): with a mode flag the mode is never rebound *)
  Lemma main_residue_explicit s det x log cf df m : explicit = Some m -> ~ In CMode (residue s (QMain det x log cf df)).
  Proof.
    intros E H. unfold Cache.residue in H. apply changed_spec in H. apply H. cbn [same Cache.step]. rewrite E.
    pose proof (analyze_mode x (configure value log cf s)) as M.
    destruct (analyze value load input analysis x (configure value log cf s)) as [s3 a]; cbn [fst] in *.
    rewrite log_decision_mode, M, configure_mode. reflexivity.
  Qed.
  (* ---- C15 in a long-lived process: what a main() run appends to the decision log is a function of its own
     configuration and of the faults it meets - never of what the process decided, configured or failed before *)
  Notation effect := (effect value load input analysis explicit).
  Lemma main_effect s det x log cf df :
    effect s (QMain det x log cf df) = main_effect_spec log cf df.
  Proof.
    cbn [Cache.effect]. set (s1 := match explicit with Some _ => s | None => set_mode value det s end).
    unfold Cache.writes. rewrite analyze_logcfg, analyze_logdis. unfold Cache.configure, main_effect_spec.
    destruct log as [l|]; [destruct cf; cbn; [reflexivity | destruct df; reflexivity] | reflexivity].
  Qed.
  Lemma main_effect_local s s' det x log cf df :
    effect s (QMain det x log cf df) = effect s' (QMain det x log cf df).
  Proof. rewrite !main_effect. reflexivity. Qed.
  (* and the flag on the line is the flag of THIS run's configuration *)
  Lemma main_effect_full s det x log cf df p full :
    effect s (QMain det x log cf df) = Some (p, full) -> log = Some (p, full).
  Proof.
    rewrite main_effect. unfold main_effect_spec. destruct log as [l|]; [|discriminate].
    destruct cf; [discriminate|]. destruct df; [discriminate|]. intro H. injection H as ->. reflexivity.
  Qed.
End P.

(* a direct log_decision call (not something main() does without configuring first) is silenced by an earlier
   failure: documented ("set on first failure, prevents repeated attempts"), and the reason main() must - and
   does - call configure_logging every time *)
Lemma direct_effect_refuted :
  exists (s s' : state unit),
    effect unit (fun _ => tt) unit (fun _ => Done (Allow, [])) None s (QLogDecision false)
    <> effect unit (fun _ => tt) unit (fun _ => Done (Allow, [])) None s' (QLogDecision false).
Proof.
  exists {| lru := []; mode := HClaude; logcfg := Some ([120%N], true); logdis := false |},
         {| lru := []; mode := HClaude; logcfg := Some ([120%N], true); logdis := true |}.
  vm_compute. discriminate.
Qed.

(* a direct check_command call (not something the hook does) reads the MODE left by the last main() *)
Lemma envelope_refuted :
  exists (h : list (query unit)) (q : query unit),
    let st := step unit (fun _ => tt) unit (fun _ => Done (Allow, [])) None in
    snd (st (after unit (fun _ => tt) unit (fun _ => Done (Allow, [])) None h (init unit None)) q)
    <> snd (st (init unit None) q).
Proof. exists [QMain HGemini tt None false false], (QCheck tt). vm_compute. discriminate. Qed.

(* the static inventory of process state in the working tree is what the model accounts for *)
Lemma state_tie : state_inventory_ok = true.
Proof. vm_compute. reflexivity. Qed.

(* ---- soundness of the residue oracle, for any process whatever: if what a snapshot sees (`see`) determines
   both the answers and what the next snapshot sees (the snapshot misses no state that matters), and no call
   asked in the fresh state leaves a visible residue, then no history can change any answer *)
Section Residue.
  Variables state query answer view : Type.
  Variable step : state -> query -> state * answer.
  Variable see : state -> view.
  Variable init : state.
  Definition run (h : list query) (s : state) : state := fold_left (fun s q => fst (step s q)) h s.
  Hypothesis complete : forall s s' q, see s = see s' ->
    snd (step s q) = snd (step s' q) /\ see (fst (step s q)) = see (fst (step s' q)).
  Hypothesis residue_free : forall q, see (fst (step init q)) = see init.
  Lemma run_see h : forall s, see s = see init -> see (run h s) = see init.
  Proof.
    induction h as [|q h IH]; intros s E; [exact E|]. cbn [run fold_left]. apply IH.
    destruct (complete s init q E) as [_ ->]. apply residue_free.
  Qed.
  Lemma residue_sound h q : snd (step (run h init) q) = snd (step init q).
  Proof. apply complete. apply run_see. reflexivity. Qed.
End Residue.
