(* Statements of C11 / C14 (parse half) in the form Props/C11.v exposes. *)
From DippyV Require Import Base.Str Gen.Tables Model.ConfigText Proofs.ConfigTextP Proofs.ConfigRoundP.

Lemma filter_twice {A} (f : A -> bool) l : filter f (filter f l) = filter f l.
Proof.
  induction l as [|x l IH]; [reflexivity|]. simpl. destruct (f x) eqn:E; simpl; rewrite ?E, IH; reflexivity.
Qed.

Section S.
  Variable h : str.                      (* str(Path.home()) *)
  Variable expu : str -> eu_result.      (* Path(v).expanduser() *)
  Notation home := (Some h).

  Lemma total text : exists cfg, parse_config home expu text = Ok cfg.
  Proof. eexists. apply (parse_config_total home expu h); reflexivity. Qed.

  Lemma total_lines ls : exists cfg, parse_of_lines home expu ls = Ok cfg.
  Proof. unfold parse_of_lines. rewrite (parse_lines_run home expu h); [simpl; eauto|reflexivity]. Qed.

  Lemma step_never_raises raw : exists o, step home expu true raw = Ok o.
  Proof. apply (step_total home expu h); reflexivity. Qed.

  (* the loop is the left fold of a per-line function *)
  Definition line_effect (l : str) : option effect := eff home expu l.
  Lemma local_fold ls :
    parse_of_lines home expu ls
    = Ok (config_of (fold_left (fun st l => match line_effect l with Some e => apply_effect e st | None => st end) ls init)).
  Proof. unfold parse_of_lines. rewrite (parse_lines_run home expu h); reflexivity. Qed.

  (* a line that is blank, a comment, or rejected (ValueError) can be deleted or inserted anywhere *)
  Lemma local_skip ls1 l ls2 :
    step home expu true l = Ok None -> parse_of_lines home expu (ls1 ++ l :: ls2) = parse_of_lines home expu (ls1 ++ ls2).
  Proof.
    intros H. unfold parse_of_lines. rewrite !(parse_lines_run home expu h) by reflexivity.
    rewrite run_skip; [reflexivity|]. unfold eff. rewrite H. reflexivity.
  Qed.

  Definition list_of (i : listid) (c : config) : list rule :=
    match i with LRules => c_rules c | LRedirect => c_redirect c | LAfter => c_after c
            | LMcp => c_mcp c | LAfterMcp => c_after_mcp c end.

  (* each rule list is the concatenation of what the lines contribute one by one *)
  Lemma local_rules i ls c :
    parse_of_lines home expu ls = Ok c -> list_of i c = flat_map (contrib home expu i) ls.
  Proof.
    rewrite local_fold. intros H; injection H as <-.
    change (fold_left _ ls init) with (run home expu ls init).
    pose proof (run_rules home expu i ls init) as R. destruct i; exact R.
  Qed.

  (* aliases and the three settings: keyed overwrite, the last line that writes a key wins *)
  Lemma local_alias k ls c :
    parse_of_lines home expu ls = Ok c -> dict_get k (c_aliases c) = fold_left (alias_step home expu k) ls None.
  Proof.
    rewrite local_fold. intros H; injection H as <-.
    change (fold_left _ ls init) with (run home expu ls init). apply (run_alias home expu k ls init).
  Qed.

  Lemma local_settings ls c :
    parse_of_lines home expu ls = Ok c ->
    c_default c = match fold_left (default_step home expu) ls None with Some v => v | None => $"ask" end /\
    c_log c = fold_left (log_step home expu) ls None /\
    c_log_full c = existsb (sets_log_full home expu) ls.
  Proof.
    rewrite local_fold. intros H; injection H as <-.
    change (fold_left _ ls init) with (run home expu ls init).
    destruct (run_settings home expu ls init) as [H1 [H2 H3]]. simpl. rewrite H1, H2, H3. auto.
  Qed.

  (* round trips *)
  Lemma roundtrip_line sp p ex m :
    In sp rule_dirs -> wf_rule home sp p ex m = true ->
    step home expu true (write_rule sp p ex m) = Ok (Some (rule_effect sp p ex m)).
  Proof. apply step_written. Qed.

  Lemma roundtrip_alias src tgt :
    wf_alias home src tgt = true -> step home expu true (write_alias src tgt) = Ok (Some (EAlias src tgt)).
  Proof. apply step_alias. Qed.

  Lemma roundtrip_file vs :
    vs <> [] -> Forall (fun v => wf_value home v = true) vs -> Forall (fun v => one_line v = true) vs ->
    parse_config home expu (write_config vs)
    = Ok (config_of (fold_left (fun st v => apply_opt (value_effect v) st) vs init)).
  Proof. apply (roundtrip_text home expu h); reflexivity. Qed.

  (* explicit sufficient conditions for the two computed parts of wf_rule *)
  Lemma wf_explicit :
    (forall ts, Forall (fun t => word t = true) ts -> Forall (fun t => is_home_kind t = false) ts ->
                tilde_fixed home (join [SP] ts) = true) /\
    (forall p, last_ns p = true -> last_ch p <> Some DQ -> no_message p = true).
  Proof. split; [apply tilde_fixed_words|apply no_message_plain]. Qed.

  (* the two rule families *)
  Lemma mcp_family ls ls' :
    filter (line_is home expu mcp_effect) ls = filter (line_is home expu mcp_effect) ls' ->
    exists c c', parse_of_lines home expu ls = Ok c /\ parse_of_lines home expu ls' = Ok c' /\ mcp_view c = mcp_view c'.
  Proof.
    intros H. rewrite !local_fold. do 2 eexists. split; [reflexivity|]. split; [reflexivity|].
    change (fold_left _ ls init) with (run home expu ls init). change (fold_left _ ls' init) with (run home expu ls' init).
    apply (mcp_split home expu ls ls' init H).
  Qed.

  Lemma shell_family ls ls' :
    filter (line_is home expu shell_effect) ls = filter (line_is home expu shell_effect) ls' ->
    exists c c', parse_of_lines home expu ls = Ok c /\ parse_of_lines home expu ls' = Ok c' /\ shell_view c = shell_view c'.
  Proof.
    intros H. rewrite !local_fold. do 2 eexists. split; [reflexivity|]. split; [reflexivity|].
    change (fold_left _ ls init) with (run home expu ls init). change (fold_left _ ls' init) with (run home expu ls' init).
    apply (shell_split home expu ls ls' init H).
  Qed.

  (* the form of the design document: only the lines of the family matter *)
  Lemma mcp_family_filter ls :
    exists c c', parse_of_lines home expu ls = Ok c /\
                 parse_of_lines home expu (filter (line_is home expu mcp_effect) ls) = Ok c' /\ mcp_view c = mcp_view c'.
  Proof. apply mcp_family. symmetry. apply filter_twice. Qed.
  Lemma shell_family_filter ls :
    exists c c', parse_of_lines home expu ls = Ok c /\
                 parse_of_lines home expu (filter (line_is home expu shell_effect) ls) = Ok c' /\ shell_view c = shell_view c'.
  Proof. apply shell_family. symmetry. apply filter_twice. Qed.
End S.
